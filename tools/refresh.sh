#!/bin/bash
# After a change to /repo that is meant to become the reviewed state (a fix: commit), or after rule changes:
# rebuild, re-freeze the canonical-name table, rebuild again (the table is embedded), regenerate MANIFEST and docs.
set -e
cd /verif
export GOFLAGS=-mod=vendor GOPROXY=off GOSUMDB=off GOTOOLCHAIN=local GOWORK=off
go build -o bin/kcheck ./cmd/kcheck
./bin/kcheck names > /tmp/names.json.new
mv /tmp/names.json.new internal/rules/ref/names.json
go build -o bin/kcheck ./cmd/kcheck
python3 tools/genmanifest.py
tools/runall.sh | grep -v " 0 violations" || true
python3 tools/gendoc.py
python3-vt tools/validate.py

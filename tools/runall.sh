#!/bin/bash
# runs the quick check of every claimed property; prints one line each
cd /verif
for id in $(jq -r '.checks[].property_id' MANIFEST.json); do
  ./bin/kcheck check -property $id -tier ${1:-quick} | tail -1
done

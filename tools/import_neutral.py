#!/usr/bin/env python3
"""Imports behaviour-preserving refactorings (written by agents that did not know the checks) into the self-test
corpus: selftest/<Cxx>/agent-nK.diff + agent-nK.json (kind neutral). Only patches that the crossdir log reports as
silent are imported: a patch that still raises an alarm is a false alarm to fix first, not a corpus member.

usage: import_neutral.py <dir with Cxx/nK.diff + nK.txt> <crossdir log>"""
import json
import os
import re
import shutil
import sys

src, log = sys.argv[1], sys.argv[2]
silent = set()
for line in open(log):
    m = re.match(r'^(C\d\d/n\d+)\.diff\s+silent', line)
    if m:
        silent.add(m.group(1))
n = 0
for key in sorted(silent):
    prop, name = key.split('/')
    d = os.path.join(src, prop)
    diff = os.path.join(d, name + '.diff')
    if not os.path.exists(diff):
        continue
    why = ''
    txt = os.path.join(d, name + '.txt')
    if os.path.exists(txt):
        why = ' '.join(open(txt).read().split())[:400]
    out = os.path.join('/verif/selftest', prop)
    os.makedirs(out, exist_ok=True)
    shutil.copy(diff, os.path.join(out, 'agent-%s.diff' % name))
    json.dump({'kind': 'neutral', 'patch': 'selftest/%s/agent-%s.diff' % (prop, name), 'expect': '',
               'why': 'behaviour-preserving refactoring written without knowledge of the checks: ' + why},
              open(os.path.join(out, 'agent-%s.json' % name), 'w'), indent=1, ensure_ascii=False)
    n += 1
print('imported', n, 'neutral patches')

#!/usr/bin/env python3
"""One-off helper that turned the census draft (/tmp/draft.txt) into internal/rules/ref/guards.json.
The committed guards.json is the reviewed table; this script documents how it was derived."""
import json, re, sys
draft = {}
for line in open('/tmp/draft.txt'):
    m = re.match(r'\s*"([^"]+)": (\{.*\}),', line)
    if m: draft[m.group(1)] = json.loads(m.group(2))
types = ["Conn","connDeadline","Batch","Writer","partitionWriter","batchQueue","writeBatch","Reader","reader","Transport","connPool","connGroup","conn","RoundRobin","LeastBytes","Hash","ReferenceHash","CRC32Balancer","Murmur2Balancer","randomBalancer","Generation","ConsumerGroup","Client","writerStats","readerStats","summary","protocol.Conn","offsetStash"]
generic = {
 "immutable": "set before the object is published (constructor / composite literal), only read afterwards",
 "sync": "synchronisation primitive (mutex, WaitGroup, Once, channel-typed helper); used through its own methods",
 "selfsync": "sub-object that synchronises itself (own mutex or atomic counter type); only its methods are called",
 "atomic": "accessed only through sync/atomic",
 "guarded": "every access outside constructors holds the named lock",
}
over = {
 "Batch.err": {"d":"guarded","lock":"Batch.mutex","why":"written by Read/ReadMessage/readMessage under Batch.mutex; Err() must take it too"},
 "Conn.offset": {"d":"guarded","lock":"Conn.mutex","why":"'offset management (synchronized on the mutex field)' (conn.go)"},
 "Conn.rlock": {"d":"sync","why":"read lock; its address is handed to the caller by waitResponse"},
 "Conn.rbuf": {"d":"guarded","lock":"Conn.rlock","why":"'read buffer (synchronized on rlock)' (conn.go)"},
 "Conn.wb": {"d":"guarded","lock":"Conn.wlock","why":"'write buffer (synchronized on wlock)' (conn.go)"},
 "Conn.wbuf": {"d":"guarded","lock":"Conn.wlock","why":"'write buffer (synchronized on wlock)' (conn.go)"},
 "Conn.correlationID": {"d":"guarded","lock":"Conn.wlock","why":"'correlation ID generator (synchronized on wlock)' (conn.go)"},
 "Conn.rdeadline": {"d":"selfsync","why":"connDeadline carries its own mutex"},
 "Conn.wdeadline": {"d":"selfsync","why":"connDeadline carries its own mutex"},
 "Reader.cancel": {"d":"guarded","lock":"Reader.mutex","why":"replaced by start() under Reader.mutex"},
 "Reader.offset": {"d":"guarded","lock":"Reader.mutex","why":"'mutable fields of the reader (synchronized on the mutex)' (reader.go)"},
 "Reader.version": {"d":"guarded","lock":"Reader.mutex","why":"'mutable fields of the reader (synchronized on the mutex)' (reader.go)"},
 "Reader.join": {"d":"sync","why":"WaitGroup"},
 "Writer.group": {"d":"sync","why":"WaitGroup"},
 "Writer.writerStats": {"d":"once","lock":"Writer.once","why":"lazily created inside w.once.Do; read only after Do returned"},
 "Writer.roundRobin": {"d":"selfsync","why":"RoundRobin carries its own mutex"},
 "Hash.rr": {"d":"selfsync","why":"RoundRobin carries its own mutex"},
 "connPool.conns": {"d":"guarded","lock":"connPool.mutex","why":"map of broker connection groups, replaced/edited by update under connPool.mutex, read under RLock"},
 "writeBatch.size": {"d":"guarded","lock":"partitionWriter.mutex","why":"mutated by add while the batch is the partition's current batch"},
 "writeBatch.bytes": {"d":"guarded","lock":"partitionWriter.mutex","owners":["(*kafka.partitionWriter).writeBatch"],"why":"mutated by add under the partition mutex while current; after the hand-off through the batch queue only the partition's single sender goroutine reads it"},
 "writeBatch.msgs": {"d":"guarded","lock":"partitionWriter.mutex","owners":["(*kafka.partitionWriter).writeBatch","(*kafka.Writer).produce"],"why":"appended by add under the partition mutex while current; after the hand-off through the batch queue only the partition's single sender goroutine touches it (C07.R2/R3)"},
 "writeBatch.err": {"d":"confined","owners":["(*kafka.writeBatch).complete","(*kafka.Writer).WriteMessages"],"why":"written once by complete before close(done); read by WriteMessages only after receiving from done (C01.R2)"},
 "conn.timer": {"d":"guarded","lock":"connGroup.mutex","why":"idle timer of a pooled conn, managed by its group under the group's mutex"},
}
fields = {}
for f, e in sorted(draft.items()):
    if f.startswith("protocol.page"): continue
    e = dict(e)
    if f in over: e = dict(over[f])
    if e["d"] == "?": print("UNRESOLVED", f, file=sys.stderr)
    if not e.get("why"): e["why"] = generic.get(e["d"], "")
    fields[f] = e
exceptions = [
 {"field":"Reader.cancel","func":"(*kafka.Reader).unsubscribe","why":"runs inside the generation function that subscribe()d; no start() can run concurrently because SetOffset is refused in group mode and the next subscribe happens after this generation function returned"},
 {"field":"Reader.cancel","func":"(*kafka.Reader).Close","why":"read after closed=true was published under the mutex: start() is only reachable from SetOffset (refuses when closed) and from the run loop that Close waits for"},
 {"field":"Conn.rbuf","func":"(*kafka.Conn).saslAuthenticate","why":"raw v0 SASL exchange happens in Dialer.connect before the Conn is handed out (C18.R1); no other goroutine can hold it"},
 {"field":"Conn.wb","func":"(*kafka.Conn).saslAuthenticate","why":"raw v0 SASL exchange happens in Dialer.connect before the Conn is handed out (C18.R1)"},
]
json.dump({"types":types,"fields":fields,"exceptions":exceptions}, open('/verif/internal/rules/ref/guards.json','w'), indent=1, sort_keys=False)
print(len(fields), "fields")

#!/usr/bin/env python3
"""Regenerates the generated part of DESIGN.md (between the GENERATED markers) from the evidence files,
the self-test corpus, the seeded changes and the known-findings file. Run after `tools/runall.sh`."""
import glob
import json
import os
import re

V = '/verif'


def rules_table():
    out = ['| id | rules as built (obligations on the current tree) | self-test variants (mutants / neutral) |', '|---|---|---|']
    for f in sorted(glob.glob(V + '/evidence/C*.json')):
        d = json.load(open(f))
        pid = d['property_id']
        per = d['coverage']['analysed'].get('obligations_per_rule', {})
        merged = {}
        for k, n in per.items():
            k = re.sub(r' \(.*\)$', '', k)
            merged[k] = merged.get(k, 0) + n
        rules = '; '.join('%s (%d)' % (k, n) for k, n in sorted(merged.items()))
        mut = neu = 0
        for v in glob.glob(V + '/selftest/%s/*.json' % pid):
            k = json.load(open(v)).get('kind')
            if k == 'mutant':
                mut += 1
            elif k == 'neutral':
                neu += 1
        out.append('| %s | %s | %d / %d |' % (pid, rules, mut, neu))
    return '\n'.join(out)


def seeds_table():
    matrix = {}
    mp = V + '/seeded/MATRIX.json'
    if os.path.exists(mp):
        matrix = json.load(open(mp))
    out = ['| seeded change | what was changed | caught by (own property) | also flagged by |', '|---|---|---|---|']
    caught = missed = retired = 0
    for d in sorted(glob.glob(V + '/seeded/C*-m*')):
        name = os.path.basename(d)
        m = json.load(open(d + '/meta.json'))
        prop = m.get('property')
        summ = (m.get('summary') or m.get('what') or '')
        summ = re.sub(r'\s+', ' ', summ)
        if len(summ) > 150:
            summ = summ[:147] + '…'
        summ = summ.replace('|', '/')
        own = m.get('caught_by') or []
        if m.get('retired'):
            retired += 1
            out.append('| %s | %s | retired: %s | |' % (name, summ, m['retired'].replace('|', '/')))
            continue
        if m.get('detected'):
            caught += 1
            own_s = '; '.join(sorted({k.split(' | ')[0] for k in own}))
        else:
            missed += 1
            own_s = '**not flagged by %s**' % prop
        others = sorted(p for p in matrix.get(name, {}) if p != prop)
        out.append('| %s | %s | %s | %s |' % (name, summ, own_s.replace('|', '/'), ' '.join(others)))
    out.append('')
    out.append('%d seeded changes (%d more retired after a repair replaced the code they changed); %d flagged by the check of the property they were written against, %d not.' % (caught + missed, retired, caught, missed))
    return '\n'.join(out)


def findings_table():
    d = json.load(open(V + '/known_findings.json'))
    out = ['| property | status | rule / construct | what failed |', '|---|---|---|---|']
    for e in d:
        st = e['status'] + (' ' + e.get('commit', '') if e['status'] == 'fixed' else '')
        what = e.get('what', '').replace('|', '/')
        out.append('| %s | %s | %s — %s | %s |' % (e['property'], st, e['rule'], e['construct'].replace('|', '/'), what))
    return '\n'.join(out)


def main():
    gen = []
    gen.append('### G1. Rules as built\n')
    gen.append(rules_table())
    gen.append('\n### G2. Genuine defects found by the checks (known_findings.json)\n')
    gen.append(findings_table())
    gen.append('\n### G3. Seeded changes and which checks flag them\n')
    gen.append(seeds_table())
    text = '\n'.join(gen)
    p = V + '/DESIGN.md'
    s = open(p).read()
    b, e = '<!-- BEGIN GENERATED (tools/gendoc.py) -->', '<!-- END GENERATED -->'
    if b in s and e in s:
        s = s[:s.index(b) + len(b)] + '\n' + text + '\n' + s[s.index(e):]
    else:
        s += '\n' + b + '\n' + text + '\n' + e + '\n'
    open(p, 'w').write(s)


if __name__ == '__main__':
    main()

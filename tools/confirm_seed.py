#!/usr/bin/env python3
"""Confirms a seeded change produced by an independent sub-agent and, if confirmed, keeps it under
/verif/seeded/<id>-m<k>/.  Usage: confirm_seed.py C07 1 [C07 2 ...]

Confirmation (all in a scratch git worktree of /repo HEAD under /tmp/sw, removed afterwards):
  demo passes on the unpatched tree; patch applies; go build ./... passes; the 410 baseline tests
  still pass; demo fails on the patched tree.
"""
import json, os, re, shutil, subprocess, sys

ENV = dict(os.environ, GOFLAGS="-mod=mod", GOPROXY="off", GOSUMDB="off", GOTOOLCHAIN="local")

def sh(cmd, cwd=None, timeout=1500):
    p = subprocess.run(cmd, shell=True, cwd=cwd, env=ENV, capture_output=True, text=True, timeout=timeout)
    return p.returncode, (p.stdout + p.stderr)

SRC = os.environ.get("SEED_SRC", "/tmp/wt/out")
OFFSET = int(os.environ.get("SEED_OFFSET", "0"))

def confirm(pid, k):
    src = f"{SRC}/{pid}/m{k}"
    meta = json.load(open(f"{src}/meta.json"))
    wt = f"/tmp/sw/{pid}-m{k+OFFSET}"
    os.makedirs("/tmp/sw", exist_ok=True)
    sh(f"git -C /repo worktree remove --force {wt}")
    rc, out = sh(f"git -C /repo worktree add --detach {wt} HEAD")
    if rc != 0:
        return {"ok": False, "why": "worktree: " + out[-300:]}
    res = {"property": pid, "k": k}
    try:
        place = meta.get("demo_place", "")
        m = re.findall(r"[\w./<>-]+_test\.go|[\w./<>-]+/main\.go", place)
        cands = [x for x in m if os.path.basename(x) != "demo_test.go"]
        if not cands:
            return {"ok": False, "why": "cannot parse demo_place: " + place}
        rel = cands[0]
        rel = re.sub(r"^(/tmp/wt/%s/|<worktree>/|<wt>/)" % pid, "", rel).lstrip("/")
        demo_src = f"{src}/demo_test.go"
        if not os.path.exists(demo_src):
            alts = [f for f in os.listdir(src) if f.endswith(".go")]
            if not alts:
                return {"ok": False, "why": "no demo file"}
            demo_src = f"{src}/{alts[0]}"
        os.makedirs(os.path.dirname(f"{wt}/{rel}") or wt, exist_ok=True)
        shutil.copy(demo_src, f"{wt}/{rel}")
        cmd = meta.get("demo_cmd", "")
        cmd = cmd.replace(f"/tmp/wt/{pid}", wt).replace("<worktree>", wt).replace("<wt>", wt)
        if wt not in cmd:
            cmd = f"cd {wt} && " + cmd
        res["demo_place"] = rel
        res["demo_cmd"] = cmd.replace(wt, "<worktree>")
        rc0, out0 = sh(cmd, timeout=900)
        res["demo_without_patch"] = "pass" if rc0 == 0 else "FAIL"
        if rc0 != 0:
            res["why"] = "demo fails on the unpatched tree: " + out0[-600:]
            res["ok"] = False
            return res
        rc, out = sh(f"git apply --whitespace=nowarn {src}/patch.diff", cwd=wt)
        if rc != 0:
            rc, out = sh(f"patch -p1 -s --no-backup-if-mismatch < {src}/patch.diff", cwd=wt)
            if rc != 0:
                res["ok"], res["why"] = False, "patch does not apply to HEAD: " + out[-300:]
                return res
            # regenerate the patch against HEAD
            res["rebased"] = True
        rc, out = sh("go build ./...", cwd=wt)
        res["build"] = rc == 0
        if rc != 0:
            res["ok"], res["why"] = False, "build fails: " + out[-300:]
            return res
        rc, out = sh(f"/tmp/wt/baseline.sh {wt}", timeout=1500)
        res["baseline"] = out.strip().splitlines()[-1] if out.strip() else ""
        if rc != 0:
            res["ok"], res["why"] = False, "baseline broken: " + out[-400:]
            return res
        rc1, out1 = sh(cmd, timeout=900)
        res["demo_with_patch"] = "fail" if rc1 != 0 else "PASS"
        if rc1 == 0:
            res["ok"], res["why"] = False, "demo passes with the patch"
            return res
        res["demo_failure_excerpt"] = "\n".join([l for l in out1.splitlines() if "---" in l or "Error" in l or "FAIL" in l or "zz" in l][:8])[-700:]
        # keep
        dst = f"/verif/seeded/{pid}-m{k+OFFSET}"
        os.makedirs(dst, exist_ok=True)
        # patch relative to HEAD (demo excluded)
        os.remove(f"{wt}/{rel}")
        rc, diff = sh("git diff", cwd=wt)
        open(f"{dst}/patch.diff", "w").write(diff)
        shutil.copy(demo_src, f"{dst}/" + ("demo_test.go" if demo_src.endswith("_test.go") else os.path.basename(demo_src)))
        keep = {
            "property": pid,
            "summary": meta.get("summary", ""),
            "clause": meta.get("clause", ""),
            "needs": meta.get("needs", ""),
            "demo_place": rel,
            "demo_cmd": res["demo_cmd"],
            "confirmed": {"at_repo_head": sh("git -C /repo rev-parse --short HEAD")[1].strip(), "build": True, "baseline": res["baseline"],
                          "demo_without_patch": "pass", "demo_with_patch": "fail", "failure_excerpt": res.get("demo_failure_excerpt", "")},
            "ran": ["git apply patch.diff", "go build ./...", "/tmp/wt/baseline.sh <worktree> (410 stable tests)", res["demo_cmd"]],
            "expect": "", "detected": None,
        }
        old = f"{dst}/meta.json"
        if os.path.exists(old):
            o = json.load(open(old))
            keep["expect"], keep["detected"] = o.get("expect", ""), o.get("detected")
            for kk in ("caught_by", "note"):
                if kk in o: keep[kk] = o[kk]
        json.dump(keep, open(f"{dst}/meta.json", "w"), indent=1)
        res["ok"] = True
        return res
    finally:
        sh(f"git -C /repo worktree remove --force {wt}")
        shutil.rmtree(wt, ignore_errors=True)

if __name__ == "__main__":
    args = sys.argv[1:]
    for i in range(0, len(args), 2):
        r = confirm(args[i], int(args[i + 1]))
        print(json.dumps(r))
        sys.stdout.flush()

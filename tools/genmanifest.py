#!/usr/bin/env python3
"""Regenerates /verif/MANIFEST.json from tools/claims.json (one entry per claimed property)."""
import json, os, sys
here = os.path.dirname(os.path.abspath(__file__))
root = os.path.dirname(here)
claims = json.load(open(os.path.join(here, "claims.json")))
props = [json.loads(l) for l in open(os.path.join(root, "properties.jsonl")) if l.strip()]
baseline = json.load(open("/root/.vp/BASELINE.json"))["cmd"] if os.path.exists("/root/.vp/BASELINE.json") else ""
checks, na = [], []
for p in props:
    pid = p["id"]
    c = claims.get(pid)
    if not c or c.get("not_applicable"):
        na.append({"property_id": pid, "reason": (c or {}).get("not_applicable", "static check not built yet; no claim is made")})
        continue
    checks.append({
        "property_id": pid,
        "quick_cmd": "./bin/kcheck check -property %s -tier quick" % pid,
        "thorough_cmd": "./bin/kcheck check -property %s -tier thorough" % pid,
        "evidence_file": "/verif/evidence/%s.json" % pid,
        "replay_cmd_template": "./bin/kcheck replay {path}",
        "engine": "kcheck",
        "level_claimed": {"category": "other", "text": c["text"], "design_ref": "DESIGN.md §4 " + pid},
        "level_note": c["note"],
        "technique": c["technique"],
    })
m = {
    "version": 1,
    "setup_cmd": "cd /verif && GOFLAGS=-mod=vendor GOPROXY=off GOSUMDB=off GOTOOLCHAIN=local GOWORK=off go build -o bin/kcheck ./cmd/kcheck",
    "hooks": {"guard": "verif", "enable": "none needed: the checks read source only; no instrumentation exists in /repo",
              "baseline_off_cmd": baseline, "source_commits": [], "add_only": True},
    "engines": [{"name": "kcheck", "path": "/verif/cmd/kcheck", "serves_properties": [c["property_id"] for c in checks],
                 "kind_free_text": "repository-specific static analyser over go/types + go/ssa (x/tools v0.29.0, vendored): lockset, value provenance, CFG path rules, wire-schema derivation from struct tags, order-domain truth tables, wire-length taint"}],
    "checks": checks,
    "notes": "Every check is static analysis of /repo's current working tree (nothing in /repo is executed). All claims are level 'other': each decides structural necessary conditions of its property, listed in DESIGN.md §4 with what is NOT decided. Genuine defects found are listed in known_findings.json (status known/fixed).",
    "not_applicable": na,
}
json.dump(m, open(os.path.join(root, "MANIFEST.json"), "w"), indent=1)
print("claimed:", [c["property_id"] for c in checks], "not_applicable:", len(na))

package main

import (
	"flag"
	"fmt"
	"os"

	"golang.org/x/tools/go/ssa"
	"kverif/internal/an"
	"kverif/internal/load"
)

// cmdDump prints, for one function, every call with the origins of its arguments and every store
// with the origins of the stored value. Development aid only.
func cmdDump(args []string) int {
	fs := flag.NewFlagSet("dump", flag.ExitOnError)
	pkg := fs.String("pkg", "", "package relative to the module root")
	fn := fs.String("func", "", "function, e.g. (*Writer).WriteMessages")
	repo := fs.String("repo", "/repo", "")
	ssaOut := fs.Bool("ssa", false, "print SSA")
	deep := fs.Bool("deep", false, "include closures")
	fs.Parse(args)
	p, err := load.Load(load.Config{Dir: *repo})
	if err != nil {
		fmt.Fprintln(os.Stderr, err)
		return 2
	}
	f := p.Func(*pkg, *fn)
	if f == nil {
		fmt.Fprintln(os.Stderr, "not found")
		return 2
	}
	var dump func(f *ssa.Function)
	dump = func(f *ssa.Function) {
		fmt.Println("=====", an.ShortFunc(f))
		if *ssaOut {
			f.WriteTo(os.Stdout)
		}
		an.EachInstr(f, func(ins ssa.Instruction) {
			switch x := ins.(type) {
			case ssa.CallInstruction:
				c := x.Common()
				fmt.Printf("%s: %T %s\n", p.Pos(ins.Pos()), ins, an.CalleeName(c))
				for i, a := range c.Args {
					fmt.Printf("    arg%d: %v\n", i, an.OriginStrings(an.Origins(a, an.FlowOpts{})))
				}
			case *ssa.Store:
				fmt.Printf("%s: store %s <- %v\n", p.Pos(ins.Pos()), an.OriginStrings(an.Origins(x.Addr, an.FlowOpts{})), an.OriginStrings(an.Origins(x.Val, an.FlowOpts{})))
			case *ssa.Return:
				for i := range x.Results {
					fmt.Printf("%s: return#%d %v\n      shape: %s\n", p.Pos(ins.Pos()), i, an.OriginStrings(an.Origins(an.RetVal(x, i), an.FlowOpts{})), an.Shape(an.RetVal(x, i)))
				}
			}
		})
		if *deep {
			for _, a := range f.AnonFuncs {
				dump(a)
			}
		}
	}
	dump(f)
	return 0
}

package main

import (
	"encoding/json"
	"flag"
	"fmt"
	"os"
	"os/exec"
	"path/filepath"
	"sort"
	"strings"
	"sync"

	"kverif/internal/oblig"
	"kverif/internal/rules"
)

// A variant is a one-instance-broken (mutant) or behaviour-preserving (neutral) edit of the
// repository, analysed through a go/packages overlay: nothing is copied or executed.
type variant struct {
	Name   string `json:"-"`
	Kind   string `json:"kind"`  // mutant | neutral
	Quick  bool   `json:"quick"` // also run in the quick tier as a canary
	File   string `json:"file"`
	Edits  []edit `json:"edits"`
	Patch  string `json:"patch"`  // path relative to /verif of a unified diff (alternative to edits)
	Expect string `json:"expect"` // substring of the key of an obligation that must turn bad
	Why    string `json:"why"`
}

type edit struct {
	File    string `json:"file"`
	Find    string `json:"find"`
	Replace string `json:"replace"`
}

type stFailure struct{ name, expected, found string }

type stResult struct {
	summary  map[string]interface{}
	failures []stFailure
}

func loadVariants(vd, prop string) []variant {
	dir := filepath.Join(vd, "selftest", prop)
	ents, _ := os.ReadDir(dir)
	var out []variant
	for _, e := range ents {
		if !strings.HasSuffix(e.Name(), ".json") {
			continue
		}
		b, err := os.ReadFile(filepath.Join(dir, e.Name()))
		if err != nil {
			continue
		}
		var v variant
		if err := json.Unmarshal(b, &v); err != nil {
			fmt.Fprintf(os.Stderr, "selftest %s: %v\n", e.Name(), err)
			continue
		}
		v.Name = strings.TrimSuffix(e.Name(), ".json")
		out = append(out, v)
	}
	// seeded changes produced by independent agents
	sd := filepath.Join(vd, "seeded")
	sents, _ := os.ReadDir(sd)
	for _, e := range sents {
		mb, err := os.ReadFile(filepath.Join(sd, e.Name(), "meta.json"))
		if err != nil {
			continue
		}
		var m struct {
			Property string `json:"property"`
			Expect   string `json:"expect"`
			Detected *bool  `json:"detected"`
			Retired  string `json:"retired"`
		}
		if json.Unmarshal(mb, &m) != nil || m.Property != prop || m.Retired != "" {
			continue // a retired seed changed code that a later repair replaced (reason in its meta.json)
		}
		if m.Detected == nil || !*m.Detected {
			continue // not evaluated yet, or recorded as a miss in DESIGN.md: not part of the sensitivity gate
		}
		out = append(out, variant{Name: "seeded/" + e.Name(), Kind: "mutant", Patch: filepath.Join("seeded", e.Name(), "patch.diff"), Expect: m.Expect})
	}
	sort.Slice(out, func(i, j int) bool { return out[i].Name < out[j].Name })
	return out
}

// overlayFor computes the overlay of a variant against the current tree; ok=false when the
// edit no longer applies (the code it targets changed) — reported as skipped, never failed.
func overlayFor(v variant, repo, vd string) (map[string][]byte, bool, string) {
	ov := map[string][]byte{}
	if v.Patch != "" {
		pb, err := os.ReadFile(filepath.Join(vd, v.Patch))
		if err != nil {
			return nil, false, err.Error()
		}
		var files []string
		for _, l := range strings.Split(string(pb), "\n") {
			if strings.HasPrefix(l, "+++ b/") {
				files = append(files, strings.TrimSpace(strings.TrimPrefix(l, "+++ b/")))
			}
		}
		tmp, err := os.MkdirTemp("", "kcheck-patch")
		if err != nil {
			return nil, false, err.Error()
		}
		defer os.RemoveAll(tmp)
		for _, f := range files {
			b, err := os.ReadFile(filepath.Join(repo, f))
			if err != nil {
				return nil, false, "file missing: " + f
			}
			os.MkdirAll(filepath.Dir(filepath.Join(tmp, f)), 0o755)
			os.WriteFile(filepath.Join(tmp, f), b, 0o644)
		}
		cmd := exec.Command("git", "apply", "--whitespace=nowarn", "-")
		cmd.Dir = tmp
		cmd.Env = append(os.Environ(), "GIT_DIR=/nonexistent", "GIT_CEILING_DIRECTORIES="+tmp)
		cmd.Stdin = strings.NewReader(string(pb))
		if out, err := cmd.CombinedOutput(); err != nil {
			// retry with patch(1) which tolerates offsets/fuzz
			cmd2 := exec.Command("patch", "-p1", "-s", "--no-backup-if-mismatch")
			cmd2.Dir = tmp
			cmd2.Stdin = strings.NewReader(string(pb))
			if out2, err2 := cmd2.CombinedOutput(); err2 != nil {
				return nil, false, "patch does not apply: " + oblig.Short(string(out)+" / "+string(out2), 200)
			}
		}
		for _, f := range files {
			b, err := os.ReadFile(filepath.Join(tmp, f))
			if err != nil {
				return nil, false, err.Error()
			}
			ov[filepath.Join(repo, f)] = b
		}
		return ov, true, ""
	}
	edits := v.Edits
	for i := range edits {
		if edits[i].File == "" {
			edits[i].File = v.File
		}
	}
	for _, e := range edits {
		path := filepath.Join(repo, e.File)
		b, ok := ov[path]
		if !ok {
			var err error
			b, err = os.ReadFile(path)
			if err != nil {
				return nil, false, "file missing: " + e.File
			}
		}
		s := string(b)
		if strings.Count(s, e.Find) != 1 {
			return nil, false, fmt.Sprintf("edit target occurs %d times in %s (code changed)", strings.Count(s, e.Find), e.File)
		}
		ov[path] = []byte(strings.Replace(s, e.Find, e.Replace, 1))
	}
	return ov, true, ""
}

func badKeys(rep *oblig.Report) map[string]bool {
	m := map[string]bool{}
	for _, o := range rep.Obs {
		switch o.Status {
		case oblig.Violated, oblig.Undecided, oblig.AnchorLost:
			m[o.Key()] = true
		}
	}
	return m
}

// runSelftest analyses the variants of one property. quickOnly restricts to canaries.
func runSelftest(prop, repo, vd string, quickOnly bool, base *oblig.Report) stResult {
	res := stResult{summary: map[string]interface{}{}}
	c := rules.Get(prop)
	vars := loadVariants(vd, prop)
	var sel []variant
	for _, v := range vars {
		if quickOnly && !v.Quick {
			continue
		}
		sel = append(sel, v)
	}
	if len(sel) == 0 {
		res.summary["variants"] = 0
		return res
	}
	if base == nil {
		var err error
		base, err = runConfigs(c, repo, "quick", nil)
		if err != nil {
			res.failures = append(res.failures, stFailure{"base", "analysis runs", err.Error()})
			return res
		}
	}
	baseBad := badKeys(base)
	type outcome struct {
		v       variant
		skipped string
		fail    *stFailure
		fired   []string
	}
	outs := make([]outcome, len(sel))
	sem := make(chan struct{}, 4)
	var wg sync.WaitGroup
	for i, v := range sel {
		wg.Add(1)
		go func(i int, v variant) {
			defer wg.Done()
			sem <- struct{}{}
			defer func() { <-sem }()
			o := outcome{v: v}
			ov, ok, why := overlayFor(v, repo, vd)
			if !ok {
				o.skipped = why
				outs[i] = o
				return
			}
			rep, err := runConfigs(c, repo, "quick", ov)
			if err != nil {
				if v.Kind == "mutant" {
					// a variant that no longer type-checks is not a valid mutant
					o.skipped = "variant does not load: " + oblig.Short(err.Error(), 160)
				} else {
					o.fail = &stFailure{v.Name, "neutral edit analysed", err.Error()}
				}
				outs[i] = o
				return
			}
			bad := badKeys(rep)
			var fresh []string
			for k := range bad {
				if !baseBad[k] {
					fresh = append(fresh, k)
				}
			}
			sort.Strings(fresh)
			o.fired = fresh
			switch v.Kind {
			case "mutant":
				hit := false
				for _, k := range fresh {
					if v.Expect == "" || strings.Contains(k, v.Expect) {
						hit = true
					}
				}
				if !hit {
					o.fail = &stFailure{v.Name, "a new violation whose key contains " + fmt.Sprintf("%q", v.Expect), fmt.Sprintf("new violations: %v", fresh)}
				}
			case "neutral":
				if len(fresh) > 0 {
					o.fail = &stFailure{v.Name, "no new violation on a behaviour-preserving edit", fmt.Sprintf("new violations: %v", fresh)}
				}
			}
			outs[i] = o
		}(i, v)
	}
	wg.Wait()
	killed, silent, skipped := 0, 0, 0
	var details []map[string]interface{}
	for _, o := range outs {
		d := map[string]interface{}{"variant": o.v.Name, "kind": o.v.Kind}
		switch {
		case o.skipped != "":
			skipped++
			d["result"] = "skipped: " + o.skipped
		case o.fail != nil:
			res.failures = append(res.failures, *o.fail)
			d["result"] = "FAILED: " + o.fail.found
		case o.v.Kind == "mutant":
			killed++
			d["result"] = "killed"
			if len(o.fired) > 3 {
				o.fired = o.fired[:3]
			}
			d["fired"] = o.fired
		default:
			silent++
			d["result"] = "silent"
		}
		details = append(details, d)
	}
	res.summary["variants"] = len(sel)
	res.summary["mutants_killed"] = killed
	res.summary["neutral_silent"] = silent
	res.summary["skipped"] = skipped
	res.summary["details"] = details
	return res
}

func cmdSelftest(args []string) int {
	fs := flag.NewFlagSet("selftest", flag.ExitOnError)
	prop := fs.String("property", "", "property id (default all)")
	repo := fs.String("repo", "/repo", "repository root")
	fs.Parse(args)
	vd := verifDir()
	ids := rules.IDs()
	if *prop != "" {
		ids = []string{*prop}
	}
	rc := 0
	for _, id := range ids {
		st := runSelftest(id, *repo, vd, false, nil)
		b, _ := json.MarshalIndent(st.summary, "", " ")
		fmt.Printf("%s selftest: %s\n", id, b)
		for _, f := range st.failures {
			fmt.Printf("SELFTEST-FAIL %s %s: expected %s; found %s\n", id, f.name, f.expected, f.found)
			rc = 1
		}
	}
	return rc
}

// kcheck decides the kafka-go properties by static analysis of /repo's working tree.
package main

import (
	"encoding/json"
	"flag"
	"fmt"
	"kverif/internal/an"
	"os"
	"path/filepath"
	"runtime/debug"
	"strconv"
	"strings"
	"time"

	"kverif/internal/load"
	"kverif/internal/oblig"
	"kverif/internal/rules"
)

func main() {
	if len(os.Args) < 2 {
		usage()
	}
	switch os.Args[1] {
	case "check":
		os.Exit(cmdCheck(os.Args[2:]))
	case "replay":
		os.Exit(cmdReplay(os.Args[2:]))
	case "selftest":
		os.Exit(cmdSelftest(os.Args[2:]))
	case "crossdir":
		os.Exit(cmdCrossDir(os.Args[2:]))
	case "cross":
		os.Exit(cmdCross(os.Args[2:]))
	case "seeds":
		os.Exit(cmdSeeds(os.Args[2:]))
	case "names":
		an.RefNames = nil
		p, err := load.Load(load.Config{Dir: "/repo"})
		if err != nil {
			fmt.Fprintln(os.Stderr, err)
			os.Exit(2)
		}
		os.Stdout.Write(an.DumpNames(p.ModuleFunctions()))
	case "flows":
		p, err := load.Load(load.Config{Dir: "/repo"})
		if err != nil {
			fmt.Fprintln(os.Stderr, err)
			os.Exit(2)
		}
		which := ""
		if len(os.Args) > 2 {
			which = os.Args[2]
		}
		fmt.Println(rules.DumpFlowsJSON(p, which))
	case "tierb":
		p, err := load.Load(load.Config{Dir: "/repo"})
		if err != nil {
			fmt.Fprintln(os.Stderr, err)
			os.Exit(2)
		}
		b, err := rules.TierBSnapshot(p)
		if err != nil {
			fmt.Fprintln(os.Stderr, err)
			os.Exit(2)
		}
		os.Stdout.Write(b)
	case "schemas":
		p, err := load.Load(load.Config{Dir: "/repo"})
		if err != nil {
			fmt.Fprintln(os.Stderr, err)
			os.Exit(2)
		}
		rules.DumpSchemas(p)
	case "locks":
		os.Exit(cmdLocks(os.Args[2:]))
	case "dump":
		os.Exit(cmdDump(os.Args[2:]))
	case "list":
		for _, id := range rules.IDs() {
			fmt.Println(id)
		}
	default:
		usage()
	}
}

func usage() {
	fmt.Fprintln(os.Stderr, "usage: kcheck check -property Cxx [-tier quick|thorough] [-repo /repo] | replay <file> | selftest [-property Cxx] | list")
	os.Exit(2)
}

func verifDir() string {
	if d := os.Getenv("KVERIF_DIR"); d != "" {
		return d
	}
	exe, err := os.Executable()
	if err == nil {
		d := filepath.Dir(filepath.Dir(exe))
		if _, err := os.Stat(filepath.Join(d, "properties.jsonl")); err == nil {
			return d
		}
	}
	wd, _ := os.Getwd()
	return wd
}

func cmdCheck(args []string) int {
	fs := flag.NewFlagSet("check", flag.ExitOnError)
	prop := fs.String("property", "", "property id")
	tier := fs.String("tier", os.Getenv("VERIF_TIER"), "quick|thorough")
	repo := fs.String("repo", "/repo", "repository root")
	only := fs.String("only", "", "report only the obligation with this key (replay)")
	noEvidence := fs.Bool("no-evidence", false, "do not write evidence (used by selftest)")
	patch := fs.String("patch", "", "dev aid: analyse the tree with this patch applied in memory (implies -no-evidence)")
	fs.Parse(args)
	if *tier == "" {
		*tier = "quick"
	}
	seed, _ := strconv.Atoi(os.Getenv("VERIF_SEED"))
	c := rules.Get(*prop)
	if c == nil {
		fmt.Fprintf(os.Stderr, "unknown property %q\n", *prop)
		return 2
	}
	start := time.Now()
	vd := verifDir()
	var overlay map[string][]byte
	if *patch != "" {
		*noEvidence = true
		ov, ok, why := overlayFor(variant{Name: "patch", Kind: "neutral", Patch: *patch}, *repo, "/")
		if !ok {
			fmt.Fprintln(os.Stderr, "patch:", why)
			return 2
		}
		overlay = ov
	}
	rep, err := runConfigs(c, *repo, *tier, overlay)
	if err != nil {
		fmt.Printf("VIOLATION property=%s replay=%s\n  analysis could not run: %v\n", c.ID, filepath.Join(vd, "out", "violations", c.ID+"-load.json"), err)
		os.MkdirAll(filepath.Join(vd, "out", "violations"), 0o755)
		b, _ := json.Marshal(map[string]string{"property": c.ID, "error": err.Error()})
		os.WriteFile(filepath.Join(vd, "out", "violations", c.ID+"-load.json"), b, 0o644)
		return 1
	}
	if *tier == "thorough" {
		st := runSelftest(c.ID, *repo, vd, false, rep)
		rep.Analysed["selftest"] = st.summary
		for _, f := range st.failures {
			rep.Add(&oblig.Obligation{Rule: c.ID + ".SELFTEST checker sensitivity", Construct: f.name, Status: oblig.Violated, Expected: f.expected, Found: f.found})
		}
	} else {
		st := runSelftest(c.ID, *repo, vd, true, rep)
		rep.Analysed["canaries"] = st.summary
		for _, f := range st.failures {
			rep.Add(&oblig.Obligation{Rule: c.ID + ".CANARY checker sensitivity", Construct: f.name, Status: oblig.Violated, Expected: f.expected, Found: f.found})
		}
	}
	known, err := oblig.LoadKnown(filepath.Join(vd, "known_findings.json"))
	if err != nil {
		fmt.Fprintln(os.Stderr, "known_findings.json:", err)
		return 2
	}
	rep.ApplyKnown(known)
	if *only != "" {
		var keep []*oblig.Obligation
		for _, o := range rep.Obs {
			if o.Key() == *only {
				keep = append(keep, o)
			}
		}
		rep.Obs = keep
		*noEvidence = true
	}
	expl := c.Expl
	expl.Cmd = fmt.Sprintf("./bin/kcheck check -property %s -tier %s", c.ID, *tier)
	var res oblig.Result
	if *noEvidence {
		tmp, _ := os.MkdirTemp("", "kcheck-noev")
		defer os.RemoveAll(tmp)
		res = rep.Finish(tmp, start, seed, expl)
		for i, l := range res.Lines {
			res.Lines[i] = strings.ReplaceAll(l, tmp, vd)
		}
	} else {
		res = rep.Finish(vd, start, seed, expl)
	}
	for _, l := range res.Lines {
		fmt.Println(l)
	}
	n := 0
	for _, o := range rep.Obs {
		if o.Status != oblig.Note {
			n++
		}
	}
	fmt.Printf("%s tier=%s: %d obligations, %d violations, %d known findings, %.1fs\n", c.ID, *tier, n, res.Violations, res.KnownN, time.Since(start).Seconds())
	if res.Violations > 0 {
		return 1
	}
	return 0
}

// runConfigs analyses the default configuration and, in the thorough tier, the extra ones.
func runConfigs(c *rules.Check, repo, tier string, overlay map[string][]byte) (rep *oblig.Report, err error) {
	defer func() {
		if e := recover(); e != nil {
			err = fmt.Errorf("checker panic: %v\n%s", e, debug.Stack())
		}
	}()
	rep = oblig.NewReport(c.ID, tier)
	cfgs := []load.Config{{Dir: repo, Overlay: overlay, Light: c.Light}}
	// the other build configurations (e.g. -tags unsafe) are analysed in both tiers: they cost a few seconds and a
	// change confined to a build-tagged file is invisible otherwise
	for _, x := range c.Configs {
		x.Dir = repo
		x.Overlay = overlay
		x.Light = c.Light
		cfgs = append(cfgs, x)
	}
	var cfgNames []string
	for i, cfg := range cfgs {
		p, err := load.Load(cfg)
		if err != nil {
			return nil, err
		}
		if len(p.Pkgs) < 55 && len(cfg.Patterns) == 0 {
			return nil, fmt.Errorf("only %d module packages loaded (expected >= 55)", len(p.Pkgs))
		}
		name := "default"
		if cfg.Tags != "" || cfg.GOARCH != "" {
			name = strings.TrimSpace("tags=" + cfg.Tags + " goarch=" + cfg.GOARCH)
		}
		cfgNames = append(cfgNames, name)
		sub := rep
		if i > 0 {
			sub = oblig.NewReport(c.ID, tier)
			sub.Config = name
		} else {
			rep.Config = name
			rep.Analysed["packages_module"] = len(p.Pkgs)
			rep.Analysed["packages_all"] = p.NPkgAll
			rep.Analysed["functions_module"] = len(p.ModuleFunctions())
		}
		c.Run(p, sub)
		if i > 0 {
			rep.Merge(sub)
		}
		rules.Release(p)
	}
	rep.Analysed["build_configs"] = cfgNames
	return rep, nil
}

func cmdReplay(args []string) int {
	if len(args) < 1 {
		usage()
	}
	b, err := os.ReadFile(args[0])
	if err != nil {
		fmt.Fprintln(os.Stderr, err)
		return 2
	}
	var v struct{ Property, Rule, Construct string }
	if err := json.Unmarshal(b, &v); err != nil {
		fmt.Fprintln(os.Stderr, err)
		return 2
	}
	repo := "/repo"
	if len(args) > 1 {
		repo = args[1]
	}
	rc := cmdCheck([]string{"-property", v.Property, "-repo", repo, "-only", v.Rule + " | " + v.Construct})
	if rc == 0 {
		fmt.Println("no longer violated:", v.Rule, "|", v.Construct)
	}
	return rc
}

package main

import (
	"fmt"
	"os"

	"kverif/internal/an"
	"kverif/internal/load"
	"kverif/internal/rules"
)

func cmdLocks(args []string) int {
	p, err := load.Load(load.Config{Dir: "/repo"})
	if err != nil {
		fmt.Fprintln(os.Stderr, err)
		return 2
	}
	l := rules.Locksets(p)
	for _, fn := range l.Fns {
		for _, a := range args {
			if an.ShortFunc(fn) == a {
				fmt.Printf("%s entry=%v exit=%v spawned=%v\n", a, l.Entry[fn], l.Exit[fn], l.Spawned[fn])
			}
		}
	}
	return 0
}

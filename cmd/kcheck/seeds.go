package main

import (
	"encoding/json"
	"fmt"
	"os"
	"path/filepath"
	"sort"
	"strings"

	"kverif/internal/load"
	"kverif/internal/oblig"
	"kverif/internal/rules"
)

// cmdSeeds analyses every seeded change under /verif/seeded against its property's check and
// prints which obligations turn bad; with -update it records expect/detected in meta.json.
func cmdSeeds(args []string) int {
	update := false
	only := ""
	for _, a := range args {
		if a == "-update" {
			update = true
		} else {
			only = a
		}
	}
	vd := verifDir()
	repo := "/repo"
	ents, _ := os.ReadDir(filepath.Join(vd, "seeded"))
	bases := map[string]*oblig.Report{}
	for _, e := range ents {
		if only != "" && !strings.HasPrefix(e.Name(), only) {
			continue
		}
		mp := filepath.Join(vd, "seeded", e.Name(), "meta.json")
		mb, err := os.ReadFile(mp)
		if err != nil {
			continue
		}
		var m map[string]interface{}
		if json.Unmarshal(mb, &m) != nil {
			continue
		}
		prop, _ := m["property"].(string)
		c := rules.Get(prop)
		if c == nil {
			fmt.Printf("%-10s (no check registered for %s)\n", e.Name(), prop)
			continue
		}
		if bases[prop] == nil {
			b, err := runConfigs(c, repo, "quick", nil)
			if err != nil {
				fmt.Println("base failed:", err)
				return 2
			}
			bases[prop] = b
		}
		if why, retired := m["retired"].(string); retired {
			fmt.Printf("%-10s RETIRED %s\n", e.Name(), why)
			continue
		}
		v := variant{Name: e.Name(), Kind: "mutant", Patch: filepath.Join("seeded", e.Name(), "patch.diff")}
		ov, ok, why := overlayFor(v, repo, vd)
		if !ok {
			fmt.Printf("%-10s SKIP %s\n", e.Name(), why)
			continue
		}
		rep, err := runConfigs(c, repo, "quick", ov)
		if err != nil {
			fmt.Printf("%-10s LOAD-ERROR %v\n", e.Name(), oblig.Short(err.Error(), 200))
			continue
		}
		baseBad := badKeys(bases[prop])
		var fresh []string
		for k := range badKeys(rep) {
			if !baseBad[k] {
				fresh = append(fresh, k)
			}
		}
		sort.Strings(fresh)
		if len(fresh) == 0 {
			fmt.Printf("%-10s MISSED\n", e.Name())
		} else {
			fmt.Printf("%-10s CAUGHT %d: %s\n", e.Name(), len(fresh), oblig.Short(strings.Join(fresh, " || "), 400))
		}
		if update {
			m["detected"] = len(fresh) > 0
			if len(fresh) > 0 {
				m["expect"] = fresh[0]
				m["caught_by"] = fresh
			} else {
				m["expect"] = ""
				delete(m, "caught_by")
			}
			b, _ := json.MarshalIndent(m, "", " ")
			os.WriteFile(mp, b, 0o644)
		}
	}
	return 0
}

// cmdCross analyses every seeded change against every registered check (one program load per
// seed) and writes seeded/MATRIX.json: seed → property → obligations that turn bad.
func cmdCross(args []string) int {
	only := ""
	for _, a := range args {
		only = a
	}
	vd := verifDir()
	repo := "/repo"
	runAll := func(ov map[string][]byte) (map[string]map[string]bool, error) {
		p, err := load.Load(load.Config{Dir: repo, Overlay: ov})
		if err != nil {
			return nil, err
		}
		defer rules.Release(p)
		out := map[string]map[string]bool{}
		for _, id := range rules.IDs() {
			c := rules.Get(id)
			rep := oblig.NewReport(id, "quick")
			func() {
				defer func() {
					if e := recover(); e != nil {
						rep.Undecided("checker", "panic", "-", fmt.Sprint(e))
					}
				}()
				c.Run(p, rep)
			}()
			out[id] = badKeys(rep)
		}
		return out, nil
	}
	base, err := runAll(nil)
	if err != nil {
		fmt.Println("base failed:", err)
		return 2
	}
	matrix := map[string]map[string][]string{}
	mpath := filepath.Join(vd, "seeded", "MATRIX.json")
	if b, err := os.ReadFile(mpath); err == nil && only != "" {
		json.Unmarshal(b, &matrix)
	}
	ents, _ := os.ReadDir(filepath.Join(vd, "seeded"))
	for _, e := range ents {
		if !e.IsDir() || (only != "" && !strings.HasPrefix(e.Name(), only)) {
			continue
		}
		v := variant{Name: e.Name(), Kind: "mutant", Patch: filepath.Join("seeded", e.Name(), "patch.diff")}
		ov, ok, why := overlayFor(v, repo, vd)
		if !ok {
			fmt.Printf("%-10s SKIP %s\n", e.Name(), why)
			continue
		}
		got, err := runAll(ov)
		if err != nil {
			fmt.Printf("%-10s LOAD-ERROR %v\n", e.Name(), oblig.Short(err.Error(), 200))
			continue
		}
		row := map[string][]string{}
		var props []string
		for id, keys := range got {
			var fresh []string
			for k := range keys {
				if !base[id][k] {
					fresh = append(fresh, k)
				}
			}
			sort.Strings(fresh)
			if len(fresh) > 0 {
				row[id] = fresh
				props = append(props, id)
			}
		}
		sort.Strings(props)
		matrix[e.Name()] = row
		fmt.Printf("%-10s %s\n", e.Name(), strings.Join(props, " "))
	}
	b, _ := json.MarshalIndent(matrix, "", " ")
	os.WriteFile(mpath, b, 0o644)
	return 0
}

// cmdCrossDir analyses every *.diff below a directory (e.g. behaviour-preserving refactorings written by
// someone who does not know the checks) against all registered checks and prints the obligations that turn
// bad: on a behaviour-preserving patch every line printed is a false alarm.
func cmdCrossDir(args []string) int {
	if len(args) < 1 {
		fmt.Println("usage: kcheck crossdir <dir> [substring]")
		return 2
	}
	root := args[0]
	only := ""
	if len(args) > 1 {
		only = args[1]
	}
	repo := "/repo"
	var lastNotes []string
	runAll := func(ov map[string][]byte) (map[string]map[string]bool, error) {
		p, err := load.Load(load.Config{Dir: repo, Overlay: ov})
		if err != nil {
			return nil, err
		}
		defer rules.Release(p)
		lastNotes = p.Canon.Notes
		out := map[string]map[string]bool{}
		for _, id := range rules.IDs() {
			c := rules.Get(id)
			rep := oblig.NewReport(id, "quick")
			func() {
				defer func() {
					if e := recover(); e != nil {
						rep.Undecided("checker", "panic", "-", fmt.Sprint(e))
					}
				}()
				c.Run(p, rep)
			}()
			out[id] = badKeys(rep)
		}
		return out, nil
	}
	base, err := runAll(nil)
	if err != nil {
		fmt.Println("base failed:", err)
		return 2
	}
	var files []string
	filepath.Walk(root, func(path string, info os.FileInfo, err error) error {
		if err == nil && !info.IsDir() && strings.HasSuffix(path, ".diff") && strings.Contains(path, only) {
			files = append(files, path)
		}
		return nil
	})
	sort.Strings(files)
	nAlarm := 0
	for _, f := range files {
		rel, _ := filepath.Rel(root, f)
		v := variant{Name: rel, Kind: "neutral", Patch: f}
		ov, ok, why := overlayFor(v, repo, "/")
		if !ok {
			fmt.Printf("%-16s SKIP %s\n", rel, why)
			continue
		}
		got, err := runAll(ov)
		if err != nil {
			fmt.Printf("%-16s LOAD-ERROR %v\n", rel, oblig.Short(err.Error(), 300))
			continue
		}
		var lines []string
		for id, keys := range got {
			for k := range keys {
				if !base[id][k] {
					lines = append(lines, id+": "+k)
				}
			}
		}
		sort.Strings(lines)
		if len(lines) == 0 {
			fmt.Printf("%-16s silent\n", rel)
			continue
		}
		nAlarm++
		fmt.Printf("%-16s ALARM %d\n", rel, len(lines))
		for _, n := range lastNotes {
			fmt.Printf("      note: %s\n", n)
		}
		for _, l := range lines {
			fmt.Printf("      %s\n", oblig.Short(l, 260))
		}
	}
	fmt.Printf("%d patches, %d with alarms\n", len(files), nAlarm)
	return 0
}

package main

import (
	"encoding/json"
	"fmt"
	"os"
	"path/filepath"
	"sort"
	"strings"

	"kverif/internal/oblig"
	"kverif/internal/rules"
)

// cmdSeeds analyses every seeded change under /verif/seeded against its property's check and
// prints which obligations turn bad; with -update it records expect/detected in meta.json.
func cmdSeeds(args []string) int {
	update := false
	only := ""
	for _, a := range args {
		if a == "-update" {
			update = true
		} else {
			only = a
		}
	}
	vd := verifDir()
	repo := "/repo"
	ents, _ := os.ReadDir(filepath.Join(vd, "seeded"))
	bases := map[string]*oblig.Report{}
	for _, e := range ents {
		if only != "" && !strings.HasPrefix(e.Name(), only) {
			continue
		}
		mp := filepath.Join(vd, "seeded", e.Name(), "meta.json")
		mb, err := os.ReadFile(mp)
		if err != nil {
			continue
		}
		var m map[string]interface{}
		if json.Unmarshal(mb, &m) != nil {
			continue
		}
		prop, _ := m["property"].(string)
		c := rules.Get(prop)
		if c == nil {
			fmt.Printf("%-10s (no check registered for %s)\n", e.Name(), prop)
			continue
		}
		if bases[prop] == nil {
			b, err := runConfigs(c, repo, "quick", nil)
			if err != nil {
				fmt.Println("base failed:", err)
				return 2
			}
			bases[prop] = b
		}
		v := variant{Name: e.Name(), Kind: "mutant", Patch: filepath.Join("seeded", e.Name(), "patch.diff")}
		ov, ok, why := overlayFor(v, repo, vd)
		if !ok {
			fmt.Printf("%-10s SKIP %s\n", e.Name(), why)
			continue
		}
		rep, err := runConfigs(c, repo, "quick", ov)
		if err != nil {
			fmt.Printf("%-10s LOAD-ERROR %v\n", e.Name(), oblig.Short(err.Error(), 200))
			continue
		}
		baseBad := badKeys(bases[prop])
		var fresh []string
		for k := range badKeys(rep) {
			if !baseBad[k] {
				fresh = append(fresh, k)
			}
		}
		sort.Strings(fresh)
		if len(fresh) == 0 {
			fmt.Printf("%-10s MISSED\n", e.Name())
		} else {
			fmt.Printf("%-10s CAUGHT %d: %s\n", e.Name(), len(fresh), oblig.Short(strings.Join(fresh, " || "), 400))
		}
		if update {
			m["detected"] = len(fresh) > 0
			if len(fresh) > 0 {
				m["expect"] = fresh[0]
				m["caught_by"] = fresh
			} else {
				m["expect"] = ""
				delete(m, "caught_by")
			}
			b, _ := json.MarshalIndent(m, "", " ")
			os.WriteFile(mp, b, 0o644)
		}
	}
	return 0
}

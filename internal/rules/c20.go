package rules

import (
	"fmt"
	"go/token"
	"go/types"
	"sort"
	"strings"

	"golang.org/x/tools/go/ssa"

	"kverif/internal/an"
	"kverif/internal/load"
	"kverif/internal/oblig"
)

func init() {
	register(&Check{ID: "C20", Run: runC20, Configs: []load.Config{{Tags: "unsafe"}}, Expl: oblig.Explanation{
		Text:        "Wire-length taint analysis over the reflective protocol stack (package protocol and its sub-packages). Sources: every value returned by the decoder's fixed-width and varint readers and by encoding/binary on received bytes. Taint propagates through conversions, ±constant arithmetic, phis, local variables, struct fields and, interprocedurally, parameters. Sinks: make() length/capacity, reflect.MakeSlice counts, slice-expression bounds, stores into a decoder's `remain`, and loops whose trip count is a wire value (counted up or down) with no exit on the decoder's error state (a test of `remain` alone does not count: it stops decreasing after a failed read). A sink is discharged only if on every path to it the value is proven non-negative (sign guards, unsigned provenance, caller guards at every call site) and bounded above (comparison with the decoder's remaining bytes, a length or a constant; 16-bit provenance), or if it is dominated by a verified checksum. Unsigned→signed conversions lose the lower bound unless an upper bound was established first. Not decided: proportionality of allocation to bytes actually received when the frame size itself lies (recorded as a known finding), panics not driven by lengths.",
		Rule:        "one obligation per (function, sink kind, taint source); non-trivial = tainted sink reached by the propagation",
		Trusted:     []string{"go/ssa", "taint propagation and bound inference (internal/an/taint.go)", "bound expressions: decoder.remain, len(x), constants"},
		Assumptions: []string{"every array element occupies at least one byte on the wire (C04.R2), so a count bounded by the remaining bytes is a valid bound", "fields protected by a verified CRC are outside the property's quantifier"},
	}})
}

func runC20(p *load.Program, r *oblig.Report) {
	const rule = "C20.R1 bounded-wire-length"
	inScope := func(fn *ssa.Function) bool {
		f := fn
		for f.Parent() != nil {
			f = f.Parent()
		}
		if f.Pkg == nil {
			return false
		}
		path := f.Pkg.Pkg.Path()
		return path == protoPath || strings.HasPrefix(path, protoPath+"/")
	}
	cfg := an.TaintConfig{
		InScope: inScope,
		IsSource: func(c *ssa.Call) (string, bool) {
			if m, ok := methodOn(&c.Call, protoPath, "decoder"); ok {
				switch m {
				case "readInt8", "readInt16", "readInt32", "readInt64", "readVarInt", "readUnsignedVarInt":
					return m, true
				}
				return "", false
			}
			if f := c.Call.StaticCallee(); f != nil && f.Pkg != nil && f.Pkg.Pkg.Path() == "encoding/binary" && strings.HasPrefix(an.RefFuncName(f), "Uint") {
				fn := c.Parent()
				if fn != nil && inScope(fn) && strings.Contains(strings.ToLower(an.RefFuncName(fn)), "read") {
					return "binary." + an.RefFuncName(f), true
				}
			}
			return "", false
		},
		IsBoundExpr: func(v ssa.Value) bool {
			switch x := v.(type) {
			case *ssa.UnOp:
				if x.Op == token.MUL {
					if fa, ok := x.X.(*ssa.FieldAddr); ok && an.FieldName(fa.X.Type(), fa.Field) == "remain" {
						return true
					}
				}
			case *ssa.Call:
				if b, ok := x.Call.Value.(*ssa.Builtin); ok && (b.Name() == "len" || b.Name() == "cap") {
					return true
				}
			case *ssa.Const:
				return true
			}
			return false
		},
	}
	cfg.BoundFields = map[string]bool{"remain": true}
	// RecordSet.ReadFrom creates a stand-in decoder when it is handed a reader that is not a decoder (the public
	// io.ReaderFrom use of a record set): that path is not part of the Transport/Client stack the property
	// quantifies over, and there the announced size is its own bound.
	cfg.OutOfScopeEdge = func(phi *ssa.Phi, i int) (string, bool) {
		pred := phi.Block().Preds[i]
		for d, child := pred.Idom(), pred; d != nil; d, child = d.Idom(), d {
			_, ci := an.IfCond(d)
			if ci == nil {
				continue
			}
			// `d == nil` with d the result of r.(*decoder), possibly through a flag
			c := clean(an.Shape(ci.X))
			if ci.Op == token.ILLEGAL || an.IsNilConst(ci.Y) {
				if strings.Contains(c, ".(*decoder)") && (edgeControls(d, 0, child) || edgeControls(d, 1, child)) {
					nilIdx := 0
					if e := ci.Edge(token.EQL); e >= 0 {
						nilIdx = e
					} else if ci.Neg {
						nilIdx = 1
					}
					if edgeControls(d, nilIdx, child) {
						return "on the path where the reader is not a *decoder (public io.ReaderFrom use, outside the Transport/Client stack) the size bounds itself", true
					}
				}
			}
		}
		return "", false
	}
	cfg.Sanitized = func(ins ssa.Instruction) bool {
		_, ok := crcCovered(p, an.TaintSink{Fn: ins.Parent(), Ins: ins})
		return ok
	}
	var all []*ssa.Function
	for fn := range p.AllFunctions() {
		all = append(all, fn)
	}
	sinks := an.RunTaint(all, cfg)
	r.Analysed["taint_sinks"] = len(sinks)
	counts := map[string]int{}
	for _, s := range sinks {
		base := fmt.Sprintf("%s | %s ← %s", an.ShortFunc(s.Fn), s.Kind, s.Source)
		counts[base]++
		construct := base
		if counts[base] > 1 {
			construct = fmt.Sprintf("%s #%d", base, counts[base])
		}
		pos := p.Pos(s.Ins.Pos())
		facts := append([]string{fmt.Sprintf("lower bound proven: %v, upper bound proven: %v", s.Lo, s.Hi)}, s.Why...)
		crcWhy, crcOK := crcCovered(p, s)
		if crcOK {
			facts = append(facts, crcWhy)
		}
		// two obligations per sink, so that a recorded finding about one bound never hides the other
		r.Check(s.Lo || crcOK, rule, construct+" | non-negative", pos, "wire-derived length proven >= 0 on every path to this "+s.Kind, "no guard proves the value non-negative", facts...)
		expHi, foundHi := "wire-derived length bounded by the remaining bytes, a length or a constant on every path to this "+s.Kind, "no guard bounds the value by the remaining bytes, a length or a constant"
		if s.Kind == "loop-count" {
			expHi = "a loop counted by a wire value leaves when the decoder has failed (tests d.err or d.done()), or its count is bounded by a constant"
			foundHi = "the loop only tests the remaining bytes, which stop decreasing once a read has failed: after a short read it runs for the whole announced count"
		}
		r.Check(s.Hi || crcOK, rule, construct+" | bounded above", pos, expHi, foundHi, facts...)
	}
	r.RequireCount(rule, len(sinks), 9)
	c20FixedOffsets(p, r)
	c20ConstIndex(p, r)
	c20LegacyDecoders(p, r)
	c20ArrayIndex(p, r)
	c20RequestedOnly(p, r, "C20.R5 an unrequested partition in a response cannot crash the client")
}

// c20LegacyDecoders: Client.DescribeGroups decodes the member metadata and assignment blobs with the root package's
// hand-written readers (readInt32(r, sz, &v) style: the wire value comes back through a pointer, the remaining size is
// threaded through parameters and results). The same taint rule applies to the functions reachable from the two
// decoders: no allocation sized by a wire count that was not compared with the remaining size, no loop counted by one
// without an exit on the read error.
func c20LegacyDecoders(p *load.Program, r *oblig.Report) {
	const rule = "C20.R4 legacy decoders of the Client stack bound their wire counts"
	roots := []*ssa.Function{p.Func("", "decodeMemberMetadata"), p.Func("", "decodeMemberAssignments")}
	scope := map[*ssa.Function]bool{}
	var visit func(fn *ssa.Function)
	visit = func(fn *ssa.Function) {
		if fn == nil || fn.Blocks == nil || scope[fn] || !load.InModule(fn) {
			return
		}
		scope[fn] = true
		for _, anon := range fn.AnonFuncs {
			visit(anon)
		}
		for _, b := range fn.Blocks {
			for _, ins := range b.Instrs {
				if c, ok := ins.(*ssa.Call); ok {
					visit(c.Call.StaticCallee())
				}
			}
		}
	}
	for _, fn := range roots {
		if fn == nil {
			r.Lost(rule, "kafka.decodeMemberMetadata / kafka.decodeMemberAssignments")
			return
		}
		visit(fn)
	}
	isSize := func(v ssa.Value) bool {
		// the remaining size: the int parameter that follows the *bufio.Reader, or the first result of a reader
		switch x := v.(type) {
		case *ssa.Parameter:
			fn := x.Parent()
			for i, prm := range fn.Params {
				if prm == x && i > 0 && strings.HasSuffix(fn.Params[i-1].Type().String(), "bufio.Reader") {
					return true
				}
			}
		case *ssa.Extract:
			if c, ok := x.Tuple.(*ssa.Call); ok && x.Index == 0 {
				if f := c.Call.StaticCallee(); f != nil && scope[f] && f.Signature.Results().Len() == 2 {
					return true
				}
			}
		}
		return false
	}
	cfg := an.TaintConfig{
		InScope: func(fn *ssa.Function) bool {
			top := fn
			for top.Parent() != nil {
				top = top.Parent()
			}
			return scope[fn] || scope[top]
		},
		OutSource: func(c *ssa.Call) (int, string, bool) {
			f := c.Call.StaticCallee()
			if f == nil || f.Pkg != p.SSAPkg("") {
				return 0, "", false
			}
			switch n := an.RefFuncName(f); n {
			case "readInt8", "readInt16", "readInt32", "readInt64", "readVarInt", "readArrayLen":
				return 2, n, true
			}
			return 0, "", false
		},
		IsBoundExpr: func(v ssa.Value) bool {
			switch x := v.(type) {
			case *ssa.Const:
				return true
			case *ssa.Call:
				if b, ok := x.Call.Value.(*ssa.Builtin); ok && (b.Name() == "len" || b.Name() == "cap") {
					return true
				}
			case *ssa.UnOp:
				// a named result or local that holds the remaining size
				if a, ok := x.X.(*ssa.Alloc); ok && x.Op == token.MUL {
					okAll, n := true, 0
					for _, ref := range *a.Referrers() {
						if st, isSt := ref.(*ssa.Store); isSt && st.Addr == ssa.Value(a) {
							n++
							if !isSize(st.Val) {
								okAll = false
							}
						}
					}
					return okAll && n > 0
				}
			}
			return isSize(v)
		},
	}
	sinks := an.RunTaint(p.EveryModuleFunction(), cfg)
	counts := map[string]int{}
	for _, s := range sinks {
		base := fmt.Sprintf("%s | %s ← %s", an.ShortFunc(s.Fn), s.Kind, s.Source)
		counts[base]++
		construct := base
		if counts[base] > 1 {
			construct = fmt.Sprintf("%s #%d", base, counts[base])
		}
		pos := p.Pos(s.Ins.Pos())
		facts := append([]string{fmt.Sprintf("lower bound proven: %v, upper bound proven: %v", s.Lo, s.Hi)}, s.Why...)
		if s.Kind != "makemap-hint" {
			// a negative hint is ignored by the runtime, a negative length panics
			r.Check(s.Lo, rule, construct+" | non-negative", pos, "wire count proven >= 0 on every path to this "+s.Kind, "no guard proves the value non-negative", facts...)
		}
		r.Check(s.Hi, rule, construct+" | bounded above", pos, "wire count compared with the remaining size (or a constant) on every path to this "+s.Kind, "nothing bounds the value", facts...)
	}
	r.Analysed["legacy_decoder_functions"] = len(scope)
	// the current tree has no such sink left in these functions; what keeps the rule from passing vacuously is the
	// number of places where a wire value enters them
	nSources := 0
	for fn := range scope {
		for _, b := range fn.Blocks {
			for _, ins := range b.Instrs {
				if c, ok := ins.(*ssa.Call); ok {
					if _, _, isSrc := cfg.OutSource(c); isSrc {
						nSources++
					}
				}
			}
		}
	}
	r.Check(true, rule, fmt.Sprintf("functions reachable from decodeMemberMetadata/decodeMemberAssignments: wire values enter at the readIntN/readArrayLen call sites, %d sinks reached", len(sinks)), p.Pos(roots[0].Pos()), "every sink bounded", "")
	r.RequireCount(rule, nSources, 5)
}

// c20FixedOffsets: RecordSet.ReadFrom looks at the magic byte of the next batch, at a fixed offset, before decoding
// it. The guard on the remaining bytes must cover that offset: remain >= offset+1 on every path to the peek, the index
// and the scratch read (an off-by-one makes a 16-byte tail panic, or block waiting for a byte that is not part of the
// frame).
func c20FixedOffsets(p *load.Program, r *oblig.Report) {
	const rule = "C20.R2 fixed offsets into a frame are covered by the length guard"
	fn := p.Func("protocol", "(*RecordSet).ReadFrom")
	if fn == nil {
		r.Lost(rule, "protocol.(*RecordSet).ReadFrom")
		return
	}
	// the guard: `d.remain < K` leaves (break/return); on the other edge remain >= K
	var guardK int64 = -1
	var covered *ssa.BasicBlock
	for _, b := range an.Blocks(fn) {
		_, ci := an.IfCond(b)
		if ci == nil || !strings.HasSuffix(clean(an.Shape(ci.X)), ".remain") {
			continue
		}
		k, isK := an.ConstInt(ci.Y)
		if !isK || k <= 1 {
			continue
		}
		switch ci.Op {
		case token.LSS: // remain < K
			guardK, covered = k, b.Succs[1]
		case token.GEQ: // remain >= K
			guardK, covered = k, b.Succs[0]
		case token.LEQ: // remain <= K-1
			guardK, covered = k+1, b.Succs[1]
		case token.GTR: // remain > K-1
			guardK, covered = k+1, b.Succs[0]
		}
		if ci.Neg && covered != nil {
			if covered == b.Succs[0] {
				covered = b.Succs[1]
			} else {
				covered = b.Succs[0]
			}
		}
	}
	if covered == nil {
		r.Bad(rule, "protocol.(*RecordSet).ReadFrom → guard on the remaining bytes before the magic byte is examined", p.Pos(fn.Pos()), "if d.remain < magicByteOffset+1 { … }", "not found")
		return
	}
	n := 0
	var bad []string
	need := func(what string, k int64, at ssa.Instruction) {
		n++
		if len(covered.Instrs) == 0 || !an.Dominates(covered.Instrs[0], at) {
			bad = append(bad, fmt.Sprintf("%s at %s is not under the guard", what, p.Pos(at.Pos())))
			return
		}
		if k > guardK {
			bad = append(bad, fmt.Sprintf("%s at %s needs %d bytes, the guard ensures %d", what, p.Pos(at.Pos()), k, guardK))
		}
	}
	an.EachInstr(fn, func(ins ssa.Instruction) {
		switch x := ins.(type) {
		case *ssa.Call:
			if x.Call.IsInvoke() && x.Call.Method.Name() == "Peek" {
				if k, ok := an.ConstInt(x.Call.Args[0]); ok {
					need("Peek", k, x)
				}
			}
		case *ssa.IndexAddr:
			if k, ok := an.ConstInt(x.Index); ok && k > 0 {
				if sl, isSl := x.X.Type().Underlying().(*types.Slice); isSl {
					if b, isB := sl.Elem().Underlying().(*types.Basic); isB && b.Kind() == types.Byte {
						need("index", k+1, x)
					}
				}
			}
		case *ssa.MakeSlice:
			if k, ok := an.ConstInt(x.Len); ok && k > 1 {
				if sl, isSl := x.Type().Underlying().(*types.Slice); isSl {
					if b, isB := sl.Elem().Underlying().(*types.Basic); isB && b.Kind() == types.Byte {
						need("scratch read", k, x)
					}
				}
			}
		}
	})
	sort.Strings(bad)
	r.Check(n >= 3 && len(bad) == 0, rule, "protocol.(*RecordSet).ReadFrom examines the magic byte only when the remaining bytes include it", p.Pos(fn.Pos()),
		fmt.Sprintf("remain >= %d on every path to the peek, the index and the scratch read (%d sites)", guardK, n), strings.Join(bad, "; "))
}

// crcCovered: the sink is dominated by the match edge of a checksum comparison in the same function.
func crcCovered(p *load.Program, s an.TaintSink) (string, bool) {
	fn := s.Fn
	for _, b := range an.Blocks(fn) {
		_, ci := an.IfCond(b)
		if ci.Edge(token.EQL) < 0 {
			continue
		}
		if !(strings.Contains(argDesc(ci.X), ".crc32") || strings.Contains(argDesc(ci.Y), ".crc32")) {
			continue
		}
		match := b.Succs[ci.Edge(token.EQL)]
		if match == s.Ins.Block() || match.Dominates(s.Ins.Block()) {
			return "dominated by the verified checksum at " + p.Pos(b.Instrs[len(b.Instrs)-1].Pos()) + " (fields under a checksum are outside the property's quantifier)", true
		}
	}
	return "", false
}

// c20ConstIndex: a Client method that takes element k of a slice decoded from the wire does so only on paths that
// established len(slice) > k by a test of that length alone (`len(x) == 0 && other` lets the empty case through).
func c20ConstIndex(p *load.Program, r *oblig.Report) {
	const rule = "C20.R3 fixed indexes into decoded arrays are guarded by their length"
	root := p.SSAPkg("")
	n := 0
	var bad []string
	for _, fn := range p.ModuleFunctions() {
		if fn.Pkg != root || fn.Signature.Recv() == nil || !an.NamedIs(fn.Signature.Recv().Type(), load.ModPath, "Client") {
			continue
		}
		an.EachInstr(fn, func(ins ssa.Instruction) {
			ia, ok := ins.(*ssa.IndexAddr)
			if !ok {
				return
			}
			k, isK := an.ConstInt(ia.Index)
			if !isK {
				return
			}
			if _, isSlice := ia.X.Type().Underlying().(*types.Slice); !isSlice {
				return
			}
			// a slice loaded from a field of a decoded protocol message
			ld, isLd := ia.X.(*ssa.UnOp)
			if !isLd || ld.Op != token.MUL {
				return
			}
			fa, isFA := ld.X.(*ssa.FieldAddr)
			if !isFA {
				return
			}
			nt, isNamed := deref(fa.X.Type()).(*types.Named)
			if !isNamed || nt.Obj().Pkg() == nil || !strings.HasPrefix(nt.Obj().Pkg().Path(), protoPath) {
				return
			}
			n++
			want := clean(an.Shape(ld))
			guarded := false
			for d, child := ia.Block().Idom(), ia.Block(); d != nil; d, child = d.Idom(), d {
				_, ci := an.IfCond(d)
				if ci == nil {
					continue
				}
				x := clean(an.Shape(ci.X))
				if x != "len("+want+")" {
					continue
				}
				c2, isC := an.ConstInt(ci.Y)
				if !isC {
					continue
				}
				// which successor has len > k ?
				okIdx := -1
				switch {
				case ci.Edge(token.NEQ) >= 0 && c2 == 0 && k == 0:
					okIdx = ci.Edge(token.NEQ)
				case ci.Op == token.GTR && c2 >= k:
					okIdx = 0
				case ci.Op == token.GEQ && c2 > k:
					okIdx = 0
				case ci.Op == token.LSS && c2 <= k+1 && c2 > k:
					okIdx = 1
				case ci.Op == token.LEQ && c2 >= k:
					okIdx = 1
				}
				if okIdx >= 0 && ci.Neg && ci.Edge(token.NEQ) < 0 {
					okIdx = 1 - okIdx
				}
				if okIdx >= 0 && edgeControls(d, okIdx, child) {
					guarded = true
				}
			}
			if !guarded {
				bad = append(bad, fmt.Sprintf("%s takes %s[%d] at %s on a path that did not establish its length", an.ShortFunc(fn), want, k, p.Pos(ia.Pos())))
			}
		})
	}
	sort.Strings(bad)
	r.Check(len(bad) == 0, rule, "Client methods index decoded arrays at a constant position only under a test of that array's length", "-", fmt.Sprintf("%d sites examined", n), strings.Join(bad, "; "))
	r.RequireCount(rule, n, 1)
}

package rules

import (
	"fmt"
	"go/token"
	"strings"

	"golang.org/x/tools/go/ssa"

	"kverif/internal/an"
	"kverif/internal/load"
	"kverif/internal/oblig"
)

func init() {
	register(&Check{ID: "C20", Run: runC20, Configs: []load.Config{{Tags: "unsafe"}}, Expl: oblig.Explanation{
		Text:        "Wire-length taint analysis over the reflective protocol stack (package protocol and its sub-packages). Sources: every value returned by the decoder's fixed-width and varint readers and by encoding/binary on received bytes. Taint propagates through conversions, ±constant arithmetic, phis, local variables, struct fields and, interprocedurally, parameters. Sinks: make() length/capacity, reflect.MakeSlice counts, slice-expression bounds, stores into a decoder's `remain`, and loops whose trip count is a wire value with no exit on the decoder state. A sink is discharged only if on every path to it the value is proven non-negative (sign guards, unsigned provenance, caller guards at every call site) and bounded above (comparison with the decoder's remaining bytes, a length or a constant; 16-bit provenance), or if it is dominated by a verified checksum. Unsigned→signed conversions lose the lower bound unless an upper bound was established first. Not decided: proportionality of allocation to bytes actually received when the frame size itself lies (recorded as a known finding), panics not driven by lengths.",
		Rule:        "one obligation per (function, sink kind, taint source); non-trivial = tainted sink reached by the propagation",
		Trusted:     []string{"go/ssa", "taint propagation and bound inference (internal/an/taint.go)", "bound expressions: decoder.remain, len(x), constants"},
		Assumptions: []string{"every array element occupies at least one byte on the wire (C04.R2), so a count bounded by the remaining bytes is a valid bound", "fields protected by a verified CRC are outside the property's quantifier"},
	}})
}

func runC20(p *load.Program, r *oblig.Report) {
	const rule = "C20.R1 bounded-wire-length"
	inScope := func(fn *ssa.Function) bool {
		f := fn
		for f.Parent() != nil {
			f = f.Parent()
		}
		if f.Pkg == nil {
			return false
		}
		path := f.Pkg.Pkg.Path()
		return path == protoPath || strings.HasPrefix(path, protoPath+"/")
	}
	cfg := an.TaintConfig{
		InScope: inScope,
		IsSource: func(c *ssa.Call) (string, bool) {
			if m, ok := methodOn(&c.Call, protoPath, "decoder"); ok {
				switch m {
				case "readInt8", "readInt16", "readInt32", "readInt64", "readVarInt", "readUnsignedVarInt":
					return m, true
				}
				return "", false
			}
			if f := c.Call.StaticCallee(); f != nil && f.Pkg != nil && f.Pkg.Pkg.Path() == "encoding/binary" && strings.HasPrefix(an.RefFuncName(f), "Uint") {
				fn := c.Parent()
				if fn != nil && inScope(fn) && strings.Contains(strings.ToLower(an.RefFuncName(fn)), "read") {
					return "binary." + an.RefFuncName(f), true
				}
			}
			return "", false
		},
		IsBoundExpr: func(v ssa.Value) bool {
			switch x := v.(type) {
			case *ssa.UnOp:
				if x.Op == token.MUL {
					if fa, ok := x.X.(*ssa.FieldAddr); ok && an.FieldName(fa.X.Type(), fa.Field) == "remain" {
						return true
					}
				}
			case *ssa.Call:
				if b, ok := x.Call.Value.(*ssa.Builtin); ok && (b.Name() == "len" || b.Name() == "cap") {
					return true
				}
			case *ssa.Const:
				return true
			}
			return false
		},
	}
	cfg.BoundFields = map[string]bool{"remain": true}
	cfg.Sanitized = func(ins ssa.Instruction) bool {
		_, ok := crcCovered(p, an.TaintSink{Fn: ins.Parent(), Ins: ins})
		return ok
	}
	var all []*ssa.Function
	for fn := range p.AllFunctions() {
		all = append(all, fn)
	}
	sinks := an.RunTaint(all, cfg)
	r.Analysed["taint_sinks"] = len(sinks)
	counts := map[string]int{}
	for _, s := range sinks {
		base := fmt.Sprintf("%s | %s ← %s", an.ShortFunc(s.Fn), s.Kind, s.Source)
		counts[base]++
		construct := base
		if counts[base] > 1 {
			construct = fmt.Sprintf("%s #%d", base, counts[base])
		}
		pos := p.Pos(s.Ins.Pos())
		facts := append([]string{fmt.Sprintf("lower bound proven: %v, upper bound proven: %v", s.Lo, s.Hi)}, s.Why...)
		crcWhy, crcOK := crcCovered(p, s)
		if crcOK {
			facts = append(facts, crcWhy)
		}
		// two obligations per sink, so that a recorded finding about one bound never hides the other
		r.Check(s.Lo || crcOK, rule, construct+" | non-negative", pos, "wire-derived length proven >= 0 on every path to this "+s.Kind, "no guard proves the value non-negative", facts...)
		r.Check(s.Hi || crcOK, rule, construct+" | bounded above", pos, "wire-derived length bounded by the remaining bytes, a length or a constant on every path to this "+s.Kind, "no guard bounds the value by the remaining bytes, a length or a constant", facts...)
	}
	r.RequireCount(rule, len(sinks), 9)
}

// crcCovered: the sink is dominated by the match edge of a checksum comparison in the same function.
func crcCovered(p *load.Program, s an.TaintSink) (string, bool) {
	fn := s.Fn
	for _, b := range an.Blocks(fn) {
		_, ci := an.IfCond(b)
		if ci.Edge(token.EQL) < 0 {
			continue
		}
		if !(strings.Contains(argDesc(ci.X), ".crc32") || strings.Contains(argDesc(ci.Y), ".crc32")) {
			continue
		}
		match := b.Succs[ci.Edge(token.EQL)]
		if match == s.Ins.Block() || match.Dominates(s.Ins.Block()) {
			return "dominated by the verified checksum at " + p.Pos(b.Instrs[len(b.Instrs)-1].Pos()) + " (fields under a checksum are outside the property's quantifier)", true
		}
	}
	return "", false
}

package rules

import (
	"fmt"
	"go/constant"
	"go/token"
	"go/types"
	"sort"
	"strings"

	"golang.org/x/tools/go/ssa"

	"kverif/internal/an"
	"kverif/internal/load"
	"kverif/internal/oblig"
)

// Kafka record batch (magic 2) header layout, written by hand from the protocol documentation.
var batchV2Layout = []struct {
	Name  string
	Width int
}{
	{"baseOffset", 8}, {"batchLength", 4}, {"partitionLeaderEpoch", 4}, {"magic", 1}, {"crc", 4}, {"attributes", 2},
	{"lastOffsetDelta", 4}, {"firstTimestamp", 8}, {"maxTimestamp", 8}, {"producerId", 8}, {"producerEpoch", 2},
	{"baseSequence", 4}, {"numRecords", 4},
}

// message set entry (magic 0/1): offset 8, size 4, crc 4, magic 1, attributes 1, [timestamp 8], key bytes, value bytes
var messageV1Layout = []int{8, 4, 4, 1, 1, 8}

func v2Offset(name string) int {
	off := 0
	for _, f := range batchV2Layout {
		if f.Name == name {
			return off
		}
		off += f.Width
	}
	return -1
}

func v2Total() int {
	t := 0
	for _, f := range batchV2Layout {
		t += f.Width
	}
	return t
}

func init() {
	register(&Check{ID: "C05", Run: runC05, Expl: oblig.Explanation{
		Text:        "Static layout/sibling check of the four record-batch implementations. (R1) reflective writer writeToVersion2: the fixed-width header writes have the widths of the Kafka v2 batch header (61 bytes), every placeholder is back-patched exactly once at its own offset with a value of the right width and the right kind (record counter → numRecords, index copy → lastOffsetDelta, first/max timestamp), the CRC scan starts at the attributes offset with the Castagnoli table, batchLength = total − 12; writeToVersion1: offset/size/crc placeholders, size = end − (start+12), IEEE CRC enabled after the crc field; the readers readFromVersion2/readMessage read the same width sequence and enable the same table at the same position. (R2) legacy writer: recordBatchHeaderSize = header bytes of writeRecordBatch, recordSize ≡ bytes of writeRecord after its length varint, record batch size ≡ bytes of recordBatch.writeTo, messageSize ≡ bytes of writeMessage after the size field (symbolic byte algebra). (R3) the CRC dry run emits the same field sequence as the real write. (R4) CRC comparison dominates the exposure of decoded records. (R5) control batches are wrapped and skipped. (R7) null keys/values stay null on the write side. (R8) records are emitted in index order. Not decided: byte-level equality with an independent decoder for every record list, compression round trips, concurrent page recycling.",
		Rule:        "one obligation per layout fact / sibling pair / size identity; non-trivial = at least one instruction or AST node inspected",
		Trusted:     []string{"go/ssa, go/types", "hand-written v2 header layout table and v0/v1 message layout", "symbolic interpreter (internal/an/bytealg.go)"},
		Assumptions: []string{"the Kafka v2 batch header is 8,4,4,1,4,2,4,8,8,8,2,4,4 bytes with the CRC covering attributes..end"},
	}})
}

func runC05(p *load.Program, r *oblig.Report) {
	c05WriterV2(p, r)
	c05WriterV1(p, r)
	c05Readers(p, r)
	c05Legacy(p, r)
	c05CRCDominates(p, r)
	c05Control(p, r)
	c05NullAndOrder(p, r)
	c05PageRefs(p, r)
	// the Conn/Reader path's offset reconstruction (relative inner offsets of v1 wrappers, v2 deltas) is checked by
	// C02.R6; the same obligations are part of this property's "same records and absolute offsets" clause
	shareRules(r, "C05", "C05.R9 Conn path reconstructs absolute offsets", func(sub *oblig.Report) { c02MessageReader(p, sub) })
	varintAcrossRefills(p, r, "C05.R10 a varint split across two buffer fills keeps its low bits")
	c05TimestampDelta(p, r)
	c05WrapperOffsets(p, r)
	c05StandaloneReadFrom(p, r)
	c05MessageSizeFloor(p, r)
	c05TimeSiblings(p, r)
	c05RelativeInnerOffsets(p, r)
	c05LengthKeptPerPage(p, r, "C05.R17 record sets larger than one page keep their page offsets")
	c04RecordVersionBoundary(p, r, "C05.R19 records are produced in the format the Produce version requires (C04.R16)")
	c04Format0NoTimestamp(p, r, "C05.R18 message format 0 has no timestamp field (C04.R17)")
	c05VersionPerBatch(p, r)
}

// c05StandaloneReadFrom: RecordSet.ReadFrom is also the public io.ReaderFrom of a record set. Inside a message the
// announced size is bounded by the bytes left in the enclosing decoder; a reader that is not a decoder has no
// enclosing frame (ReadFrom gives it a 4-byte budget for the size prefix only), so there the bound is the announced
// size itself — otherwise every non-empty record set read from a plain reader is refused.
func c05StandaloneReadFrom(p *load.Program, r *oblig.Report) {
	const rule = "C05.R13 a record set read from a plain reader is limited by the size it announces"
	fn := p.Func("protocol", "(*RecordSet).ReadFrom")
	if fn == nil {
		r.Lost(rule, "protocol.(*RecordSet).ReadFrom")
		return
	}
	// the bail-out: size compared with a bound, leading to an error return
	found := ""
	ok := false
	n := 0
	for _, b := range an.Blocks(fn) {
		_, ci := an.IfCond(b)
		if ci == nil || (ci.Op != token.LSS && ci.Op != token.GTR && ci.Op != token.LEQ && ci.Op != token.GEQ) {
			continue
		}
		x, y := clean(an.Shape(ci.X)), clean(an.Shape(ci.Y))
		var bound ssa.Value
		switch {
		case strings.HasPrefix(x, "int(readInt32(") && !strings.HasPrefix(y, "int(readInt32(") && (strings.Contains(y, ".remain") || strings.Contains(y, "φ")):
			bound = ci.Y
		case strings.HasPrefix(y, "int(readInt32(") && !strings.HasPrefix(x, "int(readInt32(") && (strings.Contains(x, ".remain") || strings.Contains(x, "φ")):
			bound = ci.X
		default:
			continue
		}
		n++
		found = clean(an.Shape(bound))
		ph, isPhi := bound.(*ssa.Phi)
		if !isPhi {
			continue
		}
		hasRemain, hasSize := false, false
		for _, e := range ph.Edges {
			es := clean(an.Shape(e))
			if strings.Contains(es, ".remain") {
				hasRemain = true
			}
			if strings.HasPrefix(es, "int(readInt32(") {
				hasSize = true
			}
		}
		ok = hasRemain && hasSize
	}
	r.Check(n > 0 && ok, rule, "protocol.(*RecordSet).ReadFrom bounds the announced size by the enclosing decoder's remaining bytes, or by itself for a plain reader", p.Pos(fn.Pos()),
		"remain := d.remain; if the reader is not a decoder { remain = int(size) }; if int(size) > remain { error }", "bound: "+found)
}

// c05WrapperOffsets: the inner messages of a v1 compressed wrapper carry relative offsets; the wrapper's own offset is
// the absolute offset of the last inner message. Compaction leaves holes in the relative offsets, so the base is
// wrapper offset − relative offset of the last inner message (what the Conn path computes in extractOffset), never
// wrapper offset − (number of inner messages − 1).
func c05WrapperOffsets(p *load.Program, r *oblig.Report) {
	const rule = "C05.R12 inner offsets of a v1 wrapper are rebuilt from the last inner offset"
	fn := p.Func("protocol", "(*RecordSet).readFromVersion1")
	if fn == nil {
		r.Lost(rule, "protocol.(*RecordSet).readFromVersion1")
	} else {
		n := 0
		var bad []string
		an.EachInstr(fn, func(ins ssa.Instruction) {
			st, ok := ins.(*ssa.Store)
			if !ok {
				return
			}
			fa, ok := st.Addr.(*ssa.FieldAddr)
			if !ok || an.FieldName(fa.X.Type(), fa.Field) != "Offset" {
				return
			}
			if _, isIdx := fa.X.(*ssa.IndexAddr); !isIdx {
				return // the literal of a freshly decoded record
			}
			n++
			sh := clean(an.Shape(st.Val))
			// wrapper − (L − rel): L must itself be an inner message's offset (a load of some record's Offset)
			okL := false
			if outer, isB := st.Val.(*ssa.BinOp); isB && outer.Op == token.SUB {
				if inner, isB2 := outer.Y.(*ssa.BinOp); isB2 && inner.Op == token.SUB {
					if ld, isLd := inner.X.(*ssa.UnOp); isLd && ld.Op == token.MUL {
						if fa2, isFA := ld.X.(*ssa.FieldAddr); isFA && an.FieldName(fa2.X.Type(), fa2.Field) == "Offset" {
							okL = true
						}
					}
					if ph, isPhi := inner.X.(*ssa.Phi); isPhi {
						okL = strings.Contains(clean(an.Shape(ph)), ".Offset")
					}
				}
			}
			if !okL {
				bad = append(bad, p.Pos(st.Pos())+": "+sh)
			}
		})
		r.Check(n > 0 && len(bad) == 0, rule, "protocol.(*RecordSet).readFromVersion1 → absolute = wrapper offset − (last inner offset − inner offset)", p.Pos(fn.Pos()),
			"lastRelativeOffset is the offset of the last inner message, not the count of inner messages − 1", strings.Join(bad, "; "))
	}
	ex := p.Func("", "extractOffset")
	if ex == nil {
		r.Lost(rule, "kafka.extractOffset")
		return
	}
	shapes := returnShapes(ex)
	okConn := false
	for _, s := range shapes {
		if strings.HasPrefix(clean(s), "(base - ") && !strings.Contains(s, "len(") {
			okConn = true
		}
	}
	r.Check(okConn, rule, "kafka.extractOffset → base of a wrapper = wrapper offset − offset of the last inner message", p.Pos(ex.Pos()), "offset = base - <last inner offset read>", strings.Join(shapes, " ;; "))
}

// c05TimestampDelta: a v2 record carries its timestamp as a delta to the batch's first timestamp, both in
// milliseconds. The delta must be the difference of the two millisecond timestamps (as the reflective writer
// computes it: timestamp(r.Time) - firstTimestamp): the difference of the two times converted to milliseconds
// afterwards is off by one whenever the sub-millisecond parts carry, and a helper meant for time-outs clamps it.
func c05TimestampDelta(p *load.Program, r *oblig.Report) {
	const rule = "C05.R11 a record's timestamp delta is the difference of millisecond timestamps"
	fn := p.Func("", "(*writeBuffer).writeRecord")
	if fn == nil {
		r.Lost(rule, "kafka.(*writeBuffer).writeRecord")
		return
	}
	var varints []*ssa.Call
	an.EachInstr(fn, func(ins ssa.Instruction) {
		if c, ok := ins.(*ssa.Call); ok && c.Parent() == fn && c.Call.StaticCallee() != nil && an.RefFuncName(c.Call.StaticCallee()) == "writeVarInt" {
			varints = append(varints, c)
		}
	})
	sort.SliceStable(varints, func(i, j int) bool { return an.Dominates(varints[i], varints[j]) && varints[i] != varints[j] })
	if len(varints) < 3 {
		r.Lost(rule, "writeVarInt calls of kafka.(*writeBuffer).writeRecord")
		return
	}
	// record length, (attributes), timestamp delta, offset delta
	delta := an.Unwrap(varints[1].Call.Args[len(varints[1].Call.Args)-1])
	isTS := func(v ssa.Value) bool {
		c, ok := an.Unwrap(v).(*ssa.Call)
		return ok && c.Call.StaticCallee() != nil && an.RefFuncName(c.Call.StaticCallee()) == "timestamp"
	}
	bo, isSub := delta.(*ssa.BinOp)
	ok := isSub && bo.Op == token.SUB && isTS(bo.X) && isTS(bo.Y)
	r.Check(ok, rule, "kafka.(*writeBuffer).writeRecord writes timestamp(msg.Time) - timestamp(baseTime)", p.Pos(varints[1].Pos()),
		"the delta is computed on millisecond timestamps, like protocol.(*RecordSet).writeToVersion2 does", clean(an.Shape(delta)))
	// the reflective writer, for reference
	w2 := p.Func("protocol", "(*RecordSet).writeToVersion2")
	if w2 == nil {
		r.Lost(rule, "protocol.(*RecordSet).writeToVersion2")
		return
	}
	okRef := false
	an.EachInstrDeep(w2, func(_ *ssa.Function, ins ssa.Instruction) {
		if b2, isB := ins.(*ssa.BinOp); isB && b2.Op == token.SUB && isTS(b2.X) {
			okRef = true
		}
		if b2, isB := ins.(*ssa.BinOp); isB && b2.Op == token.SUB && strings.Contains(clean(an.Shape(b2.X)), "timestamp(") {
			okRef = true
		}
	})
	r.Check(okRef, rule, "protocol.(*RecordSet).writeToVersion2 writes timestamp(r.Time) - firstTimestamp", p.Pos(w2.Pos()), "t - firstTimestamp with t = timestamp(r.Time)", "not recognised")
}

// varintAcrossRefills: readVarInt consumes the buffered bytes and, when the varint continues in bytes that are not
// buffered yet, discards what it has seen and refills. The bits of the discarded bytes must survive into the value:
// the value stored through v depends on an integer that is carried around the loop past that Discard.
func varintAcrossRefills(p *load.Program, r *oblig.Report, rule string) {
	fn := p.Func("", "readVarInt")
	if fn == nil {
		r.Lost(rule, "kafka.readVarInt")
		return
	}
	var store *ssa.Store
	var discards []*ssa.Call
	an.EachInstr(fn, func(ins ssa.Instruction) {
		switch x := ins.(type) {
		case *ssa.Store:
			if prm, ok := x.Addr.(*ssa.Parameter); ok && prm == fn.Params[len(fn.Params)-1] {
				store = x
			}
		case *ssa.Call:
			if sc := x.Call.StaticCallee(); sc != nil && an.ShortFunc(sc) == "(*bufio.Reader).Discard" {
				discards = append(discards, x)
			}
		}
	})
	if store == nil {
		r.Lost(rule, "store through the result parameter of kafka.readVarInt")
		return
	}
	// integer φ-nodes the stored value is computed from (through arithmetic and conversions only)
	phis := map[*ssa.Phi]bool{}
	seen := map[ssa.Value]bool{}
	var walk func(v ssa.Value)
	walk = func(v ssa.Value) {
		if seen[v] {
			return
		}
		seen[v] = true
		switch x := v.(type) {
		case *ssa.BinOp:
			walk(x.X)
			walk(x.Y)
		case *ssa.UnOp:
			if x.Op != token.MUL {
				walk(x.X)
			}
		case *ssa.Convert:
			walk(x.X)
		case *ssa.Phi:
			if b, ok := x.Type().Underlying().(*types.Basic); ok && b.Info()&types.IsInteger != 0 {
				phis[x] = true
			}
			for _, e := range x.Edges {
				walk(e)
			}
		}
	}
	walk(store.Val)
	nRefill := 0
	var lost []string
	for _, d := range discards {
		q := an.PathQuery{Fn: fn, Target: func(i ssa.Instruction) bool { return i == ssa.Instruction(store) }}
		if q.ReachableFrom(an.PointOf(d)) == nil {
			continue // the final discard of a complete varint
		}
		nRefill++
		carried := false
		for ph := range phis {
			nonConst := false
			for _, e := range ph.Edges {
				if _, isC := e.(*ssa.Const); !isC {
					nonConst = true
				}
			}
			if !nonConst {
				continue
			}
			// the accumulator must arrive at the φ, on the way back from the refill, with what was accumulated so
			// far: the edge by which the refill path first enters the φ's block carries a computed value, not the
			// initial constant (an accumulator declared inside the refill loop starts again from zero)
			for i, pred := range ph.Block().Preds {
				if _, isC := ph.Edges[i].(*ssa.Const); isC || len(pred.Instrs) == 0 {
					continue
				}
				last := pred.Instrs[len(pred.Instrs)-1]
				q2 := an.PathQuery{Fn: fn,
					Stop:   func(i ssa.Instruction) bool { return i.Block() == ph.Block() },
					Target: func(i ssa.Instruction) bool { return i == last }}
				if d.Block() == pred || q2.ReachableFrom(an.PointOf(d)) != nil {
					carried = true
				}
			}
		}
		if !carried {
			lost = append(lost, "the bytes discarded at "+p.Pos(d.Pos())+" do not reach the value decoded afterwards")
		}
	}
	r.Check(len(lost) == 0 && nRefill > 0, rule, "kafka.readVarInt carries the bits already seen across the discard that makes room for more input", p.Pos(fn.Pos()),
		"x and s live across the refill (x |= uint64(b&0x7f) << s before r.Discard(len(input)))", strings.Join(lost, "; "))
}

// shareRules runs rules written for another property and files their obligations under this property's own rule name.
func shareRules(r *oblig.Report, id, label string, run func(sub *oblig.Report)) {
	sub := oblig.NewReport(id, r.Tier)
	run(sub)
	for _, o := range sub.Obs {
		o2 := *o
		o2.Rule = label + " (" + strings.SplitN(o.Rule, " ", 2)[0] + ")"
		r.Add(&o2)
	}
	for k, v := range sub.MinCount {
		if v[0] < v[1] {
			r.RequireCount(label+" "+k, v[0], v[1])
		}
	}
}

func widthOf(method string) int {
	switch {
	case strings.HasSuffix(method, "Int8"):
		return 1
	case strings.HasSuffix(method, "Int16"):
		return 2
	case strings.HasSuffix(method, "Int32"):
		return 4
	case strings.HasSuffix(method, "Int64"):
		return 8
	}
	return 0
}

type fixedWrite struct {
	Width int
	Const *int64
	Ins   *ssa.Call
}

// fixedSeq returns the fixed-width encoder/decoder calls of a block in order.
func fixedSeq(b *ssa.BasicBlock, typ string) []fixedWrite {
	var out []fixedWrite
	for _, ins := range b.Instrs {
		c, ok := ins.(*ssa.Call)
		if !ok {
			continue
		}
		m, ok := methodOn(&c.Call, protoPath, typ)
		if !ok {
			continue
		}
		w := widthOf(m)
		if w == 0 || !(strings.HasPrefix(m, "write") || strings.HasPrefix(m, "read")) || strings.Contains(m, "Var") {
			continue
		}
		fw := fixedWrite{Width: w, Ins: c}
		if len(c.Call.Args) > 1 {
			if v, ok := an.ConstInt(an.Unwrap(c.Call.Args[1])); ok {
				fw.Const = &v
			}
		}
		out = append(out, fw)
	}
	return out
}

func c05WriterV2(p *load.Program, r *oblig.Report) {
	const rule = "C05.R1 v2 batch writer layout"
	fn := p.Func("protocol", "(*RecordSet).writeToVersion2")
	if fn == nil {
		r.Lost(rule, "protocol.(*RecordSet).writeToVersion2")
		return
	}
	pos := p.Pos(fn.Pos())
	seq := fixedSeq(fn.Blocks[0], "encoder")
	var widths, want []string
	for _, s := range seq {
		widths = append(widths, fmt.Sprint(s.Width))
	}
	for _, f := range batchV2Layout {
		want = append(want, fmt.Sprint(f.Width))
	}
	if !r.Check(strings.Join(widths, ",") == strings.Join(want, ","), rule, "writeToVersion2 → header field widths", pos, strings.Join(want, ","), strings.Join(widths, ",")) {
		return
	}
	// magic byte constant
	mi := 3
	r.Check(seq[mi].Const != nil && *seq[mi].Const == 2, rule, "writeToVersion2 → magic byte", p.Pos(seq[mi].Ins.Pos()), "2", fmt.Sprint(seq[mi].Const))
	// placeholders: const 0 writes (other than base offset)
	placeholders := map[int]int{} // offset -> width
	off := 0
	for i, s := range seq {
		if i > 0 && s.Const != nil && *s.Const == 0 {
			placeholders[off] = s.Width
		}
		off += s.Width
	}
	// patches
	type patch struct {
		off   int
		width int
		val   ssa.Value
		ins   *ssa.Call
	}
	var patches []patch
	bufOff := fn.Params[2]
	an.EachInstr(fn, func(ins ssa.Instruction) {
		c, ok := ins.(*ssa.Call)
		if !ok {
			return
		}
		if m, ok := methodOn(&c.Call, protoPath, "pageBuffer"); !ok || m != "WriteAt" {
			return
		}
		os := an.Origins(c.Call.Args[2], an.FlowOpts{})
		if len(os) != 1 || os[0].Val != ssa.Value(bufOff) || !os[0].Affine || os[0].A != 1 {
			r.Undecided(rule, "writeToVersion2 → WriteAt offset", p.Pos(c.Pos()), "offset is not bufferOffset + constant")
			return
		}
		// width from the array type sliced
		w := 0
		var val ssa.Value
		if sl, ok := c.Call.Args[1].(*ssa.Slice); ok {
			if pt, ok := sl.X.Type().Underlying().(*types.Pointer); ok {
				if at, ok := pt.Elem().Underlying().(*types.Array); ok {
					w = int(at.Len())
				}
			}
			// the array variable holds the result of packUintNN(value)
			if al, ok := sl.X.(*ssa.Alloc); ok {
				for _, ref := range *al.Referrers() {
					if st, ok := ref.(*ssa.Store); ok && st.Addr == al {
						if pc, ok := st.Val.(*ssa.Call); ok && len(pc.Call.Args) == 1 {
							val = pc.Call.Args[0]
						}
					}
				}
			}
		}
		patches = append(patches, patch{int(os[0].B), w, val, c})
	})
	seen := map[int]int{}
	for _, pt := range patches {
		seen[pt.off]++
		w, isPH := placeholders[pt.off]
		r.Check(isPH && w == pt.width, rule, fmt.Sprintf("writeToVersion2 → back-patch at +%d", pt.off), p.Pos(pt.ins.Pos()),
			"offset of a placeholder of the same width", fmt.Sprintf("placeholder=%v width written %d, placeholder width %d", isPH, pt.width, w))
	}
	for o := range placeholders {
		r.Check(seen[o] == 1, rule, fmt.Sprintf("writeToVersion2 → placeholder at +%d patched exactly once", o), pos, "1 WriteAt", fmt.Sprint(seen[o]))
	}
	// roles of the patched values
	roleWant := map[int]string{v2Offset("lastOffsetDelta"): "index-copy", v2Offset("numRecords"): "counter", v2Offset("firstTimestamp"): "first", v2Offset("maxTimestamp"): "max",
		v2Offset("batchLength"): "total-12", v2Offset("crc"): "checksum"}
	for _, pt := range patches {
		want, ok := roleWant[pt.off]
		if !ok || pt.val == nil {
			continue
		}
		got := valueRole(fn, pt.val)
		r.Check(got == want, rule, fmt.Sprintf("writeToVersion2 → value patched at +%d (%s)", pt.off, fieldAt(pt.off)), p.Pos(pt.ins.Pos()), want, got)
	}
	// crc scan
	an.EachInstr(fn, func(ins ssa.Instruction) {
		c, ok := ins.(*ssa.Call)
		if !ok {
			return
		}
		f := c.Call.StaticCallee()
		if f == nil || an.RefFuncName(f) != "scan" || len(c.Call.Args) < 3 {
			return
		}
		so := an.Origins(c.Call.Args[1], an.FlowOpts{})
		okStart := len(so) == 1 && so[0].Val == ssa.Value(bufOff) && so[0].Affine && int(so[0].B) == v2Offset("attributes")
		r.Check(okStart, rule, "writeToVersion2 → CRC covers attributes..end", p.Pos(c.Pos()), fmt.Sprintf("scan from bufferOffset+%d", v2Offset("attributes")), argDesc(c.Call.Args[1]))
		// end = bufferOffset + (Size - bufferOffset)
		end, isAdd := c.Call.Args[2].(*ssa.BinOp)
		okEnd := false
		if isAdd && end.Op == token.ADD {
			for _, pair := range [][2]ssa.Value{{end.X, end.Y}, {end.Y, end.X}} {
				if pair[0] == ssa.Value(bufOff) {
					if sub, ok := pair[1].(*ssa.BinOp); ok && sub.Op == token.SUB && sub.Y == ssa.Value(bufOff) && strings.Contains(argDesc(sub.X), "pageBuffer).Size") {
						okEnd = true
					}
				}
			}
		}
		r.Check(okEnd, rule, "writeToVersion2 → CRC scan ends at the end of the batch", p.Pos(c.Pos()), "bufferOffset + (buffer.Size() - bufferOffset)", c.Call.Args[2].String())
	})
	r.Check(usesCRCTable(fn, "Castagnoli"), rule, "writeToVersion2 → CRC-32C table", pos, "crc32.MakeTable(crc32.Castagnoli)", "other table")
}

func fieldAt(off int) string {
	o := 0
	for _, f := range batchV2Layout {
		if o == off {
			return f.Name
		}
		o += f.Width
	}
	return "?"
}

// usesCRCTable reports whether fn (or its closures) builds/uses the named CRC table.
func usesCRCTable(fn *ssa.Function, name string) bool {
	found := false
	an.EachInstrDeep(fn, func(_ *ssa.Function, ins ssa.Instruction) {
		for _, op := range ins.Operands(nil) {
			if op == nil || *op == nil {
				continue
			}
			switch v := (*op).(type) {
			case *ssa.Const:
				if v.Value != nil && v.Value.Kind() == constant.Int {
					if u, ok := constant.Uint64Val(v.Value); ok {
						if name == "Castagnoli" && u == 0x82f63b78 {
							found = true
						}
					}
				}
			case *ssa.Global:
				if name == "IEEE" && v.Name() == "IEEETable" {
					found = true
				}
			}
		}
	})
	return found
}

// valueRole classifies how a value written into the header is computed.
func valueRole(fn *ssa.Function, v ssa.Value) string {
	v = an.Unwrap(v)
	// total-12: (Size - bufferOffset) - 12
	os := an.Origins(v, an.FlowOpts{})
	if bo, ok := v.(*ssa.BinOp); ok && bo.Op == token.SUB {
		if c, ok := an.ConstInt(bo.Y); ok {
			if sub, ok := bo.X.(*ssa.BinOp); ok && sub.Op == token.SUB && strings.Contains(argDesc(sub.X), "pageBuffer).Size") {
				return fmt.Sprintf("total-%d", c)
			}
		}
	}
	// a captured variable (heap Alloc) updated inside a closure
	var cell *ssa.Alloc
	if ld, ok := v.(*ssa.UnOp); ok && ld.Op == token.MUL {
		cell, _ = ld.X.(*ssa.Alloc)
	}
	if cell == nil {
		return "other(" + fmt.Sprint(an.OriginStrings(os)) + ")"
	}
	roles := map[string]bool{}
	for _, cl := range fn.AnonFuncs {
		// free variable bound to cell
		var fv *ssa.FreeVar
		for _, blk := range an.Blocks(fn) {
			for _, ins := range blk.Instrs {
				if mc, ok := ins.(*ssa.MakeClosure); ok && mc.Fn == ssa.Value(cl) {
					for i, b := range mc.Bindings {
						if b == ssa.Value(cell) {
							fv = cl.FreeVars[i]
						}
					}
				}
			}
		}
		if fv == nil {
			continue
		}
		an.EachInstr(cl, func(ins ssa.Instruction) {
			st, ok := ins.(*ssa.Store)
			if !ok || st.Addr != ssa.Value(fv) {
				return
			}
			val := an.Unwrap(st.Val)
			switch x := val.(type) {
			case *ssa.BinOp:
				if c, ok := an.ConstInt(x.Y); ok && c == 1 && x.Op == token.ADD {
					if ld, ok := x.X.(*ssa.UnOp); ok && ld.X == ssa.Value(fv) {
						roles["counter"] = true
						return
					}
				}
			case *ssa.Parameter:
				roles["index-copy"] = true
				return
			case *ssa.Call:
				if f := x.Call.StaticCallee(); f != nil && an.RefFuncName(f) == "Update" {
					roles["checksum"] = true
					return
				}
			}
			// guarded stores: i == 0 → first ; t > cell → max
			for _, pred := range st.Block().Preds {
				_, ci := an.IfCond(pred)
				if ci == nil {
					continue
				}
				if ci.Op == token.EQL {
					if _, isP := ci.X.(*ssa.Parameter); isP {
						if c, ok := an.ConstInt(ci.Y); ok && c == 0 && pred.Succs[0] == st.Block() {
							roles["first"] = true
							return
						}
					}
				}
				if ci.Op == token.LSS && pred.Succs[0] == st.Block() { // `v > max` is reported as `max < v`
					if ld, ok := ci.X.(*ssa.UnOp); ok && ld.X == ssa.Value(fv) && ci.Y == st.Val {
						roles["max"] = true
						return
					}
				}
			}
			roles["other-store"] = true
		})
	}
	return strings.Join(an.SortedKeys(roles), "+")
}

func c05WriterV1(p *load.Program, r *oblig.Report) {
	const rule = "C05.R1 v1 message writer layout"
	fn := p.Func("protocol", "(*RecordSet).writeToVersion1")
	if fn == nil {
		r.Lost(rule, "protocol.(*RecordSet).writeToVersion1")
		return
	}
	// the closure handed to forEachRecord
	var cl *ssa.Function
	for _, a := range fn.AnonFuncs {
		if len(a.Params) == 2 {
			cl = a
		}
	}
	if cl == nil {
		r.Undecided(rule, "writeToVersion1 record closure", p.Pos(fn.Pos()), "closure not found")
		return
	}
	pick := func(ins ssa.Instruction) (string, bool) {
		c, ok := ins.(*ssa.Call)
		if !ok {
			return "", false
		}
		if m, ok := methodOn(&c.Call, protoPath, "encoder"); ok {
			switch {
			case m == "setCRC":
				if an.IsNilConst(c.Call.Args[1]) {
					return "setCRC(nil)", true
				}
				return "setCRC(" + argDesc(c.Call.Args[1]) + ")", true
			case widthOf(m) > 0:
				a := ""
				if v, ok := an.ConstInt(an.Unwrap(c.Call.Args[1])); ok {
					a = fmt.Sprint(v)
				}
				return fmt.Sprintf("w%d(%s)", widthOf(m), a), true
			default:
				return m, true
			}
		}
		if m, ok := methodOn(&c.Call, protoPath, "pageBuffer"); ok && m == "WriteAt" {
			return "WriteAt(" + argDesc(c.Call.Args[2]) + ")", true
		}
		return "", false
	}
	traces, _ := an.PathTraces(cl, pick, 1, 500)
	want := "w8() ; w4(0) ; w4(0) ; setCRC(global:IEEETable) ; w1(1) ; w1() ; w8() ; writeNullBytesFrom ; writeNullBytesFrom ; WriteAt(call:(*protocol.pageBuffer).Size*1+8) ; WriteAt(call:(*protocol.pageBuffer).Size*1+12) ; setCRC(nil)"
	full := 0
	var got []string
	for _, t := range traces {
		j := strings.Join(an.Labels(t), " ; ")
		if strings.Contains(j, "WriteAt") {
			full++
			got = append(got, j)
			r.Check(j == want, rule, "writeToVersion1 → per-message write sequence", p.Pos(cl.Pos()), want, j)
		}
	}
	r.RequireCount(rule, full, 1)
	// size value = buffer.Size() - (messageOffset + 12)
	an.EachInstr(cl, func(ins ssa.Instruction) {
		c, ok := ins.(*ssa.Call)
		if !ok {
			return
		}
		if f := c.Call.StaticCallee(); f != nil && an.RefFuncName(f) == "packUint32" {
			v := an.Unwrap(c.Call.Args[0])
			if bo, ok := v.(*ssa.BinOp); ok && bo.Op == token.SUB {
				d := argDesc(bo.Y)
				r.Check(strings.Contains(argDesc(bo.X), "pageBuffer).Size") && d == "call:(*protocol.pageBuffer).Size*1+12", rule, "writeToVersion1 → message size value", p.Pos(c.Pos()),
					"buffer.Size() - (messageOffset + 12)", bo.X.String()+" - "+d)
			}
		}
	})
}

func c05Readers(p *load.Program, r *oblig.Report) {
	const rule = "C05.R1 reader ≡ writer field sequence"
	// readFromVersion2
	fn := p.Func("protocol", "(*RecordSet).readFromVersion2")
	if fn == nil {
		r.Lost(rule, "protocol.(*RecordSet).readFromVersion2")
	} else {
		var seq []string
		for _, b := range fn.DomPreorder() {
			for _, ins := range b.Instrs {
				c, ok := ins.(*ssa.Call)
				if !ok {
					continue
				}
				m, ok := methodOn(&c.Call, protoPath, "decoder")
				if !ok {
					continue
				}
				if m == "setCRC" {
					seq = append(seq, "setCRC")
				} else if w := widthOf(m); w > 0 && !strings.Contains(m, "Var") {
					seq = append(seq, fmt.Sprint(w))
				}
			}
			if len(seq) >= len(batchV2Layout)+1 {
				break
			}
		}
		var want []string
		for _, f := range batchV2Layout {
			want = append(want, fmt.Sprint(f.Width))
			if f.Name == "crc" {
				want = append(want, "setCRC")
			}
		}
		if len(seq) > len(want) {
			seq = seq[:len(want)]
		}
		r.Check(strings.Join(seq, ",") == strings.Join(want, ","), rule, "readFromVersion2 → header read sequence and CRC start", p.Pos(fn.Pos()), strings.Join(want, ","), strings.Join(seq, ","))
		r.Check(usesCRCTable(fn, "Castagnoli"), rule, "readFromVersion2 → CRC-32C table", p.Pos(fn.Pos()), "Castagnoli", "other")
		// the record prefix: length, attributes, timestamp delta, offset delta (in that order); the record's offset and
		// timestamp are the batch's base values plus the deltas read at positions 4 and 3
		var offSt, tsSt *ssa.Store
		an.EachInstr(fn, func(ins ssa.Instruction) {
			st, ok := ins.(*ssa.Store)
			if !ok {
				return
			}
			if fa, isFA := st.Addr.(*ssa.FieldAddr); isFA {
				switch an.FieldName(fa.X.Type(), fa.Field) {
				case "offset":
					offSt = st
				case "timestamp":
					tsSt = st
				}
			}
		})
		if offSt == nil || tsSt == nil {
			r.Lost(rule, "stores to record.offset / record.timestamp in protocol.(*RecordSet).readFromVersion2")
		} else {
			// decoder reads inside the record loop that dominate the offset store, in dominance order
			var reads []*ssa.Call
			an.EachInstr(fn, func(ins ssa.Instruction) {
				c, ok := ins.(*ssa.Call)
				if !ok {
					return
				}
				m, ok := methodOn(&c.Call, protoPath, "decoder")
				if !ok || !strings.HasPrefix(m, "read") || !an.Dominates(c, offSt) {
					return
				}
				q := an.PathQuery{Fn: fn, Target: func(i ssa.Instruction) bool { return i == ssa.Instruction(c) }}
				if q.ReachableFrom(an.PointOf(c)) == nil {
					return // not in the loop
				}
				reads = append(reads, c)
			})
			sort.SliceStable(reads, func(i, j int) bool { return an.Dominates(reads[i], reads[j]) && reads[i] != reads[j] })
			var kinds []string
			for _, c := range reads {
				kinds = append(kinds, an.RefFuncName(c.Call.StaticCallee()))
			}
			uses := func(st *ssa.Store, c *ssa.Call) bool {
				bo, ok := st.Val.(*ssa.BinOp)
				if !ok || bo.Op != token.ADD {
					return false
				}
				return an.Unwrap(bo.X) == ssa.Value(c) || an.Unwrap(bo.Y) == ssa.Value(c)
			}
			okSeq := strings.Join(kinds, ",") == "readVarInt,readInt8,readVarInt,readVarInt"
			okUse := okSeq && uses(offSt, reads[3]) && uses(tsSt, reads[2])
			r.Check(okUse, rule, "readFromVersion2 → a record's offset and timestamp are the base values plus the deltas stored in the record", p.Pos(offSt.Pos()),
				"length, attributes, timestampDelta, offsetDelta; offset = baseOffset + offsetDelta; timestamp = firstTimestamp + timestampDelta",
				"reads before the offset is set: "+strings.Join(kinds, ",")+"; offset = "+clean(an.Shape(offSt.Val))+"; timestamp = "+clean(an.Shape(tsSt.Val)))
		}
	}
	rm := p.Func("protocol", "readMessage")
	if rm == nil {
		r.Lost(rule, "protocol.readMessage")
		return
	}
	pick := func(ins ssa.Instruction) (string, bool) {
		c, ok := ins.(*ssa.Call)
		if !ok {
			return "", false
		}
		m, ok := methodOn(&c.Call, protoPath, "decoder")
		if !ok {
			return "", false
		}
		switch {
		case m == "setCRC":
			return "setCRC(" + argDesc(c.Call.Args[1]) + ")", true
		case widthOf(m) > 0 && !strings.Contains(m, "Var"):
			return fmt.Sprint(widthOf(m)), true
		case m == "writeTo":
			return "data", true
		}
		return "", false
	}
	traces, _ := an.PathTraces(rm, pick, 1, 500)
	wantLong := "8,4,4,setCRC(global:IEEETable),1,1,8,4,data,4,data"
	okLong := false
	for _, t := range traces {
		if strings.Join(an.Labels(t), ",") == wantLong {
			okLong = true
		}
	}
	var all []string
	for _, t := range traces {
		all = append(all, strings.Join(an.Labels(t), ","))
	}
	// every path reads a prefix of one of the legal field sequences (timestamp only for magic != 0,
	// key/value data only when their length is non-negative; error paths may stop early)
	var legal []string
	for _, ts := range []string{"8,", ""} {
		for _, kd := range []string{"data,", ""} {
			for _, vd := range []string{",data", ""} {
				legal = append(legal, "8,4,4,setCRC(global:IEEETable),1,1,"+ts+"4,"+kd+"4"+vd)
			}
		}
	}
	prefixOK := true
	for _, a := range all {
		okA := false
		for _, l := range legal {
			if strings.HasPrefix(l+",", a+",") {
				okA = true
			}
		}
		if !okA {
			prefixOK = false
		}
	}
	r.Check(okLong && prefixOK, rule, "readMessage → v0/v1 message read sequence and CRC start", p.Pos(rm.Pos()), wantLong+" (timestamp only when magic != 0)", strings.Join(all, " | "))
}

// c05Legacy: R2/R3 by symbolic byte algebra over the hand-written writer.
func c05Legacy(p *load.Program, r *oblig.Report) {
	const rule2 = "C05.R2 legacy size identities"
	const rule3 = "C05.R3 CRC dry run ≡ real write"
	pk := p.Pkg("")
	scope := pk.Types.Scope()
	look := func(name string) *types.Func {
		f, _ := scope.Lookup(name).(*types.Func)
		return f
	}
	wbT := scope.Lookup("writeBuffer")
	if wbT == nil {
		r.Lost(rule2, "kafka.writeBuffer")
		return
	}
	wbMethod := func(name string) *types.Func { return rootMethod(p, wbT.Type().(*types.Named), name) }
	msgT := scope.Lookup("Message").Type()

	// writeRecordBatch: header widths, batch length value, dry-run sequence
	if f := wbMethod("writeRecordBatch"); f == nil {
		r.Lost(rule2, "kafka.(*writeBuffer).writeRecordBatch")
	} else {
		bi := newByteInterp(p)
		st := newBState()
		sig := f.Type().(*types.Signature)
		var args []*an.SV
		for i := 0; i < sig.Params().Len(); i++ {
			prm := sig.Params().At(i)
			if b, ok := prm.Type().Underlying().(*types.Basic); ok && b.Info()&types.IsNumeric != 0 {
				args = append(args, &an.SV{K: 'n', L: an.AtomLin("$p:" + canonParam(p, prm))})
			} else {
				args = append(args, &an.SV{K: 'r', Path: "$p:" + canonParam(p, prm), T: prm.Type()})
			}
		}
		bi.CallFunc(f, &an.SV{K: 'r', Path: "$wb", T: sig.Recv().Type()}, args, st)
		ev := st.Sinks["$wb.w"]
		pos := p.Pos(f.Pos())
		if len(bi.Errs) > 0 || len(ev) < len(batchV2Layout) {
			r.Undecided(rule2, "kafka.(*writeBuffer).writeRecordBatch", pos, fmt.Sprintf("%v (events %d)", bi.Errs, len(ev)))
		} else {
			var got, want []string
			for i := 0; i < len(batchV2Layout); i++ {
				c, _ := ev[i].N.IsConst()
				got = append(got, fmt.Sprint(c))
				want = append(want, fmt.Sprint(batchV2Layout[i].Width))
			}
			r.Check(strings.Join(got, ",") == strings.Join(want, ","), rule2, "writeRecordBatch → header field widths", pos, strings.Join(want, ","), strings.Join(got, ","))
			// batch length = size - 12
			wantLen := an.Lin{"$p:size": 1, "": -int64(v2Offset("partitionLeaderEpoch"))}
			okLen := ev[1].Val != nil && ev[1].Val.K == 'n' && an.LinEqual(ev[1].Val.L, wantLen)
			found := "?"
			if ev[1].Val != nil {
				found = ev[1].Val.Canon()
			}
			r.Check(okLen, rule2, "writeRecordBatch → batch length field", pos, wantLen.String(), found)
			// magic
			mv := ev[3].Val
			r.Check(mv != nil && mv.Canon() == "2", rule2, "writeRecordBatch → magic byte", pos, "2", mv.Canon())
			// recordBatchHeaderSize constant
			if c, ok := scope.Lookup("recordBatchHeaderSize").(*types.Const); ok {
				v, _ := constant.Int64Val(c.Val())
				r.Check(int(v) == v2Total(), rule2, "recordBatchHeaderSize", p.Pos(c.Pos()), fmt.Sprint(v2Total()), fmt.Sprint(v))
			} else {
				r.Lost(rule2, "kafka.recordBatchHeaderSize")
			}
			// dry run on the crc writer ≡ real writes after the crc field
			var cwEv []an.WEvent
			for k, e := range st.Sinks {
				if strings.HasPrefix(k, "new:crc32Writer") {
					cwEv = e
				}
			}
			var a, b []string
			for _, e := range cwEv {
				a = append(a, e.N.String()+"="+canonOrEmpty(e.Val))
			}
			for _, e := range ev[5:] {
				b = append(b, e.N.String()+"="+canonOrEmpty(e.Val))
			}
			r.Check(len(a) > 0 && strings.Join(a, ";") == strings.Join(b, ";"), rule3, "writeRecordBatch → checksum dry run covers the fields written after the crc", pos, strings.Join(b, ";"), strings.Join(a, ";"))
		}
	}
	// writeRecord: length varint = bytes that follow
	if f := wbMethod("writeRecord"); f == nil {
		r.Lost(rule2, "kafka.(*writeBuffer).writeRecord")
	} else {
		bi := newByteInterp(p)
		st := newBState()
		sig := f.Type().(*types.Signature)
		args := []*an.SV{{K: 'n', L: an.AtomLin("$p:attributes")}, {K: 'r', Path: "$p:baseTime", T: sig.Params().At(1).Type()}, {K: 'n', L: an.AtomLin("$p:offset")}, {K: 'r', Path: "$p:msg", T: msgT}}
		bi.CallFunc(f, &an.SV{K: 'r', Path: "$wb", T: sig.Recv().Type()}, args, st)
		ev := st.Sinks["$wb.w"]
		pos := p.Pos(f.Pos())
		if len(bi.Errs) > 0 || len(ev) < 2 || ev[0].Val == nil || ev[0].Val.K != 'n' {
			r.Undecided(rule2, "kafka.(*writeBuffer).writeRecord", pos, fmt.Sprintf("%v (events %d)", bi.Errs, len(ev)))
		} else {
			rest := st.Total("$wb.w")
			rest.AddLin(ev[0].N, -1)
			r.Check(an.LinEqual(ev[0].Val.L, rest), rule2, "writeRecord → record length varint = bytes that follow (recordSize)", pos, oblig.Short(rest.String(), 500), "differs in: "+linDiff(rest, ev[0].Val.L))
		}
	}
	// recordBatch.writeTo: 4 + r.size where r.size = recordBatchSize(r.msgs...) on the uncompressed path
	if rbT := scope.Lookup("recordBatch"); rbT != nil {
		wt := rootMethod(p, rbT.Type().(*types.Named), "writeTo")
		rbs := look("recordBatchSize")
		if wt == nil || rbs == nil {
			r.Lost(rule2, "kafka.(*recordBatch).writeTo / recordBatchSize")
		} else {
			bi2 := newByteInterp(p)
			sz := bi2.CallFunc(rbs, nil, []*an.SV{{K: 'r', Path: "$r.msgs", T: types.NewSlice(msgT)}}, newBState())
			bi := newByteInterp(p)
			bi.Assume["$r.compressed!=nil"] = false
			st := newBState()
			bi.CallFunc(wt, &an.SV{K: 'r', Path: "$r", T: types.NewPointer(rbT.Type())}, []*an.SV{{K: 'r', Path: "$wb", T: types.NewPointer(wbT.Type())}}, st)
			total := st.Total("$wb.w")
			total.AddLin(an.ConstLin(4), -1)
			pos := p.Pos(rbs.Pos())
			if sz == nil || sz.K != 'n' || len(bi.Errs)+len(bi2.Errs) > 0 {
				r.Undecided(rule2, "kafka.recordBatchSize", pos, fmt.Sprintf("%v %v", bi.Errs, bi2.Errs))
			} else {
				r.Check(an.LinEqual(sz.L, total), rule2, "recordBatchSize ≡ bytes of recordBatch.writeTo after the size field (uncompressed)", pos, oblig.Short(total.String(), 500), "differs in: "+linDiff(total, sz.L))
			}
		}
	}
	// writeMessage: size field = bytes that follow; dry run ≡ real
	if f := wbMethod("writeMessage"); f == nil {
		r.Lost(rule2, "kafka.(*writeBuffer).writeMessage")
	} else {
		bi := newByteInterp(p)
		st := newBState()
		sig := f.Type().(*types.Signature)
		var args []*an.SV
		for i := 0; i < sig.Params().Len(); i++ {
			prm := sig.Params().At(i)
			if b, ok := prm.Type().Underlying().(*types.Basic); ok && b.Info()&types.IsNumeric != 0 {
				args = append(args, &an.SV{K: 'n', L: an.AtomLin("$p:" + canonParam(p, prm))})
			} else {
				args = append(args, &an.SV{K: 'r', Path: "$p:" + canonParam(p, prm), T: prm.Type()})
			}
		}
		bi.CallFunc(f, &an.SV{K: 'r', Path: "$wb", T: sig.Recv().Type()}, args, st)
		ev := st.Sinks["$wb.w"]
		pos := p.Pos(f.Pos())
		if len(bi.Errs) > 0 || len(ev) < 6 || ev[1].Val == nil || ev[1].Val.K != 'n' {
			r.Undecided(rule2, "kafka.(*writeBuffer).writeMessage", pos, fmt.Sprintf("%v (events %d)", bi.Errs, len(ev)))
		} else {
			rest := st.Total("$wb.w")
			rest.AddLin(an.ConstLin(12), -1)
			r.Check(an.LinEqual(ev[1].Val.L, rest), rule2, "writeMessage → message size field = bytes that follow (messageSize)", pos, rest.String(), "differs in: "+linDiff(rest, ev[1].Val.L))
			var widths []string
			for _, e := range ev[:6] {
				c, _ := e.N.IsConst()
				widths = append(widths, fmt.Sprint(c))
			}
			r.Check(strings.Join(widths, ",") == "8,4,4,1,1,8", rule2, "writeMessage → fixed field widths", pos, "8,4,4,1,1,8", strings.Join(widths, ","))
			cw := st.Sinks["$p:cw"]
			var a, b []string
			for _, e := range cw {
				a = append(a, e.N.String())
			}
			for _, e := range ev[3:] {
				b = append(b, e.N.String())
			}
			r.Check(len(a) > 0 && strings.Join(a, ";") == strings.Join(b, ";"), rule3, "writeMessage → checksum dry run covers the fields written after the crc", pos, strings.Join(b, ";"), strings.Join(a, ";"))
		}
	}
}

func canonOrEmpty(v *an.SV) string {
	if v == nil {
		return ""
	}
	return v.Canon()
}

// c05RecordsAreStream: control batches are filtered by *RecordStream.ReadRecord only; the decoder must therefore
// never publish anything else as rs.Records.
func c05RecordsAreStream(p *load.Program, r *oblig.Report) {
	const rule = "C05.R5 control batches are skipped"
	fn := p.Func("protocol", "(*RecordSet).ReadFrom")
	if fn == nil {
		r.Lost(rule, "protocol.(*RecordSet).ReadFrom")
		return
	}
	n := 0
	ok := true
	found := ""
	an.EachInstr(fn, func(ins ssa.Instruction) {
		st, isSt := ins.(*ssa.Store)
		if !isSt {
			return
		}
		fa, isFA := st.Addr.(*ssa.FieldAddr)
		if !isFA || an.FieldName(fa.X.Type(), fa.Field) != "Records" || !an.NamedIs(deref(fa.X.Type()), protoPath, "RecordSet") {
			return
		}
		n++
		if an.IsNilConst(st.Val) {
			return
		}
		mi, isMI := st.Val.(*ssa.MakeInterface)
		if !isMI || !an.NamedIs(mi.X.Type(), protoPath, "RecordStream") {
			ok = false
			found = clean(an.Shape(st.Val))
		}
	})
	r.Check(ok && n >= 1, rule, "protocol.(*RecordSet).ReadFrom publishes decoded records only as a *RecordStream", p.Pos(fn.Pos()), "rs.Records = stream (the stream is what hides control batches)", "also: "+found)
}

func c05CRCDominates(p *load.Program, r *oblig.Report) {
	c05RecordsAreStream(p, r)
	const rule = "C05.R4 checksum verified before records are exposed"
	fn := p.Func("protocol", "(*RecordSet).readFromVersion2")
	if fn != nil {
		// the comparison dec.crc32 != uint32(crc)
		var cmpBlock *ssa.BasicBlock
		mis, match := 0, 1 // successors taken when the checksums differ / agree
		for _, b := range an.Blocks(fn) {
			_, ci := an.IfCond(b)
			if ci == nil || (ci.Op != token.NEQ && ci.Op != token.EQL) {
				continue
			}
			if strings.Contains(argDesc(ci.X), ".crc32") || strings.Contains(argDesc(ci.Y), ".crc32") {
				cmpBlock = b
				if (ci.Op == token.EQL) != ci.Neg {
					mis, match = 1, 0
				}
			}
		}
		if cmpBlock == nil {
			r.Bad(rule, "readFromVersion2 → crc comparison", p.Pos(fn.Pos()), "if dec.crc32 != uint32(crc) { return error }", "comparison not found")
		} else {
			// true edge returns a non-nil error
			tb := cmpBlock.Succs[mis]
			retErr := false
			if ret, ok := tb.Instrs[len(tb.Instrs)-1].(*ssa.Return); ok && len(ret.Results) == 1 && !an.IsNilConst(ret.Results[0]) {
				retErr = true
			}
			okAll := retErr
			n := 0
			an.EachInstr(fn, func(ins ssa.Instruction) {
				st, ok := ins.(*ssa.Store)
				if !ok {
					return
				}
				if st.Addr != ssa.Value(fn.Params[0]) {
					fa, isFA := st.Addr.(*ssa.FieldAddr)
					if !isFA || fa.X != ssa.Value(fn.Params[0]) {
						return
					}
				}
				n++
				if !(cmpBlock.Succs[match] == st.Block() || cmpBlock.Succs[match].Dominates(st.Block())) {
					okAll = false
				}
			})
			r.Check(okAll && n >= 1, rule, "readFromVersion2 → *rs assigned only after the checksum matched", p.Pos(fn.Pos()), "mismatch returns an error; every store to *rs is dominated by the match edge", fmt.Sprintf("mismatch-returns-error=%v stores=%d", retErr, n))
		}
	} else {
		r.Lost(rule, "protocol.(*RecordSet).readFromVersion2")
	}
	rm := p.Func("protocol", "readMessage")
	r1 := p.Func("protocol", "(*RecordSet).readFromVersion1")
	if rm == nil || r1 == nil {
		r.Lost(rule, "protocol.readMessage / readFromVersion1")
		return
	}
	// readMessage: on the crc mismatch edge the returned err is a fresh error
	okMismatch := false
	for _, b := range an.Blocks(rm) {
		_, ci := an.IfCond(b)
		if ci == nil || (ci.Op != token.NEQ && ci.Op != token.EQL) || !(strings.Contains(argDesc(ci.X), ".crc32") || strings.Contains(argDesc(ci.Y), ".crc32")) {
			continue
		}
		mismatch := 0 // successor taken when the checksums differ
		if (ci.Op == token.EQL) != ci.Neg {
			mismatch = 1
		}
		for _, ins := range b.Succs[mismatch].Instrs {
			if c, ok := ins.(*ssa.Call); ok {
				if f := c.Call.StaticCallee(); f != nil && (an.RefFuncName(f) == "Errorf" || an.RefFuncName(f) == "New") {
					okMismatch = true
				}
			}
		}
	}
	r.Check(okMismatch, rule, "readMessage → checksum mismatch yields an error", p.Pos(rm.Pos()), "md.crc32 != crc ⇒ err = Errorf(…)", "not found")
	// readFromVersion1: each call of readMessage is followed by `if err != nil { return/break }` before the values are used
	n := 0
	an.EachInstr(r1, func(ins ssa.Instruction) {
		c, ok := ins.(*ssa.Call)
		if !ok || !an.StaticCalleeIs(&c.Call, rm) {
			return
		}
		n++
		// find the extract of the error (index 5) and an If on it in the same block
		blk := c.Block()
		_, ci := an.IfCond(blk)
		okIf := false
		if ci != nil && an.IsNilConst(ci.Y) {
			if ex, ok := ci.X.(*ssa.Extract); ok && ex.Tuple == ssa.Value(c) && ex.Index == 5 {
				okIf = true
			}
		}
		r.Check(okIf, rule, fmt.Sprintf("readFromVersion1 → error of readMessage #%d tested before its results are used", n), p.Pos(c.Pos()), "if err != nil immediately after the call", "no such test")
	})
	r.RequireCount(rule+" (readMessage calls)", n, 2)
}

func c05Control(p *load.Program, r *oblig.Report) {
	const rule = "C05.R5 control batches hidden"
	fn := p.Func("protocol", "(*RecordStream).ReadRecord")
	if fn == nil {
		r.Lost(rule, "protocol.(*RecordStream).ReadRecord")
		return
	}
	// a type assertion to *ControlBatch whose ok-edge increments index without calling ReadRecord
	okSkip := false
	an.EachInstr(fn, func(ins ssa.Instruction) {
		ta, ok := ins.(*ssa.TypeAssert)
		if !ok || !ta.CommaOk || !an.NamedIs(ta.AssertedType, protoPath, "ControlBatch") {
			return
		}
		iff, _ := an.IfCond(ta.Block())
		if iff == nil {
			return
		}
		tb := ta.Block().Succs[0]
		inc, call := false, false
		for _, i2 := range tb.Instrs {
			if st, ok := i2.(*ssa.Store); ok {
				if bo, ok := st.Val.(*ssa.BinOp); ok && bo.Op == token.ADD {
					if c, ok := an.ConstInt(bo.Y); ok && c == 1 {
						inc = true
					}
				}
			}
			if c, ok := i2.(*ssa.Call); ok && c.Call.IsInvoke() && c.Call.Method.Name() == "ReadRecord" {
				call = true
			}
		}
		okSkip = inc && !call
	})
	r.Check(okSkip, rule, "RecordStream.ReadRecord skips *ControlBatch entries", p.Pos(fn.Pos()), "isControl ⇒ index++ and continue, without reading", "not recognised")
	// readFromVersion2 wraps in ControlBatch iff Attributes.Control()
	fn2 := p.Func("protocol", "(*RecordSet).readFromVersion2")
	if fn2 == nil {
		return
	}
	okWrap := false
	for _, b := range an.Blocks(fn2) {
		iff, _ := an.IfCond(b)
		if iff == nil {
			continue
		}
		c, ok := an.CondOf(iff).(*ssa.Call)
		if !ok || c.Call.StaticCallee() == nil || an.RefFuncName(c.Call.StaticCallee()) != "Control" {
			continue
		}
		hasCB := func(bb *ssa.BasicBlock, name string) bool {
			for _, ins := range bb.Instrs {
				if al, ok := ins.(*ssa.Alloc); ok && an.NamedIs(al.Type(), protoPath, name) {
					return true
				}
			}
			return false
		}
		okWrap = hasCB(b.Succs[0], "ControlBatch") && hasCB(b.Succs[1], "RecordBatch")
	}
	r.Check(okWrap, rule, "readFromVersion2 wraps the batch in *ControlBatch iff the control attribute is set", p.Pos(fn2.Pos()), "Control() ⇒ &ControlBatch{…} else &RecordBatch{…}", "not recognised")
}

func c05NullAndOrder(p *load.Program, r *oblig.Report) {
	const rule7 = "C05.R7 null keys and values stay null"
	const rule8 = "C05.R8 records emitted in index order"
	fn := p.Func("", "(*writerRecords).ReadRecord")
	if fn == nil {
		r.Lost(rule7, "kafka.(*writerRecords).ReadRecord")
	} else {
		// stores into record.Key / record.Value are guarded by `msg.Key != nil` / `msg.Value != nil`; the record is reset per call
		guarded := map[string]bool{}
		reset := false
		an.EachInstr(fn, func(ins ssa.Instruction) {
			st, ok := ins.(*ssa.Store)
			if !ok {
				return
			}
			fa, ok := st.Addr.(*ssa.FieldAddr)
			if !ok {
				return
			}
			name := an.FieldName(fa.X.Type(), fa.Field)
			if an.NamedIs(fa.X.Type(), load.ModPath, "writerRecords") && name == "record" {
				reset = true
			}
			if !an.NamedIs(fa.X.Type(), protoPath, "Record") || (name != "Key" && name != "Value") {
				return
			}
			for _, pred := range st.Block().Preds {
				_, ci := an.IfCond(pred)
				if ci.Edge(token.NEQ) >= 0 && an.IsNilConst(ci.Y) && pred.Succs[ci.Edge(token.NEQ)] == st.Block() && strings.HasSuffix(argDesc(ci.X), "."+name) {
					guarded[name] = true
				}
			}
		})
		r.Check(guarded["Key"] && guarded["Value"] && reset, rule7, "writerRecords.ReadRecord sets Key/Value only for non-nil slices on a fresh record", p.Pos(fn.Pos()),
			"r.record reset each call; Key set iff msg.Key != nil; Value set iff msg.Value != nil", fmt.Sprintf("reset=%v guardedKey=%v guardedValue=%v", reset, guarded["Key"], guarded["Value"]))
		// index++ per record
		inc := false
		an.EachInstr(fn, func(ins ssa.Instruction) {
			if st, ok := ins.(*ssa.Store); ok {
				if fa, ok := st.Addr.(*ssa.FieldAddr); ok && an.FieldName(fa.X.Type(), fa.Field) == "index" {
					if bo, ok := st.Val.(*ssa.BinOp); ok && bo.Op == token.ADD {
						if c, ok := an.ConstInt(bo.Y); ok && c == 1 {
							inc = true
						}
					}
				}
			}
		})
		r.Check(inc, rule8, "writerRecords.ReadRecord advances by one message per call", p.Pos(fn.Pos()), "r.index++", "not found")
	}
	// writeVarNullBytesFrom / writeNullBytesFrom emit -1 for nil
	for _, name := range []string{"writeNullBytesFrom", "writeVarNullBytesFrom"} {
		f := p.Func("protocol", "(*encoder)."+name)
		if f == nil {
			r.Lost(rule7, "protocol.(*encoder)."+name)
			continue
		}
		_, ci := an.IfCond(f.Blocks[0])
		ok := false
		if e := ci.Edge(token.EQL); e >= 0 && an.IsNilConst(ci.Y) {
			for _, ins := range an.Blocks(f)[0].Succs[e].Instrs {
				if c, isC := ins.(*ssa.Call); isC && len(c.Call.Args) > 1 {
					if v, isK := an.ConstInt(an.Unwrap(c.Call.Args[1])); isK && v == -1 {
						ok = true
					}
				}
			}
		}
		r.Check(ok, rule7, "protocol.(*encoder)."+name+" encodes nil as length -1", p.Pos(f.Pos()), "b == nil ⇒ write(-1)", "not recognised")
	}
	// forEachRecord: i ascending from 0
	fe := p.Func("protocol", "forEachRecord")
	if fe == nil {
		r.Lost(rule8, "protocol.forEachRecord")
		return
	}
	// the callback receives a loop counter that starts at 0 and is incremented by 1
	okIdx := false
	an.EachInstr(fe, func(ins ssa.Instruction) {
		c, ok := ins.(*ssa.Call)
		if !ok || c.Call.IsInvoke() || len(c.Call.Args) < 2 {
			return
		}
		if sc := c.Call.StaticCallee(); sc != nil {
			// a helper that forwards its first parameter as the callback's index
			fwd := false
			if sc.Blocks != nil && load.InModule(sc) && len(sc.Params) > 0 {
				an.EachInstr(sc, func(i2 ssa.Instruction) {
					if c2, ok := i2.(*ssa.Call); ok && c2.Call.StaticCallee() == nil && !c2.Call.IsInvoke() && len(c2.Call.Args) == 2 && c2.Call.Args[0] == ssa.Value(sc.Params[0]) {
						fwd = true
					}
				})
			}
			if !fwd {
				return
			}
		}
		if phi, ok := c.Call.Args[0].(*ssa.Phi); ok {
			zero, inc := false, false
			for _, e := range phi.Edges {
				if v, ok := an.ConstInt(e); ok && v == 0 {
					zero = true
				}
				if bo, ok := e.(*ssa.BinOp); ok && bo.Op == token.ADD && bo.X == ssa.Value(phi) {
					if v, ok := an.ConstInt(bo.Y); ok && v == 1 {
						inc = true
					}
				}
			}
			okIdx = zero && inc
		}
	})
	r.Check(okIdx, rule8, "protocol.forEachRecord numbers records 0,1,2,…", p.Pos(fe.Pos()), "callback index is a counter from 0 with step 1", "not recognised")
}

// c05PageRefs: R6 — page references pin their pages; pooled objects return to the pool only at refcount zero.
func c05PageRefs(p *load.Program, r *oblig.Report) {
	const rule = "C05.R6 page references keep data alive"
	sp := p.SSAPkg("protocol")
	if sp == nil {
		r.Lost(rule, "protocol package")
		return
	}
	cpRef := p.Func("protocol", "(contiguousPages).ref")
	cpUnref := p.Func("protocol", "(contiguousPages).unref")
	if cpRef == nil || cpUnref == nil {
		r.Lost(rule, "protocol.(contiguousPages).ref/unref")
		return
	}
	nStores := 0
	for _, fn := range p.ModuleFunctions() {
		if fn.Pkg != sp {
			continue
		}
		an.EachInstr(fn, func(ins ssa.Instruction) {
			st, ok := ins.(*ssa.Store)
			if !ok {
				return
			}
			fa, ok := st.Addr.(*ssa.FieldAddr)
			if !ok || !an.NamedIs(fa.X.Type(), protoPath, "pageRef") || an.FieldName(fa.X.Type(), fa.Field) != "pages" {
				return
			}
			if an.IsNilConst(st.Val) {
				return
			}
			nStores++
			ok2, bad := an.MustPass(fn, an.PointOf(st), func(i ssa.Instruction) bool {
				c, isC := i.(*ssa.Call)
				if !isC || !an.StaticCalleeIs(&c.Call, cpRef) {
					return false
				}
				return strings.HasSuffix(argDesc(c.Call.Args[0]), ".pages")
			}, nil)
			where := "-"
			if bad != nil {
				where = p.Pos(bad.Pos())
			}
			r.Check(ok2, rule, an.ShortFunc(fn)+" → pages stored into a pageRef are pinned on every path", p.Pos(st.Pos()), "ref.pages.ref() on every path after ref.pages = …", "a path reaches the return at "+where+" without pinning the pages")
		})
	}
	r.RequireCount(rule+" (stores to pageRef.pages)", nStores, 1)
	// pageRef.unref: the decrement is guarded by CAS(&ref.once, 0, 1)
	pu := p.Func("protocol", "(*pageRef).unref")
	if pu == nil {
		r.Lost(rule, "protocol.(*pageRef).unref")
	} else {
		okCAS := false
		var casBlock *ssa.BasicBlock
		an.EachInstr(pu, func(ins ssa.Instruction) {
			if c, ok := ins.(*ssa.Call); ok {
				if f := c.Call.StaticCallee(); f != nil && an.RefFuncName(f) == "CompareAndSwapUint32" {
					if iff, _ := an.IfCond(c.Block()); iff != nil && an.CondOf(iff) == ssa.Value(c) {
						casBlock = c.Block()
					}
				}
			}
		})
		if casBlock != nil {
			okCAS = true
			an.EachInstr(pu, func(ins ssa.Instruction) {
				if c, ok := ins.(*ssa.Call); ok && an.StaticCalleeIs(&c.Call, cpUnref) {
					if !(casBlock.Succs[0] == c.Block() || casBlock.Succs[0].Dominates(c.Block())) {
						okCAS = false
					}
				}
			})
		}
		r.Check(okCAS, rule, "protocol.(*pageRef).unref releases its pages at most once", p.Pos(pu.Pos()), "pages.unref() only on the successful CAS(once, 0, 1) edge", "not recognised")
	}
	// pool.Put only from inside an onZero callback of refCount.unref
	rcUnref := p.Func("protocol", "(*refCount).unref")
	if rcUnref == nil {
		r.Lost(rule, "protocol.(*refCount).unref")
		return
	}
	nPut := 0
	for _, fn := range p.ModuleFunctions() {
		if fn.Pkg != sp && (fn.Parent() == nil || fn.Parent().Pkg != sp) {
			continue
		}
		an.EachInstr(fn, func(ins ssa.Instruction) {
			c, ok := ins.(*ssa.Call)
			if !ok {
				return
			}
			f := c.Call.StaticCallee()
			if f == nil || an.ShortFunc(f) != "(*sync.Pool).Put" {
				return
			}
			d := argDesc(c.Call.Args[0])
			if !strings.Contains(d, "pagePool") && !strings.Contains(d, "pageBufferPool") {
				return
			}
			nPut++
			// a function literal handed to unref, or a method handed to it as a method value and called from nowhere else
			inZero := handedOnlyTo(fn, func(f *ssa.Function) bool { return f == rcUnref })
			r.Check(inZero, rule, an.ShortFunc(fn)+" → "+d+".Put only when the reference count reached zero", p.Pos(c.Pos()), "inside the onZero callback of (*refCount).unref", "called elsewhere")
		})
	}
	r.RequireCount(rule+" (pool Put sites)", nPut, 2)
	// refCount.unref invokes onZero iff the decremented counter is zero
	okZero := false
	an.EachInstr(rcUnref, func(ins ssa.Instruction) {
		bo, ok := ins.(*ssa.BinOp)
		if !ok || bo.Op != token.EQL {
			return
		}
		if c, ok := an.ConstInt(bo.Y); ok && c == 0 {
			if call, ok := bo.X.(*ssa.Call); ok && call.Call.StaticCallee() != nil && an.RefFuncName(call.Call.StaticCallee()) == "AddUintptr" {
				okZero = true
			}
		}
	})
	r.Check(okZero, rule, "protocol.(*refCount).unref calls onZero iff the counter reached zero", p.Pos(rcUnref.Pos()), "atomic.AddUintptr(rc, ^0) == 0", "not recognised")
}

// c05VersionPerBatch: a record set may mix formats (format-1 messages followed by v2 batches after an upgrade): the
// decoder used for a batch is chosen from that batch's own magic byte, so the value switched on is computed inside the
// iteration — it is not carried over from an earlier iteration of the loop.
func c05VersionPerBatch(p *load.Program, r *oblig.Report) {
	const rule = "C05.R1 reader ≡ writer field sequence"
	fn := p.Func("protocol", "(*RecordSet).ReadFrom")
	if fn == nil {
		r.Lost(rule, "protocol.(*RecordSet).ReadFrom")
		return
	}
	// the calls that decode one batch
	var decodes []*ssa.Call
	an.EachInstr(fn, func(ins ssa.Instruction) {
		if c, ok := ins.(*ssa.Call); ok && c.Call.StaticCallee() != nil && strings.HasPrefix(an.RefFuncName(c.Call.StaticCallee()), "readFromVersion") {
			decodes = append(decodes, c)
		}
	})
	if len(decodes) < 2 {
		r.Lost(rule, "readFromVersion1/2 calls in protocol.(*RecordSet).ReadFrom")
		return
	}
	carried := ""
	for _, dc := range decodes {
		for d, child := dc.Block().Idom(), dc.Block(); d != nil; d, child = d.Idom(), d {
			_, ci := an.IfCond(d)
			if ci == nil || ci.Edge(token.EQL) < 0 {
				continue
			}
			if _, isK := an.ConstInt(ci.Y); !isK {
				continue
			}
			_ = child
			// the compared value: is any φ it is made of fed by itself around the loop?
			seen := map[ssa.Value]bool{}
			var walk func(v ssa.Value)
			walk = func(v ssa.Value) {
				if seen[v] {
					return
				}
				seen[v] = true
				switch x := v.(type) {
				case *ssa.Phi:
					for i, e := range x.Edges {
						// an edge arriving from a block that the φ's own block reaches is a back edge
						// (a back edge: the φ's block dominates the predecessor the value arrives from)
						if x.Block().Dominates(x.Block().Preds[i]) {
							if _, isConst := e.(*ssa.Const); !isConst {
								carried = "the version compared at " + p.Pos(d.Instrs[len(d.Instrs)-1].Pos()) + " is carried over from the previous iteration (" + clean(an.Shape(x)) + ")"
							}
						}
						walk(e)
					}
				case *ssa.Convert:
					walk(x.X)
				case *ssa.UnOp:
					walk(x.X)
				}
			}
			walk(ci.X)
		}
	}
	r.Check(carried == "", rule, "protocol.(*RecordSet).ReadFrom chooses the decoder of each batch from that batch's magic byte", p.Pos(fn.Pos()), "var version byte declared and assigned inside the loop body", carried)
}

package rules

import (
	_ "embed"
	"fmt"
	"regexp"
	"strconv"
	"strings"

	"kverif/internal/an"
)

//go:embed ref/wire_schema_A.txt
var wireSchemaA string

// refField is one field of the hand-written reference.
type refField struct {
	Name     string
	Type     string      // primitive, "array", "records"
	Elem     []*refField // array of struct
	ElemPrim string      // array of primitive
	Min, Max int         // versions (Max = 1<<30 for open ranges)
	Nullable bool
	NullFrom int
	TagID    int // -2 = regular field
}

type refAPI struct {
	Name     string
	Key      int
	Min, Max int
	FlexFrom int // -1 never
	Request  []*refField
	Response []*refField
}

var (
	reVersion = regexp.MustCompile(`^v(\d+)(\+|-(\d+))?$`)
	reNull    = regexp.MustCompile(`^\?(v(\d+)\+)?$`)
	reTag     = regexp.MustCompile(`^tag=(\d+)$`)
)

const openMax = 1 << 30

func parseRefSchemas(src string) (map[string]*refAPI, error) {
	apis := map[string]*refAPI{}
	var cur *refAPI
	var side *[]*refField
	var toks []string
	flush := func() error {
		if side == nil || len(toks) == 0 {
			toks = nil
			return nil
		}
		fs, rest, err := parseRefFields(toks)
		if err != nil {
			return fmt.Errorf("api %s: %v", cur.Name, err)
		}
		if len(rest) != 0 {
			return fmt.Errorf("api %s: trailing tokens %v", cur.Name, rest)
		}
		*side = fs
		toks = nil
		return nil
	}
	for _, line := range strings.Split(src, "\n") {
		if i := strings.Index(line, "#"); i >= 0 {
			line = line[:i]
		}
		line = strings.TrimSpace(line)
		if line == "" {
			continue
		}
		f := strings.Fields(line)
		switch {
		case f[0] == "api":
			if err := flush(); err != nil {
				return nil, err
			}
			// api NAME key N versions A-B flexible F+|never
			if len(f) != 8 {
				return nil, fmt.Errorf("bad api line %q", line)
			}
			a := &refAPI{Name: f[1]}
			a.Key, _ = strconv.Atoi(f[3])
			vr := strings.Split(f[5], "-")
			a.Min, _ = strconv.Atoi(vr[0])
			a.Max, _ = strconv.Atoi(vr[1])
			a.FlexFrom = -1
			if f[7] != "never" {
				a.FlexFrom, _ = strconv.Atoi(strings.TrimSuffix(f[7], "+"))
			}
			apis[a.Name] = a
			cur = a
			side = nil
		case f[0] == "request:":
			if err := flush(); err != nil {
				return nil, err
			}
			side = &cur.Request
			toks = append(toks, f[1:]...)
		case f[0] == "response:":
			if err := flush(); err != nil {
				return nil, err
			}
			side = &cur.Response
			toks = append(toks, f[1:]...)
		default:
			toks = append(toks, f...)
		}
	}
	if err := flush(); err != nil {
		return nil, err
	}
	return apis, nil
}

// parseRefFields parses fields until a closing "]" (not consumed) or the end.
func parseRefFields(toks []string) ([]*refField, []string, error) {
	var out []*refField
	for len(toks) > 0 {
		t := toks[0]
		if t == "]" {
			return out, toks, nil
		}
		i := strings.Index(t, ":")
		if i < 0 {
			return nil, nil, fmt.Errorf("expected name:type, got %q", t)
		}
		f := &refField{Name: t[:i], Min: 0, Max: openMax, TagID: -2, NullFrom: 0}
		typ := t[i+1:]
		toks = toks[1:]
		switch {
		case typ == "[":
			f.Type = "array"
			elems, rest, err := parseRefFields(toks)
			if err != nil {
				return nil, nil, err
			}
			if len(rest) == 0 || rest[0] != "]" {
				return nil, nil, fmt.Errorf("unterminated array %s", f.Name)
			}
			f.Elem = elems
			toks = rest[1:]
		case strings.HasPrefix(typ, "[") && strings.HasSuffix(typ, "]"):
			f.Type = "array"
			f.ElemPrim = typ[1 : len(typ)-1]
		default:
			f.Type = typ
		}
		// qualifiers
		for len(toks) > 0 {
			q := toks[0]
			if m := reVersion.FindStringSubmatch(q); m != nil {
				f.Min, _ = strconv.Atoi(m[1])
				switch {
				case m[2] == "+":
					f.Max = openMax
				case m[3] != "":
					f.Max, _ = strconv.Atoi(m[3])
				default:
					f.Max = f.Min
				}
			} else if m := reNull.FindStringSubmatch(q); m != nil {
				f.Nullable = true
				if m[2] != "" {
					f.NullFrom, _ = strconv.Atoi(m[2])
				}
			} else if m := reTag.FindStringSubmatch(q); m != nil {
				f.TagID, _ = strconv.Atoi(m[1])
			} else {
				break
			}
			toks = toks[1:]
		}
		out = append(out, f)
	}
	return out, toks, nil
}

// refItem renders the reference at one version as a wire item tree.
func refStruct(fields []*refField, v int, flexible bool) *an.WItem {
	w := &an.WItem{Kind: "struct"}
	var tagged []*an.WItem
	for _, f := range fields {
		if v < f.Min || v > f.Max {
			continue
		}
		it := refType(f, v, flexible)
		it.GoName = f.Name
		if f.TagID >= 0 {
			it.TagID = f.TagID
			tagged = append(tagged, it)
			continue
		}
		w.Fields = append(w.Fields, it)
	}
	if flexible {
		w.Fields = append(w.Fields, &an.WItem{Kind: "tagbuf", Fields: tagged, GoName: "_tagged_fields"})
	}
	return w
}

func refType(f *refField, v int, flexible bool) *an.WItem {
	null := f.Nullable && v >= f.NullFrom
	switch f.Type {
	case "array":
		var el *an.WItem
		if f.ElemPrim != "" {
			el = refPrim(f.ElemPrim, flexible, false)
		} else {
			el = refStruct(f.Elem, v, flexible)
		}
		return &an.WItem{Kind: "array", Compact: flexible, Nullable: null, Elem: el}
	default:
		return refPrim(f.Type, flexible, null)
	}
}

func refPrim(t string, flexible, null bool) *an.WItem {
	switch t {
	case "string", "bytes":
		return &an.WItem{Kind: t, Compact: flexible, Nullable: null}
	default:
		return &an.WItem{Kind: t}
	}
}

package rules

// Rules added after the sixth seeding round and for the repairs made at the same time. Each function states the
// necessary condition it decides, the construct it looks at, and what it does not cover.

import (
	"fmt"
	"go/constant"
	"go/token"
	"go/types"
	"sort"
	"strings"

	"golang.org/x/tools/go/ssa"

	"kverif/internal/an"
	"kverif/internal/load"
	"kverif/internal/oblig"
)

// blockInCycle reports whether b lies on a cycle of its function's CFG.
func blockInCycle(b *ssa.BasicBlock) bool {
	seen := map[*ssa.BasicBlock]bool{}
	var visit func(x *ssa.BasicBlock) bool
	visit = func(x *ssa.BasicBlock) bool {
		for _, s := range x.Succs {
			if s == b {
				return true
			}
			if !seen[s] {
				seen[s] = true
				if visit(s) {
					return true
				}
			}
		}
		return false
	}
	return visit(b)
}

func stripConvs(v ssa.Value) ssa.Value {
	for {
		switch x := v.(type) {
		case *ssa.Convert:
			v = x.X
		case *ssa.ChangeType:
			v = x.X
		default:
			return v
		}
	}
}

// c04PageAccess: the reflective codec back-patches every size, checksum and count it left blank through
// contiguousPages.WriteAt (and reads through ReadAt); a field that lies across a 64 KiB page boundary is written in
// two parts. Decided: both walk every page of the range [off, off+len(b)) — the page-level call sits in a loop over
// pages.slice(off, off+len(b)). Not decided: the arithmetic inside page.WriteAt.
func c04PageAccess(p *load.Program, r *oblig.Report) {
	const rule = "C04.R14 random access to the page buffer spans page boundaries"
	for _, name := range []string{"WriteAt", "ReadAt"} {
		fn := p.Func("protocol", "(contiguousPages)."+name)
		construct := "protocol.contiguousPages." + name + " visits every page of the range"
		if fn == nil {
			r.Lost(rule, construct)
			continue
		}
		var inLoop, sliced bool
		var bad []string
		an.EachInstr(fn, func(ins ssa.Instruction) {
			c, ok := ins.(*ssa.Call)
			if !ok || c.Call.StaticCallee() == nil {
				return
			}
			switch callee := c.Call.StaticCallee(); {
			case an.RefFuncName(callee) == name && callee != fn:
				if blockInCycle(c.Block()) {
					inLoop = true
				} else {
					bad = append(bad, "the page-level "+name+" at "+p.Pos(c.Pos())+" is not in a loop over the pages")
				}
			case an.RefFuncName(callee) == "slice":
				// slice(off, off+len(b))
				if len(c.Call.Args) == 3 {
					if bo, isB := c.Call.Args[2].(*ssa.BinOp); isB && bo.Op == token.ADD && (bo.X == c.Call.Args[1] || bo.Y == c.Call.Args[1]) {
						sliced = true
					}
				}
			}
		})
		r.Check(inLoop && sliced && len(bad) == 0, rule, construct, p.Pos(fn.Pos()), "for _, p := range pages.slice(off, off+int64(len(b))) { p."+name+"(b, off) … }", fmt.Sprintf("loop=%v range=%v %s", inLoop, sliced, strings.Join(bad, "; ")))
	}
}

// c05MessageSizeFloor: a format-0 message is at least 14 bytes long (crc, magic, attributes, two length prefixes),
// a format-1 message 22. readMessage decodes both and learns the format only after the size: any size test against a
// constant above 14 refuses well-formed format-0 messages with short keys and values.
func c05MessageSizeFloor(p *load.Program, r *oblig.Report) {
	const rule = "C05.R14 no message size is refused that format 0 allows"
	fn := p.Func("protocol", "readMessage")
	if fn == nil {
		r.Lost(rule, "protocol.readMessage")
		return
	}
	n := 0
	var bad []string
	for _, b := range an.Blocks(fn) {
		_, ci := an.IfCond(b)
		if ci == nil {
			continue
		}
		for _, pair := range [][2]ssa.Value{{ci.X, ci.Y}, {ci.Y, ci.X}} {
			k, isK := an.ConstInt(pair[1])
			if !isK {
				continue
			}
			c, isCall := stripConvs(pair[0]).(*ssa.Call)
			if !isCall {
				continue
			}
			if m, ok := methodOn(&c.Call, protoPath, "decoder"); ok && m == "readInt32" {
				n++
				if k > 14 {
					bad = append(bad, fmt.Sprintf("the message size is compared with %d at %s", k, p.Pos(b.Instrs[len(b.Instrs)-1].Pos())))
				}
			}
		}
	}
	r.Check(n >= 1 && len(bad) == 0, rule, "protocol.readMessage compares the message size with nothing above 14", p.Pos(fn.Pos()), "messageSize < 0; messageSize > d.remain", strings.Join(bad, "; "))
}

// c08TimerArmedOnce: BatchTimeout runs from the moment the batch is opened. The batch's timer is created with the
// batch and stopped when it is triggered; re-arming it (Reset) turns the limit into an idle time.
func c08TimerArmedOnce(p *load.Program, r *oblig.Report) {
	const rule = "C08.R8 the flush timer of a batch is armed once, when the batch is opened"
	uses := 0
	var bad []string
	for _, fn := range p.EveryModuleFunction() {
		an.EachInstr(fn, func(ins ssa.Instruction) {
			c, ok := ins.(*ssa.Call)
			if !ok || c.Parent() != fn {
				return
			}
			callee := c.Call.StaticCallee()
			if callee == nil || callee.Pkg == nil || callee.Pkg.Pkg.Path() != "time" || len(c.Call.Args) == 0 {
				return
			}
			ld, isLd := c.Call.Args[0].(*ssa.UnOp)
			if !isLd {
				return
			}
			fa, isFa := ld.X.(*ssa.FieldAddr)
			if !isFa || an.FieldName(fa.X.Type(), fa.Field) != "timer" || !strings.Contains(fa.X.Type().String(), "writeBatch") {
				return
			}
			uses++
			if callee.Name() == "Reset" {
				bad = append(bad, an.ShortFunc(fn)+" re-arms the timer at "+p.Pos(c.Pos()))
			}
		})
	}
	sort.Strings(bad)
	r.Check(uses >= 1 && len(bad) == 0, rule, "no function calls Reset on writeBatch.timer", "writer.go", "time.NewTimer in newWriteBatch, Stop in trigger", strings.Join(bad, "; "))
}

// c09FetchLoopTestsContext: Reader.Close cancels the context of the partition readers and waits for them. Between
// two fetches the loop of (*reader).run looks at its context only in sleep(ctx, …) (a zero delay still tests it): an
// iteration that can go round without it never notices the cancellation on an idle partition.
func c09FetchLoopTestsContext(p *load.Program, r *oblig.Report) {
	const rule = "C09.R7 every iteration of the fetch loop tests the reader's context"
	fn := p.Func("", "(*reader).run")
	if fn == nil {
		r.Lost(rule, "kafka.(*reader).run")
		return
	}
	isRead := func(ins ssa.Instruction) bool {
		c, ok := ins.(*ssa.Call)
		return ok && c.Call.StaticCallee() != nil && an.RefFuncName(c.Call.StaticCallee()) == "read" && c.Call.StaticCallee().Signature.Recv() != nil
	}
	isCtxTest := func(ins ssa.Instruction) bool {
		switch x := ins.(type) {
		case *ssa.Call:
			if f := x.Call.StaticCallee(); f != nil && an.RefFuncName(f) == "sleep" {
				return true
			}
			if x.Call.IsInvoke() && (x.Call.Method.Name() == "Done" || x.Call.Method.Name() == "Err") {
				return true
			}
		}
		return false
	}
	n := 0
	var bad []string
	an.EachInstr(fn, func(ins ssa.Instruction) {
		if !isRead(ins) {
			return
		}
		n++
		q := an.PathQuery{Fn: fn, Stop: isCtxTest, Target: isRead}
		if hit := q.ReachableFrom(an.PointOf(ins)); hit != nil {
			bad = append(bad, "a fetch at "+p.Pos(hit.Pos())+" follows the fetch at "+p.Pos(ins.Pos())+" without a test of the context in between")
		}
	})
	r.Check(n >= 1 && len(bad) == 0, rule, "(*reader).run → no path from one r.read to the next avoids sleep(ctx, …)", p.Pos(fn.Pos()), "if !sleep(ctx, backoff(errcount, …)) { conn.Close(); return } at the top of the loop, unconditionally", strings.Join(bad, "; "))
}

// c10StatsOnce: Writer.writerStats is created lazily inside once.Do. Every read of the field outside the
// constructor must come after the Do call in the same function (the Once is the happens-before edge): a fast path in
// front of it reads the pointer while another goroutine's Do writes it.
func c10StatsOnce(p *load.Program, r *oblig.Report) {
	const rule = "C10.R11 the lazily created writerStats is read only after once.Do"
	n := 0
	var bad []string
	for _, fn := range p.EveryModuleFunction() {
		top := fn
		for top.Parent() != nil {
			top = top.Parent()
		}
		var does []ssa.Instruction
		an.EachInstr(fn, func(ins ssa.Instruction) {
			if c, ok := ins.(*ssa.Call); ok && c.Parent() == fn && an.MethodCallNamed(&c.Call, "sync", "Once", "Do") {
				does = append(does, c)
			}
		})
		an.EachInstr(fn, func(ins ssa.Instruction) {
			ld, ok := ins.(*ssa.UnOp)
			if !ok || ld.Op != token.MUL || ld.Parent() != fn {
				return
			}
			fa, isFa := ld.X.(*ssa.FieldAddr)
			if !isFa || an.FieldName(fa.X.Type(), fa.Field) != "writerStats" || !an.NamedIs(derefType(fa.X.Type()), load.ModPath, "Writer") {
				return
			}
			n++
			if insideOnceDo(fn) {
				return // the function handed to once.Do (a literal, or a method value called from nowhere else)
			}
			if _, fresh := fa.X.(*ssa.Alloc); fresh {
				return // a Writer under construction
			}
			okDom := false
			for _, d := range does {
				if an.Dominates(d, ld) {
					okDom = true
				}
			}
			if !okDom {
				bad = append(bad, an.ShortFunc(fn)+" reads w.writerStats at "+p.Pos(ld.Pos())+" without a preceding once.Do")
			}
		})
	}
	sort.Strings(bad)
	r.Check(n >= 1 && len(bad) == 0, rule, "every read of Writer.writerStats outside the Once closure is dominated by w.once.Do", "writer.go", "w.once.Do(func() { … }); return w.writerStats", strings.Join(bad, "; "))
}

func derefType(t types.Type) types.Type {
	if pt, ok := t.Underlying().(*types.Pointer); ok {
		return pt.Elem()
	}
	return t
}

// c11DoUnsetsDeadline: waitResponse binds the operation's deadline to the socket; do() must take that binding back on
// every exit after a successful waitResponse, also when reading the response failed with a broker error and the
// connection is kept: otherwise every later SetWriteDeadline/SetReadDeadline also moves the socket's read deadline.
func c11DoUnsetsDeadline(p *load.Program, r *oblig.Report) {
	const rule = "C11.R14 the deadline binding taken by waitResponse is released on every exit"
	n := 0
	for _, fn := range p.ModuleFunctions() {
		if fn.Pkg != p.SSAPkg("") {
			continue
		}
		var wait *ssa.Call
		an.EachInstr(fn, func(ins ssa.Instruction) {
			if c, ok := ins.(*ssa.Call); ok && c.Parent() == fn && c.Call.StaticCallee() != nil && an.RefFuncName(c.Call.StaticCallee()) == "waitResponse" {
				wait = c
			}
		})
		if wait == nil {
			continue
		}
		n++
		construct := an.ShortFunc(fn) + " → unsetConnReadDeadline (or a Batch that takes the connection over) on every path after waitResponse succeeded"
		// the success edge of `if err != nil { return … }` after waitResponse
		var from *an.Point
		for _, b := range an.Blocks(fn) {
			_, ci := an.IfCond(b)
			if e := ci.Edge(token.EQL); e >= 0 && an.IsNilConst(ci.Y) {
				for _, v := range []ssa.Value{an.Unwrap(ci.X), an.Unwrap(an.CellValueAt(ci.X))} {
					if ex, isEx := v.(*ssa.Extract); isEx && ex.Tuple == ssa.Value(wait) {
						from = &an.Point{B: b.Succs[e], Idx: -1}
					}
				}
			}
		}
		if from == nil {
			r.Bad(rule, construct, p.Pos(wait.Pos()), "if err != nil { return err } after waitResponse", "the error test was not found")
			continue
		}
		ok, miss := an.MustPass(fn, *from, func(ins ssa.Instruction) bool {
			switch x := ins.(type) {
			case *ssa.Call:
				return x.Call.StaticCallee() != nil && an.RefFuncName(x.Call.StaticCallee()) == "unsetConnReadDeadline"
			case *ssa.Defer:
				return x.Call.StaticCallee() != nil && an.RefFuncName(x.Call.StaticCallee()) == "unsetConnReadDeadline"
			case *ssa.Store:
				// the Batch that is handed out owns the connection; Batch.close releases the binding (C02.R5, C11.R10)
				if fa, isFa := x.Addr.(*ssa.FieldAddr); isFa && an.FieldName(fa.X.Type(), fa.Field) == "conn" && strings.HasSuffix(derefType(fa.X.Type()).String(), ".Batch") {
					return !an.IsNilConst(x.Val)
				}
			}
			return false
		}, nil)
		found := ""
		if !ok && miss != nil {
			found = "the exit at " + p.Pos(miss.Pos()) + " is reached with the binding still in place"
		}
		r.Check(ok, rule, construct, p.Pos(fn.Pos()), "d.unsetConnReadDeadline(); lock.Unlock(); return err", found)
	}
	r.RequireCount(rule, n, 3)
}

var _ = constant.MakeInt64

// c12RefreshWithinTTL: "requests follow the new leader within one metadata TTL plus a round trip" needs the refresher
// to re-arm its timer with a delay of at most the TTL. Decided: every duration handed to time.NewTimer / Timer.Reset in
// connPool.discover is rand.Int63n(int64(p.metadataTTL)) — a value in [0, TTL) — with nothing added to it. Not
// decided: that the timer is the only thing that delays a refresh.
func c12RefreshWithinTTL(p *load.Program, r *oblig.Report) {
	const rule = "C12.R13 the metadata refresher re-arms its timer with at most the TTL"
	fn := p.Func("", "(*connPool).discover")
	if fn == nil {
		r.Lost(rule, "kafka.(*connPool).discover")
		return
	}
	within := func(v ssa.Value) (bool, string) {
		// follow the result of a local closure
		seen := map[ssa.Value]bool{}
		var chk func(v ssa.Value) (bool, string)
		chk = func(v ssa.Value) (bool, string) {
			if seen[v] {
				return true, ""
			}
			seen[v] = true
			v = stripConvs(v)
			switch x := v.(type) {
			case *ssa.Phi:
				for _, e := range x.Edges {
					if ok, why := chk(e); !ok {
						return false, why
					}
				}
				return true, ""
			case *ssa.Call:
				if callee := x.Call.StaticCallee(); callee != nil {
					if callee.Name() == "Int63n" && len(x.Call.Args) >= 1 {
						arg := x.Call.Args[len(x.Call.Args)-1]
						if strings.HasSuffix(clean(an.Shape(stripConvs(arg))), ".metadataTTL") {
							return true, ""
						}
						return false, "Int63n of " + clean(an.Shape(arg))
					}
					if callee.Parent() != nil || an.IsNew(callee) {
						// a closure or a helper that did not exist at review time: every value it returns
						for _, b := range callee.Blocks {
							if ret, isRet := b.Instrs[len(b.Instrs)-1].(*ssa.Return); isRet && len(ret.Results) == 1 {
								if ok, why := chk(ret.Results[0]); !ok {
									return false, why
								}
							}
						}
						return true, ""
					}
				}
				// a call through a closure value
				if mc, isMC := x.Call.Value.(*ssa.MakeClosure); isMC {
					cf := mc.Fn.(*ssa.Function)
					for _, b := range cf.Blocks {
						if ret, isRet := b.Instrs[len(b.Instrs)-1].(*ssa.Return); isRet && len(ret.Results) == 1 {
							if ok, why := chk(ret.Results[0]); !ok {
								return false, why
							}
						}
					}
					return true, ""
				}
			case *ssa.UnOp:
				if strings.HasSuffix(clean(an.Shape(x)), ".metadataTTL") {
					return true, ""
				}
			}
			return false, clean(an.Shape(v))
		}
		return chk(v)
	}
	n := 0
	var bad []string
	an.EachInstr(fn, func(ins ssa.Instruction) {
		c, ok := ins.(*ssa.Call)
		if !ok || c.Call.StaticCallee() == nil || c.Call.StaticCallee().Pkg == nil || c.Call.StaticCallee().Pkg.Pkg.Path() != "time" {
			return
		}
		var d ssa.Value
		switch c.Call.StaticCallee().Name() {
		case "NewTimer", "After", "Sleep":
			d = c.Call.Args[0]
		case "Reset":
			d = c.Call.Args[1]
		default:
			return
		}
		n++
		if ok, why := within(d); !ok {
			bad = append(bad, fmt.Sprintf("the delay at %s is %s", p.Pos(c.Pos()), why))
		}
	})
	sort.Strings(bad)
	r.Check(n >= 2 && len(bad) == 0, rule, "connPool.discover → every timer delay is rand.Int63n(metadataTTL)", p.Pos(fn.Pos()), "time.Duration(prng.Int63n(int64(p.metadataTTL)))", strings.Join(bad, "; "))
}

// c14OwnStorage: assignTopic hands out sub-slices of the per-rack partition lists and later appends to the members'
// lists (left-over pass, final pass). A member's list must therefore own its storage: what is stored under a member
// is append(<the member's previous list>, …), never a slice of another list whose backing array is still in use.
func c14OwnStorage(p *load.Program, r *oblig.Report) {
	const rule = "C14.R9 a member's partition list owns its storage"
	fn := p.Func("", "(*RackAffinityGroupBalancer).assignTopic")
	if fn == nil {
		r.Lost(rule, "kafka.(*RackAffinityGroupBalancer).assignTopic")
		return
	}
	// the map that is returned: the members' lists (the per-rack lists live in a map of the same type)
	returned := map[ssa.Value]bool{}
	an.EachInstr(fn, func(ins ssa.Instruction) {
		if ret, ok := ins.(*ssa.Return); ok && ret.Parent() == fn && len(ret.Results) == 1 {
			returned[an.Unwrap(an.RetVal(ret, 0))] = true
		}
	})
	n := 0
	var bad []string
	an.EachInstr(fn, func(ins ssa.Instruction) {
		mu, ok := ins.(*ssa.MapUpdate)
		if !ok || !returned[an.Unwrap(mu.Map)] {
			return
		}
		if _, isSlice := mu.Value.Type().Underlying().(*types.Slice); !isSlice {
			return
		}
		n++
		okV := false
		switch v := mu.Value.(type) {
		case *ssa.Call:
			if b, isB := v.Call.Value.(*ssa.Builtin); isB && b.Name() == "append" {
				// append(m[k], …): grows the member's own list (or a nil one)
				switch base := v.Call.Args[0].(type) {
				case *ssa.Lookup:
					okV = base.X == mu.Map
				case *ssa.Extract:
					if lk, isLk := base.Tuple.(*ssa.Lookup); isLk {
						okV = lk.X == mu.Map
					}
				case *ssa.Const:
					okV = base.IsNil()
				}
			}
		case *ssa.MakeSlice:
			okV = true
		case *ssa.Const:
			okV = v.IsNil()
		}
		if !okV {
			bad = append(bad, fmt.Sprintf("%s is stored under a member at %s", clean(an.Shape(mu.Value)), p.Pos(mu.Pos())))
		}
	})
	sort.Strings(bad)
	r.Check(n >= 2 && len(bad) == 0, rule, "assignTopic → every list stored in the assignments map is append(assignments[member], …)", p.Pos(fn.Pos()), "assignments[consumer] = append(assignments[consumer], parts[:n]...)", strings.Join(bad, "; "))
}

// c15BackoffExceptions: a failed join is retried after JoinGroupBackoff, with one documented exception: after
// RebalanceInProgress the broker throttles the re-join itself. Decided: in ConsumerGroup.run, the only error whose
// errors.Is arm reaches the hand-over of the error without arming the back-off timer is RebalanceInProgress
// (ErrGroupClosed returns).
func c15BackoffExceptions(p *load.Program, r *oblig.Report) {
	const rule = "C15.R8 only RebalanceInProgress is retried without the back-off"
	fn := p.Func("", "(*ConsumerGroup).run")
	if fn == nil {
		r.Lost(rule, "kafka.(*ConsumerGroup).run")
		return
	}
	isAfter := func(ins ssa.Instruction) bool {
		c, ok := ins.(*ssa.Call)
		return ok && c.Call.StaticCallee() != nil && c.Call.StaticCallee().Pkg != nil && c.Call.StaticCallee().Pkg.Pkg.Path() == "time" && (c.Call.StaticCallee().Name() == "After" || c.Call.StaticCallee().Name() == "NewTimer" || c.Call.StaticCallee().Name() == "Sleep")
	}
	isHandOver := func(ins ssa.Instruction) bool {
		switch x := ins.(type) {
		case *ssa.Select:
			for _, st := range x.States {
				if st.Dir == types.SendOnly {
					return true
				}
			}
		case *ssa.Send:
			return true
		}
		return false
	}
	n := 0
	var bad []string
	for _, b := range an.Blocks(fn) {
		iff, ci := an.IfCond(b)
		if iff == nil || ci == nil {
			continue
		}
		c, isCall := ci.X.(*ssa.Call)
		if !isCall || c.Call.StaticCallee() == nil || c.Call.StaticCallee().Pkg == nil || c.Call.StaticCallee().Pkg.Pkg.Path() != "errors" || c.Call.StaticCallee().Name() != "Is" {
			continue
		}
		n++
		target := clean(an.Shape(c.Call.Args[1]))
		trueIdx := 0
		if ci.Neg {
			trueIdx = 1
		}
		q := an.PathQuery{Fn: fn, Stop: isAfter, Target: isHandOver, Edge: func(from *ssa.BasicBlock, i int) bool {
			// other errors.Is tests on the way are taken on their "no" edge: each arm is judged on its own
			if from == b {
				return i == trueIdx
			}
			return true
		}}
		if hit := q.ReachableFrom(an.Point{B: b, Idx: len(b.Instrs) - 2}); hit != nil {
			if !strings.Contains(target, "27") && !strings.Contains(target, "RebalanceInProgress") {
				bad = append(bad, fmt.Sprintf("errors.Is(err, %s) at %s reaches the hand-over of the error without the back-off", target, p.Pos(c.Pos())))
			}
		}
	}
	sort.Strings(bad)
	r.Check(n >= 2 && len(bad) == 0, rule, "ConsumerGroup.run → the arm that skips time.After(JoinGroupBackoff) is the RebalanceInProgress arm", p.Pos(fn.Pos()), "case errors.Is(err, RebalanceInProgress): (no back-off); default: backoff = time.After(…)", strings.Join(bad, "; "))
}

// c16FrameLength: the xerial framing puts no bound on the length of a block; the reader sizes its input buffer from
// the announced length and must not refuse a length (snappy-java with a larger block size, or the codec's own writer
// after its buffer grew, produce frames larger than 32 KiB). Decided: in xerialReader.readChunk the frame length is
// compared with the capacity of the input buffer only.
func c16FrameLength(p *load.Program, r *oblig.Report) {
	const rule = "C16.R9 the xerial reader refuses no frame length"
	fn := p.Func("compress/snappy", "(*xerialReader).readChunk")
	if fn == nil {
		r.Lost(rule, "snappy.(*xerialReader).readChunk")
		return
	}
	isFrame := func(v ssa.Value) bool {
		c, ok := stripConvs(v).(*ssa.Call)
		return ok && c.Call.StaticCallee() != nil && c.Call.StaticCallee().Name() == "Uint32"
	}
	n := 0
	var bad []string
	for _, b := range an.Blocks(fn) {
		_, ci := an.IfCond(b)
		if ci == nil {
			continue
		}
		for _, pair := range [][2]ssa.Value{{ci.X, ci.Y}, {ci.Y, ci.X}} {
			if !isFrame(pair[0]) {
				continue
			}
			n++
			other := stripConvs(pair[1])
			okO := false
			if c, isC := other.(*ssa.Call); isC {
				if bi, isB := c.Call.Value.(*ssa.Builtin); isB && (bi.Name() == "cap" || bi.Name() == "len") {
					okO = true
				}
			}
			if !okO {
				bad = append(bad, "the frame length is compared with "+clean(an.Shape(other)))
			}
		}
	}
	sort.Strings(bad)
	r.Check(n >= 1 && len(bad) == 0, rule, "xerialReader.readChunk compares the frame length with cap(x.input) only", p.Pos(fn.Pos()), "if cap(x.input) < frame { x.input = make(…) }", strings.Join(bad, "; "))
}

// c16OutputFromOffset: x.output holds the block decoded last, x.offset how much of it was handed out. Read and
// WriteTo may be mixed (bufio.Reader.WriteTo, io.Copy after a Peek): whatever is handed out starts at x.offset.
func c16OutputFromOffset(p *load.Program, r *oblig.Report) {
	const rule = "C16.R10 the xerial reader hands out its decoded block from the current offset"
	n := 0
	var bad []string
	for _, name := range []string{"Read", "WriteTo"} {
		fn := p.Func("compress/snappy", "(*xerialReader)."+name)
		if fn == nil {
			r.Lost(rule, "snappy.(*xerialReader)."+name)
			continue
		}
		isOutput := func(v ssa.Value) bool {
			ld, ok := v.(*ssa.UnOp)
			if !ok || ld.Op != token.MUL {
				return false
			}
			fa, isFa := ld.X.(*ssa.FieldAddr)
			return isFa && an.FieldName(fa.X.Type(), fa.Field) == "output"
		}
		chk := func(at ssa.Instruction, v ssa.Value) {
			switch x := v.(type) {
			case *ssa.Slice:
				if isOutput(x.X) {
					n++
					if x.Low == nil || !strings.Contains(clean(an.Shape(x.Low)), ".offset") {
						bad = append(bad, name+" hands out x.output from its start at "+p.Pos(at.Pos()))
					}
				}
			default:
				if isOutput(v) {
					n++
					bad = append(bad, name+" hands out the whole of x.output at "+p.Pos(at.Pos()))
				}
			}
		}
		an.EachInstr(fn, func(ins ssa.Instruction) {
			c, ok := ins.(*ssa.Call)
			if !ok {
				return
			}
			if c.Call.IsInvoke() && c.Call.Method.Name() == "Write" {
				chk(c, c.Call.Args[0])
			}
			if bi, isB := c.Call.Value.(*ssa.Builtin); isB && bi.Name() == "copy" {
				chk(c, c.Call.Args[1])
			}
		})
	}
	sort.Strings(bad)
	r.Check(n >= 2 && len(bad) == 0, rule, "xerialReader.Read/WriteTo → copy and Write take x.output[x.offset:]", "compress/snappy/xerial.go", "w.Write(x.output[x.offset:]); copy(b, x.output[x.offset:])", strings.Join(bad, "; "))
}

// c17MergeFailures: a response assembled from several brokers' answers is complete only if every sub-request
// succeeded. The mergers that have no per-element place for a failure (ListGroups, DescribeGroups, DescribeConfigs)
// must fail as a whole on the first failed sub-result; ListOffsets records the failure on the partitions of the
// failed sub-request instead (C19.R4) and is the one reviewed exception.
func c17MergeFailures(p *load.Program, r *oblig.Report, rule string) {
	n := 0
	for _, rel := range []string{"protocol/listgroups", "protocol/describegroups", "protocol/describeconfigs"} {
		fn := p.Func(rel, "(*Response).Merge")
		construct := rel + ".(*Response).Merge fails when a sub-request failed"
		if fn == nil {
			r.Lost(rule, construct)
			continue
		}
		found, okAll := 0, true
		why := ""
		an.EachInstr(fn, func(ins ssa.Instruction) {
			c, ok := ins.(*ssa.Call)
			if !ok || c.Call.StaticCallee() == nil || c.Call.StaticCallee().Name() != "Result" {
				return
			}
			found++
			// the err != nil edge leads straight to a return of that error
			var errV ssa.Value
			for _, ref := range *c.Referrers() {
				if ex, isEx := ref.(*ssa.Extract); isEx && ex.Index == 1 {
					errV = ex
				}
			}
			if errV == nil {
				okAll, why = false, "the error of protocol.Result is discarded"
				return
			}
			tested := false
			for _, b := range an.Blocks(fn) {
				_, ci := an.IfCond(b)
				if e := ci.Edge(token.NEQ); e >= 0 && an.Unwrap(ci.X) == errV && an.IsNilConst(ci.Y) {
					tested = true
					blk := b.Succs[e]
					for len(blk.Instrs) == 1 {
						if j, isJ := blk.Instrs[0].(*ssa.Jump); isJ {
							_ = j
							blk = blk.Succs[0]
							continue
						}
						break
					}
					ret, isRet := blk.Instrs[len(blk.Instrs)-1].(*ssa.Return)
					if !isRet || len(ret.Results) == 0 || an.IsNilConst(an.RetVal(ret, len(ret.Results)-1)) {
						okAll, why = false, "the failure edge at "+p.Pos(b.Instrs[len(b.Instrs)-1].Pos())+" does not return the error"
					}
				}
			}
			if !tested {
				okAll, why = false, "the error of protocol.Result is not tested"
			}
		})
		n += found
		r.Check(found >= 1 && okAll, rule, construct, p.Pos(fn.Pos()), "m, err := protocol.Result(result); if err != nil { return nil, err }", why)
	}
	r.RequireCount(rule, n, 3)
}

// c19AwaitAll: a request split per broker is answered by merging every part; a part that failed is handed to the
// merger as its error, which is how ListOffsets reports an unreachable leader on that leader's partitions only.
// Decided: (*joined).await returns nothing but the result of merger.Merge.
func c19AwaitAll(p *load.Program, r *oblig.Report, rule string) {
	fn := p.Func("", "(*joined).await")
	if fn == nil {
		r.Lost(rule, "kafka.(*joined).await")
		return
	}
	n := 0
	var bad []string
	an.EachInstr(fn, func(ins ssa.Instruction) {
		ret, ok := ins.(*ssa.Return)
		if !ok || ret.Parent() != fn {
			return
		}
		n++
		okR := false
		if ex, isEx := an.Unwrap(an.RetVal(ret, 0)).(*ssa.Extract); isEx {
			if c, isC := ex.Tuple.(*ssa.Call); isC && c.Call.IsInvoke() && c.Call.Method.Name() == "Merge" {
				okR = true
			}
		}
		if !okR {
			bad = append(bad, "the return at "+p.Pos(ret.Pos())+" does not come from the merger")
		}
	})
	sort.Strings(bad)
	r.Check(n >= 1 && len(bad) == 0, rule, "(*joined).await waits for every part and returns what the merger makes of them", p.Pos(fn.Pos()), "results[i] = err / m for every promise; return p.merger.Merge(p.requests, results)", strings.Join(bad, "; "))
}

// c15KeepMemberID: joinGroup has no member id to give back when it fails. nextGeneration must then hand run() the id
// it was called with (as it already does when the coordinator cannot be reached): that is the id the coordinator still
// knows the member by, and the one run()'s leave logic and Close leave the group with.
func c15KeepMemberID(p *load.Program, r *oblig.Report, rule string) {
	fn := p.Func("", "(*ConsumerGroup).nextGeneration")
	if fn == nil {
		r.Lost(rule, "kafka.(*ConsumerGroup).nextGeneration")
		return
	}
	var join *ssa.Call
	an.EachInstr(fn, func(ins ssa.Instruction) {
		if c, ok := ins.(*ssa.Call); ok && c.Parent() == fn && c.Call.StaticCallee() != nil && an.RefFuncName(c.Call.StaticCallee()) == "joinGroup" {
			join = c
		}
	})
	if join == nil || len(fn.Params) < 2 {
		r.Bad(rule, "ConsumerGroup.nextGeneration → joinGroup", p.Pos(fn.Pos()), "a call of cg.joinGroup", "not found")
		return
	}
	okRet, found := false, "no error test of joinGroup"
	for _, b := range an.Blocks(fn) {
		_, ci := an.IfCond(b)
		e := ci.Edge(token.NEQ)
		if e < 0 || !an.IsNilConst(ci.Y) {
			continue
		}
		ex, isEx := an.Unwrap(an.CellValueAt(ci.X)).(*ssa.Extract)
		if !isEx || ex.Tuple != ssa.Value(join) {
			continue
		}
		// every return reached on the failure edge hands back the id the coordinator knows the member by: the one
		// joinGroup returns when it is not empty (the join was accepted, the leader's assignment failed afterwards),
		// else the one nextGeneration was called with — never an empty id for a member that exists
		var joined ssa.Value
		for _, ref := range *join.Referrers() {
			if x, isX := ref.(*ssa.Extract); isX && x.Index == 0 {
				joined = x
			}
		}
		emptyTested := false
		for _, b2 := range an.Blocks(fn) {
			_, c2 := an.IfCond(b2)
			if c2 == nil || (c2.Op != token.NEQ && c2.Op != token.EQL) {
				continue
			}
			for _, pr := range [][2]ssa.Value{{c2.X, c2.Y}, {c2.Y, c2.X}} {
				if k, isK := pr[1].(*ssa.Const); isK && k.Value != nil && k.Value.Kind() == constant.String && constant.StringVal(k.Value) == "" {
					if an.Unwrap(an.CellValueAt(pr[0])) == joined || an.Unwrap(pr[0]) == joined {
						emptyTested = true
					}
				}
			}
		}
		q := an.PathQuery{Fn: fn, Target: func(i ssa.Instruction) bool {
			ret, isRet := i.(*ssa.Return)
			if !isRet || ret.Parent() != fn {
				return false
			}
			seen := map[ssa.Value]bool{}
			hasParam, hasJoined := false, false
			var bad func(v ssa.Value) bool
			bad = func(v ssa.Value) bool {
				v = an.Unwrap(v)
				if seen[v] {
					return false
				}
				seen[v] = true
				switch x := v.(type) {
				case *ssa.Phi:
					for _, e := range x.Edges {
						if bad(e) {
							return true
						}
					}
					return false
				case *ssa.UnOp:
					if a, isA := x.X.(*ssa.Alloc); isA && x.Op == token.MUL {
						for _, ref := range *a.Referrers() {
							if st, isSt := ref.(*ssa.Store); isSt && st.Addr == ssa.Value(a) && bad(st.Val) {
								return true
							}
						}
						return false
					}
				}
				if v == ssa.Value(fn.Params[1]) {
					hasParam = true
					return false
				}
				if v == joined {
					hasJoined = true
					return !emptyTested
				}
				return true
			}
			return bad(an.RetVal(ret, 0)) || !hasParam || !hasJoined
		}}
		hit := q.ReachableFrom(an.Point{B: b.Succs[e], Idx: -1})
		okRet = hit == nil
		found = ""
		if hit != nil {
			found = "the failure exit at " + p.Pos(hit.Pos()) + " returns " + clean(an.Shape(an.RetVal(hit.(*ssa.Return), 0))) + " as the member id"
		}
	}
	r.Check(okRet, rule, "ConsumerGroup.nextGeneration → a failed joinGroup hands back the member id it was called with", p.Pos(join.Pos()), "joinedID, … := cg.joinGroup(conn, memberID); if err != nil { if joinedID != \"\" { memberID = joinedID }; return memberID, err }", found)
}

// c09WriterLookupDeadline: Writer.partitions calls the transport directly, which goes around the client's timeout;
// with a context that never ends and a broker that stops answering, WriteMessages — and Close, which waits for it —
// would block for ever. Decided: the context handed to RoundTrip in Writer.partitions comes from
// context.WithTimeout/WithDeadline on every path where the client has a timeout.
func c09WriterLookupDeadline(p *load.Program, r *oblig.Report) {
	const rule = "C09.R8 the Writer's metadata lookup is bounded by a timeout"
	fn := p.Func("", "(*Writer).partitions")
	if fn == nil {
		r.Lost(rule, "kafka.(*Writer).partitions")
		return
	}
	n, okAll := 0, true
	found := ""
	an.EachInstr(fn, func(ins ssa.Instruction) {
		c, ok := ins.(*ssa.Call)
		if !ok || !c.Call.IsInvoke() || c.Call.Method.Name() != "RoundTrip" {
			return
		}
		n++
		bounded := false
		seen := map[ssa.Value]bool{}
		var walk func(v ssa.Value)
		walk = func(v ssa.Value) {
			if seen[v] {
				return
			}
			seen[v] = true
			switch x := v.(type) {
			case *ssa.Phi:
				for _, e := range x.Edges {
					walk(e)
				}
			case *ssa.Extract:
				if call, isC := x.Tuple.(*ssa.Call); isC && call.Call.StaticCallee() != nil && call.Call.StaticCallee().Pkg != nil && call.Call.StaticCallee().Pkg.Pkg.Path() == "context" {
					if nm := call.Call.StaticCallee().Name(); nm == "WithTimeout" || nm == "WithDeadline" {
						bounded = true
					}
				}
			case *ssa.UnOp:
				if cv := an.CellValueAt(x); cv != ssa.Value(x) {
					walk(cv)
				}
			}
		}
		walk(c.Call.Args[0])
		if !bounded {
			okAll = false
			found = "the context of the round trip at " + p.Pos(c.Pos()) + " is " + clean(an.Shape(c.Call.Args[0]))
		}
	})
	r.Check(n >= 1 && okAll, rule, "(*Writer).partitions → RoundTrip runs under context.WithTimeout(ctx, client.Timeout)", p.Pos(fn.Pos()), "if client.Timeout > 0 { ctx, cancel = context.WithTimeout(ctx, client.Timeout); defer cancel() }", found)
}

// c19TopicErrorFirst: a topic in error lists no partition; ConsumerOffsets must fail on it instead of fetching the
// offsets of no partition and answering an empty map.
func c19TopicErrorFirst(p *load.Program, r *oblig.Report, rule string) {
	fn := p.Func("", "(*Client).ConsumerOffsets")
	if fn == nil {
		r.Lost(rule, "kafka.(*Client).ConsumerOffsets")
		return
	}
	// a test of metadata.Topics[0].Error whose non-nil edge returns an error, before OffsetFetch
	var fetch *ssa.Call
	an.EachInstr(fn, func(ins ssa.Instruction) {
		if c, ok := ins.(*ssa.Call); ok && c.Call.StaticCallee() != nil && an.RefFuncName(c.Call.StaticCallee()) == "OffsetFetch" {
			fetch = c
		}
	})
	okT := false
	for _, b := range an.Blocks(fn) {
		iff, ci := an.IfCond(b)
		e := ci.Edge(token.NEQ)
		if iff == nil || e < 0 || !an.IsNilConst(ci.Y) {
			continue
		}
		sh := clean(an.Shape(ci.X))
		if !strings.Contains(sh, "Topics[0]") || !strings.HasSuffix(sh, ".Error") || strings.Contains(sh, "Partitions") {
			continue
		}
		blk := b.Succs[e]
		// the non-nil edge returns a non-nil error and never reaches the fetch
		reachesFetch := fetch != nil && an.PathQuery{Fn: fn, Target: func(i ssa.Instruction) bool { return i == ssa.Instruction(fetch) }}.ReachableFrom(an.Point{B: blk, Idx: -1}) != nil
		if !reachesFetch && (fetch == nil || an.Dominates(iff, fetch)) {
			okT = true
		}
	}
	r.Check(okT && fetch != nil, rule, "kafka.(*Client).ConsumerOffsets fails when the topic's metadata carries an error", p.Pos(fn.Pos()), "topic := metadata.Topics[0]; if topic.Error != nil { return nil, … } before the offsets are fetched", "no such test before OffsetFetch")
}

// c06ReadAccounting: Batch.Read hands readMessage a callback for the value; what the callback returns is the number of
// response bytes left, from which Batch.close computes how much to drain before the read lock is released. The value
// may be longer than the caller's buffer: the rest of it must be consumed (discardN) — or counted as not consumed.
// Decided: every return of the callbacks of Batch.Read reports `size` untouched, `size` minus the bytes io.ReadFull
// actually read, or the result of discardN.
func c06ReadAccounting(p *load.Program, r *oblig.Report) {
	const rule = "C06.R9 Batch.Read accounts for the bytes it really consumed"
	fn := p.Func("", "(*Batch).Read")
	if fn == nil {
		r.Lost(rule, "kafka.(*Batch).Read")
		return
	}
	n := 0
	var bad []string
	for _, cb := range fn.AnonFuncs {
		if len(cb.Params) != 3 || cb.Signature.Results().Len() != 2 {
			continue
		}
		size := cb.Params[1]
		for _, b := range cb.Blocks {
			ret, ok := b.Instrs[len(b.Instrs)-1].(*ssa.Return)
			if !ok {
				continue
			}
			n++
			seen := map[ssa.Value]bool{}
			var okV func(v ssa.Value) bool
			okV = func(v ssa.Value) bool {
				if seen[v] {
					return true
				}
				seen[v] = true
				switch x := v.(type) {
				case *ssa.Parameter:
					return x == size
				case *ssa.Phi:
					for _, e := range x.Edges {
						if !okV(e) {
							return false
						}
					}
					return true
				case *ssa.Extract:
					c, isC := x.Tuple.(*ssa.Call)
					return isC && x.Index == 0 && c.Call.StaticCallee() != nil && an.RefFuncName(c.Call.StaticCallee()) == "discardN"
				case *ssa.BinOp:
					if x.Op != token.SUB || x.X != ssa.Value(size) {
						return false
					}
					ex, isEx := x.Y.(*ssa.Extract)
					if !isEx || ex.Index != 0 {
						return false
					}
					c, isC := ex.Tuple.(*ssa.Call)
					return isC && c.Call.StaticCallee() != nil && c.Call.StaticCallee().Name() == "ReadFull"
				}
				return false
			}
			if v := an.RetVal(ret, 0); !okV(v) {
				bad = append(bad, fmt.Sprintf("the callback returns %s at %s", clean(an.Shape(v)), p.Pos(ret.Pos())))
			}
		}
	}
	sort.Strings(bad)
	r.Check(n >= 4 && len(bad) == 0, rule, "kafka.(*Batch).Read → its callbacks report size, size − bytes read, or what discardN left", p.Pos(fn.Pos()), "return size, …; return size - nbytes, err (nbytes from io.ReadFull); return discardN(r, size-nbytes, n-nbytes)", strings.Join(bad, "; "))
}

// c13WriterBalancer: RoundRobin (and LeastBytes, CRC32…) keep their state between calls; a Writer without a
// configured Balancer falls back to its own RoundRobin, which must be one object for the life of the Writer.
// Decided: (*Writer).balancer returns w.Balancer or the address of a field of the Writer, never a fresh value.
func c13WriterBalancer(p *load.Program, r *oblig.Report) {
	const rule = "C13.R9 the Writer's default balancer keeps its state between calls"
	fn := p.Func("", "(*Writer).balancer")
	if fn == nil {
		r.Lost(rule, "kafka.(*Writer).balancer")
		return
	}
	n := 0
	var bad []string
	an.EachInstr(fn, func(ins ssa.Instruction) {
		ret, ok := ins.(*ssa.Return)
		if !ok || ret.Parent() != fn || len(ret.Results) != 1 {
			return
		}
		var chk func(v ssa.Value)
		seen := map[ssa.Value]bool{}
		chk = func(v ssa.Value) {
			if seen[v] {
				return
			}
			seen[v] = true
			n++
			switch x := v.(type) {
			case *ssa.Phi:
				n--
				for _, e := range x.Edges {
					chk(e)
				}
			case *ssa.MakeInterface:
				if fa, isFa := x.X.(*ssa.FieldAddr); isFa {
					if _, isParam := fa.X.(*ssa.Parameter); isParam {
						return
					}
				}
				bad = append(bad, "returns "+clean(an.Shape(x.X))+" at "+p.Pos(ret.Pos()))
			case *ssa.UnOp:
				if fa, isFa := x.X.(*ssa.FieldAddr); isFa && an.FieldName(fa.X.Type(), fa.Field) == "Balancer" {
					return
				}
				bad = append(bad, "returns "+clean(an.Shape(v))+" at "+p.Pos(ret.Pos()))
			default:
				bad = append(bad, "returns "+clean(an.Shape(v))+" at "+p.Pos(ret.Pos()))
			}
		}
		chk(an.RetVal(ret, 0))
	})
	sort.Strings(bad)
	r.Check(n >= 2 && len(bad) == 0, rule, "(*Writer).balancer returns w.Balancer or a balancer stored in the Writer", p.Pos(fn.Pos()), "if w.Balancer != nil { return w.Balancer }; return &w.roundRobin", strings.Join(bad, "; "))
}

// c05TimeSiblings: the Client.Fetch path (package protocol) and the Conn/Reader path (root package) each have their own
// makeTime/timestamp pair. "Decoded to the same records by both paths" needs the two makeTime functions to agree, in
// particular on "no timestamp" (-1) and on the 0 that timestamp() writes for the zero time: both answer the zero time
// for t <= 0. Decided: both functions return the same shapes up to the time zone call of the root package.
func c05TimeSiblings(p *load.Program, r *oblig.Report) {
	const rule = "C05.R15 both decode paths turn a wire timestamp into the same time"
	n := 0
	for _, rel := range []string{"", "protocol"} {
		fn := p.Func(rel, "makeTime")
		name := "kafka.makeTime"
		if rel != "" {
			name = "protocol.makeTime"
		}
		if fn == nil {
			r.Lost(rule, name)
			continue
		}
		n++
		// the one test on the parameter, evaluated for -1, 0 and 1: which return is reached
		table := map[int64]string{}
		for _, b := range an.Blocks(fn) {
			_, ci := an.IfCond(b)
			if ci == nil {
				continue
			}
			x, y, op := ci.X, ci.Y, ci.Op
			if _, isK := an.ConstInt(x); isK {
				x, y, op = y, x, flipOp(op)
			}
			k, isK := an.ConstInt(y)
			if !isK || stripConvs(x) != ssa.Value(fn.Params[0]) {
				continue
			}
			for _, t := range []int64{-1, 0, 1} {
				holds := false
				switch op {
				case token.LSS:
					holds = t < k
				case token.LEQ:
					holds = t <= k
				case token.GTR:
					holds = t > k
				case token.GEQ:
					holds = t >= k
				case token.EQL:
					holds = t == k
				case token.NEQ:
					holds = t != k
				}
				if ci.Neg {
					holds = !holds
				}
				succ := b.Succs[1]
				if holds {
					succ = b.Succs[0]
				}
				// the return reached from that successor
				kind := "?"
				hit := an.PathQuery{Fn: fn, Target: func(i ssa.Instruction) bool { _, isRet := i.(*ssa.Return); return isRet }}.ReachableFrom(an.Point{B: succ, Idx: -1})
				if ret, isRet := hit.(*ssa.Return); isRet {
					v := an.RetVal(ret, 0)
					if ph, isPhi := v.(*ssa.Phi); isPhi {
						for i2, pred := range ph.Block().Preds {
							if pred == succ || succ.Dominates(pred) || (succ == ph.Block() && pred == b) {
								v = ph.Edges[i2]
							}
						}
					}
					sh := clean(an.ShapeCanon(v))
					switch {
					case strings.Contains(sh, "Unix("):
						kind = "unix"
					default:
						kind = "zero"
					}
				}
				table[t] = kind
			}
		}
		got := fmt.Sprintf("-1→%s 0→%s 1→%s", table[-1], table[0], table[1])
		r.Check(got == "-1→zero 0→zero 1→unix", rule, name+" answers the zero time for t <= 0 and the Unix time in milliseconds otherwise", p.Pos(fn.Pos()), "-1→zero 0→zero 1→unix", got)
	}
	r.RequireCount(rule, n, 2)
}

// c11ApiVersionsCount: the inline ApiVersions decoder sizes its result from the announced count; the count must be
// proven non-negative and bounded by the bytes of the response before the allocation (a null array panicked, a large
// count allocated before the first read failed). Decided with the wire-length taint analysis restricted to
// readApiVersionsResponse: the count comes back through the pointer handed to readInt32, `size` and what the readers
// return are the bounds.
func c11ApiVersionsCount(p *load.Program, r *oblig.Report) {
	const rule = "C11.R13 the inline ApiVersions decoder accounts for the whole frame"
	fn := p.Func("", "(*Conn).readApiVersionsResponse")
	if fn == nil {
		r.Lost(rule, "kafka.(*Conn).readApiVersionsResponse")
		return
	}
	var isSize func(v ssa.Value) bool
	isSize = func(v ssa.Value) bool {
		switch x := v.(type) {
		case *ssa.Parameter:
			return x.Parent() == fn && types.Identical(x.Type(), types.Typ[types.Int])
		case *ssa.Extract:
			if c, ok := x.Tuple.(*ssa.Call); ok && x.Index == 0 && c.Call.StaticCallee() != nil && strings.HasPrefix(an.RefFuncName(c.Call.StaticCallee()), "readInt") {
				return true
			}
		case *ssa.Phi:
			for _, e := range x.Edges {
				if !isSize(e) {
					return false
				}
			}
			return len(x.Edges) > 0
		case *ssa.BinOp:
			if x.Op == token.QUO {
				if _, isK := x.Y.(*ssa.Const); isK {
					return isSize(x.X)
				}
			}
		case *ssa.UnOp:
			if a, ok := x.X.(*ssa.Alloc); ok && x.Op == token.MUL {
				n := 0
				for _, ref := range *a.Referrers() {
					if st, isSt := ref.(*ssa.Store); isSt && st.Addr == ssa.Value(a) {
						n++
						if !isSize(st.Val) {
							return false
						}
					}
				}
				return n > 0
			}
		}
		return false
	}
	cfg := an.TaintConfig{
		InScope: func(f *ssa.Function) bool { return f == fn },
		OutSource: func(c *ssa.Call) (int, string, bool) {
			if f := c.Call.StaticCallee(); f != nil && an.RefFuncName(f) == "readInt32" && f.Pkg == p.SSAPkg("") {
				return 2, "readInt32", true
			}
			return 0, "", false
		},
		IsBoundExpr: func(v ssa.Value) bool {
			if _, isK := v.(*ssa.Const); isK {
				return true
			}
			return isSize(v)
		},
	}
	sinks := an.RunTaint([]*ssa.Function{fn}, cfg)
	n := 0
	for _, s := range sinks {
		if s.Kind != "make-len" && s.Kind != "make-cap" {
			continue
		}
		n++
		facts := append([]string{fmt.Sprintf("lower bound proven: %v, upper bound proven: %v", s.Lo, s.Hi)}, s.Why...)
		r.Check(s.Lo && s.Hi, rule, "kafka.(*Conn).readApiVersionsResponse → the announced number of entries is checked against the bytes left before the slice is made", p.Pos(s.Ins.Pos()),
			"if arrSize < 0 || int(arrSize) > size/6 { error }", fmt.Sprintf("non-negative=%v bounded=%v", s.Lo, s.Hi), facts...)
	}
	r.RequireCount(rule+" (count sink)", n, 1)
}

// c20RequestedOnly: Client.ListOffsets files every partition of the response under the entry prepared for it from the
// request. A partition that was not requested has no entry: writing through the zero value panics (nil offsets map)
// or fabricates a result for partition 0. Decided: every lookup in the table of prepared entries is a comma-ok lookup
// whose miss edge does not reach a write through the value.
func c20RequestedOnly(p *load.Program, r *oblig.Report, rule string) {
	fn := p.Func("", "(*Client).ListOffsets")
	if fn == nil {
		r.Lost(rule, "kafka.(*Client).ListOffsets")
		return
	}
	n := 0
	var bad []string
	an.EachInstr(fn, func(ins ssa.Instruction) {
		lk, ok := ins.(*ssa.Lookup)
		if !ok {
			return
		}
		mt, isMap := lk.X.Type().Underlying().(*types.Map)
		if !isMap || !an.NamedIs(mt.Elem(), load.ModPath, "PartitionOffsets") {
			return
		}
		n++
		if !lk.CommaOk {
			bad = append(bad, "the lookup at "+p.Pos(lk.Pos())+" does not test whether the partition was requested")
			return
		}
		tested := false
		for _, ref := range *lk.Referrers() {
			if ex, isEx := ref.(*ssa.Extract); isEx && ex.Index == 1 {
				for _, u := range *ex.Referrers() {
					if _, isIf := u.(*ssa.If); isIf {
						tested = true
					}
					if un, isUn := u.(*ssa.UnOp); isUn && un.Op == token.NOT {
						for _, u2 := range *un.Referrers() {
							if _, isIf := u2.(*ssa.If); isIf {
								tested = true
							}
						}
					}
				}
			}
		}
		if !tested {
			bad = append(bad, "the result of the lookup at "+p.Pos(lk.Pos())+" is used whether or not the partition was requested")
		}
	})
	sort.Strings(bad)
	r.Check(n >= 1 && len(bad) == 0, rule, "kafka.(*Client).ListOffsets files a partition of the response only under an entry prepared from the request", p.Pos(fn.Pos()), "partition, requested := partitionOffsets[key]; if !requested { continue }", strings.Join(bad, "; "))
}

// c20ArrayIndex: a decoder that collects wire bytes into a fixed-size scratch array must not index past it. Decided
// (only the provable cases, so that nothing is reported on a bound the analysis cannot see): an index into a fixed-size
// array by a loop counter that runs from a constant up to a constant bound K needs K <= the array's length.
func c20ArrayIndex(p *load.Program, r *oblig.Report) {
	const rule = "C20.R6 loop-indexed scratch arrays of the decoder are large enough"
	n := 0
	var bad []string
	for _, fn := range p.EveryModuleFunction() {
		top := fn
		for top.Parent() != nil {
			top = top.Parent()
		}
		if top.Pkg == nil || !strings.HasPrefix(top.Pkg.Pkg.Path(), protoPath) {
			continue
		}
		for _, b := range fn.Blocks {
			for _, ins := range b.Instrs {
				ia, ok := ins.(*ssa.IndexAddr)
				if !ok {
					continue
				}
				pt, isPtr := ia.X.Type().Underlying().(*types.Pointer)
				if !isPtr {
					continue
				}
				arr, isArr := pt.Elem().Underlying().(*types.Array)
				if !isArr {
					continue
				}
				ph, isPhi := ia.Index.(*ssa.Phi)
				if !isPhi {
					continue
				}
				n++
				// the loop test on the counter
				for _, ref := range *ph.Referrers() {
					bo, isBo := ref.(*ssa.BinOp)
					if !isBo || bo.X != ssa.Value(ph) {
						continue
					}
					k, isK := an.ConstInt(bo.Y)
					if !isK {
						// a bound that is a constant on some path (n := 11; if n > remain { n = remain })
						if bph, isB := bo.Y.(*ssa.Phi); isB {
							for _, e := range bph.Edges {
								if c, isC := an.ConstInt(e); isC && (!isK || c > k) {
									k, isK = c, true
								}
							}
						}
					}
					if !isK {
						continue
					}
					limit := int64(-1)
					switch bo.Op {
					case token.LSS:
						limit = k
					case token.LEQ:
						limit = k + 1
					}
					if limit > arr.Len() {
						bad = append(bad, fmt.Sprintf("%s indexes an array of %d elements with a counter that runs up to %d at %s", an.ShortFunc(fn), arr.Len(), limit-1, p.Pos(ia.Pos())))
					}
				}
			}
		}
	}
	sort.Strings(bad)
	r.Check(len(bad) == 0, rule, "package protocol: no fixed-size array is indexed past its end by a constant-bounded loop counter", "protocol/", "for i := 0; i < K; i++ { b[i] … } with K <= len(b)", strings.Join(bad, "; "), fmt.Sprintf("%d loop-indexed fixed-size arrays examined", n))
}

// c01MakeError: a response entry reports success exactly with error code 0; every other code, the negative
// UNKNOWN_SERVER_ERROR (-1) included, is an error. makeError is where the produce (and every other Client) response
// turns a code into the error the Writer acts on.
func c01MakeError(p *load.Program, r *oblig.Report, rule string) {
	fn := p.Func("", "makeError")
	if fn == nil {
		r.Lost(rule, "kafka.makeError")
		return
	}
	n := 0
	var bad []string
	for _, b := range an.Blocks(fn) {
		iff, ci := an.IfCond(b)
		if iff == nil || ci == nil {
			continue
		}
		for _, pr := range [][2]ssa.Value{{ci.X, ci.Y}, {ci.Y, ci.X}} {
			if stripConvs(pr[0]) != ssa.Value(fn.Params[0]) {
				continue
			}
			n++
			k, isK := an.ConstInt(pr[1])
			if !isK || k != 0 || (ci.Op != token.EQL && ci.Op != token.NEQ) {
				bad = append(bad, "the code is tested with "+clean(an.ShapeCanon(iff.Cond)))
			}
		}
	}
	// the nil return sits on the code == 0 edge only
	an.EachInstr(fn, func(ins ssa.Instruction) {
		ret, ok := ins.(*ssa.Return)
		if !ok || ret.Parent() != fn || !an.IsNilConst(an.RetVal(ret, 0)) {
			return
		}
		okEdge := false
		for d, child := ret.Block().Idom(), ret.Block(); d != nil; d, child = d.Idom(), d {
			_, ci := an.IfCond(d)
			if e := ci.Edge(token.EQL); e >= 0 && edgeControls(d, e, child) {
				okEdge = true
			}
		}
		if !okEdge {
			bad = append(bad, "nil is returned at "+p.Pos(ret.Pos())+" outside the code == 0 edge")
		}
	})
	sort.Strings(bad)
	r.Check(n == 1 && len(bad) == 0, rule, "kafka.makeError answers nil for code 0 and for nothing else", p.Pos(fn.Pos()), "if code == 0 { return nil }", strings.Join(bad, "; "))
}

// c02RunFuncAlways: the callbacks handed to readMessage are what store the key and the value of the message being
// built; they are called for a null key or value as well (length -1), which is how a field left over from the record
// decoded before is replaced by nil.
func c02RunFuncAlways(p *load.Program, r *oblig.Report) {
	const rule = "C02.R12 the key and value callbacks run for every record, null fields included"
	fn := p.Func("", "(*messageSetReader).runFunc")
	if fn == nil {
		r.Lost(rule, "kafka.(*messageSetReader).runFunc")
		return
	}
	// after the length was read successfully, every path calls the callback
	var lenCall *ssa.Call
	an.EachInstr(fn, func(ins ssa.Instruction) {
		if c, ok := ins.(*ssa.Call); ok && c.Call.StaticCallee() != nil && strings.Contains(strings.ToLower(an.RefFuncName(c.Call.StaticCallee())), "varint") {
			lenCall = c
		}
	})
	if lenCall == nil || len(fn.Params) < 2 {
		r.Bad(rule, "messageSetReader.runFunc → length of the field", p.Pos(fn.Pos()), "a varint read", "not found")
		return
	}
	cb := fn.Params[len(fn.Params)-1]
	edge := func(from *ssa.BasicBlock, si int) bool {
		_, ci := an.IfCond(from)
		if e := ci.Edge(token.NEQ); e >= 0 && an.IsNilConst(ci.Y) && isErrorType(ci.X.Type()) {
			return si != e
		}
		return true
	}
	ok, miss := an.MustPass(fn, an.PointOf(lenCall), func(i ssa.Instruction) bool {
		c, isC := i.(*ssa.Call)
		return isC && c.Call.Value == ssa.Value(cb)
	}, edge)
	found := ""
	if !ok && miss != nil {
		found = "the exit at " + p.Pos(miss.Pos()) + " is reached without calling the callback"
	}
	r.Check(ok, rule, "kafka.(*messageSetReader).runFunc calls the callback on every path on which the length was read", p.Pos(fn.Pos()), "r.remain, err = rbFunc(r.reader, r.remain, int(length)) unconditionally", found)
}

// c03StartOffsetOnMiss: a partition starts at the group's committed offset; StartOffset applies only when the
// coordinator has none for it, which is what the miss of the lookup says — not the value 0, a legitimate commit.
func c03StartOffsetOnMiss(p *load.Program, r *oblig.Report) {
	const rule = "C03.R15 StartOffset replaces a missing commit only, never a committed value"
	fn := p.Func("", "(*ConsumerGroup).makeAssignments")
	if fn == nil {
		r.Lost(rule, "kafka.(*ConsumerGroup).makeAssignments")
		return
	}
	n := 0
	var bad []string
	an.EachInstr(fn, func(ins ssa.Instruction) {
		lk, ok := ins.(*ssa.Lookup)
		if !ok {
			return
		}
		mt, isMap := lk.X.Type().Underlying().(*types.Map)
		if !isMap {
			return
		}
		if bt, isB := mt.Elem().Underlying().(*types.Basic); !isB || bt.Kind() != types.Int64 {
			return // only the lookup of the committed offset itself
		}
		n++
		if !lk.CommaOk {
			bad = append(bad, "the lookup at "+p.Pos(lk.Pos())+" cannot tell a missing entry from the value 0")
		}
	})
	for _, b := range an.Blocks(fn) {
		iff, ci := an.IfCond(b)
		if iff == nil || ci == nil {
			continue
		}
		for _, pr := range [][2]ssa.Value{{ci.X, ci.Y}, {ci.Y, ci.X}} {
			if _, isK := an.ConstInt(pr[1]); !isK {
				continue
			}
			if bt, isB := pr[0].Type().Underlying().(*types.Basic); isB && bt.Kind() == types.Int64 {
				bad = append(bad, "an offset is compared with a constant: "+clean(an.ShapeCanon(iff.Cond)))
			}
		}
	}
	sort.Strings(bad)
	r.Check(n >= 1 && len(bad) == 0, rule, "ConsumerGroup.makeAssignments falls back to StartOffset on the miss of the offset lookup", p.Pos(fn.Pos()), "offset, ok = partitionOffsets[int(partition)]; if !ok { offset = cg.config.StartOffset }", strings.Join(bad, "; "))
}

// c04RecordVersionBoundary: Produce v3 is the first version that requires record batches (message format 2); v0–v2
// carry message sets. Decided by evaluating the version test of produce.(*Request).Prepare for every version.
func c04RecordVersionBoundary(p *load.Program, r *oblig.Report, rule string) {
	fn := p.Func("protocol/produce", "(*Request).Prepare")
	if fn == nil {
		r.Lost(rule, "produce.(*Request).Prepare")
		return
	}
	param := fn.Params[len(fn.Params)-1]
	// the φ (or constant) that is the record version: a value of type int8 with constant edges 1 and 2
	var ph *ssa.Phi
	an.EachInstr(fn, func(ins ssa.Instruction) {
		x, ok := ins.(*ssa.Phi)
		if !ok || len(x.Edges) != 2 {
			return
		}
		a, okA := an.ConstInt(x.Edges[0])
		b, okB := an.ConstInt(x.Edges[1])
		if okA && okB && ((a == 1 && b == 2) || (a == 2 && b == 1)) {
			ph = x
		}
	})
	if ph == nil {
		r.Bad(rule, "produce.(*Request).Prepare picks message format 1 below Produce v3 and format 2 from v3 on", p.Pos(fn.Pos()), "φ{1, 2} selected by the API version", "no such selection found")
		return
	}
	// the controlling test
	var table []string
	okAll := false
	d := ph.Block().Idom()
	for ; d != nil; d = d.Idom() {
		_, ci := an.IfCond(d)
		if ci == nil {
			continue
		}
		var k int64
		var op token.Token
		switch {
		case stripConvs(ci.X) == ssa.Value(param):
			kk, isK := an.ConstInt(ci.Y)
			if !isK {
				continue
			}
			k, op = kk, ci.Op
		case stripConvs(ci.Y) == ssa.Value(param):
			kk, isK := an.ConstInt(ci.X)
			if !isK {
				continue
			}
			k, op = kk, flipOp(ci.Op)
		default:
			continue
		}
		okAll = true
		for v := int64(0); v <= 9; v++ {
			holds := false
			switch op {
			case token.LSS:
				holds = v < k
			case token.LEQ:
				holds = v <= k
			case token.GTR:
				holds = v > k
			case token.GEQ:
				holds = v >= k
			case token.EQL:
				holds = v == k
			case token.NEQ:
				holds = v != k
			}
			if ci.Neg {
				holds = !holds
			}
			// which edge of the φ does the successor taken lead to?
			succ := d.Succs[1]
			if holds {
				succ = d.Succs[0]
			}
			got := int64(-1)
			for i, pred := range ph.Block().Preds {
				if pred == succ || succ.Dominates(pred) || (succ == ph.Block() && pred == d) {
					if c, isC := an.ConstInt(ph.Edges[i]); isC {
						got = c
					}
				}
			}
			want := int64(2)
			if v < 3 {
				want = 1
			}
			table = append(table, fmt.Sprintf("v%d→%d", v, got))
			if got != want {
				okAll = false
			}
		}
		break
	}
	r.Check(okAll, rule, "produce.(*Request).Prepare picks message format 1 below Produce v3 and format 2 from v3 on", p.Pos(fn.Pos()), "v0→1 v1→1 v2→1 v3→2 … v9→2", strings.Join(table, " "))
}

func flipOp(op token.Token) token.Token {
	switch op {
	case token.LSS:
		return token.GTR
	case token.LEQ:
		return token.GEQ
	case token.GTR:
		return token.LSS
	case token.GEQ:
		return token.LEQ
	}
	return op
}

// c12LeaderSiblings: produce and fetch pick their broker the same way — every partition's leader must exist and all
// partitions of the request must share it ("mismatching leaders" otherwise, which makes the transport split or refuse
// the request). The two functions are siblings: their tests must be the same tests.
func c12LeaderSiblings(p *load.Program, r *oblig.Report) {
	const rule = "C12.R14 produce and fetch requests agree on how the partition leader is found"
	n := 0
	for _, rel := range []string{"protocol/produce", "protocol/fetch"} {
		fn := p.Func(rel, "(*Request).Broker")
		construct := rel + ".(*Request).Broker → every partition's leader exists and is the leader of the partitions seen before"
		if fn == nil {
			r.Lost(rule, construct)
			continue
		}
		n++
		// (1) the leader is looked up in cluster.Brokers with a tested comma-ok lookup
		var lookups []*ssa.Lookup
		an.EachInstr(fn, func(ins ssa.Instruction) {
			if lk, ok := ins.(*ssa.Lookup); ok && lk.CommaOk {
				if mt, isMap := lk.X.Type().Underlying().(*types.Map); isMap && an.NamedIs(mt.Elem(), protoPath, "Broker") {
					lookups = append(lookups, lk)
				}
			}
		})
		fromLookup := func(v ssa.Value) bool {
			// the ID field of the broker found by the lookup
			seen := map[ssa.Value]bool{}
			var walk func(v ssa.Value) bool
			walk = func(v ssa.Value) bool {
				if seen[v] {
					return false
				}
				seen[v] = true
				switch x := v.(type) {
				case *ssa.Field:
					return walk(x.X)
				case *ssa.Extract:
					for _, lk := range lookups {
						if x.Tuple == ssa.Value(lk) && x.Index == 0 {
							return true
						}
					}
				case *ssa.UnOp:
					if fa, ok := x.X.(*ssa.FieldAddr); ok {
						return walk(fa.X)
					}
					if a, ok := x.X.(*ssa.Alloc); ok {
						for _, ref := range *a.Referrers() {
							if st, isSt := ref.(*ssa.Store); isSt && st.Addr == ssa.Value(a) && walk(st.Val) {
								return true
							}
						}
					}
				case *ssa.Alloc:
					for _, ref := range *x.Referrers() {
						if st, isSt := ref.(*ssa.Store); isSt && st.Addr == ssa.Value(x) && walk(st.Val) {
							return true
						}
					}
				}
				return false
			}
			if walk(v) {
				return true
			}
			// the lookup may sit in a helper that did not exist at review time: the value then descends from the
			// cluster's broker table (the zero Broker such a helper returns next to an error is not a source)
			nTable := 0
			for _, o := range an.Origins(v, an.FlowOpts{}) {
				switch {
				case o.Kind == "param" && isClusterParam(o.Val) && strings.HasPrefix(o.Path, ".Brokers[]"):
					nTable++
				case o.Kind == "const" || o.Kind == "alloc":
				default:
					return false
				}
			}
			return nTable > 0
		}
		isBrokerID := func(v ssa.Value) bool {
			switch x := v.(type) {
			case *ssa.Field:
				return an.NamedIs(x.X.Type(), protoPath, "Broker") && an.FieldName(x.X.Type(), x.Field) == "ID"
			case *ssa.UnOp:
				if fa, ok := x.X.(*ssa.FieldAddr); ok {
					return an.NamedIs(derefType(fa.X.Type()), protoPath, "Broker") && an.FieldName(fa.X.Type(), fa.Field) == "ID"
				}
			}
			return false
		}
		// the broker that is returned
		acc := map[ssa.Value]bool{}
		an.EachInstr(fn, func(ins ssa.Instruction) {
			if ret, ok := ins.(*ssa.Return); ok && ret.Parent() == fn && len(ret.Results) == 2 {
				v := an.RetVal(ret, 0)
				if ld, isLd := v.(*ssa.UnOp); isLd {
					acc[ld.X] = true
				}
				acc[v] = true
			}
		})
		isAcc := func(v ssa.Value) bool {
			switch x := v.(type) {
			case *ssa.Field:
				return acc[x.X]
			case *ssa.UnOp:
				if fa, ok := x.X.(*ssa.FieldAddr); ok {
					return acc[fa.X]
				}
			}
			return false
		}
		// (2) a test "the leader found differs from the broker chosen so far" whose yes-edge returns an error
		mismatch := false
		for _, b := range an.Blocks(fn) {
			_, ci := an.IfCond(b)
			if ci == nil || (ci.Op != token.NEQ && ci.Op != token.EQL) {
				continue
			}
			if !isBrokerID(ci.X) || !isBrokerID(ci.Y) {
				continue
			}
			// one side is the broker the function returns (the choice accumulated so far), the other the leader just
			// looked up
			ax, ay := isAcc(ci.X), isAcc(ci.Y)
			if ax != ay && ((ax && fromLookup(ci.Y)) || (ay && fromLookup(ci.X))) {
				mismatch = true
			}
		}
		r.Check(len(lookups) >= 1 && mismatch, rule, construct, p.Pos(fn.Pos()), "b, ok := cluster.Brokers[partition.Leader]; !ok → no leader; b.ID != broker.ID → mismatching leaders", fmt.Sprintf("leader lookups=%d, comparison of the found leader's ID with the chosen broker's ID=%v", len(lookups), mismatch))
	}
	r.RequireCount(rule, n, 2)
	// list-offsets goes to the partition leader as well; its request names one partition (after Split), so there is
	// nothing to compare, but the leader must exist: the zero value of a missed lookup names broker 0
	lo := p.Func("protocol/listoffsets", "(*Request).Broker")
	if lo == nil {
		r.Lost(rule, "listoffsets.(*Request).Broker")
		return
	}
	nLk, okLk := 0, true
	an.EachInstr(lo, func(ins ssa.Instruction) {
		lk, ok := ins.(*ssa.Lookup)
		if !ok {
			return
		}
		if mt, isMap := lk.X.Type().Underlying().(*types.Map); isMap && an.NamedIs(mt.Elem(), protoPath, "Broker") {
			nLk++
			if !lk.CommaOk {
				okLk = false
			}
		}
	})
	r.Check(nLk >= 1 && okLk, rule, "protocol/listoffsets.(*Request).Broker → the partition's leader exists (no request is sent to the zero-value broker)", p.Pos(lo.Pos()), "leader, ok := cluster.Brokers[p.Leader]; if !ok { return …, protocol.NewErrNoLeader(topic, partition) }", fmt.Sprintf("lookups=%d all tested=%v", nLk, okLk))
}

// c12ControllerFromMetadata: the controller the layout names is the one the metadata response names; a layout that
// substitutes another broker sends topic creation to a broker that is not the controller.
func c12ControllerFromMetadata(p *load.Program, r *oblig.Report) {
	const rule = "C12.R15 the cluster layout takes its controller from the metadata response"
	fn := p.Func("", "makeLayout")
	if fn == nil {
		r.Lost(rule, "kafka.makeLayout")
		return
	}
	n := 0
	var bad []string
	an.EachInstr(fn, func(ins ssa.Instruction) {
		st, ok := ins.(*ssa.Store)
		if !ok {
			return
		}
		fa, isFa := st.Addr.(*ssa.FieldAddr)
		if !isFa || an.FieldName(fa.X.Type(), fa.Field) != "Controller" {
			return
		}
		n++
		if s := clean(an.Shape(st.Val)); !strings.HasSuffix(s, ".ControllerID") || strings.Contains(s, "φ") {
			bad = append(bad, "Controller = "+s+" at "+p.Pos(st.Pos()))
		}
	})
	sort.Strings(bad)
	r.Check(n == 1 && len(bad) == 0, rule, "makeLayout → Cluster.Controller is metadataResponse.ControllerID, written once", p.Pos(fn.Pos()), "Controller: metadataResponse.ControllerID", fmt.Sprintf("%d writes; %s", n, strings.Join(bad, "; ")))
}

// c05RelativeInnerOffsets: the messages inside a compressed format-1 wrapper carry offsets relative to the wrapper
// (0, 1, 2, …: their position in the set), whatever Offset field the caller's Message values hold.
func c05RelativeInnerOffsets(p *load.Program, r *oblig.Report) {
	const rule = "C05.R16 inner messages of a compressed message set carry their position as offset"
	fn := p.Func("", "compressMessageSet")
	if fn == nil {
		r.Lost(rule, "kafka.compressMessageSet")
		return
	}
	n := 0
	var bad []string
	an.EachInstr(fn, func(ins ssa.Instruction) {
		c, ok := ins.(*ssa.Call)
		if !ok || c.Call.StaticCallee() == nil || an.RefFuncName(c.Call.StaticCallee()) != "writeMessage" {
			return
		}
		n++
		off := stripConvs(c.Call.Args[1])
		okOff := false
		switch x := off.(type) {
		case *ssa.Phi:
			okOff = true // a loop counter
		case *ssa.Extract:
			if _, isNext := x.Tuple.(*ssa.Next); isNext && x.Index == 1 {
				okOff = true // the key of a range
			}
		case *ssa.BinOp:
			_, isPhi := x.X.(*ssa.Phi)
			okOff = isPhi
		}
		if !okOff {
			bad = append(bad, "writeMessage is given the offset "+clean(an.Shape(c.Call.Args[1]))+" at "+p.Pos(c.Pos()))
		}
	})
	sort.Strings(bad)
	r.Check(n >= 1 && len(bad) == 0, rule, "compressMessageSet → writeMessage(int64(position in the set), …)", p.Pos(fn.Pos()), "for offset, msg := range msgs { wb.writeMessage(int64(offset), …) }", strings.Join(bad, "; "))
}

// c06FreshBytes: what readNewBytes hands out outlives the operation that read it (group assignments, SASL data, keys
// and values): it must own its storage. A slice of the connection's read buffer is overwritten by the next response.
func c06FreshBytes(p *load.Program, r *oblig.Report) {
	const rule = "C06.R10 bytes decoded from a response do not alias the connection's read buffer"
	fn := p.Func("", "readNewBytes")
	if fn == nil {
		r.Lost(rule, "kafka.readNewBytes")
		return
	}
	n := 0
	var bad []string
	an.EachInstr(fn, func(ins ssa.Instruction) {
		ret, ok := ins.(*ssa.Return)
		if !ok || ret.Parent() != fn {
			return
		}
		n++
		seen := map[ssa.Value]bool{}
		var chk func(v ssa.Value)
		chk = func(v ssa.Value) {
			if seen[v] {
				return
			}
			seen[v] = true
			switch x := v.(type) {
			case *ssa.Phi:
				for _, e := range x.Edges {
					chk(e)
				}
			case *ssa.Slice:
				chk(x.X)
			case *ssa.MakeSlice:
			case *ssa.Const:
			case *ssa.UnOp:
				if a, isA := x.X.(*ssa.Alloc); isA && x.Op == token.MUL {
					for _, ref := range *a.Referrers() {
						if st, isSt := ref.(*ssa.Store); isSt && st.Addr == ssa.Value(a) {
							chk(st.Val)
						}
					}
					return
				}
				bad = append(bad, "returns "+clean(an.Shape(v)))
			default:
				bad = append(bad, "returns "+clean(an.Shape(v)))
			}
		}
		chk(an.RetVal(ret, 0))
	})
	sort.Strings(bad)
	r.Check(n >= 1 && len(bad) == 0, rule, "kafka.readNewBytes returns nil or (a slice of) bytes it allocated", p.Pos(fn.Pos()), "b = make([]byte, n); io.ReadFull(r, b)", strings.Join(bad, "; "))
}

// c11ApiVersionsKeepsConn: an error code reported in a completely read ApiVersions response is a broker error: the
// connection stays usable. Only a failure to read the response closes it. Decided: every Close in ApiVersions is
// guarded by the error of the response reader itself, not by a value that may also hold Error(errorCode).
func c11ApiVersionsKeepsConn(p *load.Program, r *oblig.Report) {
	const rule = "C11.R16 a broker error in the ApiVersions response keeps the connection"
	fn := p.Func("", "(*Conn).ApiVersions")
	if fn == nil {
		r.Lost(rule, "kafka.(*Conn).ApiVersions")
		return
	}
	n := 0
	var bad []string
	an.EachInstr(fn, func(ins ssa.Instruction) {
		c, ok := ins.(*ssa.Call)
		if !ok || !isConnClose(&c.Call) {
			return
		}
		n++
		okG := false
		for d, child := c.Block().Idom(), c.Block(); d != nil; d, child = d.Idom(), d {
			_, ci := an.IfCond(d)
			e := ci.Edge(token.NEQ)
			if e < 0 || !an.IsNilConst(ci.Y) || !edgeControls(d, e, child) {
				continue
			}
			for _, v := range []ssa.Value{an.Unwrap(ci.X), an.Unwrap(an.CellValueAt(ci.X))} {
				if ex, isEx := v.(*ssa.Extract); isEx {
					if call, isC := ex.Tuple.(*ssa.Call); isC && call.Call.StaticCallee() != nil && an.RefFuncName(call.Call.StaticCallee()) == "readApiVersionsResponse" {
						okG = true
					}
				}
			}
		}
		if !okG {
			bad = append(bad, "the Close at "+p.Pos(c.Pos())+" is not limited to a failed read of the response")
		}
	})
	sort.Strings(bad)
	r.Check(n >= 1 && len(bad) == 0, rule, "(*Conn).ApiVersions closes the connection only when reading the response failed", p.Pos(fn.Pos()), "errorCode, r, err := c.readApiVersionsResponse(size); if err != nil { c.conn.Close(); … }; if errorCode != 0 { return r, Error(errorCode) }", strings.Join(bad, "; "))
}

// c13CacheLength: loadCachedPartitions(n) must hand out a list of exactly n partitions for every n. When the cached
// list is too short it is rebuilt: the new length must be derived from n (and be at least n), not from the length of
// the list being replaced.
func c13CacheLength(p *load.Program, r *oblig.Report) {
	const rule = "C13.R8 the partition list offered to a balancer has the requested length"
	fn := p.Func("", "loadCachedPartitions")
	if fn == nil {
		r.Lost(rule, "kafka.loadCachedPartitions")
		return
	}
	n := 0
	var bad []string
	an.EachInstr(fn, func(ins ssa.Instruction) {
		mk, ok := ins.(*ssa.MakeSlice)
		if !ok {
			return
		}
		n++
		// every leaf of the length expression that is not a constant is the parameter
		seen := map[ssa.Value]bool{}
		fromParam, other := false, ""
		var walk func(v ssa.Value)
		walk = func(v ssa.Value) {
			if seen[v] {
				return
			}
			seen[v] = true
			switch x := v.(type) {
			case *ssa.Const:
			case *ssa.Parameter:
				fromParam = true
			case *ssa.BinOp:
				walk(x.X)
				walk(x.Y)
			case *ssa.Convert:
				walk(x.X)
			case *ssa.Phi:
				for _, e := range x.Edges {
					walk(e)
				}
			default:
				other = clean(an.Shape(v))
			}
		}
		walk(mk.Len)
		if !fromParam || other != "" {
			bad = append(bad, fmt.Sprintf("the list is rebuilt with length %s at %s", clean(an.Shape(mk.Len)), p.Pos(mk.Pos())))
		}
	})
	sort.Strings(bad)
	r.Check(n == 1 && len(bad) == 0, rule, "loadCachedPartitions rebuilds the list with a length computed from the requested count only", p.Pos(fn.Pos()), "n := ((numPartitions / alignment) + 1) * alignment; partitions = make([]int, n)", strings.Join(bad, "; "))
}

// c14RawRackKeys: RackAffinity matches the rack a member announces (its UserData) with the rack of the partition
// leaders; the two come from different places (client configuration, broker metadata) and are compared as map keys.
// Decided: both keys are the raw strings — normalising one side only makes equal racks differ.
func c14RawRackKeys(p *load.Program, r *oblig.Report) {
	const rule = "C14.R10 member racks and leader racks are matched as given"
	fn := p.Func("", "(*RackAffinityGroupBalancer).assignTopic")
	if fn == nil {
		r.Lost(rule, "kafka.(*RackAffinityGroupBalancer).assignTopic")
		return
	}
	n := 0
	var bad []string
	an.EachInstr(fn, func(ins ssa.Instruction) {
		mu, ok := ins.(*ssa.MapUpdate)
		if !ok {
			return
		}
		mt, isMap := mu.Map.Type().Underlying().(*types.Map)
		if !isMap {
			return
		}
		if bt, isB := mt.Key().Underlying().(*types.Basic); !isB || bt.Kind() != types.String {
			return
		}
		key := clean(an.Shape(mu.Key))
		if !strings.Contains(key, "UserData") && !strings.Contains(key, ".Rack") {
			return
		}
		n++
		if _, isCall := stripConvs(mu.Key).(*ssa.Call); isCall {
			bad = append(bad, "the key "+key+" at "+p.Pos(mu.Pos())+" is computed by a call")
		}
	})
	sort.Strings(bad)
	r.Check(n >= 2 && len(bad) == 0, rule, "assignTopic keys its per-rack tables with string(member.UserData) and part.Leader.Rack themselves", p.Pos(fn.Pos()), "zone := string(member.UserData); zone := part.Leader.Rack", strings.Join(bad, "; "))
}

// c17DiscardReportsShortStream: skipping bytes of a response must notice that the stream ended: the reader's own
// Discard reports it, io.Copy does not (it treats EOF as success). Decided: (*decoder).discard hands the error of the
// reader's Discard to setError.
func c17DiscardReportsShortStream(p *load.Program, r *oblig.Report) {
	const rule = "C17.R11 skipped bytes are missed when the connection was cut"
	fn := p.Func("protocol", "(*decoder).discard")
	if fn == nil {
		r.Lost(rule, "protocol.(*decoder).discard")
		return
	}
	okD := false
	an.EachInstr(fn, func(ins ssa.Instruction) {
		c, ok := ins.(*ssa.Call)
		if !ok || !c.Call.IsInvoke() || c.Call.Method.Name() != "Discard" {
			return
		}
		// its error reaches setError
		for _, ref := range *c.Referrers() {
			ex, isEx := ref.(*ssa.Extract)
			if !isEx || ex.Index != 1 {
				continue
			}
			seen := map[ssa.Value]bool{}
			var reach func(v ssa.Value) bool
			reach = func(v ssa.Value) bool {
				if seen[v] || v.Referrers() == nil {
					return false
				}
				seen[v] = true
				for _, u := range *v.Referrers() {
					switch x := u.(type) {
					case *ssa.Phi:
						if reach(x) {
							return true
						}
					case *ssa.Call:
						if x.Call.StaticCallee() != nil && an.RefFuncName(x.Call.StaticCallee()) == "setError" {
							return true
						}
					}
				}
				return false
			}
			if reach(ex) {
				okD = true
			}
		}
	})
	r.Check(okD, rule, "protocol.(*decoder).discard uses the reader's Discard and reports its error", p.Pos(fn.Pos()), "if r, _ := d.reader.(discarder); r != nil { n, err = r.Discard(n); … }; d.setError(err)", "no Discard of the underlying reader whose error reaches setError")
}

// c19SplitAlwaysMerged: what a Splitter request is split into is answered through its merger, one part or many:
// the merger is where ListOffsets restores the requested timestamps (brokers answer -1/-2 placeholders with -1).
// Decided: in connPool.roundTrip the messages of Split are used for nothing but the fan-out handed to join.
func c19SplitAlwaysMerged(p *load.Program, r *oblig.Report, rule string) {
	fn := p.Func("", "(*connPool).roundTrip")
	if fn == nil {
		r.Lost(rule, "kafka.(*connPool).roundTrip")
		return
	}
	n := 0
	var bad []string
	an.EachInstr(fn, func(ins ssa.Instruction) {
		c, ok := ins.(*ssa.Call)
		if !ok || !c.Call.IsInvoke() || c.Call.Method.Name() != "Split" {
			return
		}
		n++
		for _, ref := range *c.Referrers() {
			ex, isEx := ref.(*ssa.Extract)
			if !isEx || ex.Index != 0 {
				continue
			}
			for _, u := range *ex.Referrers() {
				switch x := u.(type) {
				case *ssa.IndexAddr:
					if _, isK := an.ConstInt(x.Index); isK {
						bad = append(bad, "one of the messages is picked by a constant index at "+p.Pos(x.Pos()))
					}
				case *ssa.Index:
					if _, isK := an.ConstInt(x.Index); isK {
						bad = append(bad, "one of the messages is picked by a constant index at "+p.Pos(x.Pos()))
					}
				}
			}
		}
	})
	joins := 0
	an.EachInstr(fn, func(ins ssa.Instruction) {
		if c, ok := ins.(*ssa.Call); ok && c.Call.StaticCallee() != nil && an.RefFuncName(c.Call.StaticCallee()) == "join" {
			joins++
		}
	})
	sort.Strings(bad)
	r.Check(n == 1 && joins >= 1 && len(bad) == 0, rule, "connPool.roundTrip answers a split request through join(promises, messages, merger), whatever the number of parts", p.Pos(fn.Pos()), "for i, m := range messages { promises[i] = p.sendRequest(ctx, m, state) }; response = join(promises, messages, merger)", strings.Join(bad, "; "))
}

// c15StartAccounted: "Next does not return a generation until every function started in the previous one has
// returned" needs every function handed to Start to be counted in g.routines before its goroutine starts; close()
// waits for the count to reach zero. One obligation per go statement of Start.
func c15StartAccounted(p *load.Program, r *oblig.Report) {
	const rule = "C15.R10 every function started in a generation is waited for"
	fn := p.Func("", "(*Generation).Start")
	if fn == nil {
		r.Lost(rule, "kafka.(*Generation).Start")
		return
	}
	var incs []ssa.Instruction
	an.EachInstr(fn, func(ins ssa.Instruction) {
		if st, ok := fieldStoreIs(ins, "Generation", "routines"); ok && st.Parent() == fn {
			incs = append(incs, st)
		}
	})
	n := 0
	an.EachInstr(fn, func(ins ssa.Instruction) {
		g, ok := ins.(*ssa.Go)
		if !ok || g.Parent() != fn {
			return
		}
		n++
		counted := false
		for _, inc := range incs {
			if an.Dominates(inc, g) {
				counted = true
			}
		}
		// which go statement: the one under the closed test, or the regular one
		which := "the regular path"
		for d, child := g.Block().Idom(), g.Block(); d != nil; d, child = d.Idom(), d {
			iff, _ := an.IfCond(d)
			if iff != nil && strings.HasSuffix(clean(an.Shape(iff.Cond)), ".closed") && edgeControls(d, 0, child) {
				which = "a generation that has already ended"
			}
		}
		r.Check(counted, rule, "Generation.Start → the function started on "+which+" is counted in g.routines before its goroutine starts", p.Pos(g.Pos()),
			"g.routines++ before the go statement", "the goroutine is started without being counted: close() does not wait for it and Next can hand out the next generation while it runs")
	})
	r.RequireCount(rule, n, 2)
}

// c06AwaitPositional: the merger pairs results[i] with requests[i] (ListOffsets restores the requested timestamp
// and attributes a failure from requests[i]). (*joined).await must therefore file the outcome of promise i at index
// i: one loop over the promises, storing at the loop's own index, on the caller's goroutine.
func c06AwaitPositional(p *load.Program, r *oblig.Report, rule string) {
	fn := p.Func("", "(*joined).await")
	if fn == nil {
		r.Lost(rule, "kafka.(*joined).await")
		return
	}
	n := 0
	var bad []string
	an.EachInstr(fn, func(ins ssa.Instruction) {
		switch x := ins.(type) {
		case *ssa.Go:
			bad = append(bad, "a goroutine is started at "+p.Pos(x.Pos()))
		case *ssa.Call:
			if b, isB := x.Call.Value.(*ssa.Builtin); isB && b.Name() == "append" {
				bad = append(bad, "results are appended (in completion order) at "+p.Pos(x.Pos()))
			}
		case *ssa.Store:
			ia, isIA := x.Addr.(*ssa.IndexAddr)
			if !isIA {
				return
			}
			if _, isSl := ia.X.Type().Underlying().(*types.Slice); !isSl {
				return
			}
			n++
			// the index is the position of the promise being awaited: the same value indexes p.promises
			same := false
			an.EachInstr(fn, func(i2 ssa.Instruction) {
				if ia2, ok := i2.(*ssa.IndexAddr); ok && ia2 != ia && ia2.Index == ia.Index && strings.Contains(clean(an.Shape(ia2.X)), "promises") {
					same = true
				}
			})
			if !same {
				bad = append(bad, "the store at "+p.Pos(x.Pos())+" is not indexed by the position of the promise")
			}
		}
	})
	sort.Strings(bad)
	r.Check(n >= 1 && len(bad) == 0, rule, "(*joined).await stores the outcome of promises[i] in results[i], on the caller's goroutine", p.Pos(fn.Pos()), "for i, sub := range p.promises { m, err := sub.await(ctx); results[i] = … }", strings.Join(bad, "; "))
}

// c15JoinedIDAfterJoin: once joinGroup succeeded the member exists under the id the coordinator assigned: every later
// exit of nextGeneration (a failed sync, a failed offset fetch, the group closed) hands that id back, so that run()
// leaves the group with it.
func c15JoinedIDAfterJoin(p *load.Program, r *oblig.Report) {
	const rule = "C15.R11 after a successful join every exit hands back the assigned member id"
	fn := p.Func("", "(*ConsumerGroup).nextGeneration")
	if fn == nil {
		r.Lost(rule, "kafka.(*ConsumerGroup).nextGeneration")
		return
	}
	var join *ssa.Call
	an.EachInstr(fn, func(ins ssa.Instruction) {
		if c, ok := ins.(*ssa.Call); ok && c.Parent() == fn && c.Call.StaticCallee() != nil && an.RefFuncName(c.Call.StaticCallee()) == "joinGroup" {
			join = c
		}
	})
	if join == nil {
		r.Bad(rule, "ConsumerGroup.nextGeneration → joinGroup", p.Pos(fn.Pos()), "a call of cg.joinGroup", "not found")
		return
	}
	var joined ssa.Value
	for _, ref := range *join.Referrers() {
		if x, isX := ref.(*ssa.Extract); isX && x.Index == 0 {
			joined = x
		}
	}
	// the success edge of the error test of joinGroup
	var from *an.Point
	for _, b := range an.Blocks(fn) {
		_, ci := an.IfCond(b)
		e := ci.Edge(token.EQL)
		if e < 0 || !an.IsNilConst(ci.Y) {
			continue
		}
		for _, v := range []ssa.Value{an.Unwrap(ci.X), an.Unwrap(an.CellValueAt(ci.X))} {
			if ex, isEx := v.(*ssa.Extract); isEx && ex.Tuple == ssa.Value(join) {
				from = &an.Point{B: b.Succs[e], Idx: -1}
			}
		}
	}
	if from == nil || joined == nil {
		r.Bad(rule, "ConsumerGroup.nextGeneration → error test of joinGroup", p.Pos(join.Pos()), "if err != nil { … }", "not found")
		return
	}
	q := an.PathQuery{Fn: fn, Target: func(i ssa.Instruction) bool {
		ret, isRet := i.(*ssa.Return)
		if !isRet || ret.Parent() != fn {
			return false
		}
		v := an.Unwrap(an.CellValueAt(an.RetVal(ret, 0)))
		return v != joined
	}}
	hit := q.ReachableFrom(*from)
	found := ""
	if hit != nil {
		found = "the exit at " + p.Pos(hit.Pos()) + " returns " + clean(an.Shape(an.RetVal(hit.(*ssa.Return), 0))) + " as the member id"
	}
	r.Check(hit == nil, rule, "ConsumerGroup.nextGeneration → after joinGroup succeeded every return carries the id it assigned", p.Pos(join.Pos()), "memberID = joinedID right after the successful join", found)
}

package rules

import (
	"fmt"
	"go/ast"
	"go/constant"
	"go/token"
	"go/types"
	"sort"
	"strings"

	"golang.org/x/tools/go/ssa"

	"kverif/internal/an"
	"kverif/internal/load"
	"kverif/internal/oblig"
)

func init() {
	register(&Check{ID: "C07", Run: runC07, Expl: oblig.Explanation{
		Text:        "Static order-preservation check of the Writer. (R1) batchQueue is a FIFO: Put appends at the tail, Get returns element 0 and keeps [1:], both under the queue mutex (cond.L is that mutex). (R2) single sender per partition: batchQueue.Get and (*partitionWriter).writeBatch have exactly one caller (writeBatches), which is spawned exactly once, by the function that allocates the partitionWriter, and calls writeBatch synchronously; nothing reachable from writeBatch re-enqueues a batch or starts a goroutine. (R3) every queue.Put in partitionWriter methods happens with partitionWriter.mutex held, enqueues the value of currBatch (same SSA value, or under a currBatch == x guard), and is followed by currBatch = nil before the mutex is released: a batch is enqueued at most once and batches enter the queue in creation order. (R4) in-batch order: indexes are visited in slice order, add appends at the tail, WriteMessages appends message indexes in ascending order. Not decided: order in the broker's log under real failures; cross-goroutine submission order.",
		Rule:        "one obligation per queue operation, per Put site, per caller fact; non-trivial = SSA instructions inspected",
		Trusted:     []string{"go/ssa", "must-lockset of C10", "static call graph of the root package"},
		Assumptions: []string{"a batch with all its retries completes inside writeBatch before the sender takes the next one (synchronous call)"},
	}})
	register(&Check{ID: "C08", Run: runC08, Expl: oblig.Explanation{
		Text:        "Static batch-limit and flush check. (R1) truth tables over a value grid: add refuses iff size > 0 ∧ bytes+n > maxBytes; full iff size ≥ maxSize ∨ bytes ≥ maxBytes; a message is too large iff n > batchBytes; chooseTopic errors iff both or neither topic is set. (R2) in writeMessages a refused add closes the batch (trigger, Put, currBatch = nil) and retries; after an accepted add, full is evaluated and, when true, the batch is closed, on every path. (R3) validation of all messages (size, topic, partitions) precedes the first batchMessages call. (R4) every batch installed as currBatch comes from (*partitionWriter).newWriteBatch, which starts exactly one awaitBatch waiter and whose timer is time.NewTimer(w.batchTimeout()); trigger is called only in the critical section that also clears currBatch. (R5) the limits compared are w.batchSize()/w.batchBytes() and the size measure is Message.totalSize() both in validation and in add. Not decided: timing ('once BatchTimeout has elapsed', 'as soon as'), byte size on the wire.",
		Rule:        "one obligation per predicate (exhaustive over a {0..3}^k grid), per path rule, per flow fact",
		Trusted:     []string{"go/ssa", "order/grid interpreter (internal/an/ordertab.go)"},
		Assumptions: []string{"BatchSize/BatchBytes are positive (the accessors substitute defaults otherwise)"},
	}})
	register(&Check{ID: "C01", Run: runC01, Expl: oblig.Explanation{
		Text:        "Static attribution/retry check of the Writer. (R1) error fan-out: WriteErrors has len(msgs) entries; entry i receives the err of the batch whose index list contains i (key and value of the same map iteration); it is returned iff some awaited batch failed. (R2) batch.err is read only after receiving from that batch's done channel; complete() stores err before close(done) and is the only closer. (R3) retry loop: produce is called while attempt < maxAttempts(); a non-nil response overwrites err with res.Error; the loop ends on err == nil or on an error that is neither temporary nor a transient network error. (R4) after the loop Completion (when set) and batch.complete receive the err that left the loop, complete exactly once. (R5) request identity: the ProduceRequest is built from the partition writer's own topic/partition key, the writer's acks/compression and a fresh record reader over batch.msgs on every attempt; in WriteMessages the partition comes from Balancer.Balance, the topic from chooseTopic; each message index is appended once to the batch that accepted it. (R6) Client.Produce maps the partition's error code/message into ProduceResponse.Error and wraps round-trip errors. (R7) Error.Temporary()'s retriable code list is unchanged since review. Not decided: that the broker appended anything; duplicates under lost acks; interleavings of callers and timers.",
		Rule:        "one obligation per flow/path fact; non-trivial = SSA instructions inspected",
		Trusted:     []string{"go/ssa", "value provenance (internal/an/flow.go)", "reviewed list of retriable error codes"},
		Assumptions: []string{"the transport delivers the request it is given (C04/C12) and returns the broker's answer (C06)"},
	}})
}

// ---------------------------------------------------------------------------------------------
// shared helpers

func fieldStoreIs(ins ssa.Instruction, typ, field string) (*ssa.Store, bool) {
	st, ok := ins.(*ssa.Store)
	if !ok {
		return nil, false
	}
	fa, ok := st.Addr.(*ssa.FieldAddr)
	if !ok || !an.NamedIs(fa.X.Type(), load.ModPath, typ) || an.FieldName(fa.X.Type(), fa.Field) != field {
		return nil, false
	}
	return st, true
}

func isLoadOfField(v ssa.Value, typ, field string) bool {
	ld, ok := v.(*ssa.UnOp)
	if !ok || ld.Op != token.MUL {
		return false
	}
	fa, ok := ld.X.(*ssa.FieldAddr)
	return ok && an.NamedIs(fa.X.Type(), load.ModPath, typ) && an.FieldName(fa.X.Type(), fa.Field) == field
}

func callsTo(fn *ssa.Function, pred func(*ssa.CallCommon) bool) []ssa.CallInstruction {
	var out []ssa.CallInstruction
	an.EachInstr(fn, func(ins ssa.Instruction) {
		if ci, ok := ins.(ssa.CallInstruction); ok && pred(ci.Common()) {
			out = append(out, ci)
		}
	})
	return out
}

func calleeNamed(c *ssa.CallCommon, recvType, name string) bool {
	f := c.StaticCallee()
	if f == nil || an.RefFuncName(f) != name {
		return false
	}
	if recvType == "" {
		return f.Signature.Recv() == nil
	}
	return f.Signature.Recv() != nil && an.NamedIs(f.Signature.Recv().Type(), load.ModPath, recvType)
}

// ---------------------------------------------------------------------------------------------
// C07

func runC07(p *load.Program, r *oblig.Report) {
	c07Queue(p, r)
	c07SingleSender(p, r)
	c07PutDiscipline(p, r, "C07.R3 batches are enqueued once, while current, under the partition mutex")
	c07InBatchOrder(p, r)
	// a produce attempt that outlives its deadline on a stalled connection would be appended behind later batches
	transportDeadline(p, r, "C07.R5 an abandoned produce attempt cannot be delivered late")
	c07CheckThenRegister(p, r, "C07.R2 one sender per partition, retries are synchronous")
	// a retry resends the batch as it was: nothing between two attempts touches it (the loop shape of C01.R3)
	shareRules(r, "C07", "C07.R6 a retried batch is the batch that failed", func(sub *oblig.Report) { c01RetryLoop(p, sub) })
	c07BatchOwnsMessages(p, r)
}

func c07Queue(p *load.Program, r *oblig.Report) {
	const rule = "C07.R1 batchQueue is first-in first-out"
	put, get, nq := p.Func("", "(*batchQueue).Put"), p.Func("", "(*batchQueue).Get"), p.Func("", "newBatchQueue")
	if put == nil || get == nil || nq == nil {
		r.Lost(rule, "kafka.(*batchQueue).Put/Get/newBatchQueue")
		return
	}
	l := locksets(p)
	// Put: queue = append(queue, batch)
	okPut := false
	an.EachInstr(put, func(ins ssa.Instruction) {
		st, ok := fieldStoreIs(ins, "batchQueue", "queue")
		if !ok {
			return
		}
		if call, ok := st.Val.(*ssa.Call); ok {
			if b, ok := call.Call.Value.(*ssa.Builtin); ok && b.Name() == "append" && len(call.Call.Args) == 2 {
				if isLoadOfField(call.Call.Args[0], "batchQueue", "queue") {
					va := an.VarArgs(call.Call.Args[1])
					if len(va) == 1 && va[0] == ssa.Value(put.Params[1]) && l.Before[st].Holds("batchQueue.mutex", false) {
						okPut = true
					}
				}
			}
		}
	})
	r.Check(okPut, rule, "batchQueue.Put appends the batch at the tail under the queue mutex", p.Pos(put.Pos()), "b.queue = append(b.queue, batch) with batchQueue.mutex held", "not recognised")
	// Get: returns queue[0]; queue = queue[1:]
	okHead, okTail := false, false
	an.EachInstr(get, func(ins ssa.Instruction) {
		switch x := ins.(type) {
		case *ssa.Return:
			for _, o := range an.Origins(an.RetVal(x, 0), an.FlowOpts{}) {
				if o.Kind == "param" && o.Path == ".queue[]" && len(o.Keys) == 1 {
					if k, ok := an.ConstInt(o.Keys[0]); ok && k == 0 {
						okHead = true
					}
				}
			}
		case *ssa.Store:
			if st, ok := fieldStoreIs(ins, "batchQueue", "queue"); ok {
				if sl, ok := st.Val.(*ssa.Slice); ok && sl.High == nil && sl.Low != nil && isLoadOfField(sl.X, "batchQueue", "queue") {
					if k, ok := an.ConstInt(sl.Low); ok && k == 1 && l.Before[st].Holds("batchQueue.mutex", false) {
						okTail = true
					}
				}
			}
		}
	})
	r.Check(okHead && okTail, rule, "batchQueue.Get removes and returns the head under the queue mutex", p.Pos(get.Pos()), "batch := b.queue[0]; b.queue = b.queue[1:]", fmt.Sprintf("returnsHead=%v keepsTail=%v", okHead, okTail))
	// Get blocks only while empty and not closed
	okWait := false
	an.EachInstr(get, func(ins ssa.Instruction) {
		if call, ok := ins.(*ssa.Call); ok {
			if f := call.Call.StaticCallee(); f != nil && an.ShortFunc(f) == "(*sync.Cond).Wait" {
				okWait = true
			}
		}
	})
	r.Check(okWait, rule, "batchQueue.Get waits on the condition variable while the queue is empty", p.Pos(get.Pos()), "for len(queue) == 0 && !closed { cond.Wait() }", "no cond.Wait()")
	// the lock alias: cond.L = mutex in newBatchQueue
	okAlias := false
	var lockVals, mutexVals []ssa.Value
	an.EachInstr(nq, func(ins ssa.Instruction) {
		st, ok := ins.(*ssa.Store)
		if !ok {
			return
		}
		if fa, ok := st.Addr.(*ssa.FieldAddr); ok && an.FieldName(fa.X.Type(), fa.Field) == "L" && an.NamedIs(fa.X.Type(), "sync", "Cond") {
			lockVals = append(lockVals, an.Unwrap(st.Val))
		}
		if fs, ok := fieldStoreIs(ins, "batchQueue", "mutex"); ok {
			mutexVals = append(mutexVals, an.Unwrap(fs.Val))
		}
	})
	// either cond.L = bq.mutex, or one mutex value stored into both (&sync.Cond{L: m} next to mutex: m)
	for _, v := range lockVals {
		okAlias = isLoadOfField(v, "batchQueue", "mutex")
		for _, m := range mutexVals {
			if _, isAlloc := m.(*ssa.Alloc); isAlloc && m == v && len(mutexVals) == 1 {
				okAlias = true
			}
		}
	}
	okAlias = okAlias && len(lockVals) == 1
	r.Check(okAlias, rule, "newBatchQueue wires the condition variable to the queue mutex", p.Pos(nq.Pos()), "bq.cond.L = bq.mutex", "not found")
}

func c07SingleSender(p *load.Program, r *oblig.Report) {
	const rule = "C07.R2 one sender per partition, retries are synchronous"
	get := p.Func("", "(*batchQueue).Get")
	wb := p.Func("", "(*partitionWriter).writeBatch")
	wbs := p.Func("", "(*partitionWriter).writeBatches")
	npw := p.Func("", "newPartitionWriter")
	if get == nil || wb == nil || wbs == nil || npw == nil {
		r.Lost(rule, "kafka.(*batchQueue).Get/(*partitionWriter).writeBatch/writeBatches/newPartitionWriter")
		return
	}
	callersOf := func(target *ssa.Function) (callers []string, async bool, valueUses int) {
		for _, fn := range p.ModuleFunctions() {
			an.EachInstr(fn, func(ins ssa.Instruction) {
				if ci, ok := ins.(ssa.CallInstruction); ok && an.StaticCalleeIs(ci.Common(), target) {
					name := an.ShortFunc(fn)
					dup := false
					for _, c := range callers {
						if c == name {
							dup = true
						}
					}
					if !dup {
						callers = append(callers, name)
					}
					if _, isCall := ins.(*ssa.Call); !isCall {
						async = true
					}
				}
				for _, op := range ins.Operands(nil) {
					if op == nil || *op == nil {
						continue
					}
					if mc, ok := (*op).(*ssa.MakeClosure); ok {
						if f, ok := mc.Fn.(*ssa.Function); ok && f.Synthetic != "" && strings.Contains(an.RefFuncName(f), target.Name()+"$bound") {
							_ = f
						}
					}
				}
			})
		}
		return
	}
	c1, a1, _ := callersOf(get)
	r.Check(len(c1) == 1 && c1[0] == an.ShortFunc(wbs) && !a1, rule, "batchQueue.Get is called only by the partition's sender loop", p.Pos(get.Pos()), "single caller (*partitionWriter).writeBatches", fmt.Sprint(c1))
	c2, a2, _ := callersOf(wb)
	r.Check(len(c2) == 1 && c2[0] == an.ShortFunc(wbs) && !a2, rule, "(*partitionWriter).writeBatch is called synchronously by the sender loop only", p.Pos(wb.Pos()), "single synchronous caller (*partitionWriter).writeBatches", fmt.Sprintf("%v async=%v", c2, a2))
	// writeBatches is started exactly once: bound method value passed to spawn in newPartitionWriter on the fresh object
	nSpawn := 0
	okFresh := false
	for _, fn := range p.ModuleFunctions() {
		an.EachInstr(fn, func(ins ssa.Instruction) {
			mc, ok := ins.(*ssa.MakeClosure)
			if !ok {
				return
			}
			f, ok := mc.Fn.(*ssa.Function)
			if !ok || !strings.HasPrefix(an.RefFuncName(f), "writeBatches$bound") {
				return
			}
			nSpawn++
			if fn == npw && len(mc.Bindings) == 1 {
				if _, isAlloc := mc.Bindings[0].(*ssa.Alloc); isAlloc {
					// and handed to (*Writer).spawn
					for _, ref := range *mc.Referrers() {
						if call, ok := ref.(*ssa.Call); ok && calleeNamed(&call.Call, "Writer", "spawn") {
							okFresh = true
						}
					}
				}
			}
		})
		// direct `go ptw.writeBatches()`
		an.EachInstr(fn, func(ins ssa.Instruction) {
			if g, ok := ins.(*ssa.Go); ok && an.StaticCalleeIs(&g.Call, wbs) {
				nSpawn++
			}
		})
	}
	r.Check(nSpawn == 1 && okFresh, rule, "the sender loop is started exactly once per partitionWriter, by its constructor", p.Pos(npw.Pos()), "w.spawn(writer.writeBatches) on the object allocated in newPartitionWriter, nowhere else", fmt.Sprintf("sites=%d onFreshObject=%v", nSpawn, okFresh))
	// nothing reachable from writeBatch enqueues or spawns
	reach := reachableFrom(wb)
	var bad []string
	for f := range reach {
		an.EachInstr(f, func(ins ssa.Instruction) {
			switch x := ins.(type) {
			case *ssa.Go:
				bad = append(bad, an.ShortFunc(f)+": go statement")
			case *ssa.Call:
				if calleeNamed(&x.Call, "batchQueue", "Put") {
					bad = append(bad, an.ShortFunc(f)+": queue.Put")
				}
				if calleeNamed(&x.Call, "Writer", "spawn") {
					bad = append(bad, an.ShortFunc(f)+": spawn")
				}
			}
		})
	}
	r.Check(len(bad) == 0, rule, "a batch is never re-enqueued nor handed to another goroutine while it is being written", p.Pos(wb.Pos()), "no queue.Put / go / spawn reachable from writeBatch", strings.Join(bad, "; "), fmt.Sprintf("%d functions reachable", len(reach)))
}

// c07PutDiscipline is shared by C07, C08 and C01.
func c07PutDiscipline(p *load.Program, r *oblig.Report, rule string) {
	l := locksets(p)
	n := 0
	counts := map[string]int{}
	for _, fn := range p.ModuleFunctions() {
		an.EachInstr(fn, func(ins ssa.Instruction) {
			call, ok := ins.(*ssa.Call)
			if !ok || !calleeNamed(&call.Call, "batchQueue", "Put") {
				return
			}
			n++
			base := an.ShortFunc(fn) + " → queue.Put"
			counts[base]++
			construct := base
			if counts[base] > 1 {
				construct = fmt.Sprintf("%s #%d", base, counts[base])
			}
			pos := p.Pos(call.Pos())
			locked := l.Before[call].Holds("partitionWriter.mutex", false)
			// the argument is the current batch
			arg := call.Call.Args[1]
			isCurr := false
			why := ""
			// (a) same SSA value as a load of currBatch / phi of load and fresh batch stored to currBatch
			for _, o := range an.Origins(arg, an.FlowOpts{}) {
				_ = o
			}
			if argIsCurrBatch(fn, arg, call) {
				isCurr = true
				why = "argument is the value of ptw.currBatch at this point"
			}
			// (b) guarded by currBatch == arg
			for d, child := call.Block().Idom(), call.Block(); d != nil && !isCurr; d, child = d.Idom(), d {
				_, ci := an.IfCond(d)
				e := ci.Edge(token.EQL)
				if e < 0 {
					continue
				}
				if (d.Succs[e] == child || d.Succs[e].Dominates(child)) && ((isLoadOfField(ci.X, "partitionWriter", "currBatch") && ci.Y == arg) || (isLoadOfField(ci.Y, "partitionWriter", "currBatch") && ci.X == arg)) {
					// the comparison only means something when currBatch was read in this critical section
					ld := ci.X
					if !isLoadOfField(ld, "partitionWriter", "currBatch") {
						ld = ci.Y
					}
					if li, isIns := ld.(ssa.Instruction); isIns && l.Before[li].Holds("partitionWriter.mutex", false) {
						isCurr = true
						why = "guarded by ptw.currBatch == batch (read under the partition mutex)"
					} else {
						why = "ptw.currBatch is compared with the batch outside the partition mutex"
					}
				}
			}
			// currBatch = nil follows before the mutex is released
			okNil, _ := an.MustPass(fn, an.PointOf(call), func(i ssa.Instruction) bool {
				st, ok := fieldStoreIs(i, "partitionWriter", "currBatch")
				return ok && an.IsNilConst(st.Val)
			}, nil)
			clearedJustBefore := false
			for _, i2 := range call.Block().Instrs {
				if i2 == ssa.Instruction(call) {
					break
				}
				if st, ok := fieldStoreIs(i2, "partitionWriter", "currBatch"); ok && an.IsNilConst(st.Val) {
					clearedJustBefore = true // `ptw.currBatch = nil; ptw.queue.Put(batch)`: same critical section, other order
				}
			}
			okNil = okNil || clearedJustBefore
			// … and before any explicit Unlock
			q := an.PathQuery{Fn: fn, Stop: func(i ssa.Instruction) bool {
				st, ok := fieldStoreIs(i, "partitionWriter", "currBatch")
				return ok && an.IsNilConst(st.Val)
			}, Target: func(i ssa.Instruction) bool { return isMutexOp(i, "mutex", true) }}
			beforeUnlock := clearedJustBefore || q.ReachableFrom(an.PointOf(call)) == nil
			r.Check(locked && isCurr && okNil && beforeUnlock, rule, construct, pos,
				"partitionWriter.mutex held; the batch enqueued is ptw.currBatch; ptw.currBatch = nil follows before the mutex is released",
				fmt.Sprintf("mutexHeld=%v isCurrentBatch=%v currBatchCleared=%v clearedBeforeUnlock=%v", locked, isCurr, okNil, beforeUnlock), why, "lockset "+l.Before[call].String())
		})
	}
	r.RequireCount(rule, n, 4)
	// a closed queue refuses batches: nothing may be put after the queue was closed in the same function
	for _, fn := range p.ModuleFunctions() {
		for _, cl := range callsTo(fn, func(c *ssa.CallCommon) bool { return calleeNamed(c, "batchQueue", "Close") }) {
			ci, ok := cl.(*ssa.Call)
			if !ok {
				continue
			}
			q := an.PathQuery{Fn: fn, Target: func(i ssa.Instruction) bool {
				c2, ok := i.(*ssa.Call)
				return ok && calleeNamed(&c2.Call, "batchQueue", "Put")
			}}
			hit := q.ReachableFrom(an.PointOf(ci))
			found := ""
			if hit != nil {
				found = "queue.Put at " + p.Pos(hit.Pos()) + " can run after queue.Close: the batch is refused and its messages are never produced"
			}
			r.Check(hit == nil, rule, an.ShortFunc(fn)+" → no batch is handed to the queue after the queue was closed", p.Pos(ci.Pos()), "the open batch is put before queue.Close()", found)
		}
	}
}

// argIsCurrBatch: arg is (a phi of) a load of ptw.currBatch or of a value that was stored into ptw.currBatch on
// the way (for a phi edge: in, or above, the predecessor the edge comes from).
func argIsCurrBatch(fn *ssa.Function, arg ssa.Value, at ssa.Instruction) bool {
	seen := map[ssa.Value]bool{}
	storedAbove := func(v ssa.Value, blk *ssa.BasicBlock, before ssa.Instruction) bool {
		found := false
		an.EachInstr(fn, func(ins ssa.Instruction) {
			st, isSt := fieldStoreIs(ins, "partitionWriter", "currBatch")
			if !isSt || st.Val != v {
				return
			}
			if before != nil && an.Dominates(st, before) {
				found = true
			}
			if blk != nil && (st.Block() == blk || st.Block().Dominates(blk)) {
				found = true
			}
		})
		return found
	}
	var ok func(v ssa.Value, blk *ssa.BasicBlock, before ssa.Instruction) bool
	ok = func(v ssa.Value, blk *ssa.BasicBlock, before ssa.Instruction) bool {
		if isLoadOfField(v, "partitionWriter", "currBatch") {
			return true
		}
		if prm, isP := v.(*ssa.Parameter); isP && an.IsNew(prm.Parent()) {
			// inside a helper that did not exist at review time: the arguments at its call sites
			vals, sites := an.ArgsAtSites(prm)
			if len(vals) == 0 {
				return false
			}
			for i := range vals {
				if !ok(vals[i], nil, sites[i]) {
					return false
				}
			}
			return true
		}
		if seen[v] {
			return true
		}
		seen[v] = true
		if phi, isPhi := v.(*ssa.Phi); isPhi {
			for i, e := range phi.Edges {
				if !ok(e, phi.Block().Preds[i], nil) {
					return false
				}
			}
			return true
		}
		return storedAbove(v, blk, before)
	}
	return ok(arg, nil, at)
}

func c07InBatchOrder(p *load.Program, r *oblig.Report) {
	const rule = "C07.R4 order inside a batch is submission order"
	add := p.Func("", "(*writeBatch).add")
	wm := p.Func("", "(*partitionWriter).writeMessages")
	WM := p.Func("", "(*Writer).WriteMessages")
	if add == nil || wm == nil || WM == nil {
		r.Lost(rule, "kafka.(*writeBatch).add / writeMessages / WriteMessages")
		return
	}
	okAdd := false
	an.EachInstr(add, func(ins ssa.Instruction) {
		st, ok := fieldStoreIs(ins, "writeBatch", "msgs")
		if !ok {
			return
		}
		if call, ok := st.Val.(*ssa.Call); ok {
			if b, ok := call.Call.Value.(*ssa.Builtin); ok && b.Name() == "append" && isLoadOfField(call.Call.Args[0], "writeBatch", "msgs") {
				va := an.VarArgs(call.Call.Args[1])
				if len(va) == 1 && strings.Contains(argDesc(va[0]), "param:msg") {
					okAdd = true
				}
			}
		}
	})
	r.Check(okAdd, rule, "writeBatch.add appends the message at the tail", p.Pos(add.Pos()), "b.msgs = append(b.msgs, msg)", "not recognised")
	// writeMessages: add receives msgs[i] with i the range element over indexes (range = ascending positions)
	okIdx := false
	an.EachInstr(wm, func(ins ssa.Instruction) {
		call, ok := ins.(*ssa.Call)
		if !ok || !an.StaticCalleeIs(&call.Call, add) {
			return
		}
		for _, o := range an.Origins(call.Call.Args[1], an.FlowOpts{}) {
			if o.Kind == "param" && o.Name == "msgs" && o.Path == "[]" && len(o.Keys) == 1 {
				ko := an.Origins(o.Keys[0], an.FlowOpts{})
				if len(ko) == 1 && ko[0].Kind == "param" && ko[0].Name == "indexes" && ko[0].Path == "[]" {
					okIdx = true
				}
			}
		}
	})
	r.Check(okIdx, rule, "writeMessages adds msgs[i] for i ranging over indexes in slice order", p.Pos(wm.Pos()), "for _, i := range indexes { batch.add(msgs[i], …) }", "not recognised")
	// WriteMessages: assignments[key] = append(assignments[key], int32(i)) with i the range index over msgs
	okAsc := false
	an.EachInstr(WM, func(ins ssa.Instruction) {
		mu, ok := ins.(*ssa.MapUpdate)
		if !ok {
			return
		}
		call, ok := mu.Value.(*ssa.Call)
		if !ok {
			return
		}
		if b, ok := call.Call.Value.(*ssa.Builtin); !ok || b.Name() != "append" {
			return
		}
		va := an.VarArgs(call.Call.Args[1])
		if len(va) != 1 {
			return
		}
		// the appended value is the loop counter of the range over msgs
		v := an.Unwrap(va[0])
		if isRangeIndex(v) {
			// first arg: lookup of the same map with the same key
			if lk, ok := call.Call.Args[0].(*ssa.Lookup); ok && lk.X == mu.Map && sameKeyValue(lk.Index, mu.Key) {
				okAsc = true
			}
		}
	})
	r.Check(okAsc, rule, "WriteMessages records message indexes per partition in ascending order", p.Pos(WM.Pos()), "assignments[key] = append(assignments[key], int32(i)) for i := range msgs", "not recognised")
}

// isRangeIndex: v is the counter of a `for i := range slice` loop (phi of -1/0 and +1).
func isRangeIndex(v ssa.Value) bool {
	switch x := v.(type) {
	case *ssa.Phi:
		inc := false
		for _, e := range x.Edges {
			if bo, ok := e.(*ssa.BinOp); ok && bo.Op == token.ADD && bo.X == ssa.Value(x) {
				if k, ok := an.ConstInt(bo.Y); ok && k == 1 {
					inc = true
				}
			}
		}
		return inc
	case *ssa.BinOp:
		// go/ssa's range lowering: i = phi(-1, i+1); body uses i+1
		if k, ok := an.ConstInt(x.Y); ok && k == 1 && x.Op == token.ADD {
			if phi, ok := x.X.(*ssa.Phi); ok {
				for _, e := range phi.Edges {
					if e == ssa.Value(x) {
						return true
					}
				}
			}
		}
	}
	return false
}

func sameKeyValue(a, b ssa.Value) bool {
	if a == b {
		return true
	}
	la, oka := a.(*ssa.UnOp)
	lb, okb := b.(*ssa.UnOp)
	return oka && okb && la.X == lb.X
}

// ---------------------------------------------------------------------------------------------
// C08

func runC08(p *load.Program, r *oblig.Report) {
	c08Tables(p, r)
	c08CloseWhenFull(p, r)
	c08ValidationFirst(p, r)
	c08Waiter(p, r)
	c08Limits(p, r)
	c07PutDiscipline(p, r, "C08.R4 a batch is flushed once: enqueued while current, under the partition mutex")
	// a closed batch is produced at once: the first attempt is not preceded by the retry back-off (the loop shape of C01.R3)
	shareRules(r, "C08", "C08.R6 the first produce attempt of a closed batch is not delayed", func(sub *oblig.Report) { c01RetryLoop(p, sub) })
	// a batch (hence a request) only holds messages that were assigned to its partition: the message added under index
	// i is msgs[i] (C01.R5)
	shareRules(r, "C08", "C08.R7 a request carries only the messages assigned to its partition", func(sub *oblig.Report) { c01RequestIdentity(p, sub) })
	c08TimerArmedOnce(p, r)
	c08FullAfterEveryAdd(p, r, "C08.R9 the count limit is tested after every message")
	shareRules(r, "C08", "C08.R10 a closed batch is produced as soon as the earlier ones have completed (C07.R1)", func(sub *oblig.Report) { c07Queue(p, sub) })
}

func c08Tables(p *load.Program, r *oblig.Report) {
	const rule = "C08.R1 batch predicates (truth tables)"
	add, full, choose := p.Func("", "(*writeBatch).add"), p.Func("", "(*writeBatch).full"), p.Func("", "(*Writer).chooseTopic")
	if add == nil || full == nil || choose == nil {
		r.Lost(rule, "kafka.(*writeBatch).add/full, (*Writer).chooseTopic")
		return
	}
	vals := []int64{0, 1, 2, 3}
	// add
	{
		atoms := func(v ssa.Value) (string, bool) {
			if c, ok := v.(*ssa.Call); ok {
				if f := c.Call.StaticCallee(); f != nil && an.RefFuncName(f) == "totalSize" {
					return "n", true
				}
				if b, ok := c.Call.Value.(*ssa.Builtin); ok && b.Name() == "cap" {
					return "cap", true
				}
			}
			if s, ok := an.DefaultAtoms(v); ok {
				switch s {
				case "b.size":
					return "size", true
				case "b.bytes":
					return "bytes", true
				case "maxBytes", "maxSize":
					return s, true
				}
			}
			return "", false
		}
		bad, total := 0, 0
		first := ""
		var evalErr error
		an.Assignments([]string{"size", "bytes", "n", "maxBytes", "maxSize", "cap"}, vals, func(m map[string]int64) {
			if m["cap"] > 1 || m["maxSize"] > 1 {
				return // irrelevant to the predicate: sampled at 0 and 1
			}
			total++
			res, err := an.EvalOrder(add, atoms, m, nil)
			if err != nil {
				evalErr = err
				return
			}
			refuse := m["size"] > 0 && m["bytes"]+m["n"] > m["maxBytes"]
			if (res[0].I != 0) == refuse {
				bad++
				if first == "" {
					first = fmt.Sprintf("size=%d bytes=%d n=%d maxBytes=%d: add returned %v", m["size"], m["bytes"], m["n"], m["maxBytes"], res[0].I != 0)
				}
			}
		})
		if evalErr != nil {
			r.Undecided(rule, "writeBatch.add", p.Pos(add.Pos()), evalErr.Error())
		} else {
			r.Check(bad == 0, rule, "writeBatch.add refuses iff size > 0 ∧ bytes+n > maxBytes", p.Pos(add.Pos()), "refused exactly when the batch is non-empty and the message would exceed BatchBytes", first, fmt.Sprintf("%d assignments over {0..3}, %d wrong", total, bad))
		}
	}
	// full
	{
		atoms := func(v ssa.Value) (string, bool) {
			if s, ok := an.DefaultAtoms(v); ok {
				switch s {
				case "b.size":
					return "size", true
				case "b.bytes":
					return "bytes", true
				case "maxBytes", "maxSize":
					return s, true
				}
			}
			return "", false
		}
		bad, total := 0, 0
		first := ""
		var evalErr error
		an.Assignments([]string{"size", "bytes", "maxSize", "maxBytes"}, vals, func(m map[string]int64) {
			total++
			res, err := an.EvalOrder(full, atoms, m, nil)
			if err != nil {
				evalErr = err
				return
			}
			want := m["size"] >= m["maxSize"] || m["bytes"] >= m["maxBytes"]
			if (res[0].I != 0) != want {
				bad++
				if first == "" {
					first = fmt.Sprintf("size=%d maxSize=%d bytes=%d maxBytes=%d: full returned %v", m["size"], m["maxSize"], m["bytes"], m["maxBytes"], res[0].I != 0)
				}
			}
		})
		if evalErr != nil {
			r.Undecided(rule, "writeBatch.full", p.Pos(full.Pos()), evalErr.Error())
		} else {
			r.Check(bad == 0, rule, "writeBatch.full iff size ≥ maxSize ∨ bytes ≥ maxBytes", p.Pos(full.Pos()), "exhaustive over all orderings", first, fmt.Sprintf("%d assignments, %d wrong", total, bad))
		}
	}
	// chooseTopic
	{
		atoms := func(v ssa.Value) (string, bool) {
			if s, ok := an.DefaultAtoms(v); ok && (s == "w.Topic" || s == "msg.Topic") {
				return s, true
			}
			return "", false
		}
		bad := 0
		first := ""
		var evalErr error
		an.Assignments([]string{"w.Topic", "msg.Topic"}, []int64{0, 1}, func(m map[string]int64) {
			res, err := an.EvalOrder(choose, atoms, m, nil)
			if err != nil {
				evalErr = err
				return
			}
			wantErr := (m["w.Topic"] != 0) == (m["msg.Topic"] != 0)
			gotErr := res[1].I != 0
			if wantErr != gotErr {
				bad++
				first = fmt.Sprintf("w.Topic set=%v msg.Topic set=%v: error=%v", m["w.Topic"] != 0, m["msg.Topic"] != 0, gotErr)
			}
			if !gotErr {
				// the topic returned is the one that is set
				want := "msg.Topic"
				if m["w.Topic"] != 0 {
					want = "w.Topic"
				}
				if res[0].Atom != want {
					bad++
					first = "returned " + res[0].Atom + " instead of " + want
				}
			}
		})
		if evalErr != nil {
			r.Undecided(rule, "Writer.chooseTopic", p.Pos(choose.Pos()), evalErr.Error())
		} else {
			r.Check(bad == 0, rule, "Writer.chooseTopic errors iff both or neither topic is set and returns the one that is set", p.Pos(choose.Pos()), "exhaustive over the 4 combinations", first)
		}
	}
	// too large: n > batchBytes with n = int64(msgs[i].totalSize())
	WM := p.Func("", "(*Writer).WriteMessages")
	if WM == nil {
		r.Lost(rule, "kafka.(*Writer).WriteMessages")
		return
	}
	okTL := false
	var tlCalls []ssa.CallInstruction = callsTo(WM, func(c *ssa.CallCommon) bool { return calleeNamed(c, "", "messageTooLarge") })
	for _, tc := range tlCalls {
		for d, child := tc.Block().Idom(), tc.Block(); d != nil; d, child = d.Idom(), d {
			_, ci := an.IfCond(d)
			if ci == nil || ci.Op != token.LSS || !(d.Succs[0] == child || d.Succs[0].Dominates(child)) {
				continue
			}
			dx, dy := argDesc(ci.Y), argDesc(ci.X) // n > batchBytes is reported as batchBytes < n
			if strings.Contains(dx, "totalSize") && strings.Contains(dy, "batchBytes") {
				okTL = true
			}
		}
	}
	r.Check(okTL && len(tlCalls) == 1, rule, "WriteMessages rejects a message iff totalSize() > batchBytes()", p.Pos(WM.Pos()), "if int64(msgs[i].totalSize()) > w.batchBytes() { return messageTooLarge(msgs, i) }", "not recognised")
}

func c08CloseWhenFull(p *load.Program, r *oblig.Report) {
	const rule = "C08.R2 a refused or full batch is closed on every path"
	wm := p.Func("", "(*partitionWriter).writeMessages")
	add, full := p.Func("", "(*writeBatch).add"), p.Func("", "(*writeBatch).full")
	if wm == nil || add == nil || full == nil {
		r.Lost(rule, "kafka.(*partitionWriter).writeMessages")
		return
	}
	isClose := func(i ssa.Instruction) bool {
		st, ok := fieldStoreIs(i, "partitionWriter", "currBatch")
		return ok && an.IsNilConst(st.Val)
	}
	isPut := func(i ssa.Instruction) bool {
		c, ok := i.(*ssa.Call)
		return ok && calleeNamed(&c.Call, "batchQueue", "Put")
	}
	isTrigger := func(i ssa.Instruction) bool {
		c, ok := i.(*ssa.Call)
		return ok && calleeNamed(&c.Call, "writeBatch", "trigger")
	}
	for _, spec := range []struct {
		callee *ssa.Function
		onTrue bool
		what   string
	}{{add, false, "refused add"}, {full, true, "full batch"}} {
		calls := callsTo(wm, func(c *ssa.CallCommon) bool { return an.StaticCalleeIs(c, spec.callee) })
		if len(calls) != 1 {
			r.Bad(rule, "writeMessages → "+spec.what, p.Pos(wm.Pos()), "one call of "+an.RefFuncName(spec.callee), fmt.Sprint(len(calls)))
			continue
		}
		call := calls[0].(*ssa.Call)
		// the If on the call's result
		iff, _ := an.IfCond(call.Block())
		if iff == nil || (an.CondOf(iff) != ssa.Value(call)) {
			// `if !batch.add(...)`: cond is the call itself with swapped successors in SSA
			if u, ok := an.CondOf(iff).(*ssa.UnOp); !ok || u.X != ssa.Value(call) {
				r.Undecided(rule, "writeMessages → "+spec.what, p.Pos(call.Pos()), "the result is not tested directly")
				continue
			}
		}
		succ := call.Block().Succs[0]
		if !spec.onTrue {
			succ = call.Block().Succs[1]
		}
		if u, ok := an.CondOf(iff).(*ssa.UnOp); ok && u.Op == token.NOT {
			// negated condition: swap
			if spec.onTrue {
				succ = call.Block().Succs[1]
			} else {
				succ = call.Block().Succs[0]
			}
		}
		okAll := true
		var missing []string
		for name, pred := range map[string]func(ssa.Instruction) bool{"trigger()": isTrigger, "queue.Put(batch)": isPut, "currBatch = nil": isClose} {
			// must pass before reaching either a return or the next add call
			q := an.PathQuery{Fn: wm, Stop: pred, Target: func(i ssa.Instruction) bool {
				if an.IsReturn(i) {
					return true
				}
				c, ok := i.(*ssa.Call)
				return ok && an.StaticCalleeIs(&c.Call, add)
			}}
			if q.ReachableFrom(an.Point{B: succ, Idx: -1}) != nil {
				okAll = false
				missing = append(missing, name)
			}
		}
		r.Check(okAll, rule, "writeMessages → "+spec.what+" closes the batch", p.Pos(call.Pos()), "trigger(), queue.Put(batch) and currBatch = nil before the next message is considered", "missing on some path: "+strings.Join(missing, ", "))
	}
	// a refused add retries the same message: from the refusal edge the add call is reached again without advancing the range
	calls := callsTo(wm, func(c *ssa.CallCommon) bool { return an.StaticCalleeIs(c, add) })
	if len(calls) == 1 {
		call := calls[0].(*ssa.Call)
		succ := call.Block().Succs[1]
		if iff, _ := an.IfCond(call.Block()); iff != nil {
			if u, ok := an.CondOf(iff).(*ssa.UnOp); ok && u.Op == token.NOT {
				succ = call.Block().Succs[0]
			}
		}
		q := an.PathQuery{Fn: wm, Stop: func(i ssa.Instruction) bool {
			// advancing the range: the loop header's phi increment block — approximated by reaching the range's index BinOp
			if bo, ok := i.(*ssa.BinOp); ok && bo.Op == token.ADD {
				if k, ok := an.ConstInt(bo.Y); ok && k == 1 {
					if _, isPhi := bo.X.(*ssa.Phi); isPhi {
						return true
					}
				}
			}
			return false
		}, Target: func(i ssa.Instruction) bool { return i == ssa.Instruction(call) }}
		r.Check(q.ReachableFrom(an.Point{B: succ, Idx: -1}) != nil, rule, "writeMessages → the refused message is retried on a fresh batch", p.Pos(call.Pos()), "goto assignMessage: add is re-evaluated for the same index", "the message is skipped")
	}
}

func c08ValidationFirst(p *load.Program, r *oblig.Report) {
	const rule = "C08.R3 the whole call is validated before anything is batched"
	WM := p.Func("", "(*Writer).WriteMessages")
	if WM == nil {
		r.Lost(rule, "kafka.(*Writer).WriteMessages")
		return
	}
	bms := callsTo(WM, func(c *ssa.CallCommon) bool { return calleeNamed(c, "Writer", "batchMessages") })
	if len(bms) != 1 {
		r.Bad(rule, "WriteMessages → batchMessages call", p.Pos(WM.Pos()), "exactly one", fmt.Sprint(len(bms)))
		return
	}
	bm := bms[0]
	// no validation call is reachable after batchMessages, and each validation call can reach batchMessages
	var after []string
	nVal := 0
	for _, name := range []string{"messageTooLarge", "chooseTopic", "partitions", "totalSize"} {
		for _, c := range callsTo(WM, func(cc *ssa.CallCommon) bool { f := cc.StaticCallee(); return f != nil && an.RefFuncName(f) == name }) {
			nVal++
			q := an.PathQuery{Fn: WM, Target: func(i ssa.Instruction) bool { return i == c.(ssa.Instruction) }}
			if q.ReachableFrom(an.PointOf(bm)) != nil {
				after = append(after, name)
			}
		}
	}
	r.Check(len(after) == 0 && nVal >= 4, rule, "WriteMessages → no validation step runs after batching started", p.Pos(bm.Pos()), "messageTooLarge / chooseTopic / partitions only before batchMessages", strings.Join(after, ", "))
	// batchMessages is outside the validation loops: the loop headers dominate it
	okDom := true
	for _, name := range []string{"chooseTopic", "totalSize"} {
		for _, c := range callsTo(WM, func(cc *ssa.CallCommon) bool { f := cc.StaticCallee(); return f != nil && an.RefFuncName(f) == name }) {
			// the loop header = the immediate dominator chain element with a back edge from c's block
			hdr := loopHeaderOf(c.Block())
			if hdr == nil || !(hdr.Parent() == bm.Parent() && hdr.Dominates(bm.Block()) || hdr.Parent() != bm.Parent() && an.Dominates(hdr.Instrs[0], bm.(ssa.Instruction))) {
				okDom = false
			}
			// and batchMessages is not inside that loop
			if hdr != nil {
				q := an.PathQuery{Fn: WM, Target: func(i ssa.Instruction) bool { return i.Block() == hdr }}
				if q.ReachableFrom(an.PointOf(bm)) != nil {
					okDom = false
				}
			}
		}
	}
	// every message goes through chooseTopic in the iteration that assigns it: the call dominates the recording of the
	// message's index and sits in the same loop
	okEach := false
	var rec *ssa.MapUpdate
	an.EachInstr(WM, func(ins ssa.Instruction) {
		if mu, ok := ins.(*ssa.MapUpdate); ok && strings.Contains(typeShort(mu.Map.Type()), "topicPartition") {
			rec = mu
		}
	})
	if rec != nil {
		for _, c := range callsTo(WM, func(cc *ssa.CallCommon) bool { f := cc.StaticCallee(); return f != nil && an.RefFuncName(f) == "chooseTopic" }) {
			ci := c.(ssa.Instruction)
			if an.Dominates(ci, rec) && loopHeaderOf(ci.Block()) != nil && (loopHeaderOf(ci.Block()) == loopHeaderOf(rec.Block()) || ci.Parent() != rec.Parent()) {
				okEach = true
			}
		}
	}
	r.Check(okEach, rule, "WriteMessages → every message's topic is validated in the iteration that assigns the message", p.Pos(WM.Pos()), "w.chooseTopic(msg) dominates assignments[key] = append(…, i) inside the assignment loop", "chooseTopic does not run for every message")
	r.Check(okDom, rule, "WriteMessages → batchMessages runs after both validation loops completed", p.Pos(bm.Pos()), "the loops over msgs dominate the call and do not contain it", "not established")
}

func loopHeaderOf(b *ssa.BasicBlock) *ssa.BasicBlock {
	for d := b; d != nil; d = d.Idom() {
		for _, pr := range d.Preds {
			if d.Dominates(pr) && (pr == b || reachesBlock(b, pr, d)) {
				return d
			}
		}
	}
	return nil
}

func reachesBlock(from, to, avoid *ssa.BasicBlock) bool {
	seen := map[*ssa.BasicBlock]bool{}
	var walk func(x *ssa.BasicBlock) bool
	walk = func(x *ssa.BasicBlock) bool {
		if x == to {
			return true
		}
		if seen[x] || x == avoid {
			return false
		}
		seen[x] = true
		for _, s := range x.Succs {
			if walk(s) {
				return true
			}
		}
		return false
	}
	return walk(from)
}

func c08Waiter(p *load.Program, r *oblig.Report) {
	const rule = "C08.R4 every batch has exactly one timer waiter"
	nwbM := p.Func("", "(*partitionWriter).newWriteBatch")
	nwb := p.Func("", "newWriteBatch")
	await := p.Func("", "(*partitionWriter).awaitBatch")
	if nwbM == nil || nwb == nil || await == nil {
		r.Lost(rule, "kafka.(*partitionWriter).newWriteBatch / newWriteBatch / awaitBatch")
		return
	}
	// every non-nil store into currBatch comes from the method newWriteBatch
	n := 0
	for _, fn := range p.ModuleFunctions() {
		an.EachInstr(fn, func(ins ssa.Instruction) {
			st, ok := fieldStoreIs(ins, "partitionWriter", "currBatch")
			if !ok || an.IsNilConst(st.Val) {
				return
			}
			n++
			d := argDesc(st.Val)
			r.Check(d == "call:(*kafka.partitionWriter).newWriteBatch", rule, an.ShortFunc(fn)+" → a batch becomes current only through ptw.newWriteBatch()", p.Pos(st.Pos()), "ptw.currBatch = ptw.newWriteBatch()", d)
		})
	}
	r.RequireCount(rule+" (stores to currBatch)", n, 1)
	// the method: one call of the constructor with w.batchTimeout(), one spawn of a closure that calls awaitBatch on that batch
	ctor := callsTo(nwbM, func(c *ssa.CallCommon) bool { return an.StaticCalleeIs(c, nwb) })
	spawns := callsTo(nwbM, func(c *ssa.CallCommon) bool { return calleeNamed(c, "Writer", "spawn") })
	okTimeout, okAwait := false, false
	if len(ctor) == 1 {
		okTimeout = strings.Contains(argDesc(ctor[0].Common().Args[1]), "batchTimeout")
	}
	if len(spawns) == 1 {
		if mc, ok := spawns[0].Common().Args[1].(*ssa.MakeClosure); ok {
			cl := mc.Fn.(*ssa.Function)
			for _, c := range callsTo(cl, func(c *ssa.CallCommon) bool { return an.StaticCalleeIs(c, await) }) {
				// awaitBatch(batch) with batch bound to the constructor's result
				if fv, ok := c.Common().Args[1].(*ssa.UnOp); ok {
					_ = fv
				}
				for _, o := range an.Origins(c.Common().Args[1], an.FlowOpts{}) {
					if o.Kind == "call" && strings.HasSuffix(o.Name, "kafka.newWriteBatch") {
						okAwait = true
					}
				}
			}
		}
	}
	r.Check(len(ctor) == 1 && len(spawns) == 1 && okTimeout && okAwait, rule, "(*partitionWriter).newWriteBatch creates the batch with the configured timeout and starts its single waiter", p.Pos(nwbM.Pos()),
		"newWriteBatch(now, w.batchTimeout()) and one spawn(func() { ptw.awaitBatch(batch) })", fmt.Sprintf("ctorCalls=%d spawns=%d timeoutFromConfig=%v waiterOnThatBatch=%v", len(ctor), len(spawns), okTimeout, okAwait))
	// the constructor's timer is time.NewTimer(timeout)
	okTimer := false
	an.EachInstr(nwb, func(ins ssa.Instruction) {
		if call, ok := ins.(*ssa.Call); ok {
			if f := call.Call.StaticCallee(); f != nil && an.ShortFunc(f) == "time.NewTimer" && call.Call.Args[0] == ssa.Value(nwb.Params[1]) {
				okTimer = true
			}
		}
	})
	r.Check(okTimer, rule, "newWriteBatch arms the batch timer with its timeout argument", p.Pos(nwb.Pos()), "timer: time.NewTimer(timeout)", "not found")
	// awaitBatch waits on the timer and on ready
	okSel := false
	an.EachInstr(await, func(ins ssa.Instruction) {
		if sel, ok := ins.(*ssa.Select); ok && sel.Blocking && len(sel.States) == 2 {
			a, b := argDesc(sel.States[0].Chan), argDesc(sel.States[1].Chan)
			okSel = (strings.HasSuffix(a, ".timer.C") && strings.HasSuffix(b, ".ready")) || (strings.HasSuffix(b, ".timer.C") && strings.HasSuffix(a, ".ready"))
		}
	})
	r.Check(okSel, rule, "awaitBatch waits for the timer or for the batch to be closed, nothing else", p.Pos(await.Pos()), "select { case <-batch.timer.C: …; case <-batch.ready: … }", "not recognised")
	// trigger: every call is followed by currBatch = nil in the same function (same critical section) or the batch was the current one
	l := locksets(p)
	nt := 0
	for _, fn := range p.ModuleFunctions() {
		for _, c := range callsTo(fn, func(cc *ssa.CallCommon) bool { return calleeNamed(cc, "writeBatch", "trigger") }) {
			nt++
			locked := l.Before[c.(ssa.Instruction)].Holds("partitionWriter.mutex", false)
			hasNil := false
			an.EachInstr(fn, func(i ssa.Instruction) {
				if st, ok := fieldStoreIs(i, "partitionWriter", "currBatch"); ok && an.IsNilConst(st.Val) && st.Block() == c.Block() {
					hasNil = true
				}
			})
			r.Check(locked && hasNil, rule, an.ShortFunc(fn)+" → trigger() happens in the critical section that detaches the batch", p.Pos(c.Pos()), "partitionWriter.mutex held and currBatch = nil in the same block", fmt.Sprintf("locked=%v detaches=%v", locked, hasNil))
		}
	}
	r.RequireCount(rule+" (trigger sites)", nt, 3)
}

func c08Limits(p *load.Program, r *oblig.Report) {
	const rule = "C08.R5 limits and size measure"
	wm := p.Func("", "(*partitionWriter).writeMessages")
	add, full := p.Func("", "(*writeBatch).add"), p.Func("", "(*writeBatch).full")
	WM := p.Func("", "(*Writer).WriteMessages")
	if wm == nil || add == nil || full == nil || WM == nil {
		r.Lost(rule, "kafka writer functions")
		return
	}
	for _, c := range callsTo(wm, func(cc *ssa.CallCommon) bool { return an.StaticCalleeIs(cc, add) || an.StaticCalleeIs(cc, full) }) {
		args := c.Common().Args
		dSize, dBytes := argDesc(args[len(args)-2]), argDesc(args[len(args)-1])
		r.Check(strings.HasSuffix(dSize, ".batchSize") && strings.HasSuffix(dBytes, ".batchBytes"), rule, "writeMessages → "+an.RefFuncName(c.Common().StaticCallee())+" compares with the writer's configured limits", p.Pos(c.Pos()), "w.batchSize(), w.batchBytes()", dSize+", "+dBytes)
	}
	// same measure in validation and in add
	measure := func(fn *ssa.Function) string {
		var names []string
		an.EachInstr(fn, func(ins ssa.Instruction) {
			if call, ok := ins.(*ssa.Call); ok {
				if f := call.Call.StaticCallee(); f != nil && f.Signature.Recv() != nil && an.NamedIs(f.Signature.Recv().Type(), load.ModPath, "Message") {
					names = append(names, an.RefFuncName(f))
				}
			}
		})
		return strings.Join(names, ",")
	}
	mv, ma := measure(WM), measure(add)
	r.Check(mv == "totalSize" && ma == "totalSize", rule, "the same size measure (Message.totalSize: key+value+headers) is used for validation and for batching", p.Pos(add.Pos()), "totalSize in WriteMessages and in writeBatch.add", "WriteMessages: "+mv+"; add: "+ma)
	// accessors substitute defaults only for non-positive settings
	for name, field := range map[string]string{"(*Writer).batchSize": "BatchSize", "(*Writer).batchBytes": "BatchBytes", "(*Writer).batchTimeout": "BatchTimeout"} {
		fn := p.Func("", name)
		if fn == nil {
			r.Lost(rule, "kafka."+name)
			continue
		}
		_, ci := an.IfCond(fn.Blocks[0])
		ok := false
		if ci != nil && ci.Op == token.GTR && strings.HasSuffix(argDesc(ci.X), "."+field) {
			if k, isK := an.ConstInt(ci.Y); isK && k == 0 {
				// true edge returns the field
				tb := fn.Blocks[0].Succs[0]
				if ret, isR := tb.Instrs[len(tb.Instrs)-1].(*ssa.Return); isR && strings.HasSuffix(argDesc(ret.Results[0]), "."+field) {
					ok = true
				}
			}
		}
		r.Check(ok, rule, "kafka."+name+" returns the configured value when it is positive", p.Pos(fn.Pos()), "if w."+field+" > 0 { return w."+field+" }", "not recognised")
	}
}

// ---------------------------------------------------------------------------------------------
// C01

func runC01(p *load.Program, r *oblig.Report) {
	c01FanOut(p, r)
	c01WaitBeforeRead(p, r)
	c01RetryLoop(p, r)
	c01RequestIdentity(p, r)
	c01ProduceResponse(p, r)
	c01Temporary(p, r)
	c01MakeError(p, r, "C01.R9 an error code other than 0 is never taken for an acknowledgement")
	c01QueueDrainedBeforeNil(p, r, "C01.R10 the sender stops only when its queue is empty")
	c01WaitsForEveryBatch(p, r, "C01.R11 the results of a call are read when all its batches have completed")
	c07PutDiscipline(p, r, "C01.R4 a batch is produced once: enqueued while current, under the partition mutex")
	// the acknowledgement is read from a Produce response laid out as Kafka defines it: a field out of place makes an
	// acknowledged response fail to decode, which the Writer takes for a transient error and sends the batch again
	sub := oblig.NewReport("C01", r.Tier)
	c04Schemas(p, sub)
	for _, o := range sub.Obs {
		if !strings.Contains(o.Construct, "Produce") && !strings.Contains(o.Construct, "produce") {
			continue
		}
		o2 := *o
		o2.Rule = "C01.R8 the produce request and response have the Kafka wire layout (" + strings.SplitN(o.Rule, " ", 2)[0] + ")"
		r.Add(&o2)
	}
}

func c01FanOut(p *load.Program, r *oblig.Report) {
	const rule = "C01.R1 error fan-out to message positions"
	WM := p.Func("", "(*Writer).WriteMessages")
	if WM == nil {
		r.Lost(rule, "kafka.(*Writer).WriteMessages")
		return
	}
	pos := p.Pos(WM.Pos())
	// werr := make(WriteErrors, len(msgs))
	var werr *ssa.MakeSlice
	an.EachInstr(WM, func(ins ssa.Instruction) {
		if mk, ok := ins.(*ssa.MakeSlice); ok && an.NamedIs(mk.Type(), load.ModPath, "WriteErrors") {
			werr = mk
		}
	})
	if werr == nil {
		r.Bad(rule, "WriteMessages → WriteErrors allocation", pos, "make(WriteErrors, len(msgs))", "not found")
		return
	}
	r.Check(argDesc(werr.Len) == "call:len", rule, "WriteMessages → WriteErrors has one entry per message", p.Pos(werr.Pos()), "make(WriteErrors, len(msgs))", argDesc(werr.Len))
	// the store werr[i] = batch.err
	n := 0
	an.EachInstr(WM, func(ins ssa.Instruction) {
		st, ok := ins.(*ssa.Store)
		if !ok {
			return
		}
		ia, ok := st.Addr.(*ssa.IndexAddr)
		if !ok || an.Unwrap(ia.X) != ssa.Value(werr) {
			if ia == nil || !strings.Contains(argDesc(ia.X), "make:") {
				return
			}
		}
		n++
		// value: load of .err of the map range key; index: element of the map range value of the same Next
		var keyNext, idxNext ssa.Value
		if ld, ok := st.Val.(*ssa.UnOp); ok {
			if fa, ok := ld.X.(*ssa.FieldAddr); ok && an.FieldName(fa.X.Type(), fa.Field) == "err" {
				if ex, ok := fa.X.(*ssa.Extract); ok && ex.Index == 1 {
					keyNext = ex.Tuple
				}
			}
		}
		// index = int(indexes[k]) where indexes = extract #2 of the same Next
		iv := an.Unwrap(ia.Index)
		if ld, ok := iv.(*ssa.UnOp); ok {
			if ia2, ok := ld.X.(*ssa.IndexAddr); ok {
				if ex, ok := ia2.X.(*ssa.Extract); ok && ex.Index == 2 {
					idxNext = ex.Tuple
				}
			}
		}
		okSame := keyNext != nil && keyNext == idxNext
		isBatches := false
		if nx, ok := keyNext.(*ssa.Next); ok {
			if rg, ok := nx.Iter.(*ssa.Range); ok {
				isBatches = strings.Contains(argDesc(rg.X), "batchMessages")
			}
		}
		r.Check(okSame && isBatches, rule, "WriteMessages → werr[i] = err of the batch whose index list contains i", p.Pos(st.Pos()),
			"for batch, indexes := range batches { for _, i := range indexes { werr[i] = batch.err } }", fmt.Sprintf("keyAndIndexFromSameIteration=%v overBatchMessagesResult=%v", okSame, isBatches))
	})
	r.RequireCount(rule+" (stores into WriteErrors)", n, 1)
	// returned iff hasErrors; nil otherwise
	okRet := false
	for _, b := range an.Blocks(WM) {
		iff, _ := an.IfCond(b)
		if iff == nil {
			continue
		}
		// `if !hasErrors { return nil }`: cond is a phi of bools (hasErrors)
		if _, isPhi := an.CondOf(iff).(*ssa.Phi); isPhi {
			for si, s := range b.Succs {
				if ret, ok := s.Instrs[len(s.Instrs)-1].(*ssa.Return); ok && len(ret.Results) == 1 && an.IsNilConst(an.RetVal(ret, 0)) && si == 1 {
					okRet = true
				}
			}
		}
	}
	r.Check(okRet, rule, "WriteMessages → nil is returned iff no awaited batch failed", pos, "if !hasErrors { return nil }", "not recognised")
	// the flag is sticky: once a failed batch was seen no later batch can clear it. Every value merged into the flag
	// is `true`, the initial `false` from outside the wait loop, or a value assigned while the flag was tested false.
	var flag *ssa.Phi
	for _, b := range an.Blocks(WM) {
		iff, _ := an.IfCond(b)
		if iff == nil {
			continue
		}
		c := an.CondOf(iff)
		if u, isU := c.(*ssa.UnOp); isU && u.Op == token.NOT {
			c = u.X
		}
		ph, isPhi := c.(*ssa.Phi)
		if !isPhi {
			continue
		}
		for _, s2 := range b.Succs {
			if ret, ok := s2.Instrs[len(s2.Instrs)-1].(*ssa.Return); ok && len(ret.Results) == 1 && an.IsNilConst(an.RetVal(ret, 0)) {
				flag = ph
			}
		}
	}
	if flag == nil {
		return
	}
	closure := map[*ssa.Phi]bool{}
	var clearers []string
	var walk func(ph *ssa.Phi)
	walk = func(ph *ssa.Phi) {
		if closure[ph] {
			return
		}
		closure[ph] = true
		for _, e := range ph.Edges {
			if q, isPhi := e.(*ssa.Phi); isPhi {
				walk(q)
			}
		}
	}
	walk(flag)
	testedFalse := func(pb *ssa.BasicBlock) bool {
		for d, child := pb.Idom(), pb; d != nil; d, child = d.Idom(), d {
			iff, _ := an.IfCond(d)
			if iff == nil {
				continue
			}
			c, neg := an.CondOf(iff), false
			if u, isU := c.(*ssa.UnOp); isU && u.Op == token.NOT {
				c, neg = u.X, true
			}
			ph, isPhi := c.(*ssa.Phi)
			if !isPhi || !closure[ph] {
				continue
			}
			falseIdx := 1
			if neg {
				falseIdx = 0
			}
			if edgeControls(d, falseIdx, child) {
				return true
			}
		}
		return false
	}
	for ph := range closure {
		for i, e := range ph.Edges {
			pb := ph.Block().Preds[i]
			switch v := e.(type) {
			case *ssa.Phi:
				continue
			case *ssa.Const:
				if v.Value != nil && constant.BoolVal(v.Value) {
					continue
				}
				// false: only as the initial value, i.e. from a block that is not inside a cycle through the merge
				q := an.PathQuery{Fn: WM, Target: func(i2 ssa.Instruction) bool { return i2.Block() == pb }}
				if q.ReachableFrom(an.Point{B: ph.Block(), Idx: -1}) == nil {
					continue
				}
			}
			if testedFalse(pb) {
				continue
			}
			clearers = append(clearers, clean(an.Shape(e))+" merged at "+p.Pos(ph.Pos()))
		}
	}
	sort.Strings(clearers)
	r.Check(len(clearers) == 0, rule, "WriteMessages → a failed batch is never forgotten while waiting for the others", pos, "hasErrors only goes from false to true", strings.Join(clearers, "; "))
}

func c01WaitBeforeRead(p *load.Program, r *oblig.Report) {
	const rule = "C01.R2 batch result read only after completion"
	WM := p.Func("", "(*Writer).WriteMessages")
	comp := p.Func("", "(*writeBatch).complete")
	if WM == nil || comp == nil {
		r.Lost(rule, "kafka.(*Writer).WriteMessages / (*writeBatch).complete")
		return
	}
	// complete: store err then close(done), nothing else closes done
	var stErr, clDone ssa.Instruction
	an.EachInstr(comp, func(ins ssa.Instruction) {
		if st, ok := fieldStoreIs(ins, "writeBatch", "err"); ok {
			stErr = st
		}
		if call, ok := ins.(*ssa.Call); ok {
			if b, ok := call.Call.Value.(*ssa.Builtin); ok && b.Name() == "close" && strings.HasSuffix(argDesc(call.Call.Args[0]), ".done") {
				clDone = call
			}
		}
	})
	r.Check(stErr != nil && clDone != nil && an.Dominates(stErr, clDone), rule, "writeBatch.complete publishes err before closing done", p.Pos(comp.Pos()), "b.err = err; close(b.done)", "order not established")
	closers := 0
	for _, fn := range p.ModuleFunctions() {
		an.EachInstr(fn, func(ins ssa.Instruction) {
			if call, ok := ins.(*ssa.Call); ok {
				if b, ok := call.Call.Value.(*ssa.Builtin); ok && b.Name() == "close" {
					d := argDesc(call.Call.Args[0])
					if strings.HasSuffix(d, ".done") && strings.Contains(types.TypeString(call.Call.Args[0].Type(), nil), "struct{}") {
						for _, o := range an.Origins(call.Call.Args[0], an.FlowOpts{}) {
							if prm, ok := o.Val.(*ssa.Parameter); ok && an.NamedIs(prm.Type(), load.ModPath, "writeBatch") {
								closers++
							}
						}
					}
				}
			}
		})
	}
	r.Check(closers == 1, rule, "complete() is the only place that closes a batch's done channel", p.Pos(comp.Pos()), "1 closer", fmt.Sprint(closers))
	callers := 0
	for _, fn := range p.ModuleFunctions() {
		callers += len(callsTo(fn, func(c *ssa.CallCommon) bool { return an.StaticCalleeIs(c, comp) }))
	}
	r.Check(callers == 1, rule, "complete() is called from exactly one place (the end of writeBatch)", p.Pos(comp.Pos()), "1 call site", fmt.Sprint(callers))
	// WriteMessages: a select on ctx.Done() and batch.done; loads of .err happen after it
	var sel *ssa.Select
	an.EachInstr(WM, func(ins ssa.Instruction) {
		if s, ok := ins.(*ssa.Select); ok && s.Blocking {
			for _, st := range s.States {
				if strings.HasSuffix(argDesc(st.Chan), ".done") {
					sel = s
				}
			}
		}
	})
	if sel == nil {
		r.Bad(rule, "WriteMessages → wait for batch completion", p.Pos(WM.Pos()), "select { case <-ctx.Done(): …; case <-batch.done: … }", "not found")
		return
	}
	okLoads := true
	nLoads := 0
	an.EachInstr(WM, func(ins ssa.Instruction) {
		ld, ok := ins.(*ssa.UnOp)
		if !ok || !isLoadOfField(ld, "writeBatch", "err") {
			return
		}
		nLoads++
		if !an.Dominates(sel, ld) {
			// the final loop: must not be reachable without passing the wait loop's exit: the select's block dominates via loop header
			hdr := loopHeaderOf(sel.Block())
			if hdr == nil || len(hdr.Instrs) == 0 || !(hdr.Dominates(ld.Block()) || an.Dominates(hdr.Instrs[0], ld)) {
				okLoads = false
			}
		}
	})
	r.Check(okLoads && nLoads >= 2, rule, "WriteMessages reads batch.err only after waiting for every batch", p.Pos(sel.Pos()), "loads of batch.err are dominated by the wait loop", fmt.Sprintf("loads=%d ok=%v", nLoads, okLoads))
	// the wait loop ranges over the same map as the fan-out loop and the ctx arm returns ctx.Err()
	okCtx := false
	for i, st := range sel.States {
		if strings.Contains(argDesc(st.Chan), "Done") && !strings.HasSuffix(argDesc(st.Chan), ".done") {
			_ = i
			okCtx = true
		}
	}
	r.Check(okCtx, rule, "WriteMessages → the wait can be interrupted by the caller's context", p.Pos(sel.Pos()), "case <-ctx.Done(): return ctx.Err()", "no ctx arm")
}

func c01RetryLoop(p *load.Program, r *oblig.Report) {
	const rule = "C01.R3 retry loop and single completion"
	wb := p.Func("", "(*partitionWriter).writeBatch")
	if wb == nil {
		r.Lost(rule, "kafka.(*partitionWriter).writeBatch")
		return
	}
	pos := p.Pos(wb.Pos())
	decl := p.Decl(wb.Object().(*types.Func))
	info := p.Pkg("").TypesInfo
	if decl == nil || decl.Body == nil {
		r.Lost(rule, "syntax of writeBatch")
		return
	}
	obj := func(e ast.Expr) types.Object {
		if id, ok := ast.Unparen(e).(*ast.Ident); ok {
			if o := info.Uses[id]; o != nil {
				return o
			}
			return info.Defs[id]
		}
		return nil
	}
	calleeName := func(e ast.Expr) string {
		c, ok := ast.Unparen(e).(*ast.CallExpr)
		if !ok {
			return ""
		}
		switch f := c.Fun.(type) {
		case *ast.Ident:
			return f.Name
		case *ast.SelectorExpr:
			return f.Sel.Name
		}
		return ""
	}
	// the retry loop: the top-level for statement that contains the produce call
	var loop *ast.ForStmt
	loopIdx := -1
	for i, st := range decl.Body.List {
		fs, ok := st.(*ast.ForStmt)
		if !ok {
			continue
		}
		has := false
		ast.Inspect(fs, func(n ast.Node) bool {
			if c, ok := n.(*ast.CallExpr); ok && calleeName(c) == "produce" {
				has = true
			}
			return true
		})
		if has {
			loop, loopIdx = fs, i
		}
	}
	if loop == nil {
		r.Bad(rule, "writeBatch → produce inside a retry loop", pos, "for attempt := 0; attempt < maxAttempts; attempt++ { … produce … }", "no top-level loop contains the produce call")
		return
	}
	// bound: counter from 0, < maxAttempts(), ++
	okBound := false
	if as, ok := loop.Init.(*ast.AssignStmt); ok && len(as.Lhs) >= 1 && len(as.Lhs) == len(as.Rhs) {
		ctr := obj(as.Lhs[0])
		zero := false
		if tv, ok := info.Types[as.Rhs[0]]; ok && tv.Value != nil && tv.Value.ExactString() == "0" {
			zero = true
		}
		var maxObj types.Object
		for k := range as.Lhs {
			if calleeName(as.Rhs[k]) == "maxAttempts" {
				maxObj = obj(as.Lhs[k])
			}
		}
		be, _ := ast.Unparen(loop.Cond).(*ast.BinaryExpr)
		if be != nil && be.Op == token.GTR {
			// `max > attempt` is the same bound as `attempt < max`
			be = &ast.BinaryExpr{X: be.Y, Op: token.LSS, Y: be.X}
		}
		if be != nil && be.Op == token.LSS && obj(be.X) == ctr && ctr != nil {
			bound := obj(be.Y) == maxObj && maxObj != nil
			if !bound && calleeName(be.Y) == "maxAttempts" {
				bound = true
			}
			if inc, ok := loop.Post.(*ast.IncDecStmt); ok && inc.Tok == token.INC && obj(inc.X) == ctr {
				okBound = zero && bound
			}
		}
	}
	r.Check(okBound, rule, "writeBatch → at most maxAttempts() produce attempts", p.Pos(loop.Pos()), "for attempt := 0; attempt < w.maxAttempts(); attempt++", "loop bound not recognised")
	// statements of the loop body (top level)
	var resObj, errObj types.Object
	prodIdx, overrideIdx, nilBreakIdx, permBreakIdx := -1, -1, -1, -1
	isBreak := func(b *ast.BlockStmt) bool {
		if len(b.List) != 1 {
			return false
		}
		br, ok := b.List[0].(*ast.BranchStmt)
		return ok && br.Tok == token.BREAK && br.Label == nil
	}
	for i, st := range loop.Body.List {
		switch x := st.(type) {
		case *ast.AssignStmt:
			if len(x.Rhs) == 1 && calleeName(x.Rhs[0]) == "produce" && len(x.Lhs) == 2 && x.Tok == token.ASSIGN {
				resObj, errObj = obj(x.Lhs[0]), obj(x.Lhs[1])
				prodIdx = i
			}
		case *ast.IfStmt:
			be, _ := ast.Unparen(x.Cond).(*ast.BinaryExpr)
			if be != nil && be.Op == token.NEQ && resObj != nil && ((obj(be.X) == resObj && isNilIdent(be.Y)) || (obj(be.Y) == resObj && isNilIdent(be.X))) {
				// body assigns err = res.Error
				for _, s2 := range x.Body.List {
					if as, ok := s2.(*ast.AssignStmt); ok && len(as.Lhs) == 1 && obj(as.Lhs[0]) == errObj && as.Tok == token.ASSIGN {
						if sel, ok := as.Rhs[0].(*ast.SelectorExpr); ok && obj(sel.X) == resObj && sel.Sel.Name == "Error" {
							overrideIdx = i
						}
					}
				}
			}
			if be != nil && be.Op == token.EQL && errObj != nil && ((obj(be.X) == errObj && isNilIdent(be.Y)) || (obj(be.Y) == errObj && isNilIdent(be.X))) && isBreak(x.Body) && x.Else == nil {
				nilBreakIdx = i
			}
			if isBreak(x.Body) && x.Else == nil {
				// the break condition as a boolean function of isTemporary(err) and isTransientNetworkError(err):
				// it must be true exactly when both are false (any equivalent spelling is accepted)
				atoms := map[string]bool{}
				okAtoms := true
				var eval func(e ast.Expr, env map[string]bool) bool
				eval = func(e ast.Expr, env map[string]bool) bool {
					switch y := ast.Unparen(e).(type) {
					case *ast.UnaryExpr:
						if y.Op == token.NOT {
							return !eval(y.X, env)
						}
					case *ast.BinaryExpr:
						switch y.Op {
						case token.LAND:
							return eval(y.X, env) && eval(y.Y, env)
						case token.LOR:
							return eval(y.X, env) || eval(y.Y, env)
						}
					case *ast.CallExpr:
						n := calleeName(y)
						if (n == "isTemporary" || n == "isTransientNetworkError") && len(y.Args) == 1 && obj(y.Args[0]) == errObj {
							atoms[n] = true
							return env[n]
						}
					}
					okAtoms = false
					return false
				}
				match := true
				for _, t := range []bool{false, true} {
					for _, n := range []bool{false, true} {
						if eval(x.Cond, map[string]bool{"isTemporary": t, "isTransientNetworkError": n}) != (!t && !n) {
							match = false
						}
					}
				}
				if match && okAtoms && atoms["isTemporary"] && atoms["isTransientNetworkError"] && errObj != nil {
					permBreakIdx = i
				}
			}
		}
	}
	r.Check(prodIdx >= 0 && errObj != nil, rule, "writeBatch → res, err = w.produce(key, batch) inside the loop", p.Pos(loop.Pos()), "assignment of both results", "not recognised")
	r.Check(overrideIdx > prodIdx && prodIdx >= 0, rule, "writeBatch → the broker's partition error overrides the transport result", p.Pos(loop.Pos()), "if res != nil { err = res.Error } after produce", "not recognised")
	r.Check(nilBreakIdx > overrideIdx && overrideIdx >= 0, rule, "writeBatch → success ends the retry loop", p.Pos(loop.Pos()), "if err == nil { break } after the override", "not recognised")
	r.Check(permBreakIdx > nilBreakIdx && nilBreakIdx >= 0, rule, "writeBatch → only temporary or transient network errors are retried", p.Pos(loop.Pos()), "if !isTemporary(err) && !isTransientNetworkError(err) { break }", "not recognised")
	// no other assignment to err, no continue/return/goto and no other break in the loop, no assignment to err after it
	var stray []string
	ast.Inspect(loop.Body, func(n ast.Node) bool {
		switch x := n.(type) {
		case *ast.FuncLit:
			return false
		case *ast.AssignStmt:
			for _, l := range x.Lhs {
				if obj(l) == errObj && errObj != nil {
					okSite := false
					if prodIdx >= 0 && x == loop.Body.List[prodIdx] {
						okSite = true
					}
					if overrideIdx >= 0 {
						if ifs, ok := loop.Body.List[overrideIdx].(*ast.IfStmt); ok {
							for _, s2 := range ifs.Body.List {
								if s2 == ast.Stmt(x) {
									okSite = true
								}
							}
						}
					}
					if !okSite {
						stray = append(stray, "extra assignment to err at "+p.Pos(x.Pos()))
					}
				}
			}
		case *ast.BranchStmt:
			if x.Tok != token.BREAK {
				stray = append(stray, x.Tok.String()+" at "+p.Pos(x.Pos()))
			}
		case *ast.ReturnStmt:
			stray = append(stray, "return at "+p.Pos(x.Pos()))
		}
		return true
	})
	nBreaks := 0
	ast.Inspect(loop.Body, func(n ast.Node) bool {
		if _, ok := n.(*ast.FuncLit); ok {
			return false
		}
		if _, ok := n.(*ast.ForStmt); ok {
			return false
		}
		if br, ok := n.(*ast.BranchStmt); ok && br.Tok == token.BREAK {
			nBreaks++
		}
		return true
	})
	if nBreaks != 2 {
		stray = append(stray, fmt.Sprintf("%d break statements (want 2)", nBreaks))
	}
	// after the loop
	nComplete, nCompletion := 0, 0
	okComplete, okCompletion := false, false
	for _, st := range decl.Body.List[loopIdx+1:] {
		ast.Inspect(st, func(n ast.Node) bool {
			switch x := n.(type) {
			case *ast.AssignStmt:
				for _, l := range x.Lhs {
					if obj(l) == errObj {
						stray = append(stray, "err reassigned after the loop")
					}
				}
			case *ast.CallExpr:
				switch calleeName(x) {
				case "complete":
					nComplete++
					if len(x.Args) == 1 && obj(x.Args[0]) == errObj {
						okComplete = true
					}
				case "Completion":
					nCompletion++
					if len(x.Args) == 2 && obj(x.Args[1]) == errObj {
						if sel, ok := x.Args[0].(*ast.SelectorExpr); ok && sel.Sel.Name == "msgs" {
							okCompletion = true
						}
					}
				}
			}
			return true
		})
	}
	r.Check(len(stray) == 0, rule, "writeBatch → the loop has no other exit and err no other writer", p.Pos(loop.Pos()), "exits: attempts exhausted, success, permanent error", strings.Join(stray, "; "))
	// complete is a top-level statement after the loop (runs exactly once on every path: no return statements in the function)
	topLevel := false
	for _, st := range decl.Body.List[loopIdx+1:] {
		if es, ok := st.(*ast.ExprStmt); ok && calleeName(es.X) == "complete" {
			topLevel = true
		}
	}
	hasReturn := false
	ast.Inspect(decl.Body, func(n ast.Node) bool {
		if _, ok := n.(*ast.FuncLit); ok {
			return false
		}
		if _, ok := n.(*ast.ReturnStmt); ok {
			hasReturn = true
		}
		return true
	})
	r.Check(nComplete == 1 && okComplete && topLevel && !hasReturn, rule, "writeBatch → batch.complete(err) exactly once, after the loop, with the error that left the loop", pos, "one unconditional call after the loop; no early return", fmt.Sprintf("calls=%d argIsLoopErr=%v unconditional=%v earlyReturn=%v", nComplete, okComplete, topLevel, hasReturn))
	r.Check(nCompletion == 1 && okCompletion, rule, "writeBatch → Completion receives the batch's messages and the final error, once", pos, "w.Completion(batch.msgs, err) after the loop", fmt.Sprintf("calls=%d args=%v", nCompletion, okCompletion))
	// the same facts at SSA level where closures do not force variables into memory cells are covered by C07.R2
}

func isNilIdent(e ast.Expr) bool {
	id, ok := ast.Unparen(e).(*ast.Ident)
	return ok && id.Name == "nil"
}

func leavesLoop(b, hdr *ssa.BasicBlock) bool {
	return !reachesBlock(b, hdr, nil)
}

func c01RequestIdentity(p *load.Program, r *oblig.Report) {
	const rule = "C01.R5 the produce request is this batch for this partition"
	prod := p.Func("", "(*Writer).produce")
	WM := p.Func("", "(*Writer).WriteMessages")
	wm := p.Func("", "(*partitionWriter).writeMessages")
	wb := p.Func("", "(*partitionWriter).writeBatch")
	if prod == nil || WM == nil || wm == nil || wb == nil {
		r.Lost(rule, "kafka.(*Writer).produce / WriteMessages / writeMessages / writeBatch")
		return
	}
	// fields of the ProduceRequest literal
	want := map[string]string{"Partition": "param:key.partition", "Topic": "param:key.topic", "RequiredAcks": "param:w.RequiredAcks", "Compression": "param:w.Compression"}
	got := map[string]string{}
	var recAlloc *ssa.Alloc
	an.EachInstr(prod, func(ins ssa.Instruction) {
		st, ok := ins.(*ssa.Store)
		if !ok {
			return
		}
		fa, ok := st.Addr.(*ssa.FieldAddr)
		if !ok {
			return
		}
		if an.NamedIs(fa.X.Type(), load.ModPath, "ProduceRequest") {
			name := an.FieldName(fa.X.Type(), fa.Field)
			got[name] = argDesc(st.Val)
			if name == "Records" {
				if mi, ok := st.Val.(*ssa.MakeInterface); ok {
					recAlloc, _ = mi.X.(*ssa.Alloc)
				}
			}
		}
	})
	for f, w := range want {
		r.Check(got[f] == w, rule, "Writer.produce → ProduceRequest."+f, p.Pos(prod.Pos()), w, got[f])
	}
	// Records: a fresh writerRecords over batch.msgs, created inside produce (so every attempt re-reads from the start)
	okRec := false
	if recAlloc != nil && an.NamedIs(recAlloc.Type(), load.ModPath, "writerRecords") {
		for _, ref := range *recAlloc.Referrers() {
			if fa, ok := ref.(*ssa.FieldAddr); ok && an.FieldName(recAlloc.Type(), fa.Field) == "msgs" {
				for _, r2 := range *fa.Referrers() {
					if st, ok := r2.(*ssa.Store); ok && argDesc(st.Val) == "param:batch.msgs" {
						okRec = true
					}
				}
			}
		}
	}
	r.Check(okRec, rule, "Writer.produce → Records is a fresh reader over batch.msgs on every attempt", p.Pos(prod.Pos()), "Records: &writerRecords{msgs: batch.msgs} allocated in produce", got["Records"])
	// writeBatch passes its own key and batch
	for _, c := range callsTo(wb, func(cc *ssa.CallCommon) bool { return an.StaticCalleeIs(cc, prod) }) {
		a := c.Common().Args
		dk, db := argDesc(a[1]), argDesc(a[2])
		okK := strings.Contains(dk, "param:ptw.meta") && onlyAllocsBeside(dk, "param:ptw.meta")
		okB := strings.Contains(db, "param:batch") && onlyAllocsBeside(db, "param:batch")
		r.Check(okK && okB, rule, "writeBatch → produce(key, batch) uses the partition writer's key and the batch being written", p.Pos(c.Pos()), "produce(ptw.meta, batch)", argDesc(a[1])+", "+argDesc(a[2]))
	}
	// WriteMessages: key{topic ← chooseTopic, partition ← Balance}
	okKey := false
	an.EachInstr(WM, func(ins ssa.Instruction) {
		al, ok := ins.(*ssa.Alloc)
		if !ok || !an.NamedIs(al.Type(), load.ModPath, "topicPartition") {
			return
		}
		var t, pt string
		for _, ref := range *al.Referrers() {
			if fa, ok := ref.(*ssa.FieldAddr); ok {
				for _, r2 := range *fa.Referrers() {
					if st, ok := r2.(*ssa.Store); ok {
						switch an.FieldName(al.Type(), fa.Field) {
						case "topic":
							t = argDesc(st.Val)
						case "partition":
							pt = argDesc(st.Val)
						}
					}
				}
			}
		}
		// the topic is the validated one and nothing else; the partition is what the balancer returned
		allFrom := func(desc, marker string) bool {
			if desc == "" {
				return false
			}
			for _, part := range strings.Split(desc, "|") {
				if !strings.Contains(part, marker) {
					return false
				}
			}
			return true
		}
		if allFrom(t, "chooseTopic#0") && allFrom(pt, ").Balance") {
			okKey = true
		}
	})
	r.Check(okKey, rule, "WriteMessages → the routing key is (chooseTopic(msg), balancer.Balance(msg, …))", p.Pos(WM.Pos()), "topicPartition{topic: topic, partition: int32(partition)}", "not recognised")
	// partition writer lookup/creation uses the same key
	bm := p.Func("", "(*Writer).batchMessages")
	if bm != nil {
		okW := false
		an.EachInstr(bm, func(ins ssa.Instruction) {
			if call, ok := ins.(*ssa.Call); ok && calleeNamed(&call.Call, "partitionWriter", "writeMessages") {
				// receiver ← w.writers[key] / newPartitionWriter(w, key); indexes ← assignments[key] of the same range
				okW = strings.Contains(argDesc(call.Call.Args[0]), "newPartitionWriter") && strings.Contains(argDesc(call.Call.Args[0]), ".writers[]") && argDesc(call.Call.Args[2]) == "param:assignments[]"
			}
		})
		r.Check(okW, rule, "batchMessages → each key's indexes go to that key's partition writer", p.Pos(bm.Pos()), "w.writers[key] (or newPartitionWriter(w, key)).writeMessages(messages, indexes)", "not recognised")
	}
	// writeMessages: batches[batch] = append(batches[batch], i): the element index, keyed by the batch that accepted it
	add := p.Func("", "(*writeBatch).add")
	okRecord := false
	an.EachInstr(wm, func(ins ssa.Instruction) {
		mu, ok := ins.(*ssa.MapUpdate)
		if !ok {
			return
		}
		call, ok := mu.Value.(*ssa.Call)
		if !ok {
			return
		}
		if b, ok := call.Call.Value.(*ssa.Builtin); !ok || b.Name() != "append" {
			return
		}
		va := an.VarArgs(call.Call.Args[1])
		if len(va) != 1 {
			return
		}
		idx := argDesc(va[0])
		// key = the batch passed to the accepted add
		keyIsAccepted := false
		for _, c := range callsTo(wm, func(cc *ssa.CallCommon) bool { return an.StaticCalleeIs(cc, add) }) {
			if c.Common().Args[0] == mu.Key {
				keyIsAccepted = true
			}
		}
		// … and the message added to that batch is msgs[i] for the same i
		sameMsg := false
		for _, c := range callsTo(wm, func(cc *ssa.CallCommon) bool { return an.StaticCalleeIs(cc, add) }) {
			for _, o := range an.Origins(c.Common().Args[1], an.FlowOpts{}) {
				if o.Kind == "param" && o.Name == "msgs" && o.Path == "[]" {
					for _, k := range o.Keys {
						if an.Unwrap(k) == an.Unwrap(va[0]) || clean(an.Shape(k)) == clean(an.Shape(va[0])) {
							sameMsg = true
						}
					}
				}
			}
		}
		keyIsAccepted = keyIsAccepted && sameMsg
		lk, isLk := call.Call.Args[0].(*ssa.Lookup)
		okRecord = idx == "param:indexes[]" && keyIsAccepted && isLk && (lk.X == mu.Map || clean(an.Shape(lk.X)) == clean(an.Shape(mu.Map))) && (lk.Index == mu.Key || clean(an.Shape(lk.Index)) == clean(an.Shape(mu.Key)))
	})
	r.Check(okRecord, rule, "writeMessages → each index is recorded once, under the batch that accepted the message", p.Pos(wm.Pos()), "batches[batch] = append(batches[batch], i)", "not recognised")
}

// onlyAllocsBeside: every origin other than want is a local cell (a variable captured by a logging closure).
func onlyAllocsBeside(desc, want string) bool {
	for _, part := range strings.Split(desc, "|") {
		if part != want && !strings.HasPrefix(part, "alloc:") {
			return false
		}
	}
	return true
}

func c01ProduceResponse(p *load.Program, r *oblig.Report) {
	const rule = "C01.R6 the broker's verdict reaches the Writer"
	fn := p.Func("", "(*Client).Produce")
	if fn == nil {
		r.Lost(rule, "kafka.(*Client).Produce")
		return
	}
	got := map[string]string{}
	an.EachInstr(fn, func(ins ssa.Instruction) {
		st, ok := ins.(*ssa.Store)
		if !ok {
			return
		}
		if fa, ok := st.Addr.(*ssa.FieldAddr); ok && an.NamedIs(fa.X.Type(), load.ModPath, "ProduceResponse") {
			got[an.FieldName(fa.X.Type(), fa.Field)] = argDesc(st.Val)
		}
	})
	okErr := false
	an.EachInstr(fn, func(ins ssa.Instruction) {
		if call, ok := ins.(*ssa.Call); ok && calleeNamed(&call.Call, "", "makeError") {
			a, b := argDesc(call.Call.Args[0]), argDesc(call.Call.Args[1])
			okErr = strings.HasSuffix(a, ".Topics[].Partitions[].ErrorCode") && strings.HasSuffix(b, ".Topics[].Partitions[].ErrorMessage")
		}
	})
	r.Check(okErr && got["Error"] == "call:kafka.makeError", rule, "Client.Produce → ProduceResponse.Error is the partition's error code and message", p.Pos(fn.Pos()), "Error: makeError(partition.ErrorCode, partition.ErrorMessage)", got["Error"])
	r.Check(strings.HasSuffix(got["BaseOffset"], ".Topics[].Partitions[].BaseOffset"), rule, "Client.Produce → BaseOffset is the partition's base offset", p.Pos(fn.Pos()), "partition.BaseOffset", got["BaseOffset"])
	// request: topic/partition/records/acks from the ProduceRequest
	reqGot := map[string]string{}
	an.EachInstr(fn, func(ins ssa.Instruction) {
		st, ok := ins.(*ssa.Store)
		if !ok {
			return
		}
		if fa, ok := st.Addr.(*ssa.FieldAddr); ok {
			tn := types.TypeString(fa.X.Type(), shortQualifier)
			if strings.Contains(tn, "protocol/produce.") || strings.Contains(tn, "protocol.RecordSet") {
				reqGot[an.FieldName(fa.X.Type(), fa.Field)] = argDesc(st.Val)
			}
		}
	})
	okReq := reqGot["Topic"] == "param:req.Topic" && reqGot["Partition"] == "param:req.Partition" && reqGot["Records"] == "param:req.Records" && reqGot["Acks"] == "param:req.RequiredAcks"
	r.Check(okReq, rule, "Client.Produce → the protocol request carries the caller's topic, partition, records and acks", p.Pos(fn.Pos()), "Topic/Partition/Records/Acks ← req.*", fmt.Sprint(reqGot))
	// nil,nil only under RequireNone
	okNone := false
	for _, b := range an.Blocks(fn) {
		_, ci := an.IfCond(b)
		if e := ci.Edge(token.EQL); e >= 0 && strings.HasSuffix(argDesc(ci.X), ".RequiredAcks") {
			if k, ok := an.ConstInt(ci.Y); ok && k == 0 {
				if ret, ok := b.Succs[e].Instrs[len(b.Succs[e].Instrs)-1].(*ssa.Return); ok && an.IsNilConst(an.RetVal(ret, 0)) && an.IsNilConst(an.RetVal(ret, 1)) {
					okNone = true
				}
			}
		}
	}
	r.Check(okNone, rule, "Client.Produce → a nil response without error only when no acknowledgement was requested", p.Pos(fn.Pos()), "if req.RequiredAcks == RequireNone { return nil, nil }", "not recognised")
}

func c01Temporary(p *load.Program, r *oblig.Report) {
	const rule = "C01.R7 retriable error classification"
	fn := p.Func("", "(Error).Temporary")
	if fn == nil {
		r.Lost(rule, "kafka.(Error).Temporary")
		return
	}
	set := map[int64]bool{}
	an.EachInstr(fn, func(ins ssa.Instruction) {
		if bo, ok := ins.(*ssa.BinOp); ok && bo.Op == token.EQL {
			if k, ok := an.ConstInt(bo.Y); ok {
				set[k] = true
			}
		}
	})
	want := map[int64]bool{}
	for _, s := range []int64{2, 3, 5, 6, 7, 13, 14, 15, 16, 19, 20, 41, 56, 70, 71, 72, 74, 75, 78, 80, 83, 84, 85, 86, 88, 89, 100, 103, 106} {
		want[s] = true
	}
	var extra, missing []string
	for k := range set {
		if !want[k] {
			extra = append(extra, fmt.Sprint(k))
		}
	}
	for k := range want {
		if !set[k] {
			missing = append(missing, fmt.Sprint(k))
		}
	}
	r.Check(len(extra) == 0 && len(missing) == 0, rule, "Error.Temporary() marks exactly the reviewed set of codes as retriable", p.Pos(fn.Pos()), "29 codes confirmed on the pinned tree", fmt.Sprintf("added=%v removed=%v", extra, missing))
	tn := p.Func("", "isTransientNetworkError")
	if tn != nil {
		var names []string
		an.EachInstr(tn, func(ins ssa.Instruction) {
			if call, ok := ins.(*ssa.Call); ok && call.Call.StaticCallee() != nil && an.RefFuncName(call.Call.StaticCallee()) == "Is" {
				names = append(names, argDesc(call.Call.Args[1]))
			}
		})
		j := strings.Join(names, ",")
		ok := strings.Contains(j, "ErrUnexpectedEOF") && len(names) == 4
		r.Check(ok, rule, "isTransientNetworkError recognises ErrUnexpectedEOF, ECONNREFUSED, ECONNRESET, EPIPE", p.Pos(tn.Pos()), "4 errors.Is tests", j)
	}
}

// c07CheckThenRegister: "this partition has no writer yet" and "here is its writer" are one atomic step: Writer.mutex
// is not released between the lookup in w.writers that found nothing and the store of the new partition writer,
// otherwise two callers each create a writer (and a sender goroutine) for the same partition.
func c07CheckThenRegister(p *load.Program, r *oblig.Report, rule string) {
	fn := p.Func("", "(*Writer).batchMessages")
	if fn == nil {
		r.Lost(rule, "kafka.(*Writer).batchMessages")
		return
	}
	isWriters := func(v ssa.Value) bool { return strings.HasSuffix(clean(an.Shape(v)), ".writers") }
	var lookups, updates []ssa.Instruction
	an.EachInstr(fn, func(ins ssa.Instruction) {
		switch x := ins.(type) {
		case *ssa.Lookup:
			if isWriters(x.X) {
				lookups = append(lookups, x)
			}
		case *ssa.MapUpdate:
			if isWriters(x.Map) {
				updates = append(updates, x)
			}
		}
	})
	if len(lookups) == 0 || len(updates) == 0 {
		r.Lost(rule, "lookup / registration in w.writers reachable from kafka.(*Writer).batchMessages")
		return
	}
	isUnlock := func(i ssa.Instruction) bool {
		c, ok := i.(*ssa.Call)
		if !ok || c.Call.StaticCallee() == nil {
			return false
		}
		n := an.RefFuncName(c.Call.StaticCallee())
		return (n == "Unlock" || n == "RUnlock") && len(c.Call.Args) > 0 && strings.HasSuffix(clean(an.Shape(c.Call.Args[0])), ".mutex")
	}
	where := ""
	for _, u := range updates {
		atomicStep := false
		for _, l := range lookups {
			if !an.Dominates(l, u) {
				continue
			}
			q := an.PathQuery{Fn: fn, Stop: func(i ssa.Instruction) bool { return i == u }, Target: isUnlock}
			if hit := q.ReachableFrom(an.PointOf(l)); hit == nil {
				atomicStep = true
			} else {
				where = "the mutex is released at " + p.Pos(hit.Pos()) + " between the lookup at " + p.Pos(l.Pos()) + " and the registration at " + p.Pos(u.Pos())
			}
		}
		if atomicStep {
			where = ""
		} else if where == "" {
			where = "no lookup of w.writers[key] dominates the registration at " + p.Pos(u.Pos())
		}
	}
	r.Check(where == "", rule, "WriteMessages → a partition writer is looked up and, if missing, created and registered without releasing Writer.mutex", p.Pos(fn.Pos()),
		"writer := w.writers[key]; if writer == nil { writer = newPartitionWriter(w, key); w.writers[key] = writer } in one critical section", where)
}

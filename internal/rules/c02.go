package rules

import (
	"fmt"
	"go/token"
	"go/types"
	"sort"
	"strings"

	"golang.org/x/tools/go/ssa"

	"kverif/internal/an"
	"kverif/internal/load"
	"kverif/internal/oblig"
)

func init() {
	register(&Check{ID: "C02", Run: runC02, Expl: oblig.Explanation{
		Text:    "Static check of the position bookkeeping on which 'the Reader delivers exactly the partition's records from its position, in order' rests. The property quantifies over log layouts and fault sequences and is not decided as a whole; each rule is a necessary condition whose violation loses, repeats or stalls records on some history. (R1) reader.run keeps one position variable: it is what initialize receives, it takes initialize's absolute start offset after a successful initialize and the result of every reader.read, and it is what the next attempt starts from. (R2) reader/connection coherence: the connection keeps its own fetch offset (ReadBatchWith fetches from Conn.offset, Batch.close writes the batch's progress back); therefore any assignment to the position variable inside the read loop that does not come from reader.read must be followed, before the next read on that connection, by Conn.Seek to that position or by leaving the loop for initialize. (R3) reader.read advances the position to msg.Offset+1 only after sendMessage accepted that message, forwards the message it read unchanged, closes the batch on both exits and returns the position. (R4) reader.initialize maps FirstOffset to first, LastOffset to last, anything below first to first, seeks the new connection to that absolute position with range checking and returns the position Seek reports. (R5) Batch: readMessage sets batch.offset to delivered offset+1; jumps to lastOffset+1 only at a clean end (io.EOF from the deadline check, lengthRemain == 0, lastOffset known); a short read is answered by discarding the rest; Batch.close writes batch.offset to Conn.offset whenever the batch still owns a connection, whatever the error; ReadMessage skips records while offset < Conn.offset and reports the offset returned by the last readMessage. (R6) messageSetReader: readMessageV2 charges a record against lengthRemain only after its last byte was read (no read follows the accounting); readMessageV1 discards key and value of records below the requested offset and reads them otherwise. (R7) Reader: FetchMessage drops messages of older versions, and records Offset+1 only for error-free messages of the current version; SetOffset restarts the readers from the new offset when they are running; ReadBatchWith fetches from the connection's own offset. Not decided: exactly-once in-order delivery across every layout (compaction holes, truncated tails, mixed formats) and fault sequence; contents equality (C05 decides the record layouts); timing.",
		Rule:    "one obligation per bookkeeping site",
		Trusted: []string{"go/ssa", "expression shapes with named cells", "CFG path search", "value provenance"},
	}})
}

func runC02(p *load.Program, r *oblig.Report) {
	c02NullLengths(p, r)
	c02Run(p, r)
	c02Read(p, r)
	c02Initialize(p, r)
	c02Batch(p, r)
	c02MessageReader(p, r)
	c02Reader(p, r)
	c02LastOffsetSentinel(p, r)
	c02HeaderReset(p, r)
	c02PassedBatches(p, r)
	c02LookupTopic(p, r)
	c02RunFuncAlways(p, r)
	shareRules(r, "C02", "C02.R11 the high watermark a Batch is built with is the partition's (C06)", func(sub *oblig.Report) { c06FetchWatermark(p, sub) })
	varintAcrossRefills(p, r, "C02.R6 message set accounting and skipping")
}

func calleeName(ins ssa.Instruction) string {
	c, ok := ins.(ssa.CallInstruction)
	if !ok {
		return ""
	}
	if f := c.Common().StaticCallee(); f != nil {
		return an.RefFuncName(f)
	}
	return ""
}

func callNamed(fn *ssa.Function, name string) []*ssa.Call {
	var out []*ssa.Call
	an.EachInstr(fn, func(ins ssa.Instruction) {
		if c, ok := ins.(*ssa.Call); ok && calleeName(c) == name {
			out = append(out, c)
		}
	})
	return out
}

// cellOf returns the memory cell a value is loaded from (a variable kept in memory by go/ssa).
func cellOf(v ssa.Value) *ssa.Alloc {
	ld, ok := v.(*ssa.UnOp)
	if !ok || ld.Op != token.MUL {
		return nil
	}
	al, _ := ld.X.(*ssa.Alloc)
	return al
}

func c02Run(p *load.Program, r *oblig.Report) {
	const r1 = "C02.R1 one position variable in reader.run"
	const r2 = "C02.R2 reader position and connection offset move together"
	run := p.Func("", "(*reader).run")
	if run == nil {
		r.Lost(r1, "kafka.(*reader).run")
		return
	}
	inits, reads := callNamed(run, "initialize"), callNamed(run, "read")
	if len(inits) != 1 || len(reads) != 1 {
		r.Bad(r1, "kafka.(*reader).run calls initialize and read once each", p.Pos(run.Pos()), "1 and 1", fmt.Sprintf("%d and %d", len(inits), len(reads)))
		return
	}
	ini, rd := inits[0], reads[0]
	// the position: a cell (captured by the logging closures) or an SSA value
	cell := cellOf(ini.Call.Args[2])
	if cell == nil {
		// not in memory: fall back to provenance of the two arguments
		a, b := argDesc(ini.Call.Args[2]), argDesc(rd.Call.Args[2])
		want := "call:(*kafka.reader).initialize#1|call:(*kafka.reader).read#0|param:offset"
		r.Check(strings.Contains(a, "call:(*kafka.reader).read#0") && strings.Contains(a, "param:offset") && strings.Contains(b, "call:(*kafka.reader).initialize#1") && strings.Contains(b, "call:(*kafka.reader).read#0"), r1,
			"kafka.(*reader).run restarts from the position reached by the last read", p.Pos(ini.Pos()), "initialize(offset) and read(offset) see "+want, "initialize: "+a+" read: "+b)
		r.Undecided(r2, "kafka.(*reader).run position variable is not memory resident", p.Pos(run.Pos()), "the coherence rule is written for the cell form; re-derive it for the SSA form")
		return
	}
	sameCell := cellOf(rd.Call.Args[2]) == cell
	// stores into the cell, classified
	type st struct {
		s    *ssa.Store
		kind string
	}
	var stores []st
	an.EachInstr(run, func(ins ssa.Instruction) {
		s, ok := ins.(*ssa.Store)
		if !ok || s.Addr != ssa.Value(cell) {
			return
		}
		kind := "other"
		switch v := s.Val.(type) {
		case *ssa.Parameter:
			kind = "param"
		case *ssa.Extract:
			if v.Tuple == ssa.Value(ini) && v.Index == 1 {
				kind = "initialize.start"
			}
			if v.Tuple == ssa.Value(rd) && v.Index == 0 {
				kind = "read.offset"
			}
		}
		stores = append(stores, st{s, kind})
	})
	kinds := map[string]int{}
	for _, s := range stores {
		kinds[s.kind]++
	}
	r.Check(sameCell && kinds["param"] == 1 && kinds["initialize.start"] == 1 && kinds["read.offset"] == 1, r1, "kafka.(*reader).run feeds initialize and read from the variable that receives their results", p.Pos(run.Pos()),
		"offset (parameter) → initialize(ctx, offset); offset = start; offset, err = r.read(ctx, offset, conn)", fmt.Sprintf("readUsesSameVariable=%v stores=%v", sameCell, kinds))
	// offset = start only after a successful initialize
	for _, s := range stores {
		if s.kind != "initialize.start" {
			continue
		}
		okG := false
		for d, child := s.s.Block().Idom(), s.s.Block(); d != nil; d, child = d.Idom(), d {
			_, ci := an.IfCond(d)
			if ci == nil || !an.IsNilConst(ci.Y) {
				continue
			}
			v := ci.X
			if cv := an.CellValueAt(v); cv != nil {
				v = cv
			}
			if ex, isEx := v.(*ssa.Extract); isEx && ex.Tuple == ssa.Value(ini) && ex.Index == 2 {
				nilIdx := 0
				if (ci.Op == token.NEQ) != ci.Neg {
					nilIdx = 1
				}
				okG = edgeControls(d, nilIdx, child)
			}
		}
		r.Check(okG && an.Dominates(s.s, rd), r1, "kafka.(*reader).run adopts the absolute start offset before the first read on a connection", p.Pos(s.s.Pos()), "offset = start on the err == nil path of initialize, before r.read", fmt.Sprintf("afterSuccessfulInitialize=%v dominatesRead=%v", okG, an.Dominates(s.s, rd)))
	}
	// R2: other stores
	conn := ssa.Value(nil)
	for _, ref := range *ini.Referrers() {
		if ex, ok := ref.(*ssa.Extract); ok && ex.Index == 0 {
			conn = ex
		}
	}
	n := 0
	for _, s := range stores {
		if s.kind != "other" {
			continue
		}
		n++
		isSync := func(ins ssa.Instruction) bool {
			c, ok := ins.(*ssa.Call)
			if !ok {
				return false
			}
			switch calleeName(c) {
			case "initialize":
				return true
			case "Seek":
				// conn.Seek(<the position>, …)
				if len(c.Call.Args) == 3 && c.Call.Args[0] == conn {
					if cellOf(c.Call.Args[1]) == cell || c.Call.Args[1] == s.s.Val {
						return true
					}
				}
			}
			return false
		}
		q := an.PathQuery{Fn: run, Stop: isSync, Target: func(i ssa.Instruction) bool { return i == ssa.Instruction(rd) }}
		bad := q.ReachableFrom(an.PointOf(s.s))
		found := "the connection is repositioned (or replaced) before the next read"
		if bad != nil {
			found = "r.read at " + p.Pos(bad.Pos()) + " is reachable with the connection still at its old offset"
		}
		r.Check(bad == nil, r2, "kafka.(*reader).run → offset = "+clean(an.ShapeCanonNamed(s.s.Val))+" is followed by conn.Seek or a new connection", p.Pos(s.s.Pos()),
			"conn.Seek(offset, …) or break to initialize on every path to the next r.read", found)
	}
	r.RequireCount(r2+" (position changes not coming from read)", n, 1)
	// the connection given to read is the one initialize returned
	r.Check(conn != nil && rd.Call.Args[3] == conn, r1, "kafka.(*reader).run reads from the connection initialize returned", p.Pos(rd.Pos()), "r.read(ctx, offset, conn) with conn from r.initialize", clean(an.Shape(rd.Call.Args[3])))
}

func c02Read(p *load.Program, r *oblig.Report) {
	const rule = "C02.R3 reader.read advances past delivered messages only"
	fn := p.Func("", "(*reader).read")
	if fn == nil {
		r.Lost(rule, "kafka.(*reader).read")
		return
	}
	rm, sm := callNamed(fn, "ReadMessage"), callNamed(fn, "sendMessage")
	if len(rm) != 1 || len(sm) != 1 {
		r.Bad(rule, "kafka.(*reader).read reads and forwards in one place", p.Pos(fn.Pos()), "one ReadMessage and one sendMessage", fmt.Sprintf("%d and %d", len(rm), len(sm)))
		return
	}
	// the message forwarded is the one read
	msgOK := false
	for _, o := range an.Origins(sm[0].Call.Args[2], an.FlowOpts{}) {
		if o.Val == ssa.Value(rm[0]) && o.Path == "#0" {
			msgOK = true
		}
	}
	if !msgOK {
		s := argDesc(sm[0].Call.Args[2])
		msgOK = s == "call:(*kafka.Batch).ReadMessage#0"
	}
	r.Check(msgOK, rule, "kafka.(*reader).read forwards the message it read", p.Pos(sm[0].Pos()), "sendMessage(ctx, msg, …) with msg from batch.ReadMessage()", argDesc(sm[0].Call.Args[2]))
	// returned position
	var shapes []string
	an.EachInstr(fn, func(ins ssa.Instruction) {
		if ret, ok := ins.(*ssa.Return); ok {
			shapes = append(shapes, clean(an.ShapeCanon(an.RetVal(ret, 0))))
		}
	})
	want := "φ{(1 + ReadMessage(ReadBatchWith(conn,local:*ReadBatchConfig))#0.Offset) | offset}"
	okRet := len(shapes) == 1 && (shapes[0] == want || strings.HasPrefix(shapes[0], "φ{(1 + ReadMessage(") && strings.HasSuffix(shapes[0], "#0.Offset) | offset}"))
	r.Check(okRet, rule, "kafka.(*reader).read returns the offset after the last delivered message, else the offset it was given", p.Pos(fn.Pos()), "offset | msg.Offset + 1", strings.Join(shapes, " ;; "))
	// the increment happens only after both ReadMessage and sendMessage succeeded
	okAdv := false
	an.EachInstr(fn, func(ins ssa.Instruction) {
		bo, ok := ins.(*ssa.BinOp)
		if !ok || bo.Op != token.ADD || !strings.HasSuffix(clean(an.ShapeCanon(bo)), "#0.Offset)") {
			return
		}
		var need = map[string]bool{"ReadMessage": false, "sendMessage": false}
		for _, c := range selConds(bo) {
			c = clean(c)
			for k := range need {
				if strings.HasPrefix(c, "(nil == "+k+"(") {
					need[k] = true
				}
			}
		}
		okAdv = need["ReadMessage"] && need["sendMessage"]
	})
	r.Check(okAdv, rule, "kafka.(*reader).read moves past a message only after it was read and handed over", p.Pos(fn.Pos()), "offset = msg.Offset + 1 on the err == nil paths of ReadMessage and sendMessage", "not recognised")
	// batch closed on both exits of the loop
	nClose := 0
	for _, c := range callNamed(fn, "Close") {
		g := selConds(c)
		for _, x := range g {
			x = clean(x)
			if strings.HasPrefix(x, "(nil != ReadMessage(") || strings.HasPrefix(x, "(nil != sendMessage(") {
				nClose++
			}
		}
	}
	r.Check(nClose == 2, rule, "kafka.(*reader).read closes the batch when reading or forwarding fails", p.Pos(fn.Pos()), "batch.Close() on both error exits (Close writes the progress back to the connection)", fmt.Sprintf("%d guarded Close calls", nClose))
}

func c02Initialize(p *load.Program, r *oblig.Report) {
	const rule = "C02.R4 reader.initialize positions the new connection"
	fn := p.Func("", "(*reader).initialize")
	if fn == nil {
		r.Lost(rule, "kafka.(*reader).initialize")
		return
	}
	seeks := callNamed(fn, "Seek")
	if len(seeks) != 1 {
		r.Bad(rule, "kafka.(*reader).initialize seeks once", p.Pos(fn.Pos()), "1 Seek", fmt.Sprint(len(seeks)))
		return
	}
	sk := seeks[0]
	wh, isK := an.ConstInt(sk.Call.Args[2])
	// position argument: the offset variable
	var lines []string
	cell := cellOf(sk.Call.Args[1])
	if cell != nil {
		an.EachInstr(fn, func(ins ssa.Instruction) {
			s, ok := ins.(*ssa.Store)
			if !ok || s.Addr != ssa.Value(cell) {
				return
			}
			var g []string
			for _, c := range selCondsNamed(s) {
				c = clean(c)
				if strings.Contains(c, "$offset") {
					g = append(g, c)
				}
			}
			lines = append(lines, clean(an.ShapeCanonNamed(s.Val))+" when "+strings.Join(g, " ∧ "))
		})
	} else {
		lines = append(lines, "not a variable: "+clean(an.ShapeCanon(sk.Call.Args[1])))
	}
	sort.Strings(lines)
	norm := func(s string) string {
		for {
			i := strings.Index(s, "readOffsets(r,")
			if i < 0 {
				break
			}
			depth, j := 0, i+len("readOffsets")
			for ; j < len(s); j++ {
				if s[j] == '(' {
					depth++
				} else if s[j] == ')' {
					depth--
					if depth == 0 {
						break
					}
				}
			}
			if j+2 >= len(s) {
				break
			}
			name := "first"
			if s[j+1:j+3] == "#1" {
				name = "last"
			}
			s = s[:i] + name + s[j+3:]
		}
		s = strings.ReplaceAll(s, "φ{first | 0}", "first")
		s = strings.ReplaceAll(s, "φ{last | 0}", "last")
		s = strings.ReplaceAll(s, "$first", "first")
		s = strings.ReplaceAll(s, "$last", "last")
		return s
	}
	for i := range lines {
		l := norm(lines[i])
		if k := strings.Index(l, " when "); k >= 0 {
			cs := strings.Split(l[k+len(" when "):], " ∧ ")
			sort.Strings(cs)
			l = l[:k] + " when " + strings.Join(cs, " ∧ ")
		}
		lines[i] = l
	}
	sort.Strings(lines)
	want := []string{
		"first when ($offset < first) ∧ (-1 != $offset) ∧ (-2 != $offset)",
		"first when (-2 == $offset)",
		"last when (-1 == $offset) ∧ (-2 != $offset)",
		"offset when ",
	}
	r.Check(isK && wh == 1 && strings.Join(lines, " ;; ") == strings.Join(want, " ;; "), rule, "kafka.(*reader).initialize resolves FirstOffset/LastOffset/below-first and seeks there (SeekAbsolute, checked)", p.Pos(sk.Pos()),
		strings.Join(want, " ;; ")+" ; conn.Seek(offset, SeekAbsolute)", fmt.Sprintf("whence=%d ; %s", wh, strings.Join(lines, " ;; ")))
	// the returned start is Seek's result
	okStart := false
	an.EachInstr(fn, func(ins ssa.Instruction) {
		if ret, ok := ins.(*ssa.Return); ok {
			s := argDesc(an.RetVal(ret, 1))
			okStart = strings.Contains(s, "call:(*kafka.Conn).Seek#0")
			for _, part := range strings.Split(s, "|") {
				if part != "call:(*kafka.Conn).Seek#0" && part != "const:0" && !strings.HasPrefix(part, "alloc:start") {
					okStart = false
				}
			}
		}
	})
	r.Check(okStart, rule, "kafka.(*reader).initialize returns the position reported by Seek", p.Pos(fn.Pos()), "start from conn.Seek", "other sources")
	// first/last come from this connection
	ro := callNamed(fn, "readOffsets")
	okRO := len(ro) == 1 && an.Dominates(ro[0], sk)
	r.Check(okRO, rule, "kafka.(*reader).initialize asks the new connection for its first and last offsets before seeking", p.Pos(fn.Pos()), "readOffsets(conn) dominates Seek", fmt.Sprint(len(ro)))
}

func c02Batch(p *load.Program, r *oblig.Report) {
	const rule = "C02.R5 batch position"
	rm := p.Func("", "(*Batch).readMessage")
	cl := p.Func("", "(*Batch).close")
	RM := p.Func("", "(*Batch).ReadMessage")
	if rm == nil || cl == nil || RM == nil {
		r.Lost(rule, "kafka.(*Batch).readMessage / close / ReadMessage")
		return
	}
	// stores to batch.offset in readMessage
	var lines []string
	an.EachInstr(rm, func(ins ssa.Instruction) {
		s, ok := fieldStoreIs(ins, "Batch", "offset")
		if !ok {
			return
		}
		var g []string
		for _, c := range selCondsNamed(s) {
			g = append(g, clean(c))
		}
		lines = append(lines, clean(an.ShapeCanonNamed(s.Val))+" when "+strings.Join(g, " ∧ "))
	})
	sort.Strings(lines)
	M := "readMessage(batch.msgs,batch.offset,key,val)"
	okAdv, okJump := false, false
	nPassed := 0
	for _, l := range lines {
		l2 := strings.ReplaceAll(l, M, "M")
		// the third way the position may move (C02.R10): up to the end of the batches gone past, at a clean end only,
		// and only forwards
		if strings.HasPrefix(l2, "batch.msgs.") && strings.Contains(l2, " when ") && strings.Contains(l2, "(0 == remaining(batch.msgs))") && strings.Contains(l2, "errShortRead") && strings.Contains(l2, "errors.Is(batch.err,EOF)") && strings.Contains(l2, "(batch.offset < batch.msgs.") {
			nPassed++
			continue
		}
		if l2 == "(1 + M#0) when (nil == M#4) ∧ (nil == batch.err)" || l2 == "(1 + M#0) when (nil == batch.err) ∧ (nil == M#4)" {
			okAdv = true
		}
		if strings.HasPrefix(l2, "(1 + batch.lastOffset) when ") &&
			strings.Contains(l2, "(-1 != batch.lastOffset)") && strings.Contains(l2, "(0 == batch.msgs.lengthRemain)") && strings.Contains(l2, "errors.Is(") && strings.Contains(l2, "(0 == remaining(batch.msgs))") && strings.Contains(l2, "errShortRead") {
			okJump = true
		}
	}
	r.Check(okAdv && okJump && len(lines)-nPassed == 2 && nPassed <= 1, rule, "kafka.(*Batch).readMessage moves to delivered+1, and past the batch's last offset only at a clean end", p.Pos(rm.Pos()),
		"batch.offset = offset+1 on success; batch.offset = lastOffset+1 only when short read ∧ nothing remains ∧ io.EOF ∧ lengthRemain == 0 ∧ lastOffset != -1", strings.Join(lines, " ;; "))
	// short read → discard
	okDisc := false
	for _, c := range callNamed(rm, "discard") {
		for _, g := range selConds(c) {
			if strings.Contains(clean(g), "errShortRead") && strings.HasPrefix(clean(g), "errors.Is(") {
				okDisc = true
			}
		}
	}
	r.Check(okDisc, rule, "kafka.(*Batch).readMessage discards the rest of the response after a short read", p.Pos(rm.Pos()), "errors.Is(err, errShortRead) → batch.msgs.discard()", "not recognised")
	// close: conn.offset = batch.offset guarded by conn != nil only
	n := 0
	an.EachInstr(cl, func(ins ssa.Instruction) {
		s, ok := fieldStoreIs(ins, "Conn", "offset")
		if !ok {
			return
		}
		n++
		var g []string
		for _, c := range selConds(s) {
			g = append(g, clean(c))
		}
		v := clean(an.ShapeCanon(s.Val))
		// repair 0f727be: the connection only moves forward (the batch may have ended while it was still skipping
		// the records that precede the connection's offset). The comparison is the only condition besides conn != nil,
		// and every path through the conn != nil region reaches it (a disjunctive guard leaves no dominating
		// condition, hence the must-pass search).
		var cmp ssa.Instruction
		const forward = "(batch.conn.offset < batch.offset)"
		for d, child := s.Block().Idom(), s.Block(); d != nil; d, child = d.Idom(), d {
			iff, ci := an.IfCond(d)
			if iff == nil || ci == nil {
				continue
			}
			if c := clean(an.ShapeCanon(iff.Cond)); c == forward && edgeControls(d, 0, child) {
				cmp = iff
			}
		}
		uncond := false
		// the store may sit in a helper that did not exist at review time: also walk up from its call site
		at := []ssa.Instruction{s}
		if an.IsNew(s.Parent()) {
			for _, site := range an.SitesOf(s.Parent()) {
				at = append(at, site.(ssa.Instruction))
			}
		}
		for _, ins0 := range at {
			for d, child := ins0.Block().Idom(), ins0.Block(); d != nil; d, child = d.Idom(), d {
				_, ci := an.IfCond(d)
				if ci == nil || !an.IsNilConst(ci.Y) || clean(an.Shape(ci.X)) != "batch.conn" {
					continue
				}
				idx := 0
				if (ci.Op == token.EQL) != ci.Neg {
					idx = 1
				}
				if !edgeControls(d, idx, child) {
					continue
				}
				ok2, _ := an.MustPass(cl, an.Point{B: d.Succs[idx], Idx: -1}, func(i ssa.Instruction) bool { return cmp != nil && i == cmp }, nil)
				uncond = ok2
			}
		}
		if !uncond {
			g = append(g, "further conditions on some path")
		}
		sort.Strings(g)
		r.Check(v == "batch.offset" && strings.Join(g, " ∧ ") == forward+" ∧ (nil != batch.conn)", rule, "kafka.(*Batch).close hands the batch's progress back to the connection whatever the outcome, and never moves it backwards", p.Pos(s.Pos()), "if batch.offset > conn.offset { conn.offset = batch.offset } when conn != nil (no other condition)", v+" when "+strings.Join(g, " ∧ "))
	})
	r.RequireCount(rule+" (Conn.offset store in Batch.close)", n, 1)
	// ReadMessage: skip loop and reported offset
	okLoop := false
	for _, b := range an.Blocks(RM) {
		_, ci := an.IfCond(b)
		if ci == nil || ci.Op != token.LSS {
			continue
		}
		x, y := clean(an.ShapeCanon(ci.X)), clean(an.ShapeCanon(ci.Y))
		if y == "connOffset(batch)" && strings.HasPrefix(x, "φ{readMessage(batch,") && strings.Contains(x, "#0") {
			okLoop = true
		}
	}
	okOff := false
	an.EachInstr(RM, func(ins ssa.Instruction) {
		s, ok := ins.(*ssa.Store)
		if !ok {
			return
		}
		if fa, isFA := s.Addr.(*ssa.FieldAddr); isFA && an.FieldName(fa.X.Type(), fa.Field) == "Offset" && typeShort(deref(fa.X.Type())) == "Message" {
			d := argDesc(s.Val)
			okOff = d == "call:(*kafka.Batch).readMessage#0"
		}
	})
	r.Check(okLoop && okOff, rule, "kafka.(*Batch).ReadMessage skips records below the connection's offset and reports the offset of the record it returns", p.Pos(RM.Pos()), "for offset < batch.connOffset() { readMessage again }; msg.Offset = offset", fmt.Sprintf("skipLoop=%v offsetFromLastRead=%v", okLoop, okOff))
}

func c02MessageReader(p *load.Program, r *oblig.Report) {
	const rule = "C02.R6 message set accounting and skipping"
	v2 := p.Func("", "(*messageSetReader).readMessageV2")
	v1 := p.Func("", "(*messageSetReader).readMessageV1")
	if v2 == nil || v1 == nil {
		r.Lost(rule, "kafka.(*messageSetReader).readMessageV1/V2")
		return
	}
	// the headers handed out with a message are that message's own storage: freshly made for each record, never
	// scratch space of the reader that the next record overwrites
	var shared []string
	nHdr := 0
	an.EachInstr(v2, func(ins ssa.Instruction) {
		ret, ok := ins.(*ssa.Return)
		if !ok || ret.Parent() != v2 || len(ret.Results) != 5 {
			return
		}
		var roots []ssa.Value
		appendRoots(an.RetVal(ret, 3), map[ssa.Value]bool{}, &roots)
		for _, rt := range roots {
			nHdr++
			switch x := an.Unwrap(rt).(type) {
			case *ssa.MakeSlice:
				continue
			case *ssa.Const:
				if x.Value == nil {
					continue
				}
			}
			shared = append(shared, clean(an.Shape(rt)))
		}
	})
	r.Check(nHdr > 0 && len(shared) == 0, rule, "kafka.(*messageSetReader).readMessageV2 returns headers in storage made for that record", p.Pos(v2.Pos()),
		"headers = make([]Header, headerCount) (or nil)", strings.Join(shared, "; "))
	n := 0
	an.EachInstr(v2, func(ins ssa.Instruction) {
		s, ok := fieldStoreIs(ins, "messageSetReader", "lengthRemain")
		if !ok {
			return
		}
		n++
		isRead := func(i ssa.Instruction) bool {
			switch calleeName(i) {
			case "readVarInt", "readInt8", "readInt16", "readInt32", "readInt64", "runFunc", "readMessageHeader", "readNewBytes", "readNewString", "readBytesWith", "discardN", "discardBytes":
				return true
			}
			return false
		}
		q := an.PathQuery{Fn: v2, Target: isRead}
		bad := q.ReachableFrom(an.PointOf(s))
		found := "nothing is read after the accounting"
		if bad != nil {
			found = "a read at " + p.Pos(bad.Pos()) + " follows the accounting: a truncated record would already be counted"
		}
		v := clean(an.ShapeCanonNamed(s.Val))
		okVal := strings.HasPrefix(v, "(r.lengthRemain - (")
		r.Check(bad == nil && okVal, rule, "kafka.(*messageSetReader).readMessageV2 charges a record only after reading all of it", p.Pos(s.Pos()), "r.lengthRemain -= int(length) + lengthOfLength as the last effect before markRead", found+" ; value "+v)
	})
	r.RequireCount(rule+" (lengthRemain accounting)", n, 1)
	// V1 skip
	var disc, reads []string
	for _, c := range callNamed(v1, "discardBytes") {
		for _, g := range selConds(c) {
			if g = clean(g); strings.Contains(g, "min") {
				disc = append(disc, g)
			}
		}
	}
	for _, c := range callNamed(v1, "readBytesWith") {
		a := clean(an.Shape(c.Call.Args[1]))
		if a != "key" && a != "val" {
			continue
		}
		for _, g := range selConds(c) {
			if g = clean(g); strings.Contains(g, "min") {
				reads = append(reads, a+": "+g)
			}
		}
	}
	sort.Strings(reads)
	O := "(r.readerStack.header.firstOffset + r.readerStack.base)"
	okDisc := len(disc) == 2 && disc[0] == "("+O+" < min)" && disc[1] == disc[0]
	okReads := len(reads) == 2 && reads[0] == "key: ("+O+" >= min)" && reads[1] == "val: ("+O+" >= min)"
	r.Check(okDisc && okReads, rule, "kafka.(*messageSetReader).readMessageV1 discards records below the requested offset and returns the others", p.Pos(v1.Pos()), "offset < min → discard key and value; else read key and value (offset = header offset + base)", fmt.Sprintf("discards=%v reads=%v", disc, reads))
}

func c02Reader(p *load.Program, r *oblig.Report) { c02ReaderAs(p, r, "C02.R7 Reader position") }

func c02ReaderAs(p *load.Program, r *oblig.Report, rule string) {
	fm := p.Func("", "(*Reader).FetchMessage")
	so := p.Func("", "(*Reader).SetOffset")
	rb := p.Func("", "(*Conn).ReadBatchWith")
	if fm == nil || so == nil || rb == nil {
		r.Lost(rule, "kafka.(*Reader).FetchMessage / SetOffset / (*Conn).ReadBatchWith")
		return
	}
	n := 0
	an.EachInstr(fm, func(ins ssa.Instruction) {
		s, ok := fieldStoreIs(ins, "Reader", "offset")
		if !ok {
			return
		}
		n++
		v := clean(an.ShapeCanonNamed(s.Val))
		var g []string
		for _, c := range selCondsNamed(s) {
			g = append(g, clean(c))
		}
		gs := strings.Join(g, " ∧ ")
		okV := strings.HasPrefix(v, "(1 + ") && strings.HasSuffix(v, ".message.Offset)")
		okG := strings.Contains(gs, ".version >= r.version)") && strings.Contains(gs, "(r.version == r.version)") && strings.Contains(gs, "(nil == ") && strings.Contains(gs, ".error)")
		r.Check(okV && okG, rule, "kafka.(*Reader).FetchMessage records Offset+1 only for error-free messages of the current version", p.Pos(s.Pos()), "m.version >= version ∧ m.error == nil ∧ version == r.version → r.offset = m.message.Offset + 1", v+" when "+gs)
	})
	r.RequireCount(rule+" (Reader.offset store in FetchMessage)", n, 1)
	// returns of a message are guarded by the version filter
	okFilter := false
	an.EachInstr(fm, func(ins ssa.Instruction) {
		ret, ok := ins.(*ssa.Return)
		if !ok {
			return
		}
		if strings.HasSuffix(clean(an.Shape(an.RetVal(ret, 0))), ".message") {
			for _, c := range selConds(ret) {
				if strings.Contains(clean(c), ".version >= ") {
					okFilter = true
				}
			}
		}
	})
	// the version the filter compares with is read after the fetchers were (lazily) started in the same critical
	// section: a snapshot taken before r.start() would be one behind
	okSnap := true
	nSnap := 0
	an.EachInstr(fm, func(ins ssa.Instruction) {
		ld, ok := ins.(*ssa.UnOp)
		if !ok || !isLoadOfField(ld, "Reader", "version") {
			return
		}
		// only the load that feeds the filter / the offset update
		used := false
		for _, b := range an.Blocks(fm) {
			_, ci := an.IfCond(b)
			if ci == nil {
				continue
			}
			if (an.Unwrap(ci.X) == ssa.Value(ld) || an.Unwrap(ci.Y) == ssa.Value(ld)) && (strings.HasSuffix(clean(an.Shape(ci.X)), ".version") && strings.Contains(clean(an.Shape(ci.X)), "#") || strings.HasSuffix(clean(an.Shape(ci.Y)), ".version") && strings.Contains(clean(an.Shape(ci.Y)), "#")) {
				used = true
			}
		}
		if !used {
			return
		}
		nSnap++
		q := an.PathQuery{Fn: fm, Stop: func(i ssa.Instruction) bool { return isMutexOp(i, "mutex", true) }, Target: func(i ssa.Instruction) bool { return calleeName(i) == "start" }}
		if q.ReachableFrom(an.PointOf(ld)) != nil {
			okSnap = false
		}
	})
	r.Check(okSnap && nSnap >= 1, rule, "kafka.(*Reader).FetchMessage snapshots r.version after the lazy start of the fetchers", p.Pos(fm.Pos()), "version := r.version follows r.start(…) inside the critical section", fmt.Sprintf("snapshots=%d startAfterSnapshot=%v", nSnap, !okSnap))
	r.Check(okFilter, rule, "kafka.(*Reader).FetchMessage drops messages produced by readers of an older version", p.Pos(fm.Pos()), "return m.message only if m.version >= version", "not recognised")
	// SetOffset
	okSet, okRestart := false, false
	an.EachInstr(so, func(ins ssa.Instruction) {
		if s, ok := fieldStoreIs(ins, "Reader", "offset"); ok {
			okSet = s.Val == ssa.Value(so.Params[1]) || strings.Contains(argDesc(s.Val), "param:offset")
		}
	})
	for _, c := range callNamed(so, "start") {
		a := clean(an.Shape(c.Call.Args[1]))
		var g []string
		for _, x := range selConds(c) {
			g = append(g, clean(x))
		}
		gs := strings.Join(g, " ∧ ")
		okRestart = a == "getTopicPartitionOffset(r)" && strings.Contains(gs, "(0 != r.version)") && strings.Contains(gs, "(offset != r.offset)")
	}
	// the store precedes the restart
	okOrder := false
	an.EachInstr(so, func(ins ssa.Instruction) {
		if s, ok := fieldStoreIs(ins, "Reader", "offset"); ok {
			for _, c := range callNamed(so, "start") {
				if an.Dominates(s, c) {
					okOrder = true
				}
			}
		}
	})
	r.Check(okSet && okRestart && okOrder, rule, "kafka.(*Reader).SetOffset stores the new offset and restarts running readers from it", p.Pos(so.Pos()), "r.offset = offset; if r.version != 0 { r.start(r.getTopicPartitionOffset()) }", fmt.Sprintf("stored=%v restartUnderVersionNonZero=%v storeBeforeRestart=%v", okSet, okRestart, okOrder))
	gt := p.Func("", "(*Reader).getTopicPartitionOffset")
	if gt != nil {
		ok := false
		an.EachInstr(gt, func(ins ssa.Instruction) {
			if mu, isMU := ins.(*ssa.MapUpdate); isMU {
				ok = clean(an.Shape(mu.Value)) == "r.offset"
			}
		})
		r.Check(ok, rule, "kafka.(*Reader).getTopicPartitionOffset starts the partition at r.offset", p.Pos(gt.Pos()), "{topic, partition}: r.offset", "other value")
	}
	// ReadBatchWith: the fetch offset is the connection's offset
	okFetch := 0
	total := 0
	var walk func(f *ssa.Function)
	walk = func(f *ssa.Function) {
		an.EachInstr(f, func(ins ssa.Instruction) {
			c, ok := ins.(*ssa.Call)
			if !ok || !strings.HasPrefix(calleeName(c), "writeFetchRequestV") {
				return
			}
			total++
			s := argDesc(c.Call.Args[5])
			if strings.Contains(s, "call:(*kafka.Conn).Seek#0") && !strings.Contains(s, "param:") {
				okFetch++
			}
		})
		for _, a := range f.AnonFuncs {
			walk(a)
		}
	}
	walk(rb)
	sk := callNamed(rb, "Seek")
	okSeek := false
	if len(sk) == 1 {
		v := sk[0].Call.Args[1]
		if cv := an.CellValueAt(v); cv != nil {
			v = cv
		}
		okSeek = argDesc(v) == "call:(*kafka.Conn).Offset#0"
	}
	if len(sk) == 1 && !okSeek {
		r.NoteF(rule, "ReadBatchWith seek argument", argDesc(sk[0].Call.Args[1]))
	}
	r.Check(total == 3 && okFetch == 3 && okSeek, rule, "kafka.(*Conn).ReadBatchWith fetches from the connection's own offset", p.Pos(rb.Pos()), "offset, whence := c.Offset(); offset = c.Seek(offset, whence|SeekDontCheck); writeFetchRequestVx(…, offset, …)", fmt.Sprintf("fetchWriters=%d usingSeekResult=%d seekFromOwnOffset=%v (%s)", total, okFetch, okSeek, func() string {
		if len(sk) == 1 {
			return argDesc(sk[0].Call.Args[1])
		}
		return "-"
	}()))
}

// c02NullLengths: the hand-written reader passes the wire length of a key, value or string to a callback; the length
// is -1 for null. Every function used as such a callback must not use the length as a count unless it was tested to
// be non-negative (in the callback or in the helper it forwards the length to).
func c02NullLengths(p *load.Program, r *oblig.Report) {
	const rule = "C02.R8 null lengths are handled by every length callback"
	root := p.SSAPkg("")
	if root == nil {
		r.Lost(rule, "root package")
		return
	}
	isCallbackSig := func(sig *types.Signature) bool {
		if sig.Params().Len() != 3 || sig.Results().Len() != 2 {
			return false
		}
		t0 := sig.Params().At(0).Type().String()
		return strings.HasSuffix(t0, "bufio.Reader") && sig.Params().At(1).Type().String() == "int" && sig.Params().At(2).Type().String() == "int" && sig.Results().At(0).Type().String() == "int"
	}
	var guarded func(pv ssa.Value, at ssa.Instruction) bool
	guarded = func(pv ssa.Value, at ssa.Instruction) bool {
		for d, child := at.Block().Idom(), at.Block(); d != nil; d, child = d.Idom(), d {
			_, ci := an.IfCond(d)
			if ci == nil || an.Unwrap(ci.X) != pv {
				continue
			}
			k, isK := an.ConstInt(ci.Y)
			if !isK || (k != 0 && k != -1) {
				continue
			}
			edge := -1
			switch {
			case ci.Op == token.LSS && k == 0, ci.Op == token.LEQ && k == 0, ci.Op == token.LEQ && k == -1, ci.Op == token.EQL && k == -1:
				edge = 1 // the not-negative side is the false edge
			case ci.Op == token.GEQ && k == 0, ci.Op == token.GTR && k == 0, ci.Op == token.GTR && k == -1, ci.Op == token.NEQ && k == -1:
				edge = 0
			}
			if edge < 0 {
				continue
			}
			if ci.Neg {
				edge = 1 - edge
			}
			if edgeControls(d, edge, child) {
				return true
			}
		}
		return false
	}
	var handles func(fn *ssa.Function, idx int, depth int) (bool, string)
	handles = func(fn *ssa.Function, idx int, depth int) (bool, string) {
		if depth > 3 || fn.Blocks == nil || idx >= len(fn.Params) {
			return false, "cannot follow the length into " + an.ShortFunc(fn)
		}
		pv := fn.Params[idx]
		for _, u := range *pv.Referrers() {
			switch x := u.(type) {
			case *ssa.DebugRef:
				continue
			case *ssa.BinOp:
				switch x.Op {
				case token.LSS, token.LEQ, token.GTR, token.GEQ, token.EQL, token.NEQ:
					continue
				}
			}
			if guarded(pv, u) {
				continue
			}
			if c, ok := u.(*ssa.Call); ok {
				if g := c.Call.StaticCallee(); g != nil && load.InModule(g) {
					okAll := true
					why := ""
					for j, a := range c.Call.Args {
						if a == ssa.Value(pv) {
							if ok2, w := handles(g, j, depth+1); !ok2 {
								okAll, why = false, w
							}
						}
					}
					if okAll {
						continue
					}
					return false, why
				}
			}
			return false, "the length is used at " + p.Pos(u.Pos()) + " in " + an.ShortFunc(fn) + " without a test for a negative (null) length"
		}
		return true, ""
	}
	n := 0
	seen := map[*ssa.Function]bool{}
	for _, fn := range p.ModuleFunctions() {
		top := fn
		for top.Parent() != nil {
			top = top.Parent()
		}
		if top.Pkg != root {
			continue
		}
		an.EachInstr(fn, func(ins ssa.Instruction) {
			ci, ok := ins.(ssa.CallInstruction)
			if !ok {
				return
			}
			for _, a := range ci.Common().Args {
				var cb *ssa.Function
				switch v := a.(type) {
				case *ssa.MakeClosure:
					cb, _ = v.Fn.(*ssa.Function)
				case *ssa.Function:
					cb = v
				}
				if cb == nil || seen[cb] || !isCallbackSig(cb.Signature) {
					continue
				}
				seen[cb] = true
				n++
				ok2, why := handles(cb, len(cb.Params)-1, 0)
				r.Check(ok2, rule, an.ShortFunc(cb)+" (passed as a length callback in "+an.ShortFunc(fn)+")", p.Pos(ins.Pos()), "every use of the length as a count is under a non-negative test", why)
			}
		})
	}
	r.RequireCount(rule, n, 8)
}

// c02LastOffsetSentinel: Batch.readMessage jumps past "the last offset of the batch" at a clean end of the response
// (offsets removed by compaction are never read). The last offset is only known once a record of this response was
// read; until then the field must hold the value the jump's guard excludes, otherwise a response that carries no
// record at all (a retained empty batch alone) makes the position jump to <zero value>+1, i.e. backwards.
func c02LastOffsetSentinel(p *load.Program, r *oblig.Report) {
	const rule = "C02.R9 the compaction jump only uses a last offset supplied by this response"
	rm := p.Func("", "(*Batch).readMessage")
	if rm == nil {
		r.Lost(rule, "kafka.(*Batch).readMessage")
		return
	}
	// (a) the jump and the sentinel its guard excludes
	var sentinel int64
	found, guard := false, ""
	an.EachInstr(rm, func(ins ssa.Instruction) {
		st, ok := fieldStoreIs(ins, "Batch", "offset")
		if !ok || !strings.Contains(clean(an.Shape(st.Val)), ".lastOffset") {
			return
		}
		for d, child := st.Block().Idom(), st.Block(); d != nil; d, child = d.Idom(), d {
			_, ci := an.IfCond(d)
			e := ci.Edge(token.NEQ)
			if e < 0 || !edgeControls(d, e, child) {
				continue
			}
			if k, isK := an.ConstInt(ci.Y); isK && strings.HasSuffix(clean(an.Shape(ci.X)), ".lastOffset") {
				sentinel, found = k, true
				guard = fmt.Sprintf("batch.lastOffset != %d", k)
			}
		}
	})
	r.Check(found, rule, "kafka.(*Batch).readMessage jumps past lastOffset only when lastOffset is not the no-value sentinel", p.Pos(rm.Pos()),
		"if … && batch.lastOffset != -1 { batch.offset = batch.lastOffset + 1 }", "guard "+guard)
	if !found {
		return
	}
	// (b) every Batch that is given a message set reader starts with the sentinel
	n := 0
	var bad []string
	for _, fn := range p.ModuleFunctions() {
		if fn.Pkg != p.SSAPkg("") {
			continue
		}
		an.EachInstr(fn, func(ins ssa.Instruction) {
			al, ok := ins.(*ssa.Alloc)
			if !ok || !an.NamedIs(al.Type(), load.ModPath, "Batch") {
				return
			}
			hasMsgs, okInit := false, false
			for _, ref := range *al.Referrers() {
				fa, ok := ref.(*ssa.FieldAddr)
				if !ok {
					continue
				}
				for _, u := range *fa.Referrers() {
					st, ok := u.(*ssa.Store)
					if !ok || st.Addr != fa {
						continue
					}
					switch an.FieldName(fa.X.Type(), fa.Field) {
					case "msgs":
						hasMsgs = !an.IsNilConst(st.Val)
					case "lastOffset":
						if k, isK := an.ConstInt(st.Val); isK && k == sentinel {
							okInit = true
						}
					}
				}
			}
			if !hasMsgs {
				return
			}
			n++
			if !okInit {
				bad = append(bad, "Batch built at "+p.Pos(al.Pos())+" in "+an.ShortFunc(fn)+" leaves lastOffset at its zero value")
			}
		})
	}
	r.Check(n > 0 && len(bad) == 0, rule, "every Batch that reads a message set starts with lastOffset at the sentinel", "-",
		fmt.Sprintf("Batch{msgs: …, lastOffset: %d}", sentinel), strings.Join(bad, "; "))
}

// c02HeaderReset: every message or batch header is decoded into a zeroed header: format 0 has no timestamp field, so a
// header left over from the previous message would lend it that message's timestamp.
func c02HeaderReset(p *load.Program, r *oblig.Report) {
	const rule = "C02.R6 message set accounting and skipping"
	fn := p.Func("", "(*messageSetReader).readHeader")
	if fn == nil {
		r.Lost(rule, "kafka.(*messageSetReader).readHeader")
		return
	}
	var reset ssa.Instruction
	var firstRead ssa.Instruction
	an.EachInstr(fn, func(ins ssa.Instruction) {
		if st, ok := fieldStoreIs(ins, "readerStack", "header"); ok && reset == nil {
			reset = st
		}
		if c, ok := ins.(*ssa.Call); ok && firstRead == nil && c.Call.StaticCallee() != nil && strings.HasPrefix(an.RefFuncName(c.Call.StaticCallee()), "readInt") {
			firstRead = c
		}
	})
	ok := reset != nil && firstRead != nil && an.Dominates(reset, firstRead)
	r.Check(ok, rule, "kafka.(*messageSetReader).readHeader starts every header from the zero value", p.Pos(fn.Pos()), "r.header = messagesHeader{} before the first field is read", "no reset dominates the first read")
}

// c02LookupTopic: the partition a Reader is bound to is looked up among the partitions of the requested topic: the
// selection compares partition ids only, so the listing must not contain other topics.
func c02LookupTopic(p *load.Program, r *oblig.Report) {
	const rule = "C02.R4 reader.initialize positions the new connection"
	fn := p.Func("", "(*Dialer).LookupPartition")
	if fn == nil {
		r.Lost(rule, "kafka.(*Dialer).LookupPartition")
		return
	}
	var topicParam *ssa.Parameter
	for _, prm := range fn.Params {
		if an.ParamName(prm) == "topic" {
			topicParam = prm
		}
	}
	ok, found := false, "ReadPartitions call not found"
	an.EachInstrDeep(fn, func(_ *ssa.Function, ins ssa.Instruction) {
		c, isC := ins.(*ssa.Call)
		if !isC || !calleeNamed(&c.Call, "Conn", "ReadPartitions") {
			return
		}
		args := an.VarArgs(c.Call.Args[len(c.Call.Args)-1])
		var shapes []string
		for _, a := range args {
			shapes = append(shapes, clean(an.Shape(a)))
		}
		found = "ReadPartitions(" + strings.Join(shapes, ", ") + ")"
		ok = len(args) == 1 && topicParam != nil && strings.HasSuffix(shapes[0], "topic")
	})
	r.Check(ok, rule, "kafka.(*Dialer).LookupPartition lists the partitions of the requested topic only", p.Pos(fn.Pos()), "c.ReadPartitions(topic)", found)
}

// c02PassedBatches: a format-2 batch tells which offsets it covers (first offset, last offset delta) even when
// compaction left it with fewer records than offsets, or none. The reader must not stay below the end of a batch it
// has gone past entirely, whatever follows in the response (nothing, another empty batch, a batch cut at the size
// limit): otherwise the same offset is fetched again for ever. Three structural parts:
// (a) readMessage skips batches without records in a loop (two in a row used to be parsed as a record and panic);
// (b) readHeader records the end of the batch it is about to leave, from that batch's own header;
// (c) Batch.readMessage moves its offset up to that end at a clean end of the response.
func c02PassedBatches(p *load.Program, r *oblig.Report) {
	const rule = "C02.R10 the reader moves past every batch it has completely gone through"
	rm := p.Func("", "(*messageSetReader).readMessage")
	rh := p.Func("", "(*messageSetReader).readHeader")
	brm := p.Func("", "(*Batch).readMessage")
	if rm == nil || rh == nil || brm == nil {
		r.Lost(rule, "kafka.(*messageSetReader).readMessage / readHeader / (*Batch).readMessage")
		return
	}
	// (a)
	var hdrCall ssa.Instruction
	an.EachInstr(rm, func(ins ssa.Instruction) {
		if c, ok := ins.(*ssa.Call); ok && c.Parent() == rm && calleeNamed(&c.Call, "messageSetReader", "readHeader") {
			hdrCall = c
		}
	})
	inLoop, testsCount := false, false
	if hdrCall != nil {
		q := an.PathQuery{Fn: rm, Target: func(i ssa.Instruction) bool { return i == hdrCall }}
		inLoop = q.ReachableFrom(an.PointOf(hdrCall)) != nil
		for _, b := range an.Blocks(rm) {
			_, ci := an.IfCond(b)
			if ci == nil || !strings.HasSuffix(clean(an.Shape(ci.X)), ".count") {
				continue
			}
			// the test belongs to that loop
			q2 := an.PathQuery{Fn: rm, Target: func(i ssa.Instruction) bool { return i == hdrCall }}
			if q2.ReachableFrom(an.Point{B: b, Idx: -1}) != nil {
				testsCount = true
			}
		}
	}
	r.Check(inLoop && testsCount, rule, "kafka.(*messageSetReader).readMessage reads headers until it finds a batch that has records", p.Pos(rm.Pos()),
		"for { readHeader(); if magic != 2 || count != 0 { break } }", fmt.Sprintf("header read in a loop: %v, loop tests the record count: %v", inLoop, testsCount))
	// (b)
	passedField := ""
	var passedStore *ssa.Store
	an.EachInstr(rh, func(ins ssa.Instruction) {
		st, ok := ins.(*ssa.Store)
		if !ok {
			return
		}
		fa, ok := st.Addr.(*ssa.FieldAddr)
		if !ok || !an.NamedIs(fa.X.Type(), load.ModPath, "messageSetReader") {
			return
		}
		s := clean(an.ShapeCanon(st.Val))
		if strings.Contains(s, ".lastOffsetDelta") && strings.Contains(s, ".firstOffset") && strings.Contains(s, "1 +") {
			passedField, passedStore = an.FieldName(fa.X.Type(), fa.Field), st
		}
	})
	okB := passedStore != nil
	if okB {
		// computed before the header is reset for the next batch
		an.EachInstr(rh, func(ins ssa.Instruction) {
			if st, ok := fieldStoreIs(ins, "readerStack", "header"); ok {
				q := an.PathQuery{Fn: rh, Target: func(i ssa.Instruction) bool { return i == ssa.Instruction(passedStore) }}
				if q.ReachableFrom(an.PointOf(st)) != nil {
					okB = false
				}
			}
		})
	}
	r.Check(okB, rule, "kafka.(*messageSetReader).readHeader records where the batch it leaves ends", p.Pos(rh.Pos()),
		"r.passed = firstOffset + lastOffsetDelta + 1 of the current v2 header, before the header is reset", "field: "+passedField)
	// (c)
	okC := false
	if passedField != "" {
		an.EachInstr(brm, func(ins ssa.Instruction) {
			st, ok := fieldStoreIs(ins, "Batch", "offset")
			if !ok || !strings.HasSuffix(clean(an.Shape(st.Val)), ".msgs."+passedField) {
				return
			}
			for _, c := range guardCanon(st) {
				if strings.Contains(c, ".msgs."+passedField) && strings.Contains(c, ".offset") {
					okC = true // only ever moves forward
				}
			}
		})
	}
	r.Check(okC, rule, "kafka.(*Batch).readMessage moves up to the end of the batches the reader went past when the response ends", p.Pos(brm.Pos()),
		"if batch.msgs.passed > batch.offset { batch.offset = batch.msgs.passed } on the clean-end path", "not found")
}

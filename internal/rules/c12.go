package rules

import (
	"fmt"
	"go/token"
	"go/types"
	"sort"
	"strings"

	"golang.org/x/tools/go/ssa"

	"kverif/internal/an"
	"kverif/internal/load"
	"kverif/internal/oblig"
)

// Reference routing classes. Entries for produce/fetch/list-offsets (leader), the group APIs
// (group coordinator), the transaction APIs (transaction coordinator), create-topics (controller)
// and metadata (any) come from the property statement; the rest were confirmed on the pinned tree.
var routingRef = map[string]string{
	"protocol/produce.Request":     "leader",
	"protocol/rawproduce.Request":  "leader",
	"protocol/fetch.Request":       "leader",
	"protocol/listoffsets.Request": "leader",

	"protocol/joingroup.Request":       "group",
	"protocol/syncgroup.Request":       "group",
	"protocol/heartbeat.Request":       "group",
	"protocol/leavegroup.Request":      "group",
	"protocol/offsetcommit.Request":    "group",
	"protocol/offsetfetch.Request":     "group",
	"protocol/describegroups.Request":  "group",
	"protocol/deletegroups.Request":    "group",
	"protocol/offsetdelete.Request":    "group",
	"protocol/txnoffsetcommit.Request": "group",

	"protocol/initproducerid.Request":     "txn",
	"protocol/addpartitionstotxn.Request": "txn",
	"protocol/addoffsetstotxn.Request":    "txn",
	"protocol/endtxn.Request":             "txn",

	"protocol/createtopics.Request":                 "controller",
	"protocol/deletetopics.Request":                 "controller",
	"protocol/createpartitions.Request":             "controller",
	"protocol/alterconfigs.Request":                 "controller",
	"protocol/electleaders.Request":                 "controller",
	"protocol/alterpartitionreassignments.Request":  "controller",
	"protocol/listpartitionreassignments.Request":   "controller",
	"protocol/createacls.Request":                   "controller",
	"protocol/deleteacls.Request":                   "controller",
	"protocol/describeacls.Request":                 "controller",
	"protocol/alterclientquotas.Request":            "controller",
	"protocol/describeclientquotas.Request":         "controller",
	"protocol/alteruserscramcredentials.Request":    "controller",
	"protocol/describeuserscramcredentials.Request": "controller",

	"protocol/describeconfigs.Request":         "controller+specific",
	"protocol/incrementalalterconfigs.Request": "controller+specific",
	"protocol/listgroups.Request":              "specific",

	"protocol/metadata.Request":         "any",
	"protocol/apiversions.Request":      "any",
	"protocol/findcoordinator.Request":  "any",
	"protocol/saslhandshake.Request":    "any",
	"protocol/saslauthenticate.Request": "any",
}

func init() {
	register(&Check{ID: "C12", Run: runC12, Expl: oblig.Explanation{
		Text:        "Static routing/version-selection check: (R1) the routing class of every registered request type, derived from the interfaces it implements in the dispatch order of (*connPool).sendRequest and from the provenance of the Broker value its Broker() method returns, equals the class the property names; (R2) ApiKey.SelectVersion is interpreted over every weak ordering of (our min, our max, broker min, broker max) and must return min(our max, broker max), inside both ranges, whenever the ranges overlap; (R3) the negotiated version flows from SelectVersion(r.MinVersion, r.MaxVersion) into SetVersions and from versions[msg.ApiKey()] into Prepare/WriteRequest/ReadResponse; (R4) the broker id used to pick a connection flows from Broker().ID / the FindCoordinator answer and is used iff >= 0; (R5) metadata is sorted before it is published and looked up by binary search. Not decided: timing (one TTL plus a round trip), histories of leader moves.",
		Rule:        "one obligation per registered request type (R1), per ordering class (R2), per required flow (R3/R4), per sort/search pairing (R5); non-trivial = decided by inspecting at least one instruction",
		Trusted:     []string{"go/types, go/ssa (x/tools v0.29.0)", "routing reference table in internal/rules/c12.go", "backward value-provenance walk (internal/an/flow.go)"},
		Assumptions: []string{"cluster metadata handed to Broker() is the one published by (*connPool).update", "interface dispatch order is the order of type assertions in sendRequest"},
	}})
}

// registeredRequests finds every (request type, response type) pair passed to protocol.Register /
// RegisterOverride in a package initialiser of the module.
type regPair struct {
	Req, Res *types.Named
	Pos      token.Pos
	Override bool
}

func registeredMessages(p *load.Program) []regPair {
	var out []regPair
	pp := p.SSAPkg("protocol")
	if pp == nil {
		return nil
	}
	reg, regO := pp.Func("Register"), pp.Func("RegisterOverride")
	for _, sp := range p.SSA {
		for _, m := range sp.Members {
			fn, ok := m.(*ssa.Function)
			if !ok || !strings.HasPrefix(an.RefFuncName(fn), "init") {
				continue
			}
			an.EachInstr(fn, func(ins ssa.Instruction) {
				c, ok := ins.(*ssa.Call)
				if !ok {
					return
				}
				callee := c.Call.StaticCallee()
				if callee == nil || (callee != reg && callee != regO) {
					return
				}
				rp := regPair{Pos: c.Pos(), Override: callee == regO}
				rp.Req = namedOfIface(c.Call.Args[0])
				rp.Res = namedOfIface(c.Call.Args[1])
				out = append(out, rp)
			})
		}
	}
	sort.Slice(out, func(i, j int) bool { return typeKey(out[i].Req) < typeKey(out[j].Req) })
	return out
}

func namedOfIface(v ssa.Value) *types.Named {
	v = an.Unwrap(v)
	t := v.Type()
	if p, ok := t.(*types.Pointer); ok {
		t = p.Elem()
	}
	n, _ := t.(*types.Named)
	return n
}

func typeKey(n *types.Named) string {
	if n == nil || n.Obj().Pkg() == nil {
		return "<nil>"
	}
	path := strings.TrimPrefix(n.Obj().Pkg().Path(), load.ModPath+"/")
	if path == load.ModPath {
		path = "kafka"
	}
	return path + "." + n.Obj().Name()
}

func ifaceNamed(p *load.Program, rel, name string) *types.Interface {
	pk := p.Pkg(rel)
	if pk == nil {
		return nil
	}
	o := pk.Types.Scope().Lookup(name)
	if o == nil {
		return nil
	}
	i, _ := o.Type().Underlying().(*types.Interface)
	return i
}

func runC12(p *load.Program, r *oblig.Report) {
	c12Routing(p, r)
	c12SelectVersion(p, r)
	c12VersionFlow(p, r)
	c12SendRequest(p, r)
	c12SortSearch(p, r)
	c12Refresher(p, r)
	c12PoolUpdateOrder(p, r)
	c12SplitGroups(p, r)
	c12UpdatePublishes(p, r)
	c12CoordinatorError(p, r)
	c12RefreshWithinTTL(p, r)
	c12LeaderSiblings(p, r)
	c12ControllerFromMetadata(p, r)
	// ListOffsets is routed by the leader of its first partition: Split must leave one partition per sub-request (C19.R3)
	shareRules(r, "C12", "C12.R11 list-offsets requests are split per partition leader", func(sub *oblig.Report) { c19SplitMerge(p, sub) })
	c12LegacyNegotiate(p, r, "C12.R2 version-selection table")
}

// c12LegacyNegotiate: the hand-written Conn picks one of its hard-coded versions only under the test that the
// broker's advertised maximum is at least that version (shared with C04: "a version no higher than the broker
// advertised").
func c12LegacyNegotiate(p *load.Program, r *oblig.Report, rule string) {
	fn := p.Func("", "(apiVersionMap).negotiate")
	if fn == nil {
		r.Lost(rule, "kafka.(apiVersionMap).negotiate")
		return
	}
	n := 0
	an.EachInstr(fn, func(ins ssa.Instruction) {
		ret, ok := ins.(*ssa.Return)
		if !ok || len(ret.Results) != 1 {
			return
		}
		if k, isK := an.ConstInt(an.RetVal(ret, 0)); isK && k == -1 {
			return
		}
		n++
		val := clean(an.ShapeCanon(an.RetVal(ret, 0)))
		okGuard := false
		var conds []string
		for _, c := range selConds(ret) {
			c = clean(c)
			conds = append(conds, c)
			// (MaxVersion >= s)
			if strings.HasSuffix(c, " >= "+val+")") && strings.Contains(c, ".MaxVersion") {
				okGuard = true
			}
		}
		r.Check(okGuard, rule, "kafka.(apiVersionMap).negotiate returns a version only when the broker's maximum is at least that version", p.Pos(ret.Pos()), "if apiVersion(x.MaxVersion) >= s { return s }", strings.Join(conds, " ∧ "))
	})
	r.RequireCount(rule+" (legacy negotiate returns)", n, 1)
	// candidates are tried from the highest down
	okDesc := false
	for _, b := range an.Blocks(fn) {
		for _, ins := range b.Instrs {
			if bo, ok := ins.(*ssa.BinOp); ok && bo.Op == token.SUB {
				if k, isK := an.ConstInt(bo.Y); isK && k == 1 {
					if _, isPhi := bo.X.(*ssa.Phi); isPhi {
						okDesc = true
					}
				}
			}
		}
	}
	r.Check(okDesc, rule, "kafka.(apiVersionMap).negotiate tries its candidates from the highest version down", p.Pos(fn.Pos()), "for i := len(versions)-1; i >= 0; i--", "no descending index")
}

// dispatchOrder returns the interfaces asserted on parameter `req` of sendRequest, in dominance order.
func dispatchOrder(fn *ssa.Function) []*ssa.TypeAssert {
	var tas []*ssa.TypeAssert
	var req *ssa.Parameter
	for _, prm := range fn.Params {
		if an.ParamName(prm) == "req" {
			req = prm
		}
	}
	an.EachInstr(fn, func(ins ssa.Instruction) {
		ta, ok := ins.(*ssa.TypeAssert)
		if !ok || !ta.CommaOk {
			return
		}
		if an.Unwrap(ta.X) != ssa.Value(req) {
			return
		}
		if _, ok := ta.AssertedType.Underlying().(*types.Interface); ok {
			tas = append(tas, ta)
		}
	})
	sort.SliceStable(tas, func(i, j int) bool { return an.Dominates(tas[i], tas[j]) })
	return tas
}

func c12Routing(p *load.Program, r *oblig.Report) {
	const rule = "C12.R1 routing-class"
	send := p.Func("", "(*connPool).sendRequest")
	if send == nil {
		r.Lost(rule, "kafka.(*connPool).sendRequest")
		return
	}
	order := dispatchOrder(send)
	var names []string
	for _, ta := range order {
		names = append(names, types.TypeString(ta.AssertedType, nil))
	}
	bm, gm, tm := ifaceNamed(p, "protocol", "BrokerMessage"), ifaceNamed(p, "protocol", "GroupMessage"), ifaceNamed(p, "protocol", "TransactionalMessage")
	if bm == nil || gm == nil || tm == nil {
		r.Lost(rule, "protocol.BrokerMessage/GroupMessage/TransactionalMessage")
		return
	}
	regs := registeredMessages(p)
	r.RequireCount(rule, len(regs), 40)
	seen := map[string]bool{}
	for _, rp := range regs {
		if rp.Req == nil {
			r.Undecided(rule, "Register call at "+p.Pos(rp.Pos), p.Pos(rp.Pos), "request type of a Register call could not be resolved")
			continue
		}
		key := typeKey(rp.Req)
		seen[key] = true
		ptr := types.NewPointer(rp.Req)
		class := "any"
		var facts []string
		for _, ta := range order {
			it := ta.AssertedType.Underlying().(*types.Interface)
			if !types.Implements(ptr, it) {
				continue
			}
			switch {
			case types.Identical(it, bm):
				cls, f := classifyBroker(p, rp.Req)
				class = cls
				facts = append(facts, f...)
			case types.Identical(it, gm):
				class = "group"
				facts = append(facts, "implements protocol.GroupMessage; first matching case of sendRequest's dispatch "+fmt.Sprint(names))
			case types.Identical(it, tm):
				class = "txn"
				facts = append(facts, "implements protocol.TransactionalMessage")
			default:
				class = "unknown-dispatch:" + types.TypeString(ta.AssertedType, nil)
			}
			break
		}
		if class == "any" {
			facts = append(facts, "implements none of "+fmt.Sprint(names)+" ⇒ cluster connection (any broker)")
		}
		want, ok := routingRef[key]
		pos := p.Pos(rp.Req.Obj().Pos())
		if !ok {
			r.Bad(rule, key, pos, "a routing class recorded in the reference table", "request type registered but not classified (class derived: "+class+")", facts...)
			continue
		}
		r.Check(class == want, rule, key, pos, "routed to: "+want, "routed to: "+class, facts...)
	}
	for k := range routingRef {
		if !seen[k] {
			r.Bad(rule, k, "-", "request type is registered with protocol.Register", "no Register call found for it")
		}
	}
}

// classifyBroker derives the routing class from the provenance of the Broker values returned with a nil error.
func classifyBroker(p *load.Program, req *types.Named) (string, []string) {
	var fn *ssa.Function
	ms := p.Prog.MethodSets.MethodSet(types.NewPointer(req))
	for i := 0; i < ms.Len(); i++ {
		if ms.At(i).Obj().Name() == "Broker" {
			fn = p.Prog.MethodValue(ms.At(i))
		}
	}
	if fn == nil || fn.Blocks == nil {
		return "undecided", []string{"Broker method has no body"}
	}
	classes := map[string]bool{}
	var facts []string
	an.EachInstr(fn, func(ins ssa.Instruction) {
		ret, ok := ins.(*ssa.Return)
		if !ok || len(ret.Results) != 2 {
			return
		}
		if !an.IsNilConst(ret.Results[1]) {
			// returns with a possibly non-nil error: inspect only when error may be nil (phi of nil)
			nilPossible := false
			for _, o := range an.Origins(ret.Results[1], an.FlowOpts{}) {
				if o.Kind == "const" && o.Name == "nil" {
					nilPossible = true
				}
			}
			if !nilPossible {
				return
			}
		}
		for _, o := range an.Origins(ret.Results[0], an.FlowOpts{}) {
			c := brokerOriginClass(fn, o)
			classes[c] = true
			facts = append(facts, fmt.Sprintf("%s: returned broker ← %s ⇒ %s", p.Pos(ret.Pos()), o.String(), c))
		}
	})
	delete(classes, "none") // Broker{ID:-1}: no topic named ⇒ falls back to the cluster connection
	var cs []string
	for c := range classes {
		cs = append(cs, c)
	}
	sort.Strings(cs)
	if len(cs) == 0 {
		return "any", facts
	}
	return strings.Join(cs, "+"), facts
}

func brokerOriginClass(fn *ssa.Function, o an.Origin) string {
	// a literal Broker (alloc/const) is "none"
	if o.Kind == "const" || o.Kind == "alloc" {
		return "none"
	}
	// expected: param:cluster.Brokers[]  with the key telling the class
	if o.Kind != "param" || !strings.HasPrefix(o.Path, ".Brokers[]") || len(o.Keys) == 0 {
		return "undecided(" + o.String() + ")"
	}
	key := o.Keys[len(o.Keys)-1]
	kos := an.Origins(key, an.FlowOpts{})
	cls := map[string]bool{}
	for _, ko := range kos {
		switch {
		case ko.Kind == "param" && ko.Path == ".Controller" && isClusterParam(ko.Val):
			cls["controller"] = true
		case strings.HasSuffix(ko.Path, ".Leader") && ko.Kind == "param" && isClusterParam(ko.Val) && strings.HasPrefix(ko.Path, ".Topics[].Partitions[]"):
			if leaderKeyedByRequest(fn, ko) {
				cls["leader"] = true
			} else {
				cls["leader-of-unrelated-partition"] = true
			}
		case ko.Kind == "param" && !isClusterParam(ko.Val):
			cls["specific"] = true // broker id carried by the request itself
		case ko.Kind == "call":
			// e.g. strconv.Atoi(resource.ResourceName): an id named by the request
			cls["specific"] = true
		default:
			cls["undecided("+ko.String()+")"] = true
		}
	}
	var cs []string
	for c := range cls {
		cs = append(cs, c)
	}
	sort.Strings(cs)
	return strings.Join(cs, "+")
}

func isClusterParam(v ssa.Value) bool {
	prm, ok := v.(*ssa.Parameter)
	return ok && an.NamedIs(prm.Type(), load.ModPath+"/protocol", "Cluster")
}

// leaderKeyedByRequest checks that the Partition whose Leader is used was selected by the request's own
// topic and partition: either map lookups keyed by receiver-rooted values, or a range over the topic's
// partitions guarded by an equality between the element's ID and a receiver-rooted value.
func leaderKeyedByRequest(fn *ssa.Function, ko an.Origin) bool {
	recv := fn.Params[0]
	rooted := func(v ssa.Value) bool {
		os := an.Origins(v, an.FlowOpts{})
		if len(os) == 0 {
			return false
		}
		for _, o := range os {
			if o.Kind != "param" || o.Val != ssa.Value(recv) {
				return false
			}
		}
		return true
	}
	nKeys := 0
	all := true
	for _, k := range ko.Keys {
		nKeys++
		if !rooted(k) {
			all = false
		}
	}
	if nKeys >= 2 && all {
		return true
	}
	// range form: look for a comparison `elem.ID == <receiver rooted>` in the function
	found := false
	an.EachInstr(fn, func(ins ssa.Instruction) {
		bo, ok := ins.(*ssa.BinOp)
		if !ok || (bo.Op != token.EQL && bo.Op != token.NEQ) {
			return // (`if p.ID != partition { continue }` is the same selection spelled the other way round)
		}
		for _, pair := range [][2]ssa.Value{{bo.X, bo.Y}, {bo.Y, bo.X}} {
			eo := an.Origins(pair[0], an.FlowOpts{})
			if len(eo) == 1 && eo[0].Kind == "param" && isClusterParam(eo[0].Val) && strings.HasPrefix(eo[0].Path, ".Topics[].Partitions[]") && strings.HasSuffix(eo[0].Path, ".ID") && rooted(pair[1]) {
				found = true
			}
		}
	})
	// the topic key must be receiver rooted as well
	return found && nKeys >= 1 && rooted(ko.Keys[0])
}

func c12SelectVersion(p *load.Program, r *oblig.Report) {
	const rule = "C12.R2 version-selection table"
	fn := p.Func("protocol", "(ApiKey).SelectVersion")
	if fn == nil {
		r.Lost(rule, "protocol.(ApiKey).SelectVersion")
		return
	}
	atoms := func(v ssa.Value) (string, bool) {
		if c, ok := v.(*ssa.Call); ok {
			if f := c.Call.StaticCallee(); f != nil && (an.RefFuncName(f) == "MinVersion" || an.RefFuncName(f) == "MaxVersion") && len(c.Call.Args) == 1 {
				if _, isP := c.Call.Args[0].(*ssa.Parameter); isP {
					return "ours." + an.RefFuncName(f), true
				}
			}
		}
		if prm, ok := v.(*ssa.Parameter); ok && prm != fn.Params[0] {
			return an.ParamName(prm), true
		}
		return "", false
	}
	if len(fn.Params) != 3 {
		r.Undecided(rule, "SelectVersion signature", p.Pos(fn.Pos()), "expected (k, minVersion, maxVersion)")
		return
	}
	bmin, bmax := an.ParamName(fn.Params[1]), an.ParamName(fn.Params[2])
	names := []string{"ours.MinVersion", "ours.MaxVersion", bmin, bmax}
	bad := 0
	total, wellFormed, overlapping := 0, 0, 0
	var firstBad string
	var evalErr error
	an.Assignments(names, []int64{0, 1, 2, 3}, func(m map[string]int64) {
		total++
		omin, omax, bmn, bmx := m[names[0]], m[names[1]], m[bmin], m[bmax]
		if omin > omax || bmn > bmx {
			return
		}
		wellFormed++
		res, err := an.EvalOrder(fn, atoms, m, nil)
		if err != nil {
			evalErr = err
			return
		}
		lo, hi := max64(omin, bmn), min64(omax, bmx)
		if lo > hi {
			return // disjoint ranges: the property is silent
		}
		overlapping++
		got := res[0].I
		if got != hi || got < omin || got > omax || got < bmn || got > bmx {
			bad++
			if firstBad == "" {
				firstBad = fmt.Sprintf("ours=[%d,%d] broker=[%d,%d]: selected %d, want %d", omin, omax, bmn, bmx, got, hi)
			}
		}
	})
	if evalErr != nil {
		r.Undecided(rule, "protocol.(ApiKey).SelectVersion", p.Pos(fn.Pos()), evalErr.Error())
		return
	}
	r.Check(bad == 0, rule, "protocol.(ApiKey).SelectVersion over all orderings of (ours.min, ours.max, broker.min, broker.max)", p.Pos(fn.Pos()),
		"highest version supported by both sides whenever the ranges overlap", firstBad,
		fmt.Sprintf("%d assignments over {0..3}^4 (realising all %d weak orderings of 4 atoms); %d well-formed; %d overlapping; %d wrong", total, an.WeakOrderings(4), wellFormed, overlapping, bad))
}

func max64(a, b int64) int64 {
	if a > b {
		return a
	}
	return b
}
func min64(a, b int64) int64 {
	if a < b {
		return a
	}
	return b
}

func hasOrigin(os []an.Origin, pred func(an.Origin) bool) bool {
	for _, o := range os {
		if pred(o) {
			return true
		}
	}
	return false
}

func allOrigins(os []an.Origin, pred func(an.Origin) bool) bool {
	if len(os) == 0 {
		return false
	}
	for _, o := range os {
		if !pred(o) {
			return false
		}
	}
	return true
}

func c12VersionFlow(p *load.Program, r *oblig.Report) {
	const rule = "C12.R3 negotiated-version flow"
	connect := p.Func("", "(*connGroup).connect")
	sel := p.Func("protocol", "(ApiKey).SelectVersion")
	setv := p.Func("protocol", "(*Conn).SetVersions")
	if connect == nil || sel == nil || setv == nil {
		r.Lost(rule, "kafka.(*connGroup).connect / protocol.SelectVersion / SetVersions")
		return
	}
	// (a) SelectVersion(r.MinVersion, r.MaxVersion) on ApiKey(r.ApiKey), stored under the same key
	nSel := 0
	var selCall *ssa.Call
	an.EachInstr(connect, func(ins ssa.Instruction) {
		c, ok := ins.(*ssa.Call)
		if !ok || !an.StaticCalleeIs(&c.Call, sel) {
			return
		}
		nSel++
		selCall = c
		a := c.Call.Args
		o0, o1, o2 := an.Origins(a[0], an.FlowOpts{}), an.Origins(a[1], an.FlowOpts{}), an.Origins(a[2], an.FlowOpts{})
		isResp := func(suffix string) func(an.Origin) bool {
			return func(o an.Origin) bool {
				return o.Kind == "call" && strings.Contains(o.Name, "RoundTrip") && strings.HasSuffix(o.Path, ".ApiKeys[]"+suffix)
			}
		}
		ok0 := allOrigins(o0, isResp(".ApiKey"))
		ok1 := allOrigins(o1, isResp(".MinVersion"))
		ok2 := allOrigins(o2, isResp(".MaxVersion"))
		r.Check(ok0 && ok1 && ok2, rule, "kafka.(*connGroup).connect → SelectVersion(receiver, min, max) arguments", p.Pos(c.Pos()),
			"ApiKey(r.ApiKey).SelectVersion(r.MinVersion, r.MaxVersion) of the same ApiVersions entry",
			fmt.Sprintf("receiver←%v min←%v max←%v", an.OriginStrings(o0), an.OriginStrings(o1), an.OriginStrings(o2)),
			fmt.Sprintf("receiver←%v", an.OriginStrings(o0)), fmt.Sprintf("min←%v", an.OriginStrings(o1)), fmt.Sprintf("max←%v", an.OriginStrings(o2)))
		// same iteration element for all three
		same := sameRoot(o0, o1) && sameRoot(o1, o2)
		r.Check(same, rule, "kafka.(*connGroup).connect → SelectVersion arguments come from one response entry", p.Pos(c.Pos()), "one element of res.ApiKeys", "different elements")
	})
	r.RequireCount(rule+" (SelectVersion call in connect)", nSel, 1)
	if selCall != nil {
		// stored in a map under ApiKey(r.ApiKey), and that map goes to SetVersions
		var mu *ssa.MapUpdate
		for _, ref := range *selCall.Referrers() {
			if m, ok := ref.(*ssa.MapUpdate); ok && m.Value == ssa.Value(selCall) {
				mu = m
			}
		}
		if mu == nil {
			r.Bad(rule, "kafka.(*connGroup).connect → selected version stored per API key", p.Pos(selCall.Pos()), "ver[apiKey] = apiKey.SelectVersion(...)", "result is not stored into a map")
		} else {
			keyOK := an.Unwrap(mu.Key) == an.Unwrap(selCall.Call.Args[0]) || fmt.Sprint(an.OriginStrings(an.Origins(mu.Key, an.FlowOpts{}))) == fmt.Sprint(an.OriginStrings(an.Origins(selCall.Call.Args[0], an.FlowOpts{})))
			r.Check(keyOK, rule, "kafka.(*connGroup).connect → map key of the selected version is the API key it was selected for", p.Pos(mu.Pos()), "ver[k] = k.SelectVersion(..)", "key and receiver differ")
			// SetVersions(ver)
			found := false
			var setPos token.Pos
			an.EachInstr(connect, func(ins ssa.Instruction) {
				c, ok := ins.(*ssa.Call)
				if ok && an.StaticCalleeIs(&c.Call, setv) {
					if c.Call.Args[1] == mu.Map {
						found = true
						setPos = c.Pos()
					}
				}
			})
			r.Check(found, rule, "kafka.(*connGroup).connect → SetVersions receives the negotiated map", p.Pos(setPos), "pc.SetVersions(ver)", "SetVersions is not called with the map the selected versions were stored in")
		}
	}
	// (b) protocol.(*Conn).RoundTrip: apiVersion = versions[msg.ApiKey()] → Prepare, RoundTrip
	rt := p.Func("protocol", "(*Conn).RoundTrip")
	grt := p.Func("protocol", "RoundTrip")
	wr := p.Func("protocol", "WriteRequest")
	rd := p.Func("protocol", "ReadResponse")
	if rt == nil || grt == nil || wr == nil || rd == nil {
		r.Lost(rule, "protocol.(*Conn).RoundTrip / RoundTrip / WriteRequest / ReadResponse")
		return
	}
	isNegotiated := func(o an.Origin) bool {
		// versions.Load().(map)[msg.ApiKey()]
		if o.Kind != "call" || !strings.Contains(o.Name, "Load") || o.Path != "[]" || len(o.Keys) != 1 {
			return false
		}
		ko := an.Origins(o.Keys[0], an.FlowOpts{})
		return allOrigins(ko, func(k an.Origin) bool { return k.Kind == "call" && strings.HasSuffix(k.Name, ".ApiKey") })
	}
	n := 0
	an.EachInstr(rt, func(ins ssa.Instruction) {
		c, ok := ins.(*ssa.Call)
		if !ok {
			return
		}
		switch {
		case c.Call.IsInvoke() && c.Call.Method.Name() == "Prepare":
			n++
			os := an.Origins(c.Call.Args[0], an.FlowOpts{})
			r.Check(allOrigins(os, isNegotiated), rule, "protocol.(*Conn).RoundTrip → Prepare(apiVersion)", p.Pos(c.Pos()), "versions[msg.ApiKey()]", fmt.Sprint(an.OriginStrings(os)))
		case an.StaticCalleeIs(&c.Call, grt):
			n++
			os := an.Origins(c.Call.Args[1], an.FlowOpts{})
			r.Check(allOrigins(os, isNegotiated), rule, "protocol.(*Conn).RoundTrip → RoundTrip(c, apiVersion, …)", p.Pos(c.Pos()), "versions[msg.ApiKey()]", fmt.Sprint(an.OriginStrings(os)))
			// message identity
			mo := an.Origins(c.Call.Args[4], an.FlowOpts{})
			r.Check(allOrigins(mo, func(o an.Origin) bool {
				return o.Kind == "param" && o.Name == an.ParamName(rt.Params[1]) && o.Path == ""
			}), rule, "protocol.(*Conn).RoundTrip → RoundTrip(…, msg) sends the caller's message", p.Pos(c.Pos()), "param msg", fmt.Sprint(an.OriginStrings(mo)))
		}
	})
	r.RequireCount(rule+" (uses of the negotiated version in (*Conn).RoundTrip)", n, 2)
	// (c) protocol.RoundTrip passes its apiVersion parameter to both WriteRequest and ReadResponse
	m := 0
	verParam := grt.Params[1]
	an.EachInstr(grt, func(ins ssa.Instruction) {
		c, ok := ins.(*ssa.Call)
		if !ok {
			return
		}
		var arg ssa.Value
		var what string
		switch {
		case an.StaticCalleeIs(&c.Call, wr):
			arg, what = c.Call.Args[1], "WriteRequest"
		case an.StaticCalleeIs(&c.Call, rd):
			arg, what = c.Call.Args[2], "ReadResponse"
		default:
			return
		}
		m++
		r.Check(arg == ssa.Value(verParam), rule, "protocol.RoundTrip → "+what+" uses the negotiated apiVersion", p.Pos(c.Pos()), "parameter apiVersion", arg.Name())
	})
	r.RequireCount(rule+" (encoder/decoder calls in protocol.RoundTrip)", m, 2)
}

func sameRoot(a, b []an.Origin) bool {
	if len(a) == 0 || len(b) == 0 {
		return false
	}
	return a[0].Val == b[0].Val
}

func c12SendRequest(p *load.Program, r *oblig.Report) {
	const rule = "C12.R4 broker-id flow"
	send := p.Func("", "(*connPool).sendRequest")
	gbc := p.Func("", "(*connPool).grabBrokerConn")
	gcc := p.Func("", "(*connPool).grabClusterConn")
	if send == nil || gbc == nil || gcc == nil {
		r.Lost(rule, "kafka.(*connPool).sendRequest/grabBrokerConn/grabClusterConn")
		return
	}
	n := 0
	an.EachInstr(send, func(ins ssa.Instruction) {
		c, ok := ins.(*ssa.Call)
		if !ok {
			return
		}
		if an.StaticCalleeIs(&c.Call, gbc) {
			n++
			os := an.Origins(c.Call.Args[2], an.FlowOpts{})
			want := map[string]bool{}
			okAll := true
			for _, o := range os {
				switch {
				case o.Kind == "const" && o.Name == "-1":
					want["default -1"] = true
				case o.Kind == "call" && strings.HasSuffix(o.Name, ".Broker#0") && o.Path == ".ID":
					want["Broker().ID"] = true
				case o.Kind == "call" && strings.Contains(o.Name, "await#0") && o.Path == ".NodeID":
					want["coordinator NodeID"] = true
				default:
					okAll = false
				}
			}
			r.Check(okAll && want["Broker().ID"] && want["coordinator NodeID"], rule, "kafka.(*connPool).sendRequest → grabBrokerConn(brokerID)", p.Pos(c.Pos()),
				"brokerID ∈ {-1, Broker(state.layout).ID, findcoordinator.Response.NodeID}", fmt.Sprint(an.OriginStrings(os)), an.OriginStrings(os)...)
			// guarded by brokerID >= 0 : the call's block is reached on the true edge of `id >= 0`
			guard := false
			for _, pred := range c.Block().Preds {
				_, ci := an.IfCond(pred)
				if ci == nil {
					continue
				}
				isTrueEdge := pred.Succs[0] == c.Block()
				if ci.Neg {
					isTrueEdge = !isTrueEdge
				}
				if y, ok := an.ConstInt(ci.Y); ok && ci.X == c.Call.Args[2] {
					if (ci.Op == token.GEQ && y == 0 && isTrueEdge) || (ci.Op == token.GTR && y == -1 && isTrueEdge) || (ci.Op == token.LSS && y == 0 && !isTrueEdge) {
						guard = true
					}
				}
			}
			r.Check(guard, rule, "kafka.(*connPool).sendRequest → broker connection used iff brokerID >= 0", p.Pos(c.Pos()), "grabBrokerConn on the brokerID >= 0 edge, cluster connection otherwise", "guard not recognised")
		}
		if c.Call.IsInvoke() && c.Call.Method.Name() == "Broker" {
			os := an.Origins(c.Call.Args[0], an.FlowOpts{})
			r.Check(allOrigins(os, func(o an.Origin) bool { return o.Kind == "param" && o.Name == "state" && o.Path == ".layout" }), rule,
				"kafka.(*connPool).sendRequest → Broker(state.layout) uses the state loaded for this round trip", p.Pos(c.Pos()), "param state.layout", fmt.Sprint(an.OriginStrings(os)))
		}
	})
	r.RequireCount(rule, n, 1)
	// coordinator look-ups: Key ← Group()/Transaction(), KeyType 1 iff transaction
	type fc struct {
		key     string
		keyType string
		pos     token.Pos
	}
	var fcs []fc
	an.EachInstr(send, func(ins ssa.Instruction) {
		al, ok := ins.(*ssa.Alloc)
		if !ok || !an.NamedIs(al.Type(), load.ModPath+"/protocol/findcoordinator", "Request") {
			return
		}
		f := fc{keyType: "0", pos: al.Pos()}
		for _, ref := range *al.Referrers() {
			fa, ok := ref.(*ssa.FieldAddr)
			if !ok {
				continue
			}
			name := an.FieldName(al.Type(), fa.Field)
			for _, r2 := range *fa.Referrers() {
				st, ok := r2.(*ssa.Store)
				if !ok {
					continue
				}
				os := an.OriginStrings(an.Origins(st.Val, an.FlowOpts{}))
				if name == "Key" {
					f.key = strings.Join(os, ",")
				}
				if name == "KeyType" {
					f.keyType = strings.TrimPrefix(strings.Join(os, ","), "const:")
				}
			}
		}
		fcs = append(fcs, f)
	})
	gotG, gotT := false, false
	for _, f := range fcs {
		switch {
		case strings.Contains(f.key, "GroupMessage).Group"):
			gotG = true
			r.Check(f.keyType == "0", rule, "kafka.(*connPool).sendRequest → FindCoordinator for a group uses key type 0", p.Pos(f.pos), "KeyType 0 (group)", "KeyType "+f.keyType, "Key ← "+f.key)
		case strings.Contains(f.key, "TransactionalMessage).Transaction"):
			gotT = true
			r.Check(f.keyType == "1", rule, "kafka.(*connPool).sendRequest → FindCoordinator for a transaction uses key type 1", p.Pos(f.pos), "KeyType 1 (transaction)", "KeyType "+f.keyType, "Key ← "+f.key)
		default:
			r.Bad(rule, "kafka.(*connPool).sendRequest → FindCoordinator key", p.Pos(f.pos), "Key ← m.Group() or m.Transaction()", f.key)
		}
	}
	r.Check(gotG && gotT, rule, "kafka.(*connPool).sendRequest → coordinator look-ups for group and transactional messages", p.Pos(send.Pos()), "one FindCoordinator request keyed by Group() and one by Transaction()", fmt.Sprintf("group=%v txn=%v", gotG, gotT))
}

func c12SortSearch(p *load.Program, r *oblig.Report) {
	const rule = "C12.R5 sorted-before-search"
	upd := p.Func("", "(*connPool).update")
	setState := p.Func("", "(*connPool).setState")
	find := p.Func("", "findMetadataTopic")
	filter := p.Func("", "filterMetadataResponse")
	if upd == nil || setState == nil || find == nil || filter == nil {
		r.Lost(rule, "kafka.(*connPool).update/setState/findMetadataTopic/filterMetadataResponse")
		return
	}
	// in update: on every path from entry where metadata != nil, calls that sort topics precede setState
	var sortTopics *ssa.Call
	an.EachInstr(upd, func(ins ssa.Instruction) {
		c, ok := ins.(*ssa.Call)
		if !ok {
			return
		}
		callee := c.Call.StaticCallee()
		if callee == nil || !load.InModule(callee) || len(c.Call.Args) != 1 {
			return
		}
		// a function that sorts its argument by .Name with sort.Slice: recognise by body
		if sortsByField(callee, "Name") {
			os := an.Origins(c.Call.Args[0], an.FlowOpts{})
			if allOrigins(os, func(o an.Origin) bool { return o.Kind == "param" && o.Path == ".Topics" }) {
				sortTopics = c
			}
		}
	})
	if sortTopics == nil {
		r.Bad(rule, "kafka.(*connPool).update → topics sorted by name before publication", p.Pos(upd.Pos()), "sort of metadata.Topics by Name", "no such call found")
	} else {
		// every store of metadata into state (state.metadata = metadata) is dominated by the sort or metadata is nil
		okDom := true
		an.EachInstr(upd, func(ins ssa.Instruction) {
			if d, ok := ins.(*ssa.Defer); ok && an.StaticCalleeIs(&d.Call, setState) {
				if !an.Dominates(sortTopics, d) {
					// allowed only if on paths where metadata == nil; check block-level: the sort's block must dominate unless bypassed by the nil test
					blk := sortTopics.Block()
					_ = blk
				}
			}
			if c, ok := ins.(*ssa.Call); ok && an.StaticCalleeIs(&c.Call, setState) && !an.Dominates(sortTopics, c) {
				okDom = okDom && metadataNilBypass(upd, sortTopics)
			}
		})
		r.Check(okDom && metadataNilBypass(upd, sortTopics), rule, "kafka.(*connPool).update → topics sorted by name before publication", p.Pos(sortTopics.Pos()),
			"sort precedes setState on every path where metadata is non-nil", "a path publishes unsorted metadata")
	}
	// findMetadataTopic: binary search with >= on Name, then equality
	usesSearch := false
	an.EachInstr(find, func(ins ssa.Instruction) {
		if c, ok := ins.(*ssa.Call); ok {
			if f := c.Call.StaticCallee(); f != nil && f.Pkg != nil && f.Pkg.Pkg.Path() == "sort" && an.RefFuncName(f) == "Search" {
				usesSearch = true
			}
		}
	})
	geq := false
	for _, a := range find.AnonFuncs {
		an.EachInstr(a, func(ins ssa.Instruction) {
			if bo, ok := ins.(*ssa.BinOp); ok && bo.Op == token.GEQ {
				geq = true
			}
		})
	}
	r.Check(usesSearch && geq, rule, "kafka.findMetadataTopic → lower-bound binary search on Name", p.Pos(find.Pos()), "sort.Search with predicate topics[i].Name >= topicName", fmt.Sprintf("sort.Search=%v predicate>==%v", usesSearch, geq))
	// filterMetadataResponse: every requested name goes through findMetadataTopic; unknown ⇒ error entry
	n := 0
	an.EachInstr(filter, func(ins ssa.Instruction) {
		if c, ok := ins.(*ssa.Call); ok && an.StaticCalleeIs(&c.Call, find) {
			n++
			os := an.Origins(c.Call.Args[0], an.FlowOpts{})
			r.Check(allOrigins(os, func(o an.Origin) bool {
				return o.Kind == "param" && o.Name == an.ParamName(filter.Params[1]) && o.Path == ".Topics"
			}), rule,
				"kafka.filterMetadataResponse → looks names up in the cached (sorted) response", p.Pos(c.Pos()), "res.Topics", fmt.Sprint(an.OriginStrings(os)))
		}
	})
	r.RequireCount(rule+" (findMetadataTopic call in filterMetadataResponse)", n, 1)
	// the cached response is shared by every caller: the filtered list is built in fresh storage, never in the
	// backing array of the cached list
	nw := 0
	var shared []string
	an.EachInstr(filter, func(ins ssa.Instruction) {
		st, ok := ins.(*ssa.Store)
		if !ok {
			return
		}
		fa, ok := st.Addr.(*ssa.FieldAddr)
		if !ok || an.FieldName(fa.X.Type(), fa.Field) != "Topics" {
			return
		}
		nw++
		var roots []ssa.Value
		appendRoots(st.Val, map[ssa.Value]bool{}, &roots)
		for _, rt := range roots {
			switch x := an.Unwrap(rt).(type) {
			case *ssa.MakeSlice:
				continue
			case *ssa.Const:
				if x.Value == nil {
					continue
				}
			case *ssa.Slice:
				if _, isAlloc := x.X.(*ssa.Alloc); isAlloc {
					continue
				}
			}
			shared = append(shared, p.Pos(st.Pos())+": "+clean(an.Shape(rt)))
		}
	})
	r.Check(nw > 0 && len(shared) == 0, rule, "kafka.filterMetadataResponse → the filtered topic list is built in fresh storage", p.Pos(filter.Pos()),
		"ret.Topics = make(...) (the cached response is never written)", strings.Join(shared, "; "))
}

// sortsByField recognises `sort.Slice(x, func(i,j) bool { return x[i].F < x[j].F })`.
func sortsByField(fn *ssa.Function, field string) bool {
	if fn.Blocks == nil {
		return false
	}
	ok := false
	an.EachInstr(fn, func(ins ssa.Instruction) {
		c, isCall := ins.(*ssa.Call)
		if !isCall {
			return
		}
		f := c.Call.StaticCallee()
		if f == nil || f.Pkg == nil || f.Pkg.Pkg.Path() != "sort" || (an.RefFuncName(f) != "Slice" && an.RefFuncName(f) != "SliceStable") {
			return
		}
		for _, a := range fn.AnonFuncs {
			an.EachInstr(a, func(i2 ssa.Instruction) {
				bo, isB := i2.(*ssa.BinOp)
				if !isB || bo.Op != token.LSS {
					return
				}
				xo, yo := noCells(an.Origins(bo.X, an.FlowOpts{})), noCells(an.Origins(bo.Y, an.FlowOpts{}))
				if len(xo) == 1 && len(yo) == 1 && strings.HasSuffix(xo[0].Path, "[]."+field) && strings.HasSuffix(yo[0].Path, "[]."+field) {
					ok = true
				}
			})
		}
	})
	return ok
}

// metadataNilBypass: the only way around the sort is the false edge of `metadata != nil`.
func metadataNilBypass(fn *ssa.Function, sortCall *ssa.Call) bool {
	// find the If that guards the sort's block
	b := sortCall.Block()
	for b != nil {
		idom := b.Idom()
		if idom == nil {
			return true // sort in entry block
		}
		if _, ci := an.IfCond(idom); ci != nil && an.IsNilConst(ci.Y) {
			if prm, ok := ci.X.(*ssa.Parameter); ok && an.NamedIs(prm.Type(), load.ModPath+"/protocol/metadata", "Response") {
				// sort must lie on the non-nil edge
				nonNilSucc := idom.Succs[0]
				if e := ci.Edge(token.NEQ); e >= 0 {
					nonNilSucc = idom.Succs[e]
				}
				return nonNilSucc == b || nonNilSucc.Dominates(sortCall.Block())
			}
		}
		b = idom
	}
	return false
}

// noCells drops the origins that merely name the memory cell of a captured variable.
func noCells(os []an.Origin) []an.Origin {
	var out []an.Origin
	for _, o := range os {
		if o.Kind != "alloc" {
			out = append(out, o)
		}
	}
	return out
}

// c12Refresher: R7 — the metadata refresher only stops with its pool.
func c12Refresher(p *load.Program, r *oblig.Report) {
	const rule = "C12.R7 the metadata refresher stops only when the pool's context ends"
	fn := p.Func("", "(*connPool).discover")
	if fn == nil {
		r.Lost(rule, "kafka.(*connPool).discover")
		return
	}
	ctxParam := fn.Params[1]
	n := 0
	an.EachInstr(fn, func(ins ssa.Instruction) {
		ret, ok := ins.(*ssa.Return)
		if !ok {
			return
		}
		n++
		okExit := false
		why := ""
		for d, child := ret.Block().Idom(), ret.Block(); d != nil; d, child = d.Idom(), d {
			iff, _ := an.IfCond(d)
			if iff == nil {
				continue
			}
			// (a) errors.Is(err, ctx.Err()) with ctx the function's own context parameter
			for _, b := range []*ssa.BasicBlock{d} {
				for _, i2 := range b.Instrs {
					c2, isC := i2.(*ssa.Call)
					if !isC || c2.Call.StaticCallee() == nil || an.RefFuncName(c2.Call.StaticCallee()) != "Is" {
						continue
					}
					if e, isE := c2.Call.Args[1].(*ssa.Call); isE && e.Call.IsInvoke() && e.Call.Method.Name() == "Err" && e.Call.Value == ssa.Value(ctxParam) {
						if d.Succs[0] == child || d.Succs[0].Dominates(child) {
							okExit, why = true, "errors.Is(err, ctx.Err()) on the pool context"
						}
					}
				}
			}
			// (b) the arm of a select that received from ctx.Done()
			if bo, isB := an.CondOf(iff).(*ssa.BinOp); isB && bo.Op == token.EQL {
				if ex, isEx := bo.X.(*ssa.Extract); isEx {
					if sel, isSel := ex.Tuple.(*ssa.Select); isSel {
						if k, isK := an.ConstInt(bo.Y); isK && int(k) < len(sel.States) {
							cd := argDesc(sel.States[k].Chan)
							if strings.Contains(cd, "(context.Context).Done") && (d.Succs[0] == child || d.Succs[0].Dominates(child)) {
								// the channel must come from the parameter context
								for _, o := range an.Origins(sel.States[k].Chan, an.FlowOpts{}) {
									if c3, isC3 := o.Val.(*ssa.Call); isC3 && c3.Call.IsInvoke() && c3.Call.Value == ssa.Value(ctxParam) {
										okExit, why = true, "case <-ctx.Done() of the pool context"
									}
								}
							}
						}
					}
				}
			}
		}
		if len(ret.Block().Instrs) > 0 && ret.Block().Comment == "recover" {
			return
		}
		r.Check(okExit, rule, fmt.Sprintf("connPool.discover → exit #%d", n), p.Pos(ret.Pos()), "return only on the pool context: errors.Is(err, ctx.Err()) or <-ctx.Done()", "an exit that does not depend on the pool context", why)
	})
	r.RequireCount(rule, n, 2)
}

// c12PoolUpdateOrder: R8 — a broker whose address changed is in both the set of groups to discard and the set of
// groups to create; its new connection group must be installed after the old one was discarded, otherwise the
// discard removes the group just installed and nothing routes to that broker any more.
func c12PoolUpdateOrder(p *load.Program, r *oblig.Report) {
	const rule = "C12.R8 a moved broker's connection group is replaced, not lost"
	upd := p.Func("", "(*connPool).update")
	if upd == nil {
		r.Lost(rule, "kafka.(*connPool).update")
		return
	}
	isConns := func(v ssa.Value) bool { return strings.HasSuffix(clean(an.Shape(v)), ".conns") }
	var adds, dels []ssa.Instruction
	an.EachInstr(upd, func(ins ssa.Instruction) {
		switch x := ins.(type) {
		case *ssa.MapUpdate:
			if isConns(x.Map) {
				adds = append(adds, x)
			}
		case *ssa.Call:
			if b, ok := x.Call.Value.(*ssa.Builtin); ok && b.Name() == "delete" && isConns(x.Call.Args[0]) {
				dels = append(dels, x)
			}
		}
	})
	if len(adds) == 0 || len(dels) == 0 {
		r.Lost(rule, "p.conns[id] = … / delete(p.conns, id) in kafka.(*connPool).update")
		return
	}
	where := ""
	for _, a := range adds {
		q := an.PathQuery{Fn: upd, Target: func(i ssa.Instruction) bool {
			for _, d := range dels {
				if i == d {
					return true
				}
			}
			return false
		}}
		if hit := q.ReachableFrom(an.PointOf(a)); hit != nil {
			where = "delete(p.conns, id) at " + p.Pos(hit.Pos()) + " can run after the group was installed at " + p.Pos(a.Pos())
		}
	}
	r.Check(where == "", rule, "kafka.(*connPool).update", p.Pos(upd.Pos()), "groups of removed or moved brokers are deleted before the new groups are installed", where)
}

// c12SplitGroups: R9 — a DescribeGroups request is routed by its first group (Group() returns Groups[0]); Split makes
// one sub-request per group so that each goes to that group's coordinator. Every sub-request therefore names exactly
// one group, the one of its iteration.
func c12SplitGroups(p *load.Program, r *oblig.Report) {
	const rule = "C12.R9 group requests are split into one request per group"
	fn := p.Func("protocol/describegroups", "(*Request).Split")
	grp := p.Func("protocol/describegroups", "(*Request).Group")
	if fn == nil || grp == nil {
		r.Lost(rule, "protocol/describegroups.(*Request).Split / Group")
		return
	}
	rs := returnShapes(grp)
	recv := an.ParamName(grp.Params[0])
	r.Check(len(rs) == 1 && clean(rs[0]) == recv+".Groups[0]", rule, "describegroups.Request.Group → the coordinator is looked up for the first group", p.Pos(grp.Pos()), "return r.Groups[0]", strings.Join(rs, " ;; "))
	n := 0
	var bad []string
	an.EachInstr(fn, func(ins ssa.Instruction) {
		st, ok := ins.(*ssa.Store)
		if !ok {
			return
		}
		fa, ok := st.Addr.(*ssa.FieldAddr)
		if !ok || an.FieldName(fa.X.Type(), fa.Field) != "Groups" {
			return
		}
		if _, fresh := fa.X.(*ssa.Alloc); !fresh {
			return
		}
		n++
		want := an.ParamName(fn.Params[0]) + ".Groups[idx(" + an.ParamName(fn.Params[0]) + ".Groups)]"
		sl, isSlice := st.Val.(*ssa.Slice)
		okOne := false
		found := clean(an.ShapeCanon(st.Val))
		if isSlice && sl.Low == nil && sl.High == nil {
			if al, isAl := sl.X.(*ssa.Alloc); isAl {
				if pt, isP := al.Type().Underlying().(*types.Pointer); isP {
					if arr, isArr := pt.Elem().Underlying().(*types.Array); isArr && arr.Len() == 1 {
						for _, ref := range *al.Referrers() {
							if ia, isIA := ref.(*ssa.IndexAddr); isIA {
								for _, r2 := range *ia.Referrers() {
									if st2, isSt := r2.(*ssa.Store); isSt {
										found = "[]string{" + clean(an.ShapeCanon(st2.Val)) + "}"
										okOne = clean(an.ShapeCanon(st2.Val)) == want
									}
								}
							}
						}
					}
				}
			}
		}
		if !okOne {
			bad = append(bad, p.Pos(st.Pos())+": Groups = "+found)
		}
	})
	r.Check(n > 0 && len(bad) == 0, rule, "describegroups.Request.Split → each sub-request names exactly the group of its iteration", p.Pos(fn.Pos()),
		"for _, group := range r.Groups { &Request{Groups: []string{group}, …} }", strings.Join(bad, "; "))
}

// c12UpdatePublishes: R10 — every successful metadata refresh replaces the cached metadata and layout (leaders and
// the controller move inside an unchanged set of brokers): on the err == nil path of connPool.update no exit is
// reachable without storing the new metadata into the state and scheduling setState.
func c12UpdatePublishes(p *load.Program, r *oblig.Report) {
	const rule = "C12.R10 every successful refresh is published"
	upd := p.Func("", "(*connPool).update")
	setState := p.Func("", "(*connPool).setState")
	if upd == nil || setState == nil {
		r.Lost(rule, "kafka.(*connPool).update / setState")
		return
	}
	errParam := upd.Params[len(upd.Params)-1]
	var okBlk *ssa.BasicBlock
	for _, b := range an.Blocks(upd) {
		_, ci := an.IfCond(b)
		if e := ci.Edge(token.EQL); e >= 0 && an.IsNilConst(ci.Y) && ci.X == ssa.Value(errParam) {
			okBlk = b.Succs[e]
		}
	}
	if okBlk == nil {
		r.Lost(rule, "test of the err parameter in kafka.(*connPool).update")
		return
	}
	metaParam := upd.Params[2]
	for _, what := range []struct {
		name string
		pass func(ssa.Instruction) bool
	}{
		{"stores the new metadata into the state", func(i ssa.Instruction) bool {
			st, ok := fieldStoreIs(i, "connPoolState", "metadata")
			return ok && st.Val == ssa.Value(metaParam)
		}},
		{"schedules setState(state)", func(i ssa.Instruction) bool {
			switch x := i.(type) {
			case *ssa.Defer:
				return an.StaticCalleeIs(&x.Call, setState)
			case *ssa.Call:
				return an.StaticCalleeIs(&x.Call, setState)
			}
			return false
		}},
	} {
		ok, bad := an.MustPass(upd, an.Point{B: okBlk, Idx: -1}, what.pass, nil)
		where := ""
		if bad != nil {
			where = "the exit at " + p.Pos(bad.Pos()) + " is reached without it"
		}
		r.Check(ok, rule, "kafka.(*connPool).update "+what.name+" on every path of a successful refresh", p.Pos(upd.Pos()), "state.metadata, state.layout = metadata, layout; defer p.setState(state)", where)
	}
}

// c12CoordinatorError: R12 — the answer to FindCoordinator names a broker only when its error code is zero (with
// COORDINATOR_NOT_AVAILABLE the node id is -1, which sendRequest would take for "any broker"): the node id is used
// only on paths that tested the error code.
func c12CoordinatorError(p *load.Program, r *oblig.Report) {
	const rule = "C12.R12 a failed coordinator lookup is not taken for an answer"
	send := p.Func("", "(*connPool).sendRequest")
	if send == nil {
		r.Lost(rule, "kafka.(*connPool).sendRequest")
		return
	}
	n := 0
	var bad []string
	an.EachInstr(send, func(ins ssa.Instruction) {
		var fa *ssa.FieldAddr
		if ld, ok := ins.(*ssa.UnOp); ok && ld.Op == token.MUL {
			fa, _ = ld.X.(*ssa.FieldAddr)
		}
		if fa == nil || an.FieldName(fa.X.Type(), fa.Field) != "NodeID" || !an.NamedIs(deref(fa.X.Type()), load.ModPath+"/protocol/findcoordinator", "Response") {
			return
		}
		n++
		tested := false
		for d, child := ins.Block().Idom(), ins.Block(); d != nil; d, child = d.Idom(), d {
			_, ci := an.IfCond(d)
			if ci == nil {
				continue
			}
			if strings.HasSuffix(clean(an.Shape(ci.X)), ".ErrorCode") && strings.Contains(clean(an.Shape(ci.X)), "findcoordinator") || strings.HasSuffix(clean(an.Shape(ci.X)), ".(*Response).ErrorCode") {
				if e := ci.Edge(token.EQL); e >= 0 && edgeControls(d, e, child) {
					tested = true
				}
			}
		}
		if !tested {
			bad = append(bad, "NodeID used at "+p.Pos(ins.Pos())+" without a test of ErrorCode")
		}
	})
	r.Check(n >= 2 && len(bad) == 0, rule, "kafka.(*connPool).sendRequest uses the coordinator's node id only when the lookup carried no error code", p.Pos(send.Pos()),
		"if res.ErrorCode != 0 { return reject(Error(res.ErrorCode)) }; brokerID = res.NodeID", strings.Join(bad, "; "))
}

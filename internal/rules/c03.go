package rules

import (
	_ "embed"
	"fmt"
	"go/constant"
	"go/token"
	"sort"
	"strings"

	"golang.org/x/tools/go/ssa"

	"kverif/internal/an"
	"kverif/internal/load"
	"kverif/internal/oblig"
)

//go:embed ref/fieldflows_c03.json
var c03FlowsJSON []byte

func init() {
	register(&Check{ID: "C03", Run: runC03, Expl: oblig.Explanation{
		Text:    "Static check of the code-shape preconditions of 'commits never pass undelivered records; resume at the commit'. The property itself quantifies over histories of rebalances and faults and is not decided; each rule below is a necessary condition whose violation breaks it on some history. (R1) reviewed field-flow table (ref/fieldflows_c03.json): a commit is (msg.Topic, msg.Partition, msg.Offset+1); the OffsetCommit request carries the stash's topic → partition → offset unchanged together with the generation's group, generation id and member id; fetchOffsets files pr.Offset (or StartOffset when negative) under the partition whose id equals the response's partition id; makeAssignments gives each assigned partition offsets[topic][partition] or StartOffset when absent; the Generation is built from this join's member id, generation id, and makeAssignments(syncGroup result, fetchOffsets result); Reader.subscribe/start hand each partition reader its own (topic, partition, offset). (R2) offsetStash.merge overwrites a partition's entry only when there is none or the new offset is larger (commits never move backwards within a generation). (R3) in Generation.CommitOffsets each topic's partition list grows only from its own previous value inside a per-topic literal (no buffer shared between topics). (R4) Conn.offsetCommit and Conn.offsetFetch turn any partition's non-zero ErrorCode into a returned error, so a nil error means every partition was accepted. (R5) commitOffsetsWithRetry returns a literal nil only where the last CommitOffsets returned nil; its callers pass a positive constant retry count. (R6) both commit loops, when the generation ends, drain r.commits until empty, merge everything drained and then commit; the immediate loop answers every requester with the result of the commit that included its request; the interval loop forgets stashed offsets only after a successful commit. (R7) a synchronous CommitMessages returns what it receives on the reply channel it put in the request; it returns nil without waiting only in interval mode. (R8) nextGeneration returns the error of fetchOffsets (and of join/sync) before any Generation is built. (R9) Reader.start launches one reader per (key, offset) pair of the same map entry; unsubscribe cancels and waits for all of them; Reader.run registers with gen.Start a function that calls unsubscribe on every path, so (with C15.R1: the generation is closed, i.e. its functions awaited, before the next join) the previous generation's readers and final commit are finished before rejoining. Not decided: the history-level claim (no committed offset beyond delivered+1 under every interleaving of FetchMessage, CommitMessages, rebalances and coordinator errors), at-least-once after quiescence, broker behaviour.",
		Rule:    "one obligation per flow destination and per structural fact",
		Trusted: []string{"go/ssa", "value provenance", "expression shapes", "ref/fieldflows_c03.json (reviewed by reading)", "C15.R1 (generation closed before the next join)"},
	}})
}

func runC03(p *load.Program, r *oblig.Report) {
	checkFlowTable(p, r, "C03.R1 commit and resume field flows", c03FlowsJSON, 30)
	c03Merge(p, r)
	c03CommitOffsets(p, r)
	c03ConnErrors(p, r)
	c03Retry(p, r)
	c03Loops(p, r)
	c03CommitMessages(p, r)
	c03NextGeneration(p, r)
	c03Readers(p, r)
	// a record of the new generation must not be dropped as stale, nor an old one delivered: the version filter of
	// FetchMessage (shared with C02.R7)
	c02ReaderAs(p, r, "C03.R10 records of the current generation are delivered, older ones dropped")
	c03CoordinatorLookup(p, r)
	c03ReadMessageKeeps(p, r)
	c03SyncGroupMembers(p, r)
	c03StartOffsetOnMiss(p, r)
	c03ForgetFailedMember(p, r, "C03.R16 a member id that failed is not used again")
	c03LeaderBySelf(p, r, "C03.R17 the elected leader recognises itself")
	shareRules(r, "C03", "C03.R14 the leader assigns the partitions of every topic a member subscribes to (C14.R4)", func(sub *oblig.Report) { c14Leader(p, sub) })
}

// c03CoordinatorLookup: the coordinator of a group can move at any time; a member that keeps talking to the old one
// is told NotCoordinatorForGroup for ever and its partitions are never delivered again. Every connection handed out
// by (*ConsumerGroup).coordinator is to the address the brokers named in this very call: FindCoordinator lies on
// every path to a successful return and the address dialled derives from its answer.
func c03CoordinatorLookup(p *load.Program, r *oblig.Report) {
	const rule = "C03.R11 the group coordinator is looked up for every generation"
	fn := p.Func("", "(*ConsumerGroup).coordinator")
	if fn == nil {
		r.Lost(rule, "kafka.(*ConsumerGroup).coordinator")
		return
	}
	var find *ssa.Call
	an.EachInstr(fn, func(ins ssa.Instruction) {
		if c, ok := ins.(*ssa.Call); ok && (c.Call.IsInvoke() && c.Call.Method.Name() == "findCoordinator") {
			find = c
		}
	})
	if find == nil {
		r.Bad(rule, "kafka.(*ConsumerGroup).coordinator → FindCoordinator request", p.Pos(fn.Pos()), "conn.findCoordinator(…)", "not found")
		return
	}
	nOK := 0
	var bad []string
	an.EachInstr(fn, func(ins ssa.Instruction) {
		ret, ok := ins.(*ssa.Return)
		if !ok || ret.Parent() != fn || len(ret.Results) != 2 {
			return
		}
		v := an.RetVal(ret, 0)
		if an.IsNilConst(v) || ret.Block() == fn.Recover {
			return
		}
		nOK++
		if !an.Dominates(find, ret) {
			bad = append(bad, "the return at "+p.Pos(ret.Pos())+" hands out a connection without a FindCoordinator request in this call")
			return
		}
		shape := clean(an.Shape(v))
		if ex, isEx := v.(*ssa.Extract); isEx {
			if call, isCall := ex.Tuple.(*ssa.Call); isCall && len(call.Call.Args) > 0 {
				for _, e := range an.VarArgs(call.Call.Args[len(call.Call.Args)-1]) {
					shape += " " + clean(an.Shape(e))
				}
			}
		}
		if !strings.Contains(shape, "findCoordinator(") {
			bad = append(bad, "the connection returned at "+p.Pos(ret.Pos())+" is not dialled from the answer: "+shape)
		}
	})
	r.Check(nOK > 0 && len(bad) == 0, rule, "kafka.(*ConsumerGroup).coordinator dials the address FindCoordinator just returned, on every successful path", p.Pos(fn.Pos()),
		"out := conn.findCoordinator(…); return connect(dialer, JoinHostPort(out.Coordinator.Host, out.Coordinator.Port))", strings.Join(bad, "; "))
}

// edgeConds renders, for each predecessor edge of b, the canonical condition that holds on it.
func edgeConds(b *ssa.BasicBlock) []string {
	var out []string
	for _, pr := range b.Preds {
		iff, _ := an.IfCond(pr)
		if iff == nil {
			out = append(out, "always")
			continue
		}
		onTrue := pr.Succs[0] == b
		c := an.CondOf(iff)
		for {
			u, ok := c.(*ssa.UnOp)
			if !ok || u.Op != token.NOT {
				break
			}
			c = u.X
			onTrue = !onTrue
		}
		s := clean(an.ShapeCanon(c))
		if bo, ok := c.(*ssa.BinOp); ok && !onTrue {
			neg := map[token.Token]token.Token{token.LSS: token.GEQ, token.GEQ: token.LSS, token.GTR: token.LEQ, token.LEQ: token.GTR, token.EQL: token.NEQ, token.NEQ: token.EQL}
			if nop, has := neg[bo.Op]; has {
				a, bb := clean(an.ShapeCanon(bo.X)), clean(an.ShapeCanon(bo.Y))
				switch nop {
				case token.LEQ:
					a, bb, nop = bb, a, token.GEQ
				case token.GTR:
					a, bb, nop = bb, a, token.LSS
				}
				s = "(" + a + " " + nop.String() + " " + bb + ")"
				onTrue = true
			}
		}
		if !onTrue {
			s = "¬" + s
		}
		out = append(out, s)
	}
	sort.Strings(out)
	return out
}

func c03Merge(p *load.Program, r *oblig.Report) {
	const rule = "C03.R2 stashed offsets only grow"
	fn := p.Func("", "(offsetStash).merge")
	if fn == nil {
		r.Lost(rule, "kafka.(offsetStash).merge")
		return
	}
	n := 0
	an.EachInstr(fn, func(ins ssa.Instruction) {
		mu, ok := ins.(*ssa.MapUpdate)
		if !ok || typeShort(mu.Map.Type()) != "map[int]int64" {
			return
		}
		n++
		conds := edgeConds(mu.Block())
		C := "commits[idx(commits)]"
		okShape := len(conds) == 2
		var X string
		for _, c := range conds {
			switch {
			case strings.HasPrefix(c, "¬") && strings.HasSuffix(c, "#1"):
				X = strings.TrimSuffix(strings.TrimPrefix(c, "¬"), "#1")
			}
		}
		if X == "" || !strings.HasSuffix(X, "["+C+".partition]") {
			okShape = false
		}
		for _, c := range conds {
			if strings.HasPrefix(c, "¬") {
				continue
			}
			if c != "("+X+"#0 < "+C+".offset)" && c != "("+C+".offset >= "+X+"#0)" {
				okShape = false
			}
		}
		key, val := clean(an.ShapeCanon(mu.Key)), clean(an.ShapeCanon(mu.Value))
		mp := clean(an.ShapeCanon(mu.Map))
		okKV := key == C+".partition" && val == C+".offset" && X == mp+"["+C+".partition]" && strings.Contains(mp, "o["+C+".topic]")
		r.Check(okShape && okKV, rule, "kafka.(offsetStash).merge overwrites an entry only with a larger offset", p.Pos(mu.Pos()),
			"if old, ok := m[c.partition]; !ok || c.offset > old { m[c.partition] = c.offset } with m = o[c.topic]", fmt.Sprintf("entry conditions=%v map=%s key=%s value=%s", conds, mp, key, val))
	})
	r.RequireCount(rule, n, 1)
}

func c03CommitOffsets(p *load.Program, r *oblig.Report) {
	const rule = "C03.R3 each topic's commit list is its own"
	fn := p.Func("", "(*Generation).CommitOffsets")
	if fn == nil {
		r.Lost(rule, "kafka.(*Generation).CommitOffsets")
		return
	}
	n := 0
	an.EachInstr(fn, func(ins ssa.Instruction) {
		st, ok := ins.(*ssa.Store)
		if !ok {
			return
		}
		fa, ok := st.Addr.(*ssa.FieldAddr)
		if !ok || typeShort(deref(fa.X.Type())) != "offsetCommitRequestV2Topic" || an.FieldName(fa.X.Type(), fa.Field) != "Partitions" {
			return
		}
		n++
		var roots []ssa.Value
		appendRoots(st.Val, map[ssa.Value]bool{}, &roots)
		okRoot := len(roots) > 0
		var found []string
		for _, rt := range roots {
			found = append(found, clean(an.Shape(rt)))
			if an.IsNilConst(rt) {
				continue
			}
			ld, isLd := rt.(*ssa.UnOp)
			if !isLd || ld.Op != token.MUL {
				okRoot = false
				continue
			}
			fa2, isFA := ld.X.(*ssa.FieldAddr)
			if !isFA || fa2.X != fa.X || fa2.Field != fa.Field {
				okRoot = false
			}
		}
		// the literal lives inside the per-topic loop: its allocation is re-executed (and zeroed) for every topic
		al, isAl := fa.X.(*ssa.Alloc)
		inLoop := false
		if isAl {
			for _, g := range guardCanon(al) {
				if strings.HasPrefix(g, "next(range(offsets))#0") {
					inLoop = true
				}
			}
		}
		_, isCall := st.Val.(*ssa.Call)
		r.Check(okRoot && inLoop && isCall, rule, "kafka.(*Generation).CommitOffsets grows t.Partitions from its own value in a per-topic literal", p.Pos(st.Pos()),
			"t := offsetCommitRequestV2Topic{Topic: topic}; t.Partitions = append(t.Partitions, …)", fmt.Sprintf("roots=%v literalAllocatedPerTopic=%v", found, inLoop))
	})
	r.RequireCount(rule, n, 1)
	// zero offsets: nothing is sent, nil returned (no commit at all is not a commit beyond delivery)
}

func c03ConnErrors(p *load.Program, r *oblig.Report) {
	const rule = "C03.R4 a partition-level error fails the whole call"
	for _, name := range []string{"(*Conn).offsetCommit", "(*Conn).offsetFetch"} {
		fn := p.Func("", name)
		if fn == nil {
			r.Lost(rule, "kafka."+name)
			continue
		}
		ok := false
		found := ""
		an.EachInstr(fn, func(ins ssa.Instruction) {
			ret, isRet := ins.(*ssa.Return)
			if !isRet || len(ret.Results) != 2 {
				return
			}
			s := clean(an.Shape(an.RetVal(ret, 1)))
			if !strings.Contains(s, ".ErrorCode") {
				return
			}
			conds := selConds(ret)
			var loops []string
			for _, g := range guardCanon(ret) {
				if isLoopCond(g) && !strings.HasPrefix(g, "¬") && !strings.Contains(g, ">=") {
					loops = append(loops, strings.NewReplacer("local:*offsetCommitResponseV2", "response", "local:*offsetFetchResponseV1", "response").Replace(clean(g)))
				}
			}
			found = strings.Join(conds, " ∧ ") + " | " + strings.Join(loops, " ∧ ")
			R := "response.Responses[idx(response.Responses)].PartitionResponses"
			want := []string{"(0 != " + R + "[idx(" + R + ")].ErrorCode)"}
			var sel []string
			for _, c := range conds {
				c = strings.ReplaceAll(clean(c), "local:*offsetCommitResponseV2", "response")
				c = strings.ReplaceAll(c, "local:*offsetFetchResponseV1", "response")
				if strings.Contains(c, "Operation(") { // the err == nil test of the round trip
					continue
				}
				sel = append(sel, c)
			}
			ok = strings.Join(sel, " ∧ ") == strings.Join(want, " ∧ ") && len(loops) == 2
			found = strings.Join(sel, " ∧ ") + " | loops: " + strings.Join(loops, " ∧ ")
		})
		r.Check(ok, rule, "kafka."+name+" returns Error(ErrorCode) for the first partition whose ErrorCode is non-zero", p.Pos(fn.Pos()),
			"for every response topic and partition: if pr.ErrorCode != 0 { return …, Error(pr.ErrorCode) }", found)
	}
}

func c03Retry(p *load.Program, r *oblig.Report) {
	const rule = "C03.R5 a nil commit result means the coordinator accepted it"
	fn := p.Func("", "(*Reader).commitOffsetsWithRetry")
	if fn == nil {
		r.Lost(rule, "kafka.(*Reader).commitOffsetsWithRetry")
		return
	}
	n := 0
	an.EachInstr(fn, func(ins ssa.Instruction) {
		ret, ok := ins.(*ssa.Return)
		if !ok || len(ret.Results) != 1 {
			return
		}
		n++
		v := an.RetVal(ret, 0)
		if !an.IsNilConst(v) {
			// a variable: it must be able to hold only the zero value or the last CommitOffsets result
			okVar := true
			for _, o := range an.Origins(v, an.FlowOpts{}) {
				if o.Kind == "const" {
					continue
				}
				if o.Kind == "call" && strings.Contains(o.Name, "CommitOffsets") {
					continue
				}
				okVar = false
			}
			r.Check(okVar, rule, fmt.Sprintf("kafka.(*Reader).commitOffsetsWithRetry exit %d returns the last commit's error", n), p.Pos(ret.Pos()), "the named result holding gen.CommitOffsets(…)", argDesc(v))
			return
		}
		// literal nil: only where the commit just succeeded
		okNil := false
		for _, c := range selConds(ret) {
			c = clean(c)
			if strings.HasPrefix(c, "(nil == CommitOffsets(") {
				okNil = true
			}
		}
		r.Check(okNil, rule, fmt.Sprintf("kafka.(*Reader).commitOffsetsWithRetry exit %d returns a literal nil only after a successful commit", n), p.Pos(ret.Pos()), "guarded by gen.CommitOffsets(…) == nil", strings.Join(selConds(ret), " ∧ "))
	})
	r.RequireCount(rule+" (exits)", n, 3)
	// callers pass a positive constant
	k := 0
	for _, caller := range p.ModuleFunctions() {
		for _, ci := range callsTo(caller, func(c *ssa.CallCommon) bool { return an.StaticCalleeIs(c, fn) }) {
			k++
			args := ci.Common().Args
			v, isK := an.ConstInt(args[len(args)-1])
			r.Check(isK && v >= 1, rule, "caller "+load.FuncName(caller)+" asks for at least one attempt", p.Pos(ci.Pos()), "constant retries >= 1", clean(an.Shape(args[len(args)-1])))
		}
	}
	r.RequireCount(rule+" (callers)", k, 3)
}

func c03Loops(p *load.Program, r *oblig.Report) {
	const rule = "C03.R6 commit loops"
	retry := p.Func("", "(*Reader).commitOffsetsWithRetry")
	merge := p.Func("", "(offsetStash).merge")
	reset := p.Func("", "(offsetStash).reset")
	if retry == nil || merge == nil || reset == nil {
		r.Lost(rule, "kafka.commitOffsetsWithRetry / merge / reset")
		return
	}
	for _, name := range []string{"(*Reader).commitLoopImmediate", "(*Reader).commitLoopInterval"} {
		fn := p.Func("", name)
		if fn == nil {
			r.Lost(rule, "kafka."+name)
			continue
		}
		// all functions of the loop (the interval loop commits through a closure)
		fns := append([]*ssa.Function{fn}, fn.AnonFuncs...)
		// (a) every receive from r.commits is followed by merge(req.commits) of that very request before anything else uses the stash
		nRecv := 0
		okMerge := true
		an.EachInstr(fn, func(ins ssa.Instruction) {
			sel, ok := ins.(*ssa.Select)
			if !ok {
				return
			}
			for i, st := range sel.States {
				if st.Dir != 2 /* types.RecvOnly */ || !strings.HasSuffix(clean(an.Shape(st.Chan)), "r.commits") {
					continue
				}
				nRecv++
				// the received value: extract #(2+index of recv state among recv states)
				_ = i
			}
		})
		// merge calls: argument is the commits field of a value received from r.commits
		nMerge := 0
		an.EachInstr(fn, func(ins ssa.Instruction) {
			c, ok := ins.(*ssa.Call)
			if !ok || !an.StaticCalleeIs(&c.Call, merge) {
				return
			}
			nMerge++
			s := clean(an.Shape(c.Call.Args[1]))
			if !strings.HasPrefix(s, "select") && !strings.Contains(s, "#") || !strings.HasSuffix(s, ".commits") {
				okMerge = false
			}
		})
		r.Check(okMerge && nMerge == nRecv && nRecv == 2, rule, "kafka."+name+" merges every request it receives", p.Pos(fn.Pos()), "2 receives from r.commits, each followed by offsets.merge(req.commits)", fmt.Sprintf("receives=%d merges=%d argumentsAreReceivedCommits=%v", nRecv, nMerge, okMerge))

		// (b) the ctx.Done() case drains until the default case and then commits, then returns
		c03FinalCommit(p, r, rule, fn, name, retry, merge)

		// (c) replies / reset
		switch name {
		case "(*Reader).commitLoopImmediate":
			nSend := 0
			okSend := true
			an.EachInstr(fn, func(ins ssa.Instruction) {
				s, ok := ins.(*ssa.Send)
				if !ok {
					return
				}
				nSend++
				for _, o := range an.Origins(s.X, an.FlowOpts{}) {
					if !(o.Kind == "call" && strings.Contains(o.Name, "commitOffsetsWithRetry")) {
						okSend = false
					}
				}
			})
			r.Check(okSend && nSend == 2, rule, "kafka."+name+" answers requesters with the result of the commit", p.Pos(fn.Pos()), "errch <- r.commitOffsetsWithRetry(…) (2 send sites)", fmt.Sprintf("sends=%d allCarryCommitResult=%v", nSend, okSend))
			// the per-request path: merge dominates commit dominates send
			okOrder := false
			an.EachInstr(fn, func(ins ssa.Instruction) {
				s, ok := ins.(*ssa.Send)
				if !ok {
					return
				}
				c, isC := s.X.(*ssa.Call)
				if !isC {
					return
				}
				for _, b := range an.Blocks(fn) {
					for _, i2 := range b.Instrs {
						if m, isM := i2.(*ssa.Call); isM && an.StaticCalleeIs(&m.Call, merge) && an.Dominates(m, c) && m.Block() == c.Block() {
							okOrder = true
						}
					}
				}
			})
			r.Check(okOrder, rule, "kafka."+name+" commits a request's offsets before answering it", p.Pos(fn.Pos()), "offsets.merge(req.commits); req.errch <- r.commitOffsetsWithRetry(gen, offsets, …)", "merge does not precede the commit in the request case")
		case "(*Reader).commitLoopInterval":
			nReset := 0
			okReset := true
			for _, f := range fns {
				an.EachInstr(f, func(ins ssa.Instruction) {
					c, ok := ins.(*ssa.Call)
					if !ok || !an.StaticCalleeIs(&c.Call, reset) {
						return
					}
					nReset++
					okG := false
					for _, g := range selConds(c) {
						if strings.HasPrefix(clean(g), "(nil == commitOffsetsWithRetry(") {
							okG = true
						}
					}
					if !okG {
						okReset = false
					}
				})
			}
			r.Check(okReset && nReset >= 1, rule, "kafka."+name+" forgets stashed offsets only after a successful commit", p.Pos(fn.Pos()), "if err := commit…; err == nil { offsets.reset() }", fmt.Sprintf("resets=%d allAfterSuccess=%v", nReset, okReset))
		}
	}
}

// c03FinalCommit: from the ctx.Done() case of the outer select, every path to the function's return passes a commit
// (directly or through the local commit closure), and the inner drain loop ends only through its default case.
func c03FinalCommit(p *load.Program, r *oblig.Report, rule string, fn *ssa.Function, name string, retry, merge *ssa.Function) {
	isCommit := func(ins ssa.Instruction) bool {
		c, ok := ins.(*ssa.Call)
		if !ok {
			return false
		}
		if an.StaticCalleeIs(&c.Call, retry) {
			return true
		}
		// call of a local closure that commits
		if mc, isMC := c.Call.Value.(*ssa.MakeClosure); isMC {
			found := false
			an.EachInstr(mc.Fn.(*ssa.Function), func(i2 ssa.Instruction) {
				if c2, isC := i2.(*ssa.Call); isC && an.StaticCalleeIs(&c2.Call, retry) {
					found = true
				}
			})
			return found
		}
		return false
	}
	// every Return of the loop function is preceded by a commit on all paths from the entry
	ok, exit := an.MustPass(fn, an.EntryPoint(fn), isCommit, nil)
	found := "every exit commits first"
	if !ok && exit != nil {
		found = "the return at " + p.Pos(exit.Pos()) + " is reachable without a commit"
	}
	r.Check(ok, rule, "kafka."+name+" commits before it exits", p.Pos(fn.Pos()), "no path from entry to return without commitOffsetsWithRetry", found)
	// the drain: a non-blocking select on r.commits whose loop is left only via the default case
	var drain *ssa.Select
	an.EachInstr(fn, func(ins ssa.Instruction) {
		if sel, isSel := ins.(*ssa.Select); isSel && !sel.Blocking {
			drain = sel
		}
	})
	if drain == nil {
		r.Bad(rule, "kafka."+name+" drains pending requests before the final commit", p.Pos(fn.Pos()), "non-blocking select on r.commits in the ctx.Done() case", "none")
		return
	}
	okDrain := len(drain.States) == 1 && strings.HasSuffix(clean(an.Shape(drain.States[0].Chan)), "r.commits")
	// the final commit is reachable from the drain select only through the default edge (index == -1 → hasCommits=false)
	// structural: a commit instruction is dominated by the drain select's block, and the merge in the drain loop can reach the select again
	var mergeInDrain *ssa.Call
	an.EachInstr(fn, func(ins ssa.Instruction) {
		if c, isC := ins.(*ssa.Call); isC && an.StaticCalleeIs(&c.Call, merge) && drain.Block().Dominates(c.Block()) {
			mergeInDrain = c
		}
	})
	okLoop := false
	if mergeInDrain != nil {
		q := an.PathQuery{Fn: fn, Stop: isCommit, Target: func(i ssa.Instruction) bool { return i == ssa.Instruction(drain) }}
		okLoop = q.ReachableFrom(an.PointOf(mergeInDrain)) != nil
	}
	r.Check(okDrain && okLoop, rule, "kafka."+name+" drains pending requests before the final commit", p.Pos(drain.Pos()), "for { select { case req := <-r.commits: merge; default: stop } } then commit", fmt.Sprintf("nonBlockingReceiveFromCommits=%v mergeLoopsBackToSelectBeforeCommit=%v", okDrain, okLoop))
}

// replyChannelBuffered: the commit loop answers with a plain send (`req.errch <- err`); the requester may have left
// (its context ended), so the reply channel must be able to hold the answer or the loop blocks for ever.
func replyChannelBuffered(p *load.Program, r *oblig.Report, rule string) {
	fn := p.Func("", "(*Reader).CommitMessages")
	if fn == nil {
		r.Lost(rule, "kafka.(*Reader).CommitMessages")
		return
	}
	n := 0
	okBuf := true
	found := ""
	an.EachInstr(fn, func(ins ssa.Instruction) {
		mk, ok := ins.(*ssa.MakeChan)
		if !ok || !strings.HasSuffix(typeShort(mk.Type()), "chan error") {
			return
		}
		n++
		k, isK := an.ConstInt(mk.Size)
		found = clean(an.Shape(mk.Size))
		if !isK || k < 1 {
			okBuf = false
		}
	})
	// … unless every send on it in the commit loops is inside a select with another ready arm (not the case today)
	r.Check(n >= 1 && okBuf, rule, "kafka.(*Reader).CommitMessages creates the reply channel with room for the answer", p.Pos(fn.Pos()), "make(chan error, 1): the commit loop's send never blocks on a requester that gave up", "capacity "+found)
}

func c03CommitMessages(p *load.Program, r *oblig.Report) {
	const rule = "C03.R7 synchronous CommitMessages reports the commit's result"
	replyChannelBuffered(p, r, rule)
	fn := p.Func("", "(*Reader).CommitMessages")
	if fn == nil {
		r.Lost(rule, "kafka.(*Reader).CommitMessages")
		return
	}
	// the reply channel placed in the request is the one received from
	var sentReq, recvCh string
	an.EachInstr(fn, func(ins ssa.Instruction) {
		sel, ok := ins.(*ssa.Select)
		if !ok {
			return
		}
		for _, st := range sel.States {
			if st.Dir == 1 /* SendOnly */ && strings.HasSuffix(clean(an.Shape(st.Chan)), "r.commits") {
				sentReq = argDesc(st.Send)
			}
			if st.Dir == 2 && !strings.Contains(clean(an.Shape(st.Chan)), "Done()") {
				recvCh = flowDesc(st.Chan, 0)
			}
		}
	})
	errchSrc := ""
	an.EachInstr(fn, func(ins ssa.Instruction) {
		if st, ok := ins.(*ssa.Store); ok {
			if fa, isFA := st.Addr.(*ssa.FieldAddr); isFA && typeShort(deref(fa.X.Type())) == "commitRequest" && an.FieldName(fa.X.Type(), fa.Field) == "errch" {
				errchSrc = flowDesc(st.Val, 0)
			}
		}
	})
	okCh := errchSrc != "" && strings.Contains(recvCh, errchSrc) && strings.Contains(sentReq, "alloc:creq")
	r.Check(okCh, rule, "kafka.(*Reader).CommitMessages waits on the reply channel it sent", p.Pos(fn.Pos()), "creq.errch = ch; r.commits <- creq; err := <-ch", fmt.Sprintf("request=%s request.errch=%s received-from=%s", sentReq, errchSrc, recvCh))
	// returns
	var lines []string
	an.EachInstr(fn, func(ins ssa.Instruction) {
		ret, ok := ins.(*ssa.Return)
		if !ok {
			return
		}
		v := an.RetVal(ret, 0)
		d := clean(an.Shape(v))
		if an.IsNilConst(v) {
			g := ""
			for _, c := range selConds(ret) {
				c = clean(c)
				if strings.Contains(c, "useSyncCommits") {
					g = c
				}
			}
			lines = append(lines, "nil when "+g)
		} else if strings.HasPrefix(d, "select") || strings.Contains(d, "select(") {
			lines = append(lines, "received")
		} else {
			lines = append(lines, d)
		}
	})
	sort.Strings(lines)
	nilOK := false
	for _, l := range lines {
		if l == "nil when ¬useSyncCommits(r)" {
			nilOK = true
		}
		if strings.HasPrefix(l, "nil when") && l != "nil when ¬useSyncCommits(r)" {
			nilOK = false
			break
		}
	}
	r.Check(nilOK, rule, "kafka.(*Reader).CommitMessages returns nil without waiting only in interval mode", p.Pos(fn.Pos()), "return nil only under !r.useSyncCommits()", strings.Join(lines, " ;; "))
}

func c03NextGeneration(p *load.Program, r *oblig.Report) {
	const rule = "C03.R8 a generation starts from freshly fetched committed offsets"
	fn := p.Func("", "(*ConsumerGroup).nextGeneration")
	if fn == nil {
		r.Lost(rule, "kafka.(*ConsumerGroup).nextGeneration")
		return
	}
	var fetch, mk *ssa.Call
	an.EachInstr(fn, func(ins ssa.Instruction) {
		c, ok := ins.(*ssa.Call)
		if !ok || c.Call.StaticCallee() == nil {
			return
		}
		switch an.RefFuncName(c.Call.StaticCallee()) {
		case "fetchOffsets":
			fetch = c
		case "makeAssignments":
			mk = c
		}
	})
	if fetch == nil || mk == nil {
		r.Bad(rule, "kafka.(*ConsumerGroup).nextGeneration fetches offsets and builds assignments", p.Pos(fn.Pos()), "calls to fetchOffsets and makeAssignments", "missing")
		return
	}
	a0 := clean(an.Shape(fetch.Call.Args[2]))
	okArgs := strings.Contains(a0, "syncGroup(") && strings.HasSuffix(a0, "#0") || strings.Contains(a0, "syncGroup(")
	m1, m2 := clean(an.Shape(mk.Call.Args[1])), clean(an.Shape(mk.Call.Args[2]))
	okMk := strings.Contains(m1, "syncGroup(") && strings.Contains(m2, "fetchOffsets(")
	r.Check(okArgs && okMk, rule, "kafka.(*ConsumerGroup).nextGeneration asks for the offsets of exactly the synced assignments", p.Pos(fetch.Pos()), "offsets := fetchOffsets(conn, syncGroup result); makeAssignments(syncGroup result, offsets)", fmt.Sprintf("fetchOffsets(%s) makeAssignments(%s, %s)", a0, m1, m2))
	// makeAssignments runs only when fetchOffsets (and join/sync) succeeded: walk the dominating branches and
	// resolve the tested error variable (a captured cell) to the call whose result it holds at that point
	need := map[string]bool{"fetchOffsets": false, "syncGroup": false, "joinGroup": false}
	var conds []string
	for d, child := mk.Block().Idom(), mk.Block(); d != nil; d, child = d.Idom(), d {
		_, ci := an.IfCond(d)
		if ci == nil || !an.IsNilConst(ci.Y) {
			continue
		}
		nilIdx := 0
		if (ci.Op == token.NEQ) != ci.Neg {
			nilIdx = 1
		}
		if !edgeControls(d, nilIdx, child) {
			continue
		}
		v := ci.X
		if cv := an.CellValueAt(v); cv != nil {
			v = cv
		}
		s := clean(an.Shape(v))
		conds = append(conds, "nil == "+oblig.Short(s, 60))
		for k := range need {
			if strings.HasPrefix(s, k+"(") {
				need[k] = true
			}
		}
	}
	okErr := need["fetchOffsets"] && need["syncGroup"] && need["joinGroup"]
	r.Check(okErr, rule, "kafka.(*ConsumerGroup).nextGeneration builds a generation only after join, sync and offset fetch succeeded", p.Pos(mk.Pos()), "err == nil for joinGroup, syncGroup and fetchOffsets on the path to makeAssignments", strings.Join(conds, " ∧ "))
	_ = constant.MakeBool
}

func c03Readers(p *load.Program, r *oblig.Report) {
	const rule = "C03.R9 partition readers of a generation"
	start := p.Func("", "(*Reader).start")
	unsub := p.Func("", "(*Reader).unsubscribe")
	run := p.Func("", "(*Reader).run")
	if start == nil || unsub == nil || run == nil {
		r.Lost(rule, "kafka.(*Reader).start / unsubscribe / run")
		return
	}
	// start: go func(ctx, key, offset, join) with key/offset of the same map entry
	nGo := 0
	an.EachInstr(start, func(ins ssa.Instruction) {
		g, ok := ins.(*ssa.Go)
		if !ok {
			return
		}
		nGo++
		var as []string
		for _, a := range g.Call.Args {
			as = append(as, clean(an.Shape(a)))
		}
		T := "next(range(offsetsByPartition))"
		okArgs := len(as) == 4 && as[1] == T+"#1" && as[2] == T+"#2"
		r.Check(okArgs, rule, "kafka.(*Reader).start launches one reader per assigned partition with that partition's offset", p.Pos(g.Pos()), "go func(ctx, key, offset, &r.join) for key, offset := range offsetsByPartition", strings.Join(as, ", "))
		// inside: run(ctx, offset) with the closure's own parameters
		if mc, isMC := g.Call.Value.(*ssa.Function); isMC {
			okRun := false
			an.EachInstr(mc, func(i2 ssa.Instruction) {
				if c, isC := i2.(*ssa.Call); isC && c.Call.StaticCallee() != nil && an.RefFuncName(c.Call.StaticCallee()) == "run" {
					okRun = len(c.Call.Args) == 3 && c.Call.Args[1] == ssa.Value(mc.Params[0]) && c.Call.Args[2] == ssa.Value(mc.Params[2])
				}
			})
			okDone := false
			an.EachInstr(mc, func(i2 ssa.Instruction) {
				if d, isD := i2.(*ssa.Defer); isD && d.Call.StaticCallee() != nil && an.RefFuncName(d.Call.StaticCallee()) == "Done" && d.Block() == mc.Blocks[0] {
					okDone = true
				}
			})
			r.Check(okRun && okDone, rule, "the reader goroutine runs from its own offset and signs off when it ends", p.Pos(mc.Pos()), "defer join.Done(); (&reader{…}).run(ctx, offset)", fmt.Sprintf("runFromOwnOffset=%v deferredDone=%v", okRun, okDone))
		}
	})
	r.RequireCount(rule+" (go statements in start)", nGo, 1)
	// join.Add(len(offsetsByPartition)) before the loop
	okAdd := false
	an.EachInstr(start, func(ins ssa.Instruction) {
		if c, ok := ins.(*ssa.Call); ok && c.Call.StaticCallee() != nil && an.RefFuncName(c.Call.StaticCallee()) == "Add" {
			okAdd = clean(an.Shape(c.Call.Args[1])) == "len(offsetsByPartition)"
		}
	})
	r.Check(okAdd, rule, "kafka.(*Reader).start accounts for every reader it launches", p.Pos(start.Pos()), "r.join.Add(len(offsetsByPartition))", "not recognised")
	// unsubscribe: cancel then Wait, unconditionally
	var seq []string
	an.EachInstr(unsub, func(ins ssa.Instruction) {
		if c, ok := ins.(*ssa.Call); ok {
			if f := c.Call.StaticCallee(); f != nil {
				seq = append(seq, an.RefFuncName(f))
			} else {
				seq = append(seq, clean(an.Shape(c.Call.Value)))
			}
		}
	})
	r.Check(len(unsub.Blocks) == 1 && strings.Join(seq, ",") == "r.cancel,Wait", rule, "kafka.(*Reader).unsubscribe cancels the readers and waits for them", p.Pos(unsub.Pos()), "r.cancel(); r.join.Wait()", strings.Join(seq, ","))
	// run: two gen.Start registrations; one commits (commitLoop), one calls unsubscribe on every path
	nStart := 0
	okUnsub, okCommit := false, false
	an.EachInstr(run, func(ins ssa.Instruction) {
		c, ok := ins.(*ssa.Call)
		if !ok || c.Call.StaticCallee() == nil || an.RefFuncName(c.Call.StaticCallee()) != "Start" {
			return
		}
		nStart++
		mc, isMC := c.Call.Args[1].(*ssa.MakeClosure)
		if !isMC {
			return
		}
		f := mc.Fn.(*ssa.Function)
		isCallTo := func(name string) func(ssa.Instruction) bool {
			return func(i ssa.Instruction) bool {
				cc, isC := i.(*ssa.Call)
				return isC && cc.Call.StaticCallee() != nil && an.RefFuncName(cc.Call.StaticCallee()) == name
			}
		}
		if ok2, _ := an.MustPass(f, an.EntryPoint(f), isCallTo("unsubscribe"), nil); ok2 {
			okUnsub = true
		}
		if ok2, _ := an.MustPass(f, an.EntryPoint(f), isCallTo("commitLoop"), nil); ok2 {
			okCommit = true
		}
	})
	r.Check(nStart == 2 && okUnsub && okCommit, rule, "kafka.(*Reader).run ties the commit loop and the reader shutdown to the generation", p.Pos(run.Pos()), "gen.Start(commitLoop); gen.Start(wait for end; r.unsubscribe())", fmt.Sprintf("gen.Start calls=%d unsubscribeOnEveryPath=%v commitLoopOnEveryPath=%v", nStart, okUnsub, okCommit))
	// subscribe precedes both
	okSub := false
	an.EachInstr(run, func(ins ssa.Instruction) {
		if c, ok := ins.(*ssa.Call); ok && c.Call.StaticCallee() != nil && an.RefFuncName(c.Call.StaticCallee()) == "subscribe" {
			s := clean(an.Shape(c.Call.Args[1]))
			okSub = strings.HasSuffix(s, ".Assignments") && strings.Contains(s, "Next(")
		}
	})
	r.Check(okSub, rule, "kafka.(*Reader).run subscribes to the new generation's assignments", p.Pos(run.Pos()), "r.subscribe(gen.Assignments) with gen from cg.Next", "not recognised")
}

// c03ReadMessageKeeps: a message taken from the queue by ReadMessage reaches the caller on every path, also when
// the commit that follows fails: dropping it while the position has already moved lets the next (successful) commit
// cover a record the application never saw.
func c03ReadMessageKeeps(p *load.Program, r *oblig.Report) {
	const rule = "C03.R12 ReadMessage never drops the record it fetched"
	fn := p.Func("", "(*Reader).ReadMessage")
	if fn == nil {
		r.Lost(rule, "kafka.(*Reader).ReadMessage")
		return
	}
	var fetch *ssa.Call
	an.EachInstr(fn, func(ins ssa.Instruction) {
		if c, ok := ins.(*ssa.Call); ok && calleeNamed(&c.Call, "Reader", "FetchMessage") {
			fetch = c
		}
	})
	if fetch == nil {
		r.Lost(rule, "FetchMessage call in kafka.(*Reader).ReadMessage")
		return
	}
	var okBlk *ssa.BasicBlock
	for _, b := range an.Blocks(fn) {
		_, ci := an.IfCond(b)
		if e := ci.Edge(token.EQL); e >= 0 && an.IsNilConst(ci.Y) {
			if ex, isEx := an.Unwrap(ci.X).(*ssa.Extract); isEx && ex.Tuple == ssa.Value(fetch) && ex.Index == 1 {
				okBlk = b.Succs[e]
			}
		}
	}
	if okBlk == nil {
		r.Lost(rule, "error test of FetchMessage in kafka.(*Reader).ReadMessage")
		return
	}
	n := 0
	var bad []string
	an.EachInstr(fn, func(ins ssa.Instruction) {
		ret, ok := ins.(*ssa.Return)
		if !ok || ret.Parent() != fn || len(ret.Results) != 2 || len(okBlk.Instrs) == 0 || !an.Dominates(okBlk.Instrs[0], ret) {
			return
		}
		n++
		if ex, isEx := an.RetVal(ret, 0).(*ssa.Extract); !isEx || ex.Tuple != ssa.Value(fetch) || ex.Index != 0 {
			bad = append(bad, "the return at "+p.Pos(ret.Pos())+" hands out "+clean(an.Shape(an.RetVal(ret, 0))))
		}
	})
	r.Check(n > 0 && len(bad) == 0, rule, "kafka.(*Reader).ReadMessage returns the fetched message on every path after FetchMessage succeeded", p.Pos(fn.Pos()),
		"return m, err (the message also accompanies a commit error)", strings.Join(bad, "; "))
}

// c03SyncGroupMembers: the leader sends one assignment entry per member, tagged with that member's id (the key of the
// assignments map), not with its own id: otherwise the coordinator hands every share to the leader and the other
// members' partitions are never read.
func c03SyncGroupMembers(p *load.Program, r *oblig.Report) {
	const rule = "C03.R13 every member receives its own assignment"
	fn := p.Func("", "(*ConsumerGroup).makeSyncGroupRequestV0")
	if fn == nil {
		r.Lost(rule, "kafka.(*ConsumerGroup).makeSyncGroupRequestV0")
		return
	}
	n := 0
	var bad []string
	an.EachInstr(fn, func(ins ssa.Instruction) {
		st, ok := fieldStoreIs(ins, "syncGroupRequestGroupAssignmentV0", "MemberID")
		if !ok {
			return
		}
		n++
		fromMap := false
		for _, o := range an.Origins(st.Val, an.FlowOpts{}) {
			if o.Kind == "param" && o.Name != an.ParamName(fn.Params[len(fn.Params)-1]) {
				bad = append(bad, "entry tagged with "+o.String()+" at "+p.Pos(st.Pos()))
			}
			if o.Kind == "param" && o.Name == an.ParamName(fn.Params[len(fn.Params)-1]) {
				fromMap = true
			}
		}
		if !fromMap && len(bad) == 0 {
			bad = append(bad, "entry tagged with "+clean(an.Shape(st.Val))+" at "+p.Pos(st.Pos()))
		}
	})
	r.Check(n > 0 && len(bad) == 0, rule, "kafka.(*ConsumerGroup).makeSyncGroupRequestV0 tags each assignment with the member id it is filed under", p.Pos(fn.Pos()),
		"for memberID, topics := range memberAssignments { …MemberID: memberID… }", strings.Join(bad, "; "))
}

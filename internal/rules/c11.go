package rules

import (
	"fmt"
	"go/token"
	"go/types"
	"sort"
	"strings"

	"golang.org/x/tools/go/ssa"

	"kverif/internal/an"
	"kverif/internal/load"
	"kverif/internal/oblig"
)

func init() {
	register(&Check{ID: "C11", Run: runC11, Expl: oblig.Explanation{
		Text:        "Static stream-alignment check of the hand-written Conn codec. (R1) Every place where a broker error code is converted into a kafka.Error while a response is being read (closures handed to (*Conn).do as the read phase, the size-threading reader functions, ReadBatchWith) is examined: if the code's own success continuation still consumes bytes of the frame after that point (interprocedurally: after the closure returns into readArrayWith's caller, after a header function returns into ReadBatchWith), then a drain of the remainder (discardN(r, sz, sz) or readResponse) must lie on the error path before control returns to do()/the Batch. (R2) do, doRequest, waitResponse and Batch.close close the net.Conn on every non-Kafka error. (R3) all other operations convert ErrorCode only after do() returned. (R4) no error returned by the byte-consuming layer (read*/discard* helpers, messageSetReader, bufio Discard/Peek on rbuf) is dropped; a failed discard in Batch.close closes the connection. Not decided: that every following operation behaves as on a fresh connection (behavioural), timing of deadlines.",
		Rule:        "one obligation per error-raising point (R1), per core function (R2), per operation (R3), per reader-layer call site (R4); non-trivial = a path search was performed",
		Trusted:     []string{"go/ssa", "reader layer = functions with a *bufio.Reader parameter, messageSetReader methods, bufio.Reader methods", "requests name one topic and one partition, so further elements of the same array are not searched"},
		Assumptions: []string{"a response frame is fully consumed when the size-threading readers reach size 0 (expectZeroSize)"},
	}})
}

type c11ctx struct {
	p            *load.Program
	r            *oblig.Report
	rl           map[*ssa.Function]bool // reader layer
	errType      types.Type
	callers      map[*ssa.Function][]ssa.CallInstruction // static call sites
	closureSites map[*ssa.Function][]*ssa.Call           // calls to which the closure is passed as an argument
}

func isBufioReaderPtr(t types.Type) bool {
	return an.NamedIs(t, "bufio", "Reader")
}

func newC11(p *load.Program, r *oblig.Report) *c11ctx {
	c := &c11ctx{p: p, r: r, rl: map[*ssa.Function]bool{}, callers: map[*ssa.Function][]ssa.CallInstruction{}, closureSites: map[*ssa.Function][]*ssa.Call{}}
	root := p.SSAPkg("")
	if o := root.Pkg.Scope().Lookup("Error"); o != nil {
		c.errType = o.Type()
	}
	for _, fn := range p.ModuleFunctions() {
		top := fn
		for top.Parent() != nil {
			top = top.Parent()
		}
		if top.Pkg != root {
			continue
		}
		for _, prm := range fn.Params {
			if isBufioReaderPtr(prm.Type()) {
				c.rl[fn] = true
			}
		}
		if fn.Signature.Recv() != nil {
			rt := fn.Signature.Recv().Type()
			if an.NamedIs(rt, load.ModPath, "messageSetReader") || an.NamedIs(rt, load.ModPath, "readerStack") {
				c.rl[fn] = true
			}
		}
		an.EachInstr(fn, func(ins ssa.Instruction) {
			ci, ok := ins.(ssa.CallInstruction)
			if !ok {
				return
			}
			if sc := ci.Common().StaticCallee(); sc != nil {
				c.callers[sc] = append(c.callers[sc], ci)
			}
			if call, ok := ins.(*ssa.Call); ok {
				for _, a := range call.Call.Args {
					if mc, ok := a.(*ssa.MakeClosure); ok {
						if f, ok := mc.Fn.(*ssa.Function); ok {
							c.closureSites[f] = append(c.closureSites[f], call)
						}
					}
				}
			}
		})
	}
	return c
}

// consumes reports whether the call reads bytes of the response stream.
func (c *c11ctx) consumes(ins ssa.Instruction) bool {
	ci, ok := ins.(*ssa.Call)
	if !ok {
		return false
	}
	com := &ci.Call
	if sc := com.StaticCallee(); sc != nil {
		if c.rl[sc] {
			return true
		}
		if sc.Signature.Recv() != nil && isBufioReaderPtr(sc.Signature.Recv().Type()) {
			switch an.RefFuncName(sc) {
			case "Discard", "Peek", "Read", "ReadByte", "ReadString", "ReadBytes":
				return true
			}
		}
		// methods readFrom(r *bufio.Reader, …) are in rl through their parameter
		if an.RefFuncName(sc) == "readResponse" {
			return true
		}
	}
	// a call receiving the read buffer
	for _, a := range com.Args {
		if isBufioReaderPtr(a.Type()) {
			return true
		}
	}
	return false
}

// isDrain recognises discardN(r, sz, sz) (same value twice) and (*Conn).readResponse.
func (c *c11ctx) isDrain(ins ssa.Instruction) bool {
	ci, ok := ins.(*ssa.Call)
	if !ok {
		return false
	}
	sc := ci.Call.StaticCallee()
	if sc == nil {
		return false
	}
	if an.RefFuncName(sc) == "discardN" && len(ci.Call.Args) == 3 && ci.Call.Args[1] == ci.Call.Args[2] {
		return true
	}
	// a helper of the module that drains (the drain may have been extracted into its own function)
	return c.drainsInside(sc, 2)
}

func (c *c11ctx) drainsInside(fn *ssa.Function, depth int) bool {
	if depth <= 0 || fn == nil || fn.Blocks == nil || !load.InModule(fn) {
		return false
	}
	found := false
	an.EachInstr(fn, func(ins ssa.Instruction) {
		ci, ok := ins.(*ssa.Call)
		if !ok || found {
			return
		}
		sc := ci.Call.StaticCallee()
		if sc == nil {
			return
		}
		if an.RefFuncName(sc) == "discardN" && len(ci.Call.Args) == 3 && ci.Call.Args[1] == ci.Call.Args[2] {
			found = true
			return
		}
		if sc != fn && c.drainsInside(sc, depth-1) {
			found = true
		}
	})
	return found
}

// forwardFind: existential search from the start of block b (or after instruction index idx in b) for an instruction
// satisfying match; continues into the callers' continuation when the function returns.
func (c *c11ctx) forwardFind(fn *ssa.Function, b *ssa.BasicBlock, idx int, match func(ssa.Instruction) bool, depth int, seenFn map[*ssa.Function]bool) (ssa.Instruction, []string) {
	q := an.PathQuery{Fn: fn, Target: match}
	if hit := q.ReachableFrom(an.Point{B: b, Idx: idx}); hit != nil {
		return hit, []string{an.ShortFunc(fn)}
	}
	if depth <= 0 || seenFn[fn] {
		return nil, nil
	}
	seenFn[fn] = true
	// continue after the sites that receive the value returned by fn
	for _, site := range c.closureSites[fn] {
		if hit, path := c.forwardFind(site.Parent(), site.Block(), indexIn(site), match, depth-1, seenFn); hit != nil {
			return hit, append([]string{an.ShortFunc(fn) + " → returns into " + an.ShortFunc(site.Parent()) + " after " + an.CalleeName(&site.Call)}, path...)
		}
	}
	for _, ci := range c.callers[fn] {
		call, ok := ci.(*ssa.Call)
		if !ok {
			continue
		}
		if hit, path := c.forwardFind(call.Parent(), call.Block(), indexIn(call), match, depth-1, seenFn); hit != nil {
			return hit, append([]string{an.ShortFunc(fn) + " → returns into " + an.ShortFunc(call.Parent())}, path...)
		}
	}
	return nil, nil
}

func indexIn(ins ssa.Instruction) int {
	for i, x := range ins.Block().Instrs {
		if x == ins {
			return i
		}
	}
	return -1
}

func (c *c11ctx) inReaderContext(fn *ssa.Function) bool {
	for f := fn; f != nil; f = f.Parent() {
		if c.rl[f] {
			return true
		}
		// closures handed as the read phase to do/readOperation/writeOperation
		for _, site := range c.closureSites[f] {
			if sc := site.Call.StaticCallee(); sc != nil {
				switch an.RefFuncName(sc) {
				case "do", "readOperation", "writeOperation":
					return true
				}
			}
		}
	}
	return false
}

func runC11(p *load.Program, r *oblig.Report) {
	c := newC11(p, r)
	if c.errType == nil {
		r.Lost("C11.R1", "kafka.Error")
		return
	}
	c.ruleR1()
	c.ruleR2()
	c.ruleR3()
	c.ruleR4()
	c.ruleR5()
	c.ruleR6()
	c.ruleR7()
	c17StaleSize(p, r, "C11.R8 drains start from an exact remaining size")
	c.ruleR9("C11.R9 a response-level error code is reported to the caller")
	c.ruleR10()
	c.ruleR11()
	c.ruleR12()
	c.ruleR13()
	c11DoUnsetsDeadline(p, r)
	c11ApiVersionsCount(p, r)
	c11ApiVersionsKeepsConn(p, r)
	c11ReadersDoNotJudge(p, r, "C11.R17 a completely read error response is a broker error, not a framing error")
	shareRules(r, "C11", "C11.R15 error exits of the response readers report what is left to drain (C17.R5)", func(sub *oblig.Report) { c17SizeThreading(p, sub) })
}

// ruleR1: broker errors raised mid-frame are followed by a drain.
func (c *c11ctx) ruleR1() {
	const rule = "C11.R1 broker error raised mid-frame is followed by a drain"
	p, r := c.p, c.r
	root := p.SSAPkg("")
	n := 0
	var fns []*ssa.Function
	for _, fn := range p.ModuleFunctions() {
		top := fn
		for top.Parent() != nil {
			top = top.Parent()
		}
		if top.Pkg == root {
			fns = append(fns, fn)
		}
	}
	batchWith := p.Func("", "(*Conn).ReadBatchWith")
	counts := map[string]int{}
	for _, fn := range fns {
		inCtx := c.inReaderContext(fn) || fn == batchWith
		inline := false
		if !inCtx && fn.Parent() == nil && fn.Signature.Recv() != nil && an.NamedIs(fn.Signature.Recv().Type(), load.ModPath, "Conn") && an.RefFuncName(fn) != "do" {
			// a Conn method that waits for the response itself and decodes it inline (ApiVersions)
			an.EachInstr(fn, func(ins ssa.Instruction) {
				if call, ok := ins.(*ssa.Call); ok && call.Parent() == fn && call.Call.StaticCallee() != nil && an.RefFuncName(call.Call.StaticCallee()) == "waitResponse" {
					inCtx, inline = true, true
				}
			})
		}
		// a function that holds the read lock itself releases it when it returns: the search never continues in its
		// callers (what they read or drain belongs to another response)
		depth := 4
		if inline {
			depth = 0
		}
		if !inCtx {
			continue
		}
		an.EachInstr(fn, func(ins ssa.Instruction) {
			mi, ok := ins.(*ssa.MakeInterface)
			if !ok || !types.Identical(mi.X.Type(), c.errType) {
				return
			}
			// only conversions of a value read from the wire (not constants such as errShortRead)
			if _, isConst := mi.X.(*ssa.Const); isConst {
				return
			}
			n++
			base := an.ShortFunc(fn) + " → Error(" + strings.TrimPrefix(argDesc(mi.X), "alloc:") + ")"
			counts[base]++
			construct := base
			if counts[base] > 1 {
				construct = fmt.Sprintf("%s #%d", base, counts[base])
			}
			pos := p.Pos(mi.Pos())
			if !mi.Pos().IsValid() {
				for _, ref := range *mi.Referrers() {
					if ref.Pos().IsValid() {
						pos = p.Pos(ref.Pos())
					}
				}
				if pos == "-" {
					pos = p.Pos(fn.Pos())
				}
			}
			// the branch that raises the error and its success continuation
			succ := c.successContinuation(mi)
			if succ == nil {
				r.Undecided(rule, construct, pos, "the branch that raises the error was not recognised")
				return
			}
			hit, path := c.forwardFind(fn, succ, -1, c.consumes, depth, map[*ssa.Function]bool{})
			if hit == nil {
				r.OK(rule, construct, pos, "no byte of the frame is consumed on the success continuation after this point: the error is raised at the end of the frame")
				return
			}
			witness := fmt.Sprintf("success continuation still consumes bytes: %s at %s (%s)", an.CalleeName(hit.(*ssa.Call).Common()), p.Pos(hit.Pos()), strings.Join(path, " ; "))
			// error path: a drain before control returns to do()/the Batch
			dhit, dpath := c.forwardFind(fn, mi.Block(), indexIn(mi), c.isDrain, depth, map[*ssa.Function]bool{})
			if dhit != nil {
				r.OK(rule, construct, pos, witness, fmt.Sprintf("drain on the error path: %s (%s)", p.Pos(dhit.Pos()), strings.Join(dpath, " ; ")))
				return
			}
			r.Bad(rule, construct, pos, "the remainder of the frame is discarded (discardN(r, sz, sz)) before the broker error is returned while the connection is kept", "no drain on the error path", witness)
		})
	}
	r.RequireCount(rule, n, 5)
}

// successContinuation finds, for an error-raising instruction, the successor block taken when no error is raised.
func (c *c11ctx) successContinuation(ins ssa.Instruction) *ssa.BasicBlock {
	b := ins.Block()
	for d, child := b.Idom(), b; d != nil; d, child = d.Idom(), d {
		iff, ci := an.IfCond(d)
		if iff == nil || ci == nil {
			continue
		}
		// the condition must test an error code (x != 0 / x == 0)
		if k, ok := an.ConstInt(ci.Y); !ok || k != 0 || (ci.Op != token.NEQ && ci.Op != token.EQL) {
			continue
		}
		var other *ssa.BasicBlock
		switch {
		case d.Succs[0] == child || d.Succs[0].Dominates(child):
			other = d.Succs[1]
		case d.Succs[1] == child || d.Succs[1].Dominates(child):
			other = d.Succs[0]
		}
		if other != nil && other != b && !other.Dominates(b) {
			return other
		}
	}
	return nil
}

func (c *c11ctx) ruleR2() {
	const rule = "C11.R2 non-Kafka errors close the connection"
	p, r := c.p, c.r
	closeOnNonKafka := func(name string, allowShortBuffer bool) {
		fn := p.Func("", name)
		if fn == nil {
			r.Lost(rule, "kafka."+name)
			return
		}
		// a call to net.Conn.Close (invoke) / (*Conn).Close that is control dependent on errors.As(...) being false
		ok := false
		an.EachInstr(fn, func(ins ssa.Instruction) {
			call, isC := ins.(*ssa.Call)
			if !isC || !isConnClose(&call.Call) {
				return
			}
			for d, child := call.Block().Idom(), call.Block(); d != nil; d, child = d.Idom(), d {
				iff, _ := an.IfCond(d)
				if iff == nil {
					continue
				}
				cond := an.CondOf(iff)
				neg := false
				if u, isU := cond.(*ssa.UnOp); isU && u.Op == token.NOT {
					cond, neg = an.ThroughNew(u.X), true
				}
				// `!errors.As(..) && !errors.Is(..)` lowers to nested ifs: accept the errors.As test anywhere above
				if as, isCall := cond.(*ssa.Call); isCall {
					if f := as.Call.StaticCallee(); f != nil && f.Pkg != nil && f.Pkg.Pkg.Path() == "errors" && an.RefFuncName(f) == "As" {
						onTrue := d.Succs[0] == child || d.Succs[0].Dominates(child)
						if neg {
							onTrue = !onTrue
						}
						if !onTrue { // errors.As returned false
							ok = true
						}
					}
				}
			}
		})
		r.Check(ok, rule, "kafka."+name+" closes the connection when the error is not a kafka.Error", p.Pos(fn.Pos()), "conn.Close() on the !errors.As(err, &kafkaError) edge", "not found")
		// and on every path from that edge: no further condition (a time-out, a "temporary" error) spares the
		// connection, whose stream is at an unknown position after a failed read; Batch.close alone may keep it for
		// io.ErrShortBuffer (the caller's buffer was too small, the message itself was consumed)
		isErrorsCall := func(v ssa.Value, fname string) *ssa.Call {
			if u, isU := v.(*ssa.UnOp); isU && u.Op == token.NOT {
				v = an.ThroughNew(u.X)
			}
			call, isCall := v.(*ssa.Call)
			if !isCall {
				return nil
			}
			if f := call.Call.StaticCallee(); f != nil && f.Pkg != nil && f.Pkg.Pkg.Path() == "errors" && an.RefFuncName(f) == fname {
				return call
			}
			return nil
		}
		falseEdge := func(b *ssa.BasicBlock) int {
			iff, _ := an.IfCond(b)
			if _, neg := an.CondOf(iff).(*ssa.UnOp); neg {
				return 0
			}
			return 1
		}
		edge := func(from *ssa.BasicBlock, si int) bool {
			if !allowShortBuffer {
				return true
			}
			iff, _ := an.IfCond(from)
			if iff == nil {
				return true
			}
			if is := isErrorsCall(an.CondOf(iff), "Is"); is != nil && strings.HasSuffix(clean(an.Shape(is.Call.Args[1])), "ErrShortBuffer") {
				return si == falseEdge(from)
			}
			return true
		}
		nAs := 0
		for _, b := range an.Blocks(fn) {
			iff, _ := an.IfCond(b)
			if iff == nil || isErrorsCall(an.CondOf(iff), "As") == nil {
				continue
			}
			nAs++
			okAll, bad := an.MustPass(fn, an.Point{B: b.Succs[falseEdge(b)], Idx: -1}, func(i ssa.Instruction) bool {
				call, isC := i.(*ssa.Call)
				return isC && isConnClose(&call.Call)
			}, edge)
			where := ""
			if bad != nil {
				where = "a path from the not-a-kafka.Error edge reaches " + p.Pos(bad.Pos()) + " without closing the connection"
			}
			r.Check(okAll, rule, "kafka."+name+" closes the connection for every error that is not a kafka.Error", p.Pos(b.Instrs[len(b.Instrs)-1].Pos()), "no further condition between !errors.As(err, &kafkaError) and conn.Close()", where)
		}
		r.RequireCount(rule+" (errors.As tests in "+name+")", nAs, 1)
	}
	closeOnNonKafka("(*Conn).do", false)
	closeOnNonKafka("(*Batch).close", true)
	// Conn methods that wait for their response themselves and decode it inline (not through do(), which has the rule
	// above): once waitResponse handed them the frame, every exit with an error that is not a broker error code
	// closes the connection — a cut or stalled response leaves the stream at an unknown position
	root := p.SSAPkg("")
	nInline := 0
	for _, fn := range p.ModuleFunctions() {
		if fn.Pkg != root || fn.Parent() != nil || fn.Signature.Recv() == nil || !an.NamedIs(fn.Signature.Recv().Type(), load.ModPath, "Conn") {
			continue
		}
		switch an.RefFuncName(fn) {
		case "do", "ReadBatchWith", "waitResponse":
			continue
		}
		var wait *ssa.Call
		an.EachInstr(fn, func(ins ssa.Instruction) {
			if call, ok := ins.(*ssa.Call); ok && call.Parent() == fn && call.Call.StaticCallee() != nil && an.RefFuncName(call.Call.StaticCallee()) == "waitResponse" {
				wait = call
			}
		})
		if wait == nil {
			continue
		}
		nInline++
		var okBlk *ssa.BasicBlock
		for _, b := range an.Blocks(fn) {
			_, ci := an.IfCond(b)
			if e := ci.Edge(token.EQL); e >= 0 && an.IsNilConst(ci.Y) {
				if ex, isEx := an.Unwrap(ci.X).(*ssa.Extract); isEx && ex.Tuple == ssa.Value(wait) {
					okBlk = b.Succs[e]
				}
			}
		}
		if okBlk == nil {
			r.Undecided(rule, an.ShortFunc(fn)+" reads its response inline", p.Pos(fn.Pos()), "the error test of waitResponse was not recognised")
			continue
		}
		q := an.PathQuery{Fn: fn,
			Stop: func(i ssa.Instruction) bool {
				call, isC := i.(*ssa.Call)
				return isC && isConnClose(&call.Call)
			},
			Target: func(i ssa.Instruction) bool {
				ret, isR := i.(*ssa.Return)
				if !isR || ret.Block() == fn.Recover || len(ret.Results) == 0 {
					return false
				}
				ev := an.RetVal(ret, len(ret.Results)-1)
				if an.IsNilConst(ev) {
					return false
				}
				if mi, isMI := ev.(*ssa.MakeInterface); isMI && types.Identical(mi.X.Type(), c.errType) {
					return false // a broker error code: the frame was read
				}
				return true
			}}
		hit := q.ReachableFrom(an.Point{B: okBlk, Idx: -1})
		where := ""
		if hit != nil {
			where = "the error return at " + p.Pos(hit.Pos()) + " leaves the connection open"
		}
		r.Check(hit == nil, rule, an.ShortFunc(fn)+" closes the connection when reading its response fails", p.Pos(wait.Pos()), "c.conn.Close() before every return of a non-broker error after waitResponse succeeded", where)
	}
	r.RequireCount(rule+" (inline response readers)", nInline, 1)
	for _, name := range []string{"(*Conn).doRequest", "(*Conn).waitResponse"} {
		fn := p.Func("", name)
		if fn == nil {
			r.Lost(rule, "kafka."+name)
			continue
		}
		// every block that is entered on an `err != nil` edge calls conn.Close before leaving the function/loop
		found := false
		an.EachInstr(fn, func(ins ssa.Instruction) {
			call, isC := ins.(*ssa.Call)
			if !isC || !isConnClose(&call.Call) {
				return
			}
			for _, pred := range call.Block().Preds {
				_, ci := an.IfCond(pred)
				if ci.Edge(token.NEQ) >= 0 && an.IsNilConst(ci.Y) && pred.Succs[ci.Edge(token.NEQ)] == call.Block() {
					found = true
				}
			}
		})
		r.Check(found, rule, "kafka."+name+" closes the connection on a transport error", p.Pos(fn.Pos()), "if err != nil { …; c.conn.Close(); … }", "not found")
	}
}

func isConnClose(c *ssa.CallCommon) bool {
	if c.IsInvoke() {
		return c.Method.Name() == "Close" && an.NamedIs(c.Value.Type(), "net", "Conn")
	}
	if f := c.StaticCallee(); f != nil && an.RefFuncName(f) == "Close" && f.Signature.Recv() != nil && an.NamedIs(f.Signature.Recv().Type(), load.ModPath, "Conn") {
		return true
	}
	return false
}

// ruleR3: outside the read phase, ErrorCode → Error conversions happen after the operation returned nil.
func (c *c11ctx) ruleR3() {
	const rule = "C11.R3 error codes examined after the frame was consumed"
	p, r := c.p, c.r
	root := p.SSAPkg("")
	n := 0
	for _, fn := range p.ModuleFunctions() {
		if fn.Parent() != nil || fn.Pkg != root || fn.Signature.Recv() == nil || !an.NamedIs(fn.Signature.Recv().Type(), load.ModPath, "Conn") {
			continue
		}
		if c.inReaderContext(fn) {
			continue
		}
		// does it run an operation?
		var op *ssa.Call
		an.EachInstr(fn, func(ins ssa.Instruction) {
			if call, ok := ins.(*ssa.Call); ok {
				if sc := call.Call.StaticCallee(); sc != nil && (an.RefFuncName(sc) == "readOperation" || an.RefFuncName(sc) == "writeOperation" || an.RefFuncName(sc) == "do") {
					op = call
				}
			}
		})
		if op == nil {
			continue
		}
		an.EachInstr(fn, func(ins ssa.Instruction) {
			mi, ok := ins.(*ssa.MakeInterface)
			if !ok || !types.Identical(mi.X.Type(), c.errType) {
				return
			}
			if _, isConst := mi.X.(*ssa.Const); isConst {
				return
			}
			n++
			r.Check(an.Dominates(op, mi), rule, an.ShortFunc(fn)+" → Error(code) after the round trip", p.Pos(mi.Pos()), "conversion dominated by the completed operation", "conversion may run before the response was read")
		})
	}
	r.RequireCount(rule, n, 8)
}

// ruleR4: no error of the byte-consuming layer is dropped.
func (c *c11ctx) ruleR4() {
	const rule = "C11.R4 reader-layer errors are never dropped"
	p, r := c.p, c.r
	root := p.SSAPkg("")
	accepted := map[string]string{
		"(*kafka.Conn).skipResponseSizeAndID → (*bufio.Reader).Discard": "the 8 bytes were just made available by Peek(8) in peekResponseSizeAndID under the same lock: Discard cannot fail",
	}
	n := 0
	counts := map[string]int{}
	var fns []*ssa.Function
	for _, fn := range p.ModuleFunctions() {
		top := fn
		for top.Parent() != nil {
			top = top.Parent()
		}
		if top.Pkg == root {
			fns = append(fns, fn)
		}
	}
	sort.Slice(fns, func(i, j int) bool { return fns[i].String() < fns[j].String() })
	for _, fn := range fns {
		an.EachInstr(fn, func(ins ssa.Instruction) {
			call, ok := ins.(*ssa.Call)
			if !ok || !c.consumes(call) {
				return
			}
			sig := call.Call.Signature()
			res := sig.Results()
			if res.Len() == 0 || !isErrorType(res.At(res.Len()-1).Type()) {
				return
			}
			n++
			used := false
			if res.Len() == 1 {
				used = hasRealReferrer(call)
			} else {
				for _, ref := range *call.Referrers() {
					switch x := ref.(type) {
					case *ssa.Extract:
						if x.Index == res.Len()-1 && hasRealReferrer(x) {
							used = true
						}
					case *ssa.Return:
						used = true
					case *ssa.Call, *ssa.Defer, *ssa.Go:
						used = true // tuple forwarded as arguments, e.g. expectZeroSize(f())
					}
				}
			}
			base := an.ShortFunc(fn) + " → " + an.CalleeName(&call.Call)
			counts[base]++
			construct := base
			if counts[base] > 1 {
				construct = fmt.Sprintf("%s #%d", base, counts[base])
			}
			if used {
				r.OK(rule, construct, p.Pos(call.Pos()))
				return
			}
			if why := cannotFailIdiom(call); why != "" {
				r.OK(rule, construct, p.Pos(call.Pos()), "accepted idiom: "+why)
				return
			}
			if why, ok := accepted[base]; ok {
				r.OK(rule, construct, p.Pos(call.Pos()), "accepted idiom: "+why)
				return
			}
			r.Bad(rule, construct, p.Pos(call.Pos()), "the error is returned, stored or tested", "the error result is discarded: the stream position is unknown while the connection is kept")
		})
	}
	r.RequireCount(rule, n, 100)
	// a failed discard in Batch.close closes the connection
	bc := p.Func("", "(*Batch).close")
	if bc != nil {
		okClose := false
		an.EachInstr(bc, func(ins ssa.Instruction) {
			call, isC := ins.(*ssa.Call)
			if !isC || !isConnClose(&call.Call) {
				return
			}
			for d, child := call.Block().Idom(), call.Block(); d != nil; d, child = d.Idom(), d {
				_, ci := an.IfCond(d)
				e := ci.Edge(token.NEQ)
				if e < 0 || !an.IsNilConst(ci.Y) {
					continue
				}
				if strings.Contains(argDesc(ci.X), "discard") && (d.Succs[e] == child || d.Succs[e].Dominates(child)) {
					okClose = true
				}
			}
		})
		r.Check(okClose, rule, "kafka.(*Batch).close closes the connection when the rest of the fetch response could not be discarded", p.Pos(bc.Pos()), "conn.Close() on the discard error edge", "not found")
	}
}

// cannotFailIdiom recognises bufio calls on data that is already buffered: Peek(r.Buffered()) and
// Discard(len(x)) / Discard(i+1) where x was obtained from such a Peek.
func cannotFailIdiom(call *ssa.Call) string {
	sc := call.Call.StaticCallee()
	if sc == nil || sc.Signature.Recv() == nil || !isBufioReaderPtr(sc.Signature.Recv().Type()) || len(call.Call.Args) != 2 {
		return ""
	}
	arg := call.Call.Args[1]
	switch an.RefFuncName(sc) {
	case "Peek":
		if c2, ok := arg.(*ssa.Call); ok {
			if f := c2.Call.StaticCallee(); f != nil && an.RefFuncName(f) == "Buffered" && c2.Call.Args[0] == call.Call.Args[0] {
				return "Peek(r.Buffered()) only returns bytes that are already buffered"
			}
		}
	case "Discard":
		// len(input) with input derived from a Peek on the same reader
		if c2, ok := arg.(*ssa.Call); ok {
			if b, isB := c2.Call.Value.(*ssa.Builtin); isB && b.Name() == "len" {
				all := true
				os := an.Origins(c2.Call.Args[0], an.FlowOpts{})
				for _, o := range os {
					if !(o.Kind == "call" && strings.HasSuffix(o.Name, "(*bufio.Reader).Peek#0")) {
						all = false
					}
				}
				if all && len(os) > 0 {
					return "Discard(len(x)) of bytes obtained from Peek is served from the buffer"
				}
			}
		}
	}
	return ""
}

func isErrorType(t types.Type) bool {
	n, ok := t.(*types.Named)
	return ok && n.Obj().Pkg() == nil && n.Obj().Name() == "error"
}

func hasRealReferrer(v ssa.Value) bool {
	refs := v.Referrers()
	if refs == nil {
		return false
	}
	for _, r := range *refs {
		if _, isDbg := r.(*ssa.DebugRef); !isDbg {
			return true
		}
	}
	return false
}

// ruleR5: the desynchronisation detector relies on exact in-flight accounting.
func (c *c11ctx) ruleR5() {
	const rule = "C11.R5 in-flight accounting of the desynchronisation detector"
	p, r := c.p, c.r
	wait := p.Func("", "(*Conn).waitResponse")
	doReq := p.Func("", "(*Conn).doRequest")
	leave := p.Func("", "(*Conn).leave")
	enter := p.Func("", "(*Conn).enter")
	if wait == nil || doReq == nil || leave == nil || enter == nil {
		r.Lost(rule, "kafka.(*Conn).waitResponse/doRequest/enter/leave")
		return
	}
	isLeave := func(ins ssa.Instruction) bool {
		ci, ok := ins.(ssa.CallInstruction)
		return ok && an.StaticCalleeIs(ci.Common(), leave)
	}
	ok, bad := an.MustPass(wait, an.EntryPoint(wait), isLeave, nil)
	where := ""
	if bad != nil {
		where = "a path returns at " + p.Pos(bad.Pos()) + " without calling leave()"
	}
	r.Check(ok, rule, "kafka.(*Conn).waitResponse calls leave() on every path", p.Pos(wait.Pos()), "every return is preceded by c.leave()", where)
	// leave() at most once: no leave inside the retry loop (all calls are outside any cycle)
	once := true
	an.EachInstr(wait, func(ins ssa.Instruction) {
		if isLeave(ins) {
			q := an.PathQuery{Fn: wait, Target: func(i ssa.Instruction) bool { return i == ins }}
			if q.ReachableFrom(an.PointOf(ins)) != nil {
				once = false
			}
		}
	})
	r.Check(once, rule, "kafka.(*Conn).waitResponse calls leave() at most once", p.Pos(wait.Pos()), "leave() outside the retry loop", "leave() can run more than once per call")
	// doRequest: enter() first; leave() only on the error path
	first := false
	for _, ins := range an.Blocks(doReq)[0].Instrs {
		if ci, ok := ins.(ssa.CallInstruction); ok {
			first = an.StaticCalleeIs(ci.Common(), enter)
			break
		}
	}
	onErr := true
	n := 0
	an.EachInstr(doReq, func(ins ssa.Instruction) {
		if !isLeave(ins) {
			return
		}
		n++
		guarded := false
		for _, pred := range ins.Block().Preds {
			_, ci := an.IfCond(pred)
			if ci.Edge(token.NEQ) >= 0 && an.IsNilConst(ci.Y) && pred.Succs[ci.Edge(token.NEQ)] == ins.Block() {
				guarded = true
			}
		}
		if !guarded {
			onErr = false
		}
	})
	r.Check(first && onErr && n == 1, rule, "kafka.(*Conn).doRequest enters once and leaves only when the write failed", p.Pos(doReq.Pos()), "enter() first; leave() on the err != nil edge only", fmt.Sprintf("enterFirst=%v leaveCalls=%d onErrorEdge=%v", first, n, onErr))
	// ErrNoProgress only when this goroutine is alone on the connection
	okAlone := false
	an.EachInstr(wait, func(ins ssa.Instruction) {
		st, isStore := ins.(*ssa.Store)
		_ = st
		_ = isStore
	})
	for _, b := range an.Blocks(wait) {
		_, ci := an.IfCond(b)
		if ci.Edge(token.EQL) < 0 {
			continue
		}
		if k, ok := an.ConstInt(ci.Y); ok && k == 1 && strings.Contains(argDesc(ci.X), "concurrency") {
			// the concurrency == 1 successor produces io.ErrNoProgress
			for _, ins := range b.Succs[ci.Edge(token.EQL)].Instrs {
				if u, ok := ins.(*ssa.UnOp); ok {
					if g, ok := u.X.(*ssa.Global); ok && g.Name() == "ErrNoProgress" {
						okAlone = true
					}
				}
			}
		}
	}
	r.Check(okAlone, rule, "kafka.(*Conn).waitResponse reports io.ErrNoProgress iff it is the only operation in flight", p.Pos(wait.Pos()), "if c.concurrency() == 1 { err = io.ErrNoProgress }", "not recognised")
}

// ruleR6: Batch.close leaves the stream at a frame boundary whenever it keeps the connection.
func (c *c11ctx) ruleR6() {
	c.batchCloseDrains("C11.R6 Batch.close drains the fetch response or closes the connection")
}

func (c *c11ctx) batchCloseDrains(rule string) {
	p, r := c.p, c.r
	// the drain itself: messageSetReader.discard rewinds to the outermost reader (the only one backed by the
	// connection) and discards everything that remains of the response there
	if dis := p.Func("", "(*messageSetReader).discard"); dis == nil {
		r.Lost(rule, "kafka.(*messageSetReader).discard")
	} else {
		var dn *ssa.Call
		an.EachInstr(dis, func(ins ssa.Instruction) {
			if call, ok := ins.(*ssa.Call); ok && call.Call.StaticCallee() != nil && an.RefFuncName(call.Call.StaticCallee()) == "discardN" {
				dn = call
			}
		})
		okRewind, okAll := false, false
		if dn != nil {
			// dominated by the exit edge of a loop whose test is `r.parent != nil`
			for d, child := dn.Block().Idom(), dn.Block(); d != nil; d, child = d.Idom(), d {
				_, ci := an.IfCond(d)
				e := ci.Edge(token.EQL)
				// the reader rewound is the one discardN works on: the message set reader's own stack entry, not a copy
				if e < 0 || !an.IsNilConst(ci.Y) || clean(an.Shape(ci.X)) != an.ParamName(dis.Params[0])+".readerStack.parent" {
					continue
				}
				if !edgeControls(d, e, child) {
					continue
				}
				// the other edge assigns readerStack = parent and comes back to the test
				q := an.PathQuery{Fn: dis, Target: func(i ssa.Instruction) bool { return i.Block() == d && i == d.Instrs[0] }}
				okRewind = q.ReachableFrom(an.Point{B: d.Succs[1-e], Idx: -1}) != nil
			}
			okAll = clean(an.Shape(dn.Call.Args[len(dn.Call.Args)-1])) == an.ParamName(dis.Params[0])+".readerStack.remain" && dn.Call.Args[0] == ssa.Value(dis.Params[0])
		}
		r.Check(dn != nil && okRewind && okAll, rule, "kafka.(*messageSetReader).discard rewinds to the outermost reader and discards all that remains there", p.Pos(dis.Pos()),
			"for r.parent != nil { r.readerStack = r.parent }; r.discardN(r.remain)", fmt.Sprintf("rewindLoopBeforeDrain=%v drainsRemain=%v", okRewind, okAll))
	}
	bc := p.Func("", "(*Batch).close")
	if bc == nil {
		r.Lost(rule, "kafka.(*Batch).close")
		return
	}
	isMsgsOrConn := func(v ssa.Value) bool {
		d := argDesc(v)
		return strings.HasSuffix(d, ".msgs") || strings.HasSuffix(d, ".conn")
	}
	// only paths on which there is a message set reader and a connection
	edge := an.NilEdge(isMsgsOrConn, true)
	pass := func(ins ssa.Instruction) bool {
		call, ok := ins.(*ssa.Call)
		if !ok {
			return false
		}
		if isConnClose(&call.Call) {
			return true
		}
		sc := call.Call.StaticCallee()
		return sc != nil && an.RefFuncName(sc) == "discard" && sc.Signature.Recv() != nil && an.NamedIs(sc.Signature.Recv().Type(), load.ModPath, "messageSetReader")
	}
	ok, bad := an.MustPass(bc, an.EntryPoint(bc), pass, edge)
	where := ""
	if bad != nil {
		where = "a path with msgs != nil and conn != nil returns at " + p.Pos(bad.Pos()) + " without discarding the remainder or closing the connection"
	}
	r.Check(ok, rule, "kafka.(*Batch).close", p.Pos(bc.Pos()), "msgs.discard() or conn.Close() on every path that had a message set and a connection", where)
}

// ruleR7: once the read lock of a fetch response has been obtained, the Batch that is returned owns the connection and
// that lock: Batch.close is the only place that drains the response or closes the connection (R6), so a Batch built
// without them leaves a connection with unread response bytes in use.
func (c *c11ctx) ruleR7() {
	const rule = "C11.R7 a fetch response is handed to the Batch with its connection and read lock"
	p, r := c.p, c.r
	fn := p.Func("", "(*Conn).ReadBatchWith")
	wait := p.Func("", "(*Conn).waitResponse")
	if fn == nil || wait == nil {
		r.Lost(rule, "kafka.(*Conn).ReadBatchWith / waitResponse")
		return
	}
	var call *ssa.Call
	an.EachInstr(fn, func(ins ssa.Instruction) {
		if x, ok := ins.(*ssa.Call); ok && an.StaticCalleeIs(&x.Call, wait) {
			call = x
		}
	})
	if call == nil {
		r.Lost(rule, "call of waitResponse in kafka.(*Conn).ReadBatchWith")
		return
	}
	// the block entered when waitResponse returned no error
	var success *ssa.BasicBlock
	for _, b := range an.Blocks(fn) {
		_, ci := an.IfCond(b)
		e := ci.Edge(token.EQL)
		if e < 0 || !an.IsNilConst(ci.Y) {
			continue
		}
		if ex, ok := an.Unwrap(ci.X).(*ssa.Extract); ok && ex.Tuple == call && ex.Index == 3 {
			success = b.Succs[e]
		}
	}
	if success == nil {
		r.Lost(rule, "error test of waitResponse in kafka.(*Conn).ReadBatchWith")
		return
	}
	n := 0
	var bad []string
	an.EachInstr(fn, func(ins ssa.Instruction) {
		al, ok := ins.(*ssa.Alloc)
		if !ok || !an.NamedIs(al.Type(), load.ModPath, "Batch") {
			return
		}
		if len(success.Instrs) == 0 || !an.Dominates(success.Instrs[0], al) {
			return
		}
		n++
		conn, lock := "", ""
		for _, ref := range *al.Referrers() {
			fa, ok := ref.(*ssa.FieldAddr)
			if !ok {
				continue
			}
			for _, u := range *fa.Referrers() {
				st, ok := u.(*ssa.Store)
				if !ok || st.Addr != fa {
					continue
				}
				switch an.FieldName(fa.X.Type(), fa.Field) {
				case "conn":
					conn = clean(an.Shape(st.Val))
				case "lock":
					lock = clean(an.Shape(st.Val))
				}
			}
		}
		closed := false
		an.EachInstr(fn, func(i2 ssa.Instruction) {
			if cl, ok := i2.(*ssa.Call); ok && isConnClose(&cl.Call) && an.Dominates(cl, al) {
				closed = true
			}
		})
		okConn := conn == an.ParamName(fn.Params[0])
		okLock := strings.Contains(lock, "waitResponse(") && strings.HasSuffix(lock, "#2")
		if !(closed || (okConn && okLock)) {
			bad = append(bad, fmt.Sprintf("%s: conn=%q lock=%q", p.Pos(al.Pos()), conn, lock))
		}
	})
	r.Check(len(bad) == 0 && n > 0, rule, "kafka.(*Conn).ReadBatchWith: every Batch built after waitResponse succeeded", p.Pos(fn.Pos()),
		"Batch{conn: c, lock: <lock returned by waitResponse>} (or the connection is closed first)", strings.Join(bad, "; "))
	r.RequireCount(rule, n, 1)
}

// ruleR9: a Conn operation whose response carries its own ErrorCode reports that code: on the path where the round
// trip itself succeeded, every exit of the function passes a test of that ErrorCode (the broker's answer to
// heartbeat, join, sync, leave, find-coordinator, … is an error code, not a transport error).
func (c *c11ctx) ruleR9(rule string) {
	p, r := c.p, c.r
	root := p.SSAPkg("")
	n := 0
	for _, fn := range p.ModuleFunctions() {
		if fn.Parent() != nil || fn.Pkg != root || fn.Signature.Recv() == nil || !an.NamedIs(fn.Signature.Recv().Type(), load.ModPath, "Conn") {
			continue
		}
		if c.inReaderContext(fn) {
			continue
		}
		var op *ssa.Call
		an.EachInstr(fn, func(ins ssa.Instruction) {
			if call, ok := ins.(*ssa.Call); ok && call.Parent() == fn {
				if sc := call.Call.StaticCallee(); sc != nil && (an.RefFuncName(sc) == "readOperation" || an.RefFuncName(sc) == "writeOperation" || an.RefFuncName(sc) == "do") {
					op = call
				}
			}
		})
		if op == nil {
			continue
		}
		// loads of <local response>.ErrorCode in the function itself
		codeLoads := map[ssa.Value]bool{}
		an.EachInstr(fn, func(ins ssa.Instruction) {
			ld, ok := ins.(*ssa.UnOp)
			if !ok || ld.Op != token.MUL || ld.Parent() != fn {
				return
			}
			fa, ok := ld.X.(*ssa.FieldAddr)
			if !ok || an.FieldName(fa.X.Type(), fa.Field) != "ErrorCode" {
				return
			}
			// the response the operation's read callback fills in (captured by that closure), not a per-element copy
			if al, local := fa.X.(*ssa.Alloc); local {
				for _, ref := range *al.Referrers() {
					if mc, isMC := ref.(*ssa.MakeClosure); isMC {
						for _, b := range mc.Bindings {
							if b == ssa.Value(al) {
								codeLoads[ld] = true
							}
						}
					}
				}
			}
		})
		// the response whose error code is examined is the one the read callback decodes into: a local response
		// that no closure captures is never filled (a shadowed variable), its ErrorCode is always zero
		var orphan []string
		an.EachInstr(fn, func(ins ssa.Instruction) {
			ld, ok := ins.(*ssa.UnOp)
			if !ok || ld.Op != token.MUL || ld.Parent() != fn || codeLoads[ld] {
				return
			}
			fa, ok := ld.X.(*ssa.FieldAddr)
			if !ok || an.FieldName(fa.X.Type(), fa.Field) != "ErrorCode" {
				return
			}
			al, local := fa.X.(*ssa.Alloc)
			if !local {
				return
			}
			// filled here at all? (a store into it or its address passed to a call in this function)
			filled := false
			for _, ref := range *al.Referrers() {
				switch x := ref.(type) {
				case *ssa.Store:
					if x.Addr == ssa.Value(al) {
						filled = true
					}
				case *ssa.Call:
					filled = true
				}
			}
			if !filled {
				orphan = append(orphan, "the ErrorCode tested at "+p.Pos(ld.Pos())+" belongs to a response that nothing decodes into")
			}
		})
		if len(orphan) > 0 {
			n++
			r.Bad(rule, an.ShortFunc(fn)+" → the ErrorCode of the response is examined whenever the round trip succeeded", p.Pos(op.Pos()),
				"the response tested is the one captured by the read callback", strings.Join(orphan, "; "))
			continue
		}
		if len(codeLoads) == 0 {
			continue
		}
		n++
		isCodeTest := func(i ssa.Instruction) bool {
			iff, ok := i.(*ssa.If)
			if !ok {
				return false
			}
			_, ci := an.IfCond(iff.Block())
			return ci != nil && (codeLoads[ci.X] || codeLoads[ci.Y])
		}
		// only the paths on which the operation returned no error
		edge := func(from *ssa.BasicBlock, si int) bool {
			_, ci := an.IfCond(from)
			if e := ci.Edge(token.EQL); e >= 0 && an.IsNilConst(ci.Y) && an.Unwrap(ci.X) == ssa.Value(op) {
				return si == e
			}
			return true
		}
		ok, bad := an.MustPass(fn, an.PointOf(op), isCodeTest, edge)
		where := ""
		if bad != nil {
			where = "the exit at " + p.Pos(bad.Pos()) + " is reachable after a successful round trip without looking at the response's ErrorCode"
		}
		r.Check(ok, rule, an.ShortFunc(fn)+" → the ErrorCode of the response is examined whenever the round trip succeeded", p.Pos(op.Pos()),
			"if response.ErrorCode != 0 { return …, Error(response.ErrorCode) } on the err == nil path", where)
	}
	r.RequireCount(rule, n, 5)
}

// ruleR10: the remainder of a fetch response is drained (or the connection closed) by Batch.close only, and only when
// the Batch has a message set reader. So (a) newMessageSetReader hands out its reader even when reading the first
// header failed — the error may be turned into a time-out that keeps the connection — and (b) every function that
// obtains a Batch and does not hand it to its caller closes it on every path (the read lock is released there too).
func (c *c11ctx) ruleR10() {
	const rule = "C11.R10 every fetch response reaches Batch.close with its reader"
	p, r := c.p, c.r
	nm := p.Func("", "newMessageSetReader")
	if nm == nil {
		r.Lost(rule, "kafka.newMessageSetReader")
	} else {
		nRet := 0
		var bad []string
		an.EachInstr(nm, func(ins ssa.Instruction) {
			ret, ok := ins.(*ssa.Return)
			if !ok || ret.Parent() != nm || len(ret.Results) != 2 {
				return
			}
			nRet++
			if an.IsNilConst(an.RetVal(ret, 0)) {
				bad = append(bad, "nil reader returned at "+p.Pos(ret.Pos()))
			}
		})
		r.Check(nRet > 0 && len(bad) == 0, rule, "kafka.newMessageSetReader returns the reader on every path, also together with an error", p.Pos(nm.Pos()),
			"return res, err", strings.Join(bad, "; "))
	}
	root := p.SSAPkg("")
	n := 0
	for _, fn := range p.ModuleFunctions() {
		if fn.Pkg != root || fn.Parent() != nil {
			continue
		}
		var got []*ssa.Call
		an.EachInstr(fn, func(ins ssa.Instruction) {
			call, ok := ins.(*ssa.Call)
			if !ok || call.Call.StaticCallee() == nil {
				return
			}
			sc := call.Call.StaticCallee()
			if sc.Signature.Recv() != nil && an.NamedIs(sc.Signature.Recv().Type(), load.ModPath, "Conn") && (an.RefFuncName(sc) == "ReadBatch" || an.RefFuncName(sc) == "ReadBatchWith") {
				got = append(got, call)
			}
		})
		for _, call := range got {
			// handed to the caller?
			returned := false
			for _, ref := range an.UsesOf(call) {
				if _, isRet := ref.(*ssa.Return); isRet {
					returned = true
				}
			}
			if returned {
				continue
			}
			n++
			isClose := func(i ssa.Instruction) bool {
				var cc *ssa.CallCommon
				switch x := i.(type) {
				case *ssa.Call:
					cc = &x.Call
				case *ssa.Defer:
					cc = &x.Call
				default:
					return false
				}
				sc := cc.StaticCallee()
				return sc != nil && an.RefFuncName(sc) == "Close" && sc.Signature.Recv() != nil && an.NamedIs(sc.Signature.Recv().Type(), load.ModPath, "Batch") && len(cc.Args) > 0 && cc.Args[0] == ssa.Value(call)
			}
			ok, badAt := an.MustPass(fn, an.PointOf(call), isClose, nil)
			where := ""
			if badAt != nil {
				where = "the exit at " + p.Pos(badAt.Pos()) + " is reached without batch.Close()"
			}
			r.Check(ok, rule, an.ShortFunc(fn)+" closes the batch it read on every path", p.Pos(call.Pos()), "batch.Close() (which drains the response and releases the read lock) before every return", where)
		}
	}
	r.RequireCount(rule, n, 2)
}

// ruleR11: the version table of a broker is cached on the Conn only when ApiVersions succeeded: a table cached from
// a failed answer (empty or partial) would make every later negotiating operation fail locally for good, while a
// fresh connection would simply ask again.
func (c *c11ctx) ruleR11() {
	const rule = "C11.R11 a failed ApiVersions leaves the connection as it was"
	p, r := c.p, c.r
	fn := p.Func("", "(*Conn).loadVersions")
	if fn == nil {
		r.Lost(rule, "kafka.(*Conn).loadVersions")
		return
	}
	var av *ssa.Call
	var store ssa.Instruction
	an.EachInstr(fn, func(ins ssa.Instruction) {
		call, ok := ins.(*ssa.Call)
		if !ok {
			return
		}
		if calleeNamed(&call.Call, "Conn", "ApiVersions") {
			av = call
		}
		if sc := call.Call.StaticCallee(); sc != nil && an.ShortFunc(sc) == "(*sync/atomic.Value).Store" {
			store = call
		}
	})
	if av == nil || store == nil {
		r.Lost(rule, "ApiVersions call / apiVersions.Store in kafka.(*Conn).loadVersions")
		return
	}
	ok := false
	for d, child := store.Block().Idom(), store.Block(); d != nil; d, child = d.Idom(), d {
		_, ci := an.IfCond(d)
		if e := ci.Edge(token.EQL); e >= 0 && an.IsNilConst(ci.Y) && edgeControls(d, e, child) {
			if ex, isEx := an.Unwrap(ci.X).(*ssa.Extract); isEx && ex.Tuple == ssa.Value(av) && ex.Index == 1 {
				ok = true
			}
		}
	}
	r.Check(ok, rule, "kafka.(*Conn).loadVersions caches the version table only on the err == nil edge of ApiVersions", p.Pos(store.Pos()), "if err != nil { return nil, err }; …; c.apiVersions.Store(v)", "the store is not dominated by the success edge")
}

// ruleR12: when the drain that follows a broker error fails itself, the stream is not at a frame boundary: that error
// must replace the broker error (so that do() closes the connection). A drain error that is only tested, with a
// branch that changes nothing the function returns, is lost.
func (c *c11ctx) ruleR12() {
	const rule = "C11.R12 a failed drain is reported instead of the broker error"
	p, r := c.p, c.r
	root := p.SSAPkg("")
	n := 0
	ord := map[*ssa.Function]int{}
	for _, fn := range p.EveryModuleFunction() {
		top := fn
		for top.Parent() != nil {
			top = top.Parent()
		}
		isConnMethod := top.Signature.Recv() != nil && an.NamedIs(top.Signature.Recv().Type(), load.ModPath, "Conn")
		// a drain moved into a helper that did not exist at review time is judged there: handing the drain's error
		// to the caller is reporting it
		if top.Pkg != root || !(isConnMethod || an.IsNew(top)) {
			continue
		}
		an.EachInstr(fn, func(ins ssa.Instruction) {
			call, ok := ins.(*ssa.Call)
			if !ok || call.Parent() != fn || call.Call.StaticCallee() == nil || an.RefFuncName(call.Call.StaticCallee()) != "discardN" {
				return
			}
			var errV ssa.Value
			for _, ref := range *call.Referrers() {
				if ex, isEx := ref.(*ssa.Extract); isEx && ex.Index == 1 {
					errV = ex
				}
			}
			n++
			ord[top]++
			name := fmt.Sprintf("%s → error of drain #%d", an.ShortFunc(top), ord[top])
			if errV == nil {
				r.Bad(rule, name, p.Pos(call.Pos()), "assigned to the error that is returned", "discarded")
				return
			}
			seen := map[ssa.Value]bool{}
			var reaches func(v ssa.Value) bool
			reaches = func(v ssa.Value) bool {
				if seen[v] || v.Referrers() == nil {
					return false
				}
				seen[v] = true
				for _, ref := range *v.Referrers() {
					switch x := ref.(type) {
					case *ssa.Return, *ssa.Store, *ssa.Send, *ssa.Panic:
						return true
					case *ssa.Phi:
						if reaches(x) {
							return true
						}
					case *ssa.MakeInterface:
						if reaches(x) {
							return true
						}
					case *ssa.ChangeInterface:
						if reaches(x) {
							return true
						}
					case *ssa.Call:
						if sc := x.Call.StaticCallee(); sc != nil && load.InModule(sc) && sc.Signature.Results().Len() == 1 && isErrorType(sc.Signature.Results().At(0).Type()) {
							if reaches(x) {
								return true
							}
						}
					}
				}
				return false
			}
			okR := reaches(errV)
			// or: the failing edge closes the connection itself
			if !okR {
				for _, b := range an.Blocks(fn) {
					_, ci := an.IfCond(b)
					if e := ci.Edge(token.NEQ); e >= 0 && ci.X == errV && an.IsNilConst(ci.Y) {
						if okC, _ := an.MustPass(fn, an.Point{B: b.Succs[e], Idx: -1}, func(i ssa.Instruction) bool {
							c2, isC := i.(*ssa.Call)
							return isC && isConnClose(&c2.Call)
						}, nil); okC {
							okR = true
						}
					}
				}
			}
			r.Check(okR, rule, name, p.Pos(call.Pos()), "err = discardErr (it reaches what the operation returns), or the connection is closed", "the drain's error is tested but never leaves the function")
		})
	}
	r.RequireCount(rule, n, 3)
}

// ruleR13: the helper that decodes the ApiVersions response inline accounts for the whole frame: every return on
// which no read failed passes the "nothing left" check, so a response that is not consumed entirely (an early exit
// on the error code, trailing bytes) closes the connection in ApiVersions (R2).
func (c *c11ctx) ruleR13() {
	const rule = "C11.R13 inline decoders account for the whole frame"
	p, r := c.p, c.r
	fn := p.Func("", "(*Conn).readApiVersionsResponse")
	if fn == nil {
		r.Lost(rule, "kafka.(*Conn).readApiVersionsResponse")
		return
	}
	// follow only the edges on which the reads so far succeeded
	edge := func(from *ssa.BasicBlock, si int) bool {
		_, ci := an.IfCond(from)
		if e := ci.Edge(token.NEQ); e >= 0 && an.IsNilConst(ci.Y) && isErrorType(ci.X.Type()) {
			return si != e
		}
		return true
	}
	ok, bad := an.MustPass(fn, an.EntryPoint(fn), func(i ssa.Instruction) bool {
		call, isC := i.(*ssa.Call)
		if !isC || call.Call.StaticCallee() == nil {
			return false
		}
		// … or the decoder refuses the response with an error of its own (a count the frame cannot hold): the caller
		// closes the connection on it
		if sc := call.Call.StaticCallee(); sc.Pkg != nil && ((sc.Pkg.Pkg.Path() == "fmt" && sc.Name() == "Errorf") || (sc.Pkg.Pkg.Path() == "errors" && sc.Name() == "New")) {
			return true
		}
		return an.RefFuncName(call.Call.StaticCallee()) == "expectZeroSize"
	}, edge)
	where := ""
	if bad != nil {
		where = "the exit at " + p.Pos(bad.Pos()) + " is reached, with every read successful, without checking that the frame was consumed"
	}
	r.Check(ok, rule, "kafka.(*Conn).readApiVersionsResponse ends with expectZeroSize on every path without a read error", p.Pos(fn.Pos()), "err = expectZeroSize(size, nil)", where)
}

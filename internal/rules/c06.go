package rules

import (
	"fmt"
	"go/constant"
	"go/token"
	"go/types"
	"strings"

	"golang.org/x/tools/go/ssa"

	"kverif/internal/an"
	"kverif/internal/load"
	"kverif/internal/oblig"
)

func init() {
	register(&Check{ID: "C06", Run: runC06, Expl: oblig.Explanation{
		Text:        "Static request/response pairing check. (R1) (*Conn).waitResponse consumes the response header and returns the read lock only on the id == rid edge; every other exit of an iteration unlocks rlock; the id compared is the one doRequest returned, which is the value written on the wire under wlock. (R2) the read lock handed out by waitResponse is released exactly once on every path by each taker (do, ApiVersions, ReadBatchWith→Batch.close which clears the field first). (R3) the correlation id is incremented, copied and used for the write inside one wlock critical section. (R5) protocol.RoundTrip returns the response only on the id == correlationID edge; ids come from an atomic counter. (R6) Transport: a conn is released to the idle pool only after an exchange that completed (or wrote nothing), its protocol.Conn is closed on exit of its loop, requests are sent only on conns just taken from the pool/created, taken conns are removed from the idle list under the group mutex, and every request gets its own fresh buffered (cap 1) result channel. Not decided: absence of cross-talk under every interleaving, half-read responses after deadlines.",
		Rule:        "one obligation per pairing fact; non-trivial = a path/dominance query over SSA was evaluated",
		Trusted:     []string{"go/ssa", "must-lockset (internal/an/lockset.go)"},
		Assumptions: []string{"brokers answer each connection's requests with the correlation id they carried"},
	}})
}

func runC06(p *load.Program, r *oblig.Report) {
	c06WaitResponse(p, r)
	c06LockHandoff(p, r)
	c06CorrelationID(p, r)
	c06RoundTrip(p, r)
	c06Transport(p, r)
	c06FetchWatermark(p, r)
	c06FreshBytes(p, r)
	c06FreshMerger(p, r, "C06.R12 the merged response of a split request belongs to one call")
	shareRules(r, "C06", "C06.R13 the bytes a caller holds are not handed to another response (C05.R6)", func(sub *oblig.Report) { c05PageRefs(p, sub) })
	c06AwaitPositional(p, r, "C06.R11 the answer to part i of a split request is filed as part i")
	// the read lock may only be released when the stream is at a frame boundary (or the connection is closed)
	newC11(p, r).batchCloseDrains("C06.R2 read lock released only at a frame boundary")
	// a Conn whose exchange was abandoned mid-response (any error that is not a broker error code) is closed, so the
	// rest of that response can never be taken for the answer to a later request (shared with C11)
	sub := oblig.NewReport("C06", r.Tier)
	c11 := newC11(p, sub)
	c11.ruleR2()
	c11.ruleR1()  // an error code raised mid-frame is followed by a drain: no leftover for the next exchange
	c11.ruleR10() // every fetch response reaches Batch.close, which drains it and releases the read lock
	c11.ruleR7()  // and the Batch built after waitResponse succeeded owns the connection and the lock
	c11.ruleR13() // the inline ApiVersions decoder accounts for the whole frame
	c11.ruleR4()  // a failed drain closes the connection, whatever error the batch already carries
	c06ReadAccounting(p, sub)
	for _, o := range sub.Obs {
		o2 := *o
		o2.Rule = "C06.R7 nothing of an abandoned or refused exchange is left on a connection that stays in use (" + strings.SplitN(o.Rule, " ", 2)[0] + ")"
		r.Add(&o2)
	}
	for k, v := range sub.MinCount {
		if v[0] < v[1] {
			r.RequireCount("C06.R7 "+k, v[0], v[1])
		}
	}
}

func isMutexOp(ins ssa.Instruction, lockField string, unlock bool) bool {
	call, ok := ins.(*ssa.Call)
	if !ok {
		return false
	}
	f := call.Call.StaticCallee()
	if f == nil || f.Signature.Recv() == nil || !an.NamedIs(f.Signature.Recv().Type(), "sync", "Mutex") {
		return false
	}
	if (an.RefFuncName(f) == "Unlock") != unlock || (an.RefFuncName(f) != "Lock" && an.RefFuncName(f) != "Unlock") {
		return false
	}
	if lockField == "" {
		return true
	}
	fa, ok := call.Call.Args[0].(*ssa.FieldAddr)
	return ok && an.FieldName(fa.X.Type(), fa.Field) == lockField
}

func c06WaitResponse(p *load.Program, r *oblig.Report) {
	const rule = "C06.R1 response taken only when the correlation id matches"
	fn := p.Func("", "(*Conn).waitResponse")
	if fn == nil {
		r.Lost(rule, "kafka.(*Conn).waitResponse")
		return
	}
	pos := p.Pos(fn.Pos())
	// the id == rid comparison
	var eq *ssa.BasicBlock
	eqEdge := 0
	for _, b := range an.Blocks(fn) {
		_, ci := an.IfCond(b)
		if ci.Edge(token.EQL) < 0 {
			continue
		}
		dx, dy := argDesc(ci.X), argDesc(ci.Y)
		if (dx == "param:id" && strings.Contains(dy, "peekResponseSizeAndID#1")) || (dy == "param:id" && strings.Contains(dx, "peekResponseSizeAndID#1")) {
			eq = b
			eqEdge = ci.Edge(token.EQL)
		}
	}
	if eq == nil {
		r.Bad(rule, "waitResponse → comparison of the expected id with the id peeked from the stream", pos, "if id == rid", "not found")
		return
	}
	match := eq.Succs[eqEdge]
	// skipResponseSizeAndID only on the match edge
	okSkip, nSkip := true, 0
	an.EachInstr(fn, func(ins ssa.Instruction) {
		call, ok := ins.(*ssa.Call)
		if !ok || call.Call.StaticCallee() == nil || an.RefFuncName(call.Call.StaticCallee()) != "skipResponseSizeAndID" {
			return
		}
		nSkip++
		if !(call.Block() == match || match.Dominates(call.Block())) {
			okSkip = false
		}
	})
	r.Check(okSkip && nSkip == 1, rule, "waitResponse → response header consumed only on the id == rid edge", pos, "skipResponseSizeAndID() dominated by the match edge", fmt.Sprintf("calls=%d dominated=%v", nSkip, okSkip))
	// the lock result is &c.rlock only via the match block; other paths return nil lock
	okLock := true
	an.EachInstr(fn, func(ins ssa.Instruction) {
		ret, ok := ins.(*ssa.Return)
		if !ok || len(ret.Results) != 4 {
			return
		}
		for _, o := range an.Origins(ret.Results[2], an.FlowOpts{}) {
			if o.Kind == "const" {
				continue
			}
			// non-nil lock: must be &c.rlock assigned in the match block
			if !(o.Kind == "param" && o.Path == ".rlock") {
				okLock = false
			}
		}
	})
	// the store/phi edge carrying &c.rlock comes from the match block
	lockFromMatch := false
	an.EachInstr(fn, func(ins ssa.Instruction) {
		if phi, ok := ins.(*ssa.Phi); ok {
			for i, e := range phi.Edges {
				if fa, ok := e.(*ssa.FieldAddr); ok && an.FieldName(fa.X.Type(), fa.Field) == "rlock" {
					pred := phi.Block().Preds[i]
					lockFromMatch = pred == match || match.Dominates(pred)
				}
			}
		}
		if st, ok := ins.(*ssa.Store); ok {
			if fa, ok := st.Val.(*ssa.FieldAddr); ok && an.FieldName(fa.X.Type(), fa.Field) == "rlock" {
				lockFromMatch = st.Block() == match || match.Dominates(st.Block())
			}
		}
	})
	r.Check(okLock && lockFromMatch, rule, "waitResponse → the read lock is handed out only on the id == rid edge", pos, "lock = &c.rlock assigned on the match edge; nil otherwise", fmt.Sprintf("onlyRlock=%v fromMatchEdge=%v", okLock, lockFromMatch))
	// every other way out of an iteration unlocks rlock: from the Lock call, every path to a return or to the
	// next Lock passes Unlock, except through the match block
	var lockCall ssa.Instruction
	an.EachInstr(fn, func(ins ssa.Instruction) {
		if isMutexOp(ins, "rlock", false) {
			lockCall = ins
		}
	})
	if lockCall == nil {
		r.Bad(rule, "waitResponse → rlock taken before peeking", pos, "c.rlock.Lock()", "not found")
		return
	}
	q := an.PathQuery{Fn: fn,
		Stop: func(i ssa.Instruction) bool {
			return isMutexOp(i, "rlock", true) || (len(match.Instrs) > 0 && i == match.Instrs[0])
		},
		Target: func(i ssa.Instruction) bool { return an.IsReturn(i) || i == lockCall },
	}
	leak := q.ReachableFrom(an.PointOf(lockCall))
	where := ""
	if leak != nil {
		where = "reaches " + p.Pos(leak.Pos()) + " with rlock still held"
	}
	r.Check(leak == nil, rule, "waitResponse → rlock released on every exit other than the matching response", pos, "Unlock before returning an error or retrying", where)
}

func c06LockHandoff(p *load.Program, r *oblig.Report) {
	const rule = "C06.R2 read lock hand-off released exactly once"
	wait := p.Func("", "(*Conn).waitResponse")
	if wait == nil {
		r.Lost(rule, "kafka.(*Conn).waitResponse")
		return
	}
	n := 0
	for _, fn := range p.ModuleFunctions() {
		an.EachInstr(fn, func(ins ssa.Instruction) {
			call, ok := ins.(*ssa.Call)
			if !ok || !an.StaticCalleeIs(&call.Call, wait) {
				return
			}
			n++
			name := an.ShortFunc(fn)
			// the lock value: extract #2
			var lockVal ssa.Value
			var errVal ssa.Value
			for _, ref := range *call.Referrers() {
				if ex, ok := ref.(*ssa.Extract); ok {
					if ex.Index == 2 {
						lockVal = ex
					}
					if ex.Index == 3 {
						errVal = ex
					}
				}
			}
			if lockVal == nil || errVal == nil {
				r.Bad(rule, name+" → lock returned by waitResponse", p.Pos(call.Pos()), "the lock is kept and released", "the lock result is discarded")
				return
			}
			// on the err == nil continuation: every path to return unlocks the lock (directly, deferred) or stores it into a Batch
			edge := an.NilEdge(func(v ssa.Value) bool { return v == errVal }, false)
			pass := func(i ssa.Instruction) bool {
				switch x := i.(type) {
				case *ssa.Call:
					if f := x.Call.StaticCallee(); f != nil && an.RefFuncName(f) == "Unlock" && len(x.Call.Args) > 0 && an.ParamSource(x.Call.Args[0]) == lockVal {
						return true
					}
				case *ssa.Defer:
					if f := x.Call.StaticCallee(); f != nil && an.RefFuncName(f) == "Unlock" && len(x.Call.Args) > 0 && an.ParamSource(x.Call.Args[0]) == lockVal {
						return true
					}
				case *ssa.Store:
					if an.ParamSource(x.Val) == lockVal {
						if fa, ok := x.Addr.(*ssa.FieldAddr); ok && an.NamedIs(fa.X.Type(), load.ModPath, "Batch") {
							return true
						}
					}
				}
				return false
			}
			ok2, bad := an.MustPass(fn, an.PointOf(call), pass, edge)
			where := ""
			if bad != nil {
				where = "a success path returns at " + p.Pos(bad.Pos()) + " still holding the read lock"
			}
			r.Check(ok2, rule, name+" → lock obtained from waitResponse is released or handed to a Batch on every success path", p.Pos(call.Pos()), "lock.Unlock(), defer lock.Unlock() or Batch{lock: lock}", where)
			// at most one direct Unlock on any path
			var unlocks []ssa.Instruction
			an.EachInstr(fn, func(i ssa.Instruction) {
				if c2, ok := i.(*ssa.Call); ok {
					if f := c2.Call.StaticCallee(); f != nil && an.RefFuncName(f) == "Unlock" && len(c2.Call.Args) > 0 && c2.Call.Args[0] == lockVal {
						unlocks = append(unlocks, i)
					}
				}
			})
			double := false
			for _, u := range unlocks {
				q := an.PathQuery{Fn: fn, Target: func(i ssa.Instruction) bool {
					for _, u2 := range unlocks {
						if i == u2 {
							return true
						}
					}
					return false
				}}
				if q.ReachableFrom(an.PointOf(u)) != nil {
					double = true
				}
			}
			r.Check(!double, rule, name+" → lock obtained from waitResponse is unlocked at most once", p.Pos(call.Pos()), "no path with two Unlock calls", "two Unlock calls on one path")
		})
	}
	r.RequireCount(rule+" (waitResponse call sites)", n, 3)
	// Batch.close: unlocks the stored lock once: the field is cleared before the unlock and the unlock is guarded by lock != nil
	bc := p.Func("", "(*Batch).close")
	if bc == nil {
		r.Lost(rule, "kafka.(*Batch).close")
		return
	}
	cleared, unlockGuarded := false, false
	var clearStore, unlockCall ssa.Instruction
	an.EachInstr(bc, func(ins ssa.Instruction) {
		if st, ok := ins.(*ssa.Store); ok {
			if fa, ok := st.Addr.(*ssa.FieldAddr); ok && an.FieldName(fa.X.Type(), fa.Field) == "lock" && an.IsNilConst(st.Val) {
				cleared = true
				clearStore = ins
			}
		}
		if c2, ok := ins.(ssa.CallInstruction); ok {
			if _, isGo := ins.(*ssa.Go); isGo {
				return
			}
			if f := c2.Common().StaticCallee(); f != nil && an.RefFuncName(f) == "Unlock" && len(c2.Common().Args) == 1 && strings.HasSuffix(argDesc(c2.Common().Args[0]), ".lock") {
				unlockCall = ins
				for _, pred := range ins.Block().Preds {
					_, ci := an.IfCond(pred)
					if ci.Edge(token.NEQ) >= 0 && an.IsNilConst(ci.Y) && pred.Succs[ci.Edge(token.NEQ)] == ins.Block() {
						unlockGuarded = true
					}
				}
			}
		}
	})
	okOrder := clearStore != nil && unlockCall != nil && an.Dominates(clearStore, unlockCall)
	if _, deferred := unlockCall.(*ssa.Defer); deferred && clearStore != nil {
		// a deferred unlock runs at exit: the field must have been cleared on every path by then
		okOrder, _ = an.MustPass(bc, an.EntryPoint(bc), func(i ssa.Instruction) bool { return i == clearStore }, nil)
	}
	r.Check(cleared && unlockGuarded && okOrder, rule, "kafka.(*Batch).close releases the connection's read lock exactly once", p.Pos(bc.Pos()),
		"batch.lock = nil before `if lock != nil { lock.Unlock() }`", fmt.Sprintf("cleared=%v guarded=%v clearedFirst=%v", cleared, unlockGuarded, okOrder))
	// every Batch literal that carries a lock also carries the conn
	nLit := 0
	for _, fn := range p.ModuleFunctions() {
		an.EachInstr(fn, func(ins ssa.Instruction) {
			al, ok := ins.(*ssa.Alloc)
			if !ok || !an.NamedIs(al.Type(), load.ModPath, "Batch") {
				return
			}
			hasLock, hasConn := false, false
			for _, ref := range *al.Referrers() {
				if fa, ok := ref.(*ssa.FieldAddr); ok {
					for _, r2 := range *fa.Referrers() {
						if st, ok := r2.(*ssa.Store); ok && !an.IsNilConst(st.Val) {
							switch an.FieldName(al.Type(), fa.Field) {
							case "lock":
								hasLock = true
							case "conn":
								hasConn = true
							}
						}
					}
				}
			}
			if hasLock {
				nLit++
				r.Check(hasConn, rule, an.ShortFunc(fn)+" → Batch built with the read lock also carries the connection", p.Pos(al.Pos()), "Batch{conn: c, lock: lock, …}", "lock without conn: close() could not realign or close the connection")
			}
		})
	}
	r.RequireCount(rule+" (Batch literals holding the lock)", nLit, 1)
}

func c06CorrelationID(p *load.Program, r *oblig.Report) {
	const rule = "C06.R3 correlation id allocated and written in one critical section"
	fn := p.Func("", "(*Conn).doRequest")
	if fn == nil {
		r.Lost(rule, "kafka.(*Conn).doRequest")
		return
	}
	pos := p.Pos(fn.Pos())
	l := locksets(p)
	// the id returned and the id passed to write() are the same value, loaded under wlock after the increment
	var inc *ssa.Store
	an.EachInstr(fn, func(ins ssa.Instruction) {
		if st, ok := ins.(*ssa.Store); ok {
			if fa, ok := st.Addr.(*ssa.FieldAddr); ok && an.FieldName(fa.X.Type(), fa.Field) == "correlationID" {
				inc = st
			}
		}
	})
	if inc == nil {
		r.Bad(rule, "doRequest → c.correlationID++", pos, "increment under wlock", "not found")
		return
	}
	okInc := false
	if bo, ok := inc.Val.(*ssa.BinOp); ok && bo.Op == token.ADD {
		if k, ok := an.ConstInt(bo.Y); ok && k == 1 {
			okInc = l.Before[inc].Holds("Conn.wlock", false)
		}
	}
	r.Check(okInc, rule, "doRequest → correlation id incremented by one under wlock", p.Pos(inc.Pos()), "c.correlationID++ with Conn.wlock held", "lockset "+l.Before[inc].String())
	// the write callback receives a load of correlationID made under the lock
	var idArg ssa.Value
	an.EachInstr(fn, func(ins ssa.Instruction) {
		if call, ok := ins.(*ssa.Call); ok && !call.Call.IsInvoke() && call.Call.StaticCallee() == nil {
			if prm, ok := call.Call.Value.(*ssa.Parameter); ok && an.ParamName(prm) == "write" && len(call.Call.Args) == 2 {
				idArg = call.Call.Args[1]
			}
		}
	})
	var retID ssa.Value
	an.EachInstr(fn, func(ins ssa.Instruction) {
		if ret, ok := ins.(*ssa.Return); ok && len(ret.Results) == 2 {
			retID = ret.Results[0]
		}
	})
	same := idArg != nil && retID != nil && an.Unwrap(idArg) == an.Unwrap(retID)
	locked := false
	if ld, ok := an.Unwrap(idArg).(*ssa.UnOp); ok && idArg != nil {
		locked = l.Before[ld].Holds("Conn.wlock", false) && an.Dominates(inc, ld)
	}
	r.Check(same && locked, rule, "doRequest → the id written on the wire is the id the caller will wait for", pos,
		"one load of c.correlationID after the increment, under wlock, used for both write(…, id) and the return value", fmt.Sprintf("sameValue=%v loadedUnderLockAfterIncrement=%v", same, locked))
}

func c06RoundTrip(p *load.Program, r *oblig.Report) {
	const rule = "C06.R5 protocol round trip checks the correlation id"
	fn := p.Func("protocol", "RoundTrip")
	if fn == nil {
		r.Lost(rule, "protocol.RoundTrip")
		return
	}
	pos := p.Pos(fn.Pos())
	var cmp *ssa.BasicBlock
	for _, b := range an.Blocks(fn) {
		_, ci := an.IfCond(b)
		if ci == nil || (ci.Op != token.NEQ && ci.Op != token.EQL) {
			continue
		}
		dx, dy := argDesc(ci.X), argDesc(ci.Y)
		if (strings.Contains(dx, "ReadResponse#0") && dy == "param:correlationID") || (strings.Contains(dy, "ReadResponse#0") && dx == "param:correlationID") {
			cmp = b
		}
	}
	if cmp == nil {
		r.Bad(rule, "protocol.RoundTrip → id != correlationID test", pos, "comparison of the response id with the request id", "not found")
	} else {
		_, ci := an.IfCond(cmp)
		mismatch, match := cmp.Succs[0], cmp.Succs[1]
		if ci.Op == token.EQL {
			mismatch, match = match, mismatch
		}
		// mismatch edge returns (nil, non-nil error); the response is returned only on the match edge
		okMis := false
		if ret, ok := mismatch.Instrs[len(mismatch.Instrs)-1].(*ssa.Return); ok && len(ret.Results) == 2 {
			okMis = an.IsNilConst(ret.Results[0]) && !an.IsNilConst(ret.Results[1])
		}
		okRes := true
		an.EachInstr(fn, func(ins ssa.Instruction) {
			ret, ok := ins.(*ssa.Return)
			if !ok || len(ret.Results) != 2 {
				return
			}
			if strings.Contains(argDesc(ret.Results[0]), "ReadResponse#1") && !(ret.Block() == match || match.Dominates(ret.Block())) {
				okRes = false
			}
		})
		r.Check(okMis && okRes, rule, "protocol.RoundTrip → response returned only when its id equals the request's", pos, "mismatch ⇒ (nil, error); the decoded message is returned on the match edge only", fmt.Sprintf("mismatchReturnsError=%v responseOnlyOnMatch=%v", okMis, okRes))
	}
	crt := p.Func("protocol", "(*Conn).RoundTrip")
	if crt == nil {
		r.Lost(rule, "protocol.(*Conn).RoundTrip")
		return
	}
	okAtomic := false
	an.EachInstr(crt, func(ins ssa.Instruction) {
		if call, ok := ins.(*ssa.Call); ok {
			if f := call.Call.StaticCallee(); f != nil && an.RefFuncName(f) == "RoundTrip" && f.Signature.Recv() == nil {
				d := argDesc(call.Call.Args[2])
				okAtomic = strings.Contains(d, "sync/atomic.AddInt32")
			}
		}
	})
	r.Check(okAtomic, rule, "protocol.(*Conn).RoundTrip → correlation ids come from an atomic counter", p.Pos(crt.Pos()), "atomic.AddInt32(&c.idgen, +1)", "other source")
}

// exchangeFunction finds the call of (*conn).roundTrip made by run or by a helper run calls directly.
func exchangeFunction(p *load.Program, run *ssa.Function) (*ssa.Function, *ssa.Call) {
	find := func(fn *ssa.Function) *ssa.Call {
		var rt *ssa.Call
		an.EachInstr(fn, func(ins ssa.Instruction) {
			if call, ok := ins.(*ssa.Call); ok {
				if f := call.Call.StaticCallee(); f != nil && an.RefFuncName(f) == "roundTrip" && f.Signature.Recv() != nil {
					rt = call
				}
			}
		})
		return rt
	}
	if rt := find(run); rt != nil {
		// (an.EachInstr also looks into helpers that did not exist at review time: report the function that really
		// holds the call, so that its exits and run's reaction to them are examined)
		return rt.Parent(), rt
	}
	var F *ssa.Function
	var rt *ssa.Call
	an.EachInstr(run, func(ins ssa.Instruction) {
		if call, ok := ins.(*ssa.Call); ok {
			if f := call.Call.StaticCallee(); f != nil && load.InModule(f) && f.Blocks != nil {
				if c := find(f); c != nil {
					F, rt = f, c
				}
			}
		}
	})
	return F, rt
}

func c06Transport(p *load.Program, r *oblig.Report) {
	const rule = "C06.R6 transport connection reuse"
	run := p.Func("", "(*conn).run")
	release := p.Func("", "(*connGroup).releaseConn")
	if run == nil || release == nil {
		r.Lost(rule, "kafka.(*conn).run / (*connGroup).releaseConn")
		return
	}
	pos := p.Pos(run.Pos())
	// (a) after a failed round trip, releaseConn is reachable only through the ErrNoRecord exemption. The exchange
	// may live in run itself or in a helper run calls for each request: F is the function holding the call.
	F, rt := exchangeFunction(p, run)
	if rt == nil {
		r.Bad(rule, "(*conn).run → round trip call", pos, "c.roundTrip(...) in run or in a helper it calls", "not found")
	} else {
		var errVal ssa.Value
		for _, ref := range *rt.Referrers() {
			if ex, ok := ref.(*ssa.Extract); ok && ex.Index == 1 {
				errVal = ex
			}
		}
		// on the err != nil edge: every path to releaseConn passes through a test errors.Is(err, ErrNoRecord) == true
		edge := an.NilEdge(func(v ssa.Value) bool { return v == errVal }, true)
		var isNoRecord *ssa.BasicBlock
		for _, b := range an.Blocks(F) {
			iff, _ := an.IfCond(b)
			if iff == nil {
				continue
			}
			cond := an.CondOf(iff)
			if u, ok := cond.(*ssa.UnOp); ok && u.Op == token.NOT {
				cond = u.X
			}
			if c2, ok := cond.(*ssa.Call); ok {
				if f := c2.Call.StaticCallee(); f != nil && an.RefFuncName(f) == "Is" && isErrNoRecord(p, c2.Call.Args[1]) {
					isNoRecord = b
				}
			}
		}
		failEdge := func(from *ssa.BasicBlock, si int) bool {
			if !edge(from, si) {
				return false
			}
			if from == isNoRecord {
				// follow only the "is not ErrNoRecord" edge: with `if !errors.Is(...) { break }` that is Succs[0]
				iff, _ := an.IfCond(from)
				_, neg := an.CondOf(iff).(*ssa.UnOp)
				if neg {
					return si == 0
				}
				return si == 1
			}
			return true
		}
		isReceive := func(i ssa.Instruction) bool {
			u, ok := i.(*ssa.UnOp)
			return ok && u.Op == token.ARROW
		}
		q := an.PathQuery{Fn: F, Edge: failEdge, Stop: isReceive, Target: func(i ssa.Instruction) bool {
			c2, ok := i.(*ssa.Call)
			return ok && an.StaticCalleeIs(&c2.Call, release)
		}}
		// start right after the error test: find the If on errVal
		var start *ssa.BasicBlock
		for _, b := range an.Blocks(F) {
			_, ci := an.IfCond(b)
			if ci != nil && ci.X == errVal && an.IsNilConst(ci.Y) {
				if e := ci.Edge(token.NEQ); e >= 0 {
					start = b.Succs[e]
				}
			}
		}
		if start == nil || isNoRecord == nil {
			r.Undecided(rule, "(*conn).run → failed exchanges", pos, "error test or ErrNoRecord exemption not recognised")
		} else {
			hit := q.ReachableFrom(an.Point{B: start, Idx: -1})
			okLeave := true
			why := "releaseConn reachable on the failure path"
			if F == run {
				// the failure path must also leave the loop: the next receive is unreachable
				q2 := an.PathQuery{Fn: run, Edge: failEdge, Target: isReceive}
				if q2.ReachableFrom(an.Point{B: start, Idx: -1}) != nil {
					okLeave = false
					why = "the loop continues with the next request after a failed exchange"
				}
			} else {
				// the helper reports failure as `false` on every exit of the failure path, and run leaves the loop on false
				q3 := an.PathQuery{Fn: F, Edge: failEdge, Target: func(i ssa.Instruction) bool {
					ret, ok := i.(*ssa.Return)
					if !ok {
						return false
					}
					if len(ret.Results) != 1 {
						return true
					}
					c, isC := ret.Results[0].(*ssa.Const)
					return !isC || c.Value == nil || constant.BoolVal(c.Value)
				}}
				if bad := q3.ReachableFrom(an.Point{B: start, Idx: -1}); bad != nil {
					okLeave = false
					why = "the helper does not report the failed exchange to run (return at " + p.Pos(bad.Pos()) + ")"
				}
				okCaller := false
				an.EachInstr(run, func(ins ssa.Instruction) {
					call, ok := ins.(*ssa.Call)
					if !ok || !an.StaticCalleeIs(&call.Call, F) {
						return
					}
					for _, b := range an.Blocks(run) {
						iff, _ := an.IfCond(b)
						if iff == nil {
							continue
						}
						cond, falseIdx := an.CondOf(iff), 1
						if u, isU := cond.(*ssa.UnOp); isU && u.Op == token.NOT {
							cond, falseIdx = u.X, 0
						}
						if cond != ssa.Value(call) {
							continue
						}
						q4 := an.PathQuery{Fn: run, Target: isReceive}
						okCaller = q4.ReachableFrom(an.Point{B: b.Succs[falseIdx], Idx: -1}) == nil
					}
				})
				if !okCaller {
					okLeave = false
					why = "run does not leave the loop when the helper reports a failed exchange"
				}
			}
			if hit == nil && okLeave {
				// and never before the outcome is known: every releaseConn is dominated by the error test
				an.EachInstr(F, func(ins ssa.Instruction) {
					c2, ok := ins.(*ssa.Call)
					if !ok || !an.StaticCalleeIs(&c2.Call, release) {
						return
					}
					testIf := start.Preds[0].Instrs[len(start.Preds[0].Instrs)-1]
					for _, pb := range start.Preds {
						if _, ci := an.IfCond(pb); ci != nil && ci.X == errVal {
							testIf = pb.Instrs[len(pb.Instrs)-1]
						}
					}
					if !an.Dominates(testIf, c2) {
						okLeave = false
						why = "releaseConn at " + p.Pos(c2.Pos()) + " runs before the result of the exchange is tested: a connection that failed is already back in the idle pool"
					}
				})
			}
			if hit == nil && !okLeave {
				hit = rt
			}
			if hit == nil {
				why = ""
			}
			r.Check(hit == nil, rule, "(*conn).run → a connection is not returned to the idle pool after a failed exchange", pos, "releaseConn unreachable from err != nil unless the error is ErrNoRecord (nothing was written); the loop is left", why)
		}
	}
	// (b) pc.Close() deferred
	okClose := false
	an.EachInstr(run, func(ins ssa.Instruction) {
		if d, ok := ins.(*ssa.Defer); ok {
			if f := d.Call.StaticCallee(); f != nil && an.RefFuncName(f) == "Close" && an.NamedIs(f.Signature.Recv().Type(), protoPath, "Conn") {
				okClose = true
			}
		}
	})
	r.Check(okClose, rule, "(*conn).run → the protocol connection is closed when the loop exits", pos, "defer pc.Close()", "not found")
	// (c) sends on conn.reqs: only on a conn obtained in the same function from grab*/connect, with a fresh cap-1 result channel
	n := 0
	for _, fn := range p.ModuleFunctions() {
		an.EachInstr(fn, func(ins ssa.Instruction) {
			snd, ok := ins.(*ssa.Send)
			if !ok {
				return
			}
			if !strings.HasSuffix(argDesc(snd.Chan), ".reqs") {
				return
			}
			n++
			name := an.ShortFunc(fn)
			d := argDesc(snd.Chan)
			okConn := true
			for _, part := range strings.Split(d, "|") {
				if !(strings.Contains(part, "grabBrokerConn#0") || strings.Contains(part, "grabClusterConn#0") || strings.Contains(part, "grabConnOrConnect#0")) {
					okConn = false
				}
			}
			r.Check(okConn, rule, name+" → request sent on a connection just taken from the pool", p.Pos(snd.Pos()), "conn ← grabBrokerConn/grabClusterConn in the same function", d)
			// the res field of the connRequest is a fresh make(async, 1)
			okRes := false
			resDesc := "?"
			if ld, ok := snd.X.(*ssa.UnOp); ok {
				if al, ok := ld.X.(*ssa.Alloc); ok {
					for _, ref := range *al.Referrers() {
						fa, ok := ref.(*ssa.FieldAddr)
						if !ok || an.FieldName(al.Type(), fa.Field) != "res" {
							continue
						}
						for _, r2 := range *fa.Referrers() {
							if st, ok := r2.(*ssa.Store); ok {
								v := an.Unwrap(st.Val)
								resDesc = v.String()
								if mk, ok := v.(*ssa.MakeChan); ok && mk.Parent() == snd.Parent() {
									if k, ok := an.ConstInt(mk.Size); ok && k == 1 {
										okRes = true
									}
								}
							}
						}
					}
				}
			}
			r.Check(okRes, rule, name+" → every request gets its own buffered result channel", p.Pos(snd.Pos()), "res: make(async, 1) created for this request", resDesc)
		})
	}
	r.RequireCount(rule+" (sends on conn.reqs)", n, 2)
	// (d) grabConn/grabConnTo remove the conn from idleConns under the group mutex before returning it
	l := locksets(p)
	for _, name := range []string{"(*connGroup).grabConn", "(*connGroup).grabConnTo"} {
		fn := p.Func("", name)
		if fn == nil {
			r.Lost(rule, "kafka."+name)
			continue
		}
		shrinks, locked := false, true
		an.EachInstr(fn, func(ins ssa.Instruction) {
			st, ok := ins.(*ssa.Store)
			if !ok {
				return
			}
			fa, ok := st.Addr.(*ssa.FieldAddr)
			if !ok || an.FieldName(fa.X.Type(), fa.Field) != "idleConns" {
				return
			}
			if sl, ok := st.Val.(*ssa.Slice); ok && sl.High != nil {
				shrinks = true
			}
			if !l.Before[st].Holds("connGroup.mutex", false) {
				locked = false
			}
		})
		// every non-nil return is dominated by the shrink
		r.Check(shrinks && locked, rule, "kafka."+name+" removes the connection from the idle list under the group mutex", p.Pos(fn.Pos()), "g.idleConns = g.idleConns[:n] with connGroup.mutex held", fmt.Sprintf("shrinks=%v locked=%v", shrinks, locked))
	}
	// (e) async promises are channels; conn has no result channel of its own
	if cn, ok := p.Pkg("").Types.Scope().Lookup("conn").Type().Underlying().(*types.Struct); ok {
		bad := ""
		for i := 0; i < cn.NumFields(); i++ {
			if an.NamedIs(cn.Field(i).Type(), load.ModPath, "async") {
				bad = cn.Field(i).Name()
			}
		}
		r.Check(bad == "", rule, "kafka.conn carries no result channel shared between requests", "-", "no field of type async", "field "+bad)
	}
}

// isErrNoRecord: the value is the constant protocol.ErrNoRecord (also through the root package's alias).
func isErrNoRecord(p *load.Program, v ssa.Value) bool {
	pk := p.Pkg("protocol")
	if pk == nil {
		return false
	}
	c, ok := pk.Types.Scope().Lookup("ErrNoRecord").(*types.Const)
	if !ok {
		return false
	}
	k, ok := an.Unwrap(v).(*ssa.Const)
	return ok && k.Value != nil && k.Value.ExactString() == c.Val().ExactString()
}

// c06FetchWatermark: ReadBatchWith treats "high watermark == fetch offset" as "nothing to read" and then ignores the
// record set of the response. That is only sound for the partition's high watermark itself (a broker never returns
// records at or above it): the header readers return exactly that field.
func c06FetchWatermark(p *load.Program, r *oblig.Report) {
	const rule = "C06.R2 read lock released only at a frame boundary"
	for _, name := range []string{"readFetchResponseHeaderV2", "readFetchResponseHeaderV5", "readFetchResponseHeaderV10"} {
		fn := p.Func("", name)
		if fn == nil {
			r.Lost(rule, "kafka."+name)
			continue
		}
		ok := false
		var shapes []string
		an.EachInstr(fn, func(ins ssa.Instruction) {
			ret, isR := ins.(*ssa.Return)
			if !isR || ret.Parent() != fn || len(ret.Results) != 4 {
				return
			}
			s := clean(an.Shape(an.RetVal(ret, 1)))
			if k, isK := an.ConstInt(an.RetVal(ret, 1)); isK && k == 0 {
				return // an error exit taken before the partition header was read
			}
			shapes = append(shapes, s)
		})
		ok = len(shapes) > 0
		for _, s := range shapes {
			if !strings.HasSuffix(s, ".HighwaterMarkOffset") || strings.Contains(s, "φ") {
				ok = false
			}
		}
		r.Check(ok, rule, "kafka."+name+" reports the partition's high watermark unchanged", p.Pos(fn.Pos()), "watermark = p.HighwaterMarkOffset", strings.Join(shapes, " ;; "))
	}
}

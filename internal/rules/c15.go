package rules

import (
	"fmt"
	"go/token"
	"strings"

	"golang.org/x/tools/go/ssa"

	"kverif/internal/an"
	"kverif/internal/load"
	"kverif/internal/oblig"
)

func init() {
	register(&Check{ID: "C15", Run: runC15, Expl: oblig.Explanation{
		Text:        "Static generation-lifecycle check. (R1) in nextGeneration, once the generation has been published on cg.next, every path to return calls gen.close(); before publication the cg.done arm does too. (R2) close(g.done) (both sites) is guarded by !g.closed, followed by g.closed = true, under Generation.lock; routines++ precedes the go statement, routines-- follows the function's return, close(g.joined) iff the counter reached 0, all under the lock; close() closes done when still open and then waits on joined whenever routines > 0, on every path. (R3) heartbeatLoop and partitionWatcher run their bodies through Start. (R4) a heartbeat error ends the heartbeat function; the watcher ends on a partition-count change and on a non-Kafka error; both end when their context ends. (R5) the heartbeat ticker uses the configured interval and the heartbeat request carries the generation's group, id and member; the back-off is time.After(JoinGroupBackoff) on the default arm only; leaveGroup(memberID) runs on the closed and default arms with the current member id and is skipped for \"\"; run() never returns without reaching the leave logic once a generation was attempted; Next returns only values received from cg.next. Not decided: promptness, interleavings of Start after close (the unaccounted branch is by design), histories of coordinator answers.",
		Rule:        "one obligation per close site, counter operation, exit path and flow fact",
		Trusted:     []string{"go/ssa", "must-lockset of C10"},
		Assumptions: []string{"functions passed to Start return when their context is cancelled"},
	}})
}

func runC15(p *load.Program, r *oblig.Report) {
	c15NextGeneration(p, r)
	c15StartClose(p, r)
	c15Functions(p, r)
	c15RunLoop(p, r)
	c15CoordinatorDeadlines(p, r)
	c15BackoffExceptions(p, r)
	c15StartAccounted(p, r)
	c15JoinedIDAfterJoin(p, r)
	c15KeepMemberID(p, r, "C15.R9 the member id survives a failed re-join")
	// the coordinator signals a rebalance (or an unknown member, an illegal generation) with the error code of its
	// answer: the Conn operations report that code whenever the round trip itself succeeded (C11.R9)
	shareRules(r, "C15", "C15.R7 the coordinator's error codes reach the group", func(sub *oblig.Report) {
		newC11(p, sub).ruleR9("C11.R9 a response-level error code is reported to the caller")
	})
}

func isGenClose(i ssa.Instruction) bool {
	c, ok := i.(*ssa.Call)
	return ok && calleeNamed(&c.Call, "Generation", "close")
}

func c15NextGeneration(p *load.Program, r *oblig.Report) {
	const rule = "C15.R1 a published generation is always closed before the next join"
	fn := p.Func("", "(*ConsumerGroup).nextGeneration")
	if fn == nil {
		r.Lost(rule, "kafka.(*ConsumerGroup).nextGeneration")
		return
	}
	pos := p.Pos(fn.Pos())
	// the select that publishes on cg.next
	var pub *ssa.Select
	pubIdx := -1
	var selects []*ssa.Select
	an.EachInstr(fn, func(ins ssa.Instruction) {
		if sel, ok := ins.(*ssa.Select); ok && sel.Blocking {
			selects = append(selects, sel)
			for i, st := range sel.States {
				if st.Dir == 1 /* SendOnly */ && strings.HasSuffix(argDesc(st.Chan), ".next") {
					pub, pubIdx = sel, i
				}
			}
		}
	})
	if pub == nil {
		r.Bad(rule, "nextGeneration → publication of the generation", pos, "select { case <-cg.done: …; case cg.next <- &gen: }", "not found")
		return
	}
	// every path from the publish select to a return passes gen.close()
	ok, bad := an.MustPass(fn, an.PointOf(pub), isGenClose, nil)
	where := ""
	if bad != nil {
		where = "returns at " + p.Pos(bad.Pos()) + " without gen.close()"
	}
	r.Check(ok, rule, "nextGeneration → gen.close() on every path after the generation may have been handed to Next", p.Pos(pub.Pos()), "gen.close() before every return", where, fmt.Sprintf("publishing arm index %d", pubIdx))
	// the wait select: arms on cg.done and gen.done, nothing else
	okWait := false
	for _, sel := range selects {
		if sel == pub || len(sel.States) != 2 {
			continue
		}
		a, b := argDesc(sel.States[0].Chan), argDesc(sel.States[1].Chan)
		if (strings.HasSuffix(a, "config.done") || strings.HasSuffix(a, "cg.done") || a == "param:cg.done") && strings.Contains(b, "done") {
			okWait = true
		}
		if strings.HasSuffix(a, ".done") && strings.HasSuffix(b, ".done") {
			okWait = true
		}
	}
	r.Check(okWait, rule, "nextGeneration → blocks until the group is closed or the generation's done channel is closed", pos, "select { case <-cg.done: …; case <-gen.done: … }", "not recognised")
	// when one of those selects fires, ending the generation is the first thing that happens: nothing that talks to
	// the coordinator (leaveGroup, …) runs between the select and gen.close(), so the contexts of the generation's
	// functions are cancelled without waiting for a round trip
	slow := ""
	for _, sel := range selects {
		q := an.PathQuery{Fn: fn, Stop: isGenClose, Target: func(i ssa.Instruction) bool {
			c, ok := i.(*ssa.Call)
			if !ok {
				return false
			}
			if c.Call.IsInvoke() {
				return true
			}
			sc := c.Call.StaticCallee()
			if sc == nil || !load.InModule(sc) {
				return false
			}
			switch an.RefFuncName(sc) {
			case "withLogger", "withErrorLogger", "log", "logError":
				return false
			}
			return true
		}}
		if hit := q.ReachableFrom(an.PointOf(sel)); hit != nil {
			slow = an.CalleeName(hit.(*ssa.Call).Common()) + " at " + p.Pos(hit.Pos()) + " runs before gen.close()"
		}
	}
	// every subscribed topic is watched, also one this member got no partition of (a topic that does not exist yet
	// has none): the watchers are started from the configured topics, not from the assignment
	nW, okW, foundW := 0, true, ""
	an.EachInstr(fn, func(ins ssa.Instruction) {
		c, ok := ins.(*ssa.Call)
		if !ok || !calleeNamed(&c.Call, "Generation", "partitionWatcher") {
			return
		}
		nW++
		foundW = clean(an.ShapeCanon(c.Call.Args[len(c.Call.Args)-1]))
		if !strings.Contains(foundW, ".config.Topics[") {
			okW = false
		}
	})
	r.Check(nW > 0 && okW, rule, "nextGeneration → a partition watcher is started for every configured topic", pos, "for _, topic := range cg.config.Topics { gen.partitionWatcher(…, topic) }", "watched: "+foundW)
	r.Check(slow == "", rule, "nextGeneration → the generation is closed first when the group is closed or the generation is done", pos, "case <-cg.done: gen.close(); … (no coordinator request before it)", slow)
	// the generation sent is the one that is closed: same alloc
	var genAlloc ssa.Value
	if pubIdx >= 0 {
		genAlloc = pub.States[pubIdx].Send
	}
	same := true
	n := 0
	an.EachInstr(fn, func(ins ssa.Instruction) {
		if c, isC := ins.(*ssa.Call); isC && calleeNamed(&c.Call, "Generation", "close") {
			n++
			if c.Call.Args[0] != genAlloc {
				same = false
			}
		}
	})
	r.Check(same && n >= 1, rule, "nextGeneration → the generation closed is the one that was published", pos, "every gen.close() in nextGeneration is applied to the value sent on cg.next (that one is reached on every path is the must-pass obligation above)", fmt.Sprintf("sites=%d same=%v", n, same))
	// fetchOffsets precedes the creation of the generation on every path (C03.R5 shares this)
	// nothing is sent after close: heartbeat and watchers are started before publication
	hb := callsTo(fn, func(cc *ssa.CallCommon) bool { return calleeNamed(cc, "Generation", "heartbeatLoop") })
	okHB := len(hb) == 1 && an.Dominates(hb[0].(ssa.Instruction), pub)
	okInterval := false
	if len(hb) == 1 {
		okInterval = strings.HasSuffix(argDesc(hb[0].Common().Args[1]), ".HeartbeatInterval")
	}
	r.Check(okHB && okInterval, rule, "nextGeneration → the heartbeat function is started, with the configured interval, before the generation is published", pos, "gen.heartbeatLoop(cg.config.HeartbeatInterval) dominating the publication", fmt.Sprintf("calls=%d dominates=%v interval=%v", len(hb), okHB, okInterval))
}

func c15StartClose(p *load.Program, r *oblig.Report) {
	const rule = "C15.R2 generation accounting"
	start := p.Func("", "(*Generation).Start")
	cl := p.Func("", "(*Generation).close")
	if start == nil || cl == nil {
		r.Lost(rule, "kafka.(*Generation).Start / close")
		return
	}
	l := locksets(p)
	// every close(g.done): guarded by !g.closed, followed by closed = true, under the lock
	n := 0
	check := func(fn *ssa.Function) {
		an.EachInstr(fn, func(ins ssa.Instruction) {
			call, ok := ins.(*ssa.Call)
			if !ok {
				return
			}
			b, ok := call.Call.Value.(*ssa.Builtin)
			if !ok || b.Name() != "close" {
				return
			}
			d := argDesc(call.Call.Args[0])
			name := an.ShortFunc(fn)
			switch {
			case strings.HasSuffix(d, ".done"):
				n++
				guarded := false
				for _, pred := range ins.Block().Preds {
					iff, _ := an.IfCond(pred)
					if iff == nil {
						continue
					}
					cond := an.CondOf(iff)
					onFalse := pred.Succs[1] == ins.Block()
					if u, isU := cond.(*ssa.UnOp); isU && u.Op == token.NOT {
						cond, onFalse = u.X, pred.Succs[0] == ins.Block()
					}
					if isLoadOfField(cond, "Generation", "closed") && onFalse {
						guarded = true
					}
				}
				setAfter := false
				for _, i2 := range ins.Block().Instrs {
					if st, isSt := fieldStoreIs(i2, "Generation", "closed"); isSt {
						if c, isC := st.Val.(*ssa.Const); isC && c.Value != nil && c.Value.ExactString() == "true" {
							setAfter = true
						}
					}
				}
				locked := l.Before[ins].Holds("Generation.lock", false)
				r.Check(guarded && setAfter && locked, rule, name+" → close(g.done) at most once", p.Pos(call.Pos()), "if !g.closed { close(g.done); g.closed = true } under Generation.lock", fmt.Sprintf("guarded=%v setsClosed=%v locked=%v", guarded, setAfter, locked))
			case strings.HasSuffix(d, ".joined"):
				n++
				guarded := false
				for _, pred := range ins.Block().Preds {
					_, ci := an.IfCond(pred)
					if ci.Edge(token.EQL) >= 0 && isLoadOfField(ci.X, "Generation", "routines") && pred.Succs[ci.Edge(token.EQL)] == ins.Block() {
						if k, isK := an.ConstInt(ci.Y); isK && k == 0 {
							guarded = true
						}
					}
				}
				locked := l.Before[ins].Holds("Generation.lock", false)
				r.Check(guarded && locked, rule, name+" → close(g.joined) when the last function returned", p.Pos(call.Pos()), "if g.routines == 0 { close(g.joined) } under Generation.lock", fmt.Sprintf("guarded=%v locked=%v", guarded, locked))
			}
		})
	}
	check(start)
	for _, a := range start.AnonFuncs {
		check(a)
	}
	check(cl)
	r.RequireCount(rule+" (close sites)", n, 3)
	// Start: routines++ under the lock before the accounted go; the goroutine calls fn, then routines--
	var inc, goAcc ssa.Instruction
	an.EachInstr(start, func(ins ssa.Instruction) {
		if st, ok := fieldStoreIs(ins, "Generation", "routines"); ok {
			if bo, isB := st.Val.(*ssa.BinOp); isB && bo.Op == token.ADD && l.Before[ins].Holds("Generation.lock", false) {
				inc = ins
			}
		}
		if g, ok := ins.(*ssa.Go); ok {
			if _, isMC := g.Call.Value.(*ssa.MakeClosure); isMC {
				goAcc = ins
			}
		}
	})
	okDec := false
	for _, a := range start.AnonFuncs {
		var fnCall, dec ssa.Instruction
		an.EachInstr(a, func(ins ssa.Instruction) {
			if c, ok := ins.(*ssa.Call); ok && c.Call.StaticCallee() == nil && !c.Call.IsInvoke() && fnCall == nil {
				fnCall = ins
			}
			if st, ok := fieldStoreIs(ins, "Generation", "routines"); ok {
				if bo, isB := st.Val.(*ssa.BinOp); isB && bo.Op == token.SUB && l.Before[ins].Holds("Generation.lock", false) {
					dec = ins
				}
			}
		})
		if fnCall != nil && dec != nil && an.Dominates(fnCall, dec) {
			okDec = true
		}
	}
	r.Check(inc != nil && goAcc != nil && an.Dominates(inc, goAcc) && okDec, rule, "Generation.Start counts the function before it starts and uncounts it after it returned", p.Pos(start.Pos()), "g.routines++ (locked) before go; fn(ctx) then g.routines-- (locked) in the goroutine", fmt.Sprintf("inc=%v go=%v decAfterFn=%v", inc != nil, goAcc != nil, okDec))
	// close(): waits on joined iff routines > 0, on every path
	var wait ssa.Instruction
	an.EachInstr(cl, func(ins ssa.Instruction) {
		if u, ok := ins.(*ssa.UnOp); ok && u.Op == token.ARROW && strings.HasSuffix(argDesc(u.X), ".joined") {
			wait = ins
		}
	})
	// the test on the number of running functions, read under the lock, in whichever spelling (r > 0, 0 < r,
	// r <= 0 with the branches swapped, r != 0): `pos` is the successor taken when some function is still running
	okWait := false
	var test *ssa.BasicBlock
	var pos, zero *ssa.BasicBlock
	for _, b := range an.Blocks(cl) {
		_, ci := an.IfCond(b)
		if ci == nil {
			continue
		}
		x, y, op := ci.X, ci.Y, ci.Op
		if _, isK := an.ConstInt(x); isK {
			x, y, op = y, x, flipOp(op)
		}
		k, isK := an.ConstInt(y)
		if !isK || k != 0 || !strings.HasSuffix(argDesc(x), ".routines") {
			continue
		}
		ld, isLd := x.(*ssa.UnOp)
		if !isLd || !l.Before[ld].Holds("Generation.lock", false) {
			continue
		}
		t, f := b.Succs[0], b.Succs[1]
		if ci.Neg {
			t, f = f, t
		}
		switch op {
		case token.GTR, token.NEQ:
			test, pos, zero = b, t, f
		case token.LEQ, token.EQL:
			test, pos, zero = b, f, t
		}
	}
	dbg := "no test of g.routines (read under the lock) against 0"
	if test != nil && wait != nil {
		// with a function still running, every path to an exit receives from g.joined
		ok1, miss := an.MustPass(cl, an.Point{B: pos, Idx: -1}, func(i ssa.Instruction) bool { return i == wait }, nil)
		okWait = ok1
		if !ok1 && miss != nil {
			dbg = "with functions still running the exit at " + p.Pos(miss.Pos()) + " is reached without waiting"
		}
	}
	_ = zero
	r.Check(okWait, rule, "Generation.close waits for every started function", p.Pos(cl.Pos()), "r := g.routines (locked); if r > 0 { <-g.joined }", dbg)
	// close(): no return before the wait decision (no early exit when already closed): every path from the entry
	// passes the test of the number of running functions
	okSingle := false
	if test != nil {
		okSingle, _ = an.MustPass(cl, an.EntryPoint(cl), func(i ssa.Instruction) bool { return i.Block() == test }, nil)
	}
	r.Check(okSingle, rule, "Generation.close has no exit that skips the wait", p.Pos(cl.Pos()), "every exit comes after the routines > 0 test", "an exit is reachable without the test")
	// genCtx.Done is g.done
	gd := p.Func("", "(genCtx).Done")
	if gd != nil {
		ok := false
		an.EachInstr(gd, func(ins ssa.Instruction) {
			if ret, isR := ins.(*ssa.Return); isR && strings.HasSuffix(argDesc(an.RetVal(ret, 0)), ".gen.done") {
				ok = true
			}
		})
		r.Check(ok, rule, "the context handed to generation functions ends when the generation's done channel is closed", p.Pos(gd.Pos()), "genCtx.Done() returns gen.done", "other channel")
	}
}

func c15Functions(p *load.Program, r *oblig.Report) {
	const rule = "C15.R4 heartbeat and watcher end the generation"
	start := p.Func("", "(*Generation).Start")
	for _, name := range []string{"(*Generation).heartbeatLoop", "(*Generation).partitionWatcher"} {
		fn := p.Func("", name)
		if fn == nil {
			r.Lost(rule, "kafka."+name)
			continue
		}
		// R3: body passed to Start
		calls := callsTo(fn, func(cc *ssa.CallCommon) bool { return an.StaticCalleeIs(cc, start) })
		var body *ssa.Function
		if len(calls) == 1 {
			if mc, ok := calls[0].Common().Args[1].(*ssa.MakeClosure); ok {
				body = mc.Fn.(*ssa.Function)
			}
		}
		r.Check(body != nil, "C15.R3 generation functions run through Start", "kafka."+name+" runs its loop as a generation function", p.Pos(fn.Pos()), "g.Start(func(ctx) { … })", "not recognised")
		if body == nil {
			continue
		}
		// a select with a ctx.Done arm that returns
		okCtx := false
		an.EachInstr(body, func(ins ssa.Instruction) {
			if sel, ok := ins.(*ssa.Select); ok && sel.Blocking {
				for _, st := range sel.States {
					if strings.Contains(argDesc(st.Chan), "(context.Context).Done") {
						okCtx = true
					}
				}
			}
		})
		r.Check(okCtx, rule, "kafka."+name+" → returns when the generation's context ends", p.Pos(body.Pos()), "case <-ctx.Done(): return", "no such arm")
		// error handling per function
		if strings.HasSuffix(name, "heartbeatLoop") {
			hb := callsTo(body, func(cc *ssa.CallCommon) bool { return cc.IsInvoke() && cc.Method.Name() == "heartbeat" })
			okErr := false
			okReq := false
			if len(hb) == 1 {
				call := hb[0].(*ssa.Call)
				var errVal ssa.Value
				for _, ref := range *call.Referrers() {
					if ex, ok := ref.(*ssa.Extract); ok && ex.Index == 1 {
						errVal = ex
					}
				}
				for _, b := range an.Blocks(body) {
					_, ci := an.IfCond(b)
					if ci != nil && ci.X == errVal && an.IsNilConst(ci.Y) && ci.Edge(token.NEQ) >= 0 {
						// the err != nil edge returns (possibly through rundefers) without going back to the select
						q := an.PathQuery{Fn: body, Target: func(i ssa.Instruction) bool { _, isSel := i.(*ssa.Select); return isSel }}
						okErr = q.ReachableFrom(an.Point{B: b.Succs[ci.Edge(token.NEQ)], Idx: -1}) == nil
					}
				}
				// request fields
				got := map[string]string{}
				an.EachInstr(body, func(ins ssa.Instruction) {
					if st, ok := ins.(*ssa.Store); ok {
						if fa, ok := st.Addr.(*ssa.FieldAddr); ok && an.NamedIs(fa.X.Type(), load.ModPath, "heartbeatRequestV0") {
							got[an.FieldName(fa.X.Type(), fa.Field)] = argDesc(st.Val)
						}
					}
				})
				okReq = strings.HasSuffix(got["GroupID"], ".GroupID") && strings.HasSuffix(got["GenerationID"], ".ID") && strings.HasSuffix(got["MemberID"], ".MemberID")
			}
			r.Check(okErr, rule, "heartbeatLoop → a failed heartbeat ends the generation function", p.Pos(body.Pos()), "if err != nil { return }", "the loop continues after a failed heartbeat")
			r.Check(okReq, "C15.R5 generation parameters", "heartbeatLoop → the heartbeat carries this generation's group, id and member", p.Pos(body.Pos()), "GroupID: g.GroupID, GenerationID: g.ID, MemberID: g.MemberID", "other values")
			// ticker interval
			okTick := false
			an.EachInstr(body, func(ins ssa.Instruction) {
				if c, ok := ins.(*ssa.Call); ok && c.Call.StaticCallee() != nil && an.ShortFunc(c.Call.StaticCallee()) == "time.NewTicker" {
					okTick = strings.Contains(argDesc(c.Call.Args[0]), "param:interval")
				}
			})
			r.Check(okTick, "C15.R5 generation parameters", "heartbeatLoop → heartbeats are paced by the interval it was given", p.Pos(body.Pos()), "time.NewTicker(interval)", "other duration")
		} else {
			// partition count change ⇒ return; non-Kafka error ⇒ return; Kafka error ⇒ continue
			okChange, okAs := false, false
			for _, b := range an.Blocks(body) {
				iff, ci := an.IfCond(b)
				if iff == nil {
					continue
				}
				if e := ci.Edge(token.NEQ); e >= 0 && strings.Contains(argDesc(ci.X), "len") && strings.Contains(argDesc(ci.Y), "len") {
					q := an.PathQuery{Fn: body, Target: func(i ssa.Instruction) bool { _, isSel := i.(*ssa.Select); return isSel }}
					okChange = q.ReachableFrom(an.Point{B: b.Succs[e], Idx: -1}) == nil
				}
				if c, isC := an.CondOf(iff).(*ssa.Call); isC && c.Call.StaticCallee() != nil && an.RefFuncName(c.Call.StaticCallee()) == "As" {
					q := an.PathQuery{Fn: body, Target: func(i ssa.Instruction) bool { _, isSel := i.(*ssa.Select); return isSel }}
					// false edge (not a Kafka error) never reaches the select again
					okAs = q.ReachableFrom(an.Point{B: b.Succs[1], Idx: -1}) == nil && q.ReachableFrom(an.Point{B: b.Succs[0], Idx: -1}) != nil
				}
			}
			// a watched topic that was deleted answers UnknownTopicOrPartition with no partitions: that is a change of
			// the partition count too, so the count test is reachable on an error edge without passing the
			// "is it a broker error" triage
			okGone := false
			for _, b := range an.Blocks(body) {
				_, ci := an.IfCond(b)
				e := ci.Edge(token.NEQ)
				if e < 0 || !an.IsNilConst(ci.Y) {
					continue
				}
				xv := an.Unwrap(ci.X)
				if cv := an.CellValueAt(xv); cv != nil {
					xv = cv
				}
				ex, isEx := xv.(*ssa.Extract)
				if !isEx || ex.Index != 1 {
					continue
				}
				c, isC := ex.Tuple.(*ssa.Call)
				if !isC || !(c.Call.IsInvoke() && c.Call.Method.Name() == "readPartitions" || c.Call.StaticCallee() != nil && an.RefFuncName(c.Call.StaticCallee()) == "readPartitions") {
					continue
				}
				q := an.PathQuery{Fn: body,
					Stop: func(i ssa.Instruction) bool {
						c2, ok := i.(*ssa.Call)
						return ok && c2.Call.StaticCallee() != nil && an.ShortFunc(c2.Call.StaticCallee()) == "errors.As"
					},
					Target: func(i ssa.Instruction) bool {
						iff, ok := i.(*ssa.If)
						if !ok {
							return false
						}
						_, c3 := an.IfCond(iff.Block())
						return c3.Edge(token.NEQ) >= 0 && strings.Contains(argDesc(c3.X), "len") && strings.Contains(argDesc(c3.Y), "len")
					}}
				if q.ReachableFrom(an.Point{B: b.Succs[e], Idx: -1}) != nil {
					okGone = true
				}
			}
			r.Check(okGone, rule, "partitionWatcher → a watched topic that no longer exists counts as a change of its partition count", p.Pos(body.Pos()),
				"case err == nil, errors.Is(err, UnknownTopicOrPartition): if len(ops) != oParts { return }", "the partition count is only compared when readPartitions returned no error")
			r.Check(okChange, rule, "partitionWatcher → a change of the partition count ends the generation function", p.Pos(body.Pos()), "if len(ops) != oParts { return }", "not recognised")
			r.Check(okAs, rule, "partitionWatcher → a lost coordinator connection ends the generation function, a broker error does not", p.Pos(body.Pos()), "errors.As(err, &kafkaError) ? continue : return", "not recognised")
		}
	}
}

func c15RunLoop(p *load.Program, r *oblig.Report) {
	const rule = "C15.R5 join retry, back-off and leave"
	run := p.Func("", "(*ConsumerGroup).run")
	lg := p.Func("", "(*ConsumerGroup).leaveGroup")
	next := p.Func("", "(*ConsumerGroup).Next")
	if run == nil || lg == nil || next == nil {
		r.Lost(rule, "kafka.(*ConsumerGroup).run / leaveGroup / Next")
		return
	}
	// back-off: time.After(cg.config.JoinGroupBackoff), exactly one site
	afters := callsTo(run, func(cc *ssa.CallCommon) bool {
		f := cc.StaticCallee()
		return f != nil && an.ShortFunc(f) == "time.After"
	})
	okAfter := len(afters) == 1 && strings.HasSuffix(argDesc(afters[0].Common().Args[0]), ".JoinGroupBackoff")
	r.Check(okAfter, rule, "ConsumerGroup.run → failed joins are retried after the configured back-off", p.Pos(run.Pos()), "backoff = time.After(cg.config.JoinGroupBackoff)", fmt.Sprintf("sites=%d", len(afters)))
	if len(afters) == 1 {
		// whether the back-off happens depends on the error only, never on anything else (such as having a member id)
		var foreign []string
		errShape := ""
		an.EachInstr(run, func(ins ssa.Instruction) {
			if ex, ok := ins.(*ssa.Extract); ok && ex.Index == 1 {
				if c, isC := ex.Tuple.(*ssa.Call); isC && calleeNamed(&c.Call, "ConsumerGroup", "nextGeneration") {
					errShape = clean(an.ShapeCanon(ex))
				}
			}
		})
		for _, c := range selConds(afters[0].(ssa.Instruction)) {
			if errShape == "" || !strings.Contains(c, errShape) || strings.Contains(strings.ReplaceAll(c, errShape, "err"), "nextGeneration(") {
				foreign = append(foreign, c)
			}
		}
		r.Check(len(foreign) == 0, rule, "ConsumerGroup.run → the back-off is taken for every failed join", p.Pos(afters[0].Pos()), "conditions on the error of nextGeneration only", strings.Join(foreign, " ∧ "))
	}
	// leaveGroup sites: 2, each with the member id returned by the last nextGeneration
	lcs := callsTo(run, func(cc *ssa.CallCommon) bool { return an.StaticCalleeIs(cc, lg) })
	okLeave := len(lcs) >= 2 // the closed and the error arm; since fix 5d2139f also the two cg.done exits
	for _, c := range lcs {
		if !strings.Contains(argDesc(c.Common().Args[1]), "nextGeneration#0") {
			okLeave = false
		}
	}
	r.Check(okLeave, rule, "ConsumerGroup.run → LeaveGroup is sent for the current member id on the closed and error arms", p.Pos(run.Pos()), "cg.leaveGroup(memberID) on the closed arm, the error arm (and the cg.done exits), with memberID from nextGeneration", fmt.Sprintf("sites=%d", len(lcs)))
	// run(): every return is either right after leaveGroup (closed arm) or the cg.done arm of a select that follows
	// the error handling (no exit before a generation was attempted)
	okExits := true
	nRet := 0
	an.EachInstr(run, func(ins ssa.Instruction) {
		if _, ok := ins.(*ssa.Return); !ok {
			return
		}
		if ins.Block().Comment == "recover" {
			return
		}
		nRet++
		blk := ins.Block()
		hasLeave := false
		for _, i2 := range blk.Instrs {
			if c2, isC2 := i2.(*ssa.Call); isC2 && an.StaticCalleeIs(&c2.Call, lg) {
				hasLeave = true
			}
		}
		if hasLeave {
			return
		}
		// dominated by a select arm on cg.done AND by the nextGeneration call
		sel, ng := false, false
		for d := blk; d != nil; d = d.Idom() {
			for _, i2 := range d.Instrs {
				if selectAt(i2, func(s *ssa.Select) bool {
					for _, st := range s.States {
						if strings.HasSuffix(argDesc(st.Chan), ".done") {
							return true
						}
					}
					return false
				}) {
					sel = true
				}
				if c2, isC2 := i2.(*ssa.Call); isC2 && calleeNamed(&c2.Call, "ConsumerGroup", "nextGeneration") {
					ng = true
				}
			}
		}
		if !(sel && ng) {
			okExits = false
		}
	})
	// every exit of run() that follows an attempt to join passes leaveGroup(memberID): leaveGroup does nothing for an
	// empty id, so the call is unconditional; in particular the RebalanceInProgress arm keeps its member id and must
	// still leave when the group is closed while the error waits to be handed to Next
	for _, c2 := range callsTo(run, func(cc *ssa.CallCommon) bool { return calleeNamed(cc, "ConsumerGroup", "nextGeneration") }) {
		okL, badAt := an.MustPass(run, an.PointOf(c2.(ssa.Instruction)), func(i ssa.Instruction) bool {
			c3, isC := i.(*ssa.Call)
			return isC && an.StaticCalleeIs(&c3.Call, lg)
		}, nil)
		where := ""
		if badAt != nil {
			where = "the exit at " + p.Pos(badAt.Pos()) + " is reached without leaveGroup"
		}
		r.Check(okL, rule, "ConsumerGroup.run → LeaveGroup is sent for the current member id on every exit", p.Pos(run.Pos()), "cg.leaveGroup(memberID) on every path from nextGeneration to a return", where)
	}
	r.Check(okExits && nRet >= 3, rule, "ConsumerGroup.run → no exit bypasses the leave logic", p.Pos(run.Pos()), "return only after leaveGroup (closed) or from the cg.done arms that follow the error handling", fmt.Sprintf("returns=%d ok=%v", nRet, okExits))
	// leaveGroup skips the request for an empty member id
	_, ci := an.IfCond(lg.Blocks[0])
	okEmpty := false
	if e := ci.Edge(token.EQL); e >= 0 && strings.Contains(argDesc(ci.X), "param:memberID") {
		if c, isC := ci.Y.(*ssa.Const); isC && c.Value != nil && c.Value.ExactString() == `""` {
			// the empty-id edge returns at once
			blk := lg.Blocks[0].Succs[e]
			_, okEmpty = blk.Instrs[len(blk.Instrs)-1].(*ssa.Return)
		}
	}
	r.Check(okEmpty, rule, "leaveGroup does nothing when no member id was ever assigned", p.Pos(lg.Pos()), `if memberID == "" { return nil }`, "not recognised")
	// the LeaveGroup request carries the group id and the member id
	got := map[string]string{}
	an.EachInstr(lg, func(ins ssa.Instruction) {
		if st, ok := ins.(*ssa.Store); ok {
			if fa, ok := st.Addr.(*ssa.FieldAddr); ok && an.NamedIs(fa.X.Type(), load.ModPath, "leaveGroupRequestV0") {
				got[an.FieldName(fa.X.Type(), fa.Field)] = argDesc(st.Val)
			}
		}
	})
	r.Check(strings.HasSuffix(got["GroupID"], ".config.ID") && strings.Contains(got["MemberID"], "param:memberID"), rule, "leaveGroup → request names this group and this member", p.Pos(lg.Pos()), "GroupID: cg.config.ID, MemberID: memberID", fmt.Sprint(got))
	// Next: a generation is returned only when received from cg.next
	okNext := true
	an.EachInstr(next, func(ins ssa.Instruction) {
		ret, ok := ins.(*ssa.Return)
		if !ok || len(ret.Results) != 2 {
			return
		}
		v := an.RetVal(ret, 0)
		if an.IsNilConst(v) {
			return
		}
		d := argDesc(v)
		if !strings.Contains(d, "select#") {
			okNext = false
		}
	})
	r.Check(okNext, rule, "ConsumerGroup.Next hands out only generations received from the group loop", p.Pos(next.Pos()), "case next := <-cg.next: return next, nil", "other source")
}

// c15CoordinatorDeadlines: every request the group sends to its coordinator (heartbeats included) is bounded in both
// directions: the wrapper sets the connection's whole deadline — SetDeadline, not only its read or write half — from
// the configured timeout before the request, and sends the request only if that succeeded. A heartbeat without a
// write/read bound blocks for ever on a silent coordinator, so the generation never ends.
func c15CoordinatorDeadlines(p *load.Program, r *oblig.Report) {
	const rule = "C15.R6 every coordinator request carries a deadline"
	root := p.SSAPkg("")
	n := 0
	for _, fn := range p.ModuleFunctions() {
		if fn.Pkg != root || fn.Parent() != nil || fn.Signature.Recv() == nil || !an.NamedIs(fn.Signature.Recv().Type(), load.ModPath, "timeoutCoordinator") {
			continue
		}
		var set *ssa.Call
		var reqs []*ssa.Call
		an.EachInstr(fn, func(ins ssa.Instruction) {
			c, ok := ins.(*ssa.Call)
			if !ok || c.Call.StaticCallee() == nil {
				return
			}
			sc := c.Call.StaticCallee()
			if sc.Signature.Recv() == nil || !an.NamedIs(sc.Signature.Recv().Type(), load.ModPath, "Conn") {
				return
			}
			switch an.RefFuncName(sc) {
			case "SetDeadline":
				set = c
			case "Close", "SetReadDeadline", "SetWriteDeadline":
			default:
				reqs = append(reqs, c)
			}
		})
		for _, rq := range reqs {
			n++
			ok := false
			found := "no SetDeadline before the request"
			if set != nil {
				arg := clean(an.Shape(set.Call.Args[len(set.Call.Args)-1]))
				found = "SetDeadline(" + arg + ")"
				fromTimeout := strings.Contains(arg, "time.Now()") && strings.Contains(arg, ".timeout")
				// the request is sent on the err == nil edge of the SetDeadline test
				onSuccess := false
				for _, b := range an.Blocks(fn) {
					_, ci := an.IfCond(b)
					e := ci.Edge(token.EQL)
					if e >= 0 && an.IsNilConst(ci.Y) && ci.X == ssa.Value(set) && edgeControls(b, e, rq.Block()) {
						onSuccess = true
					}
				}
				ok = fromTimeout && onSuccess
				if !onSuccess {
					found += ", whose error does not gate the request"
				}
			}
			r.Check(ok, rule, "kafka."+load.FuncName(fn)+" → "+an.RefFuncName(rq.Call.StaticCallee())+" is sent under a deadline covering the write and the read", p.Pos(rq.Pos()),
				"if err := t.conn.SetDeadline(time.Now().Add(t.timeout …)); err != nil { return }", found)
		}
	}
	r.RequireCount(rule, n, 8)
}

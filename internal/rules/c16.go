package rules

import (
	"fmt"
	"go/constant"
	"go/token"
	"go/types"
	"sort"
	"strings"

	"golang.org/x/tools/go/ssa"

	"kverif/internal/an"
	"kverif/internal/load"
	"kverif/internal/oblig"
)

func init() {
	register(&Check{ID: "C16", Run: runC16, Expl: oblig.Explanation{
		Text:    "Static check of the structural preconditions of history independence, sharing and framing of the compression codecs. (R1) every field of the pooled xerialReader/xerialWriter is assigned an empty value unconditionally in Reset (parameter, zero constant, zero composite, zero-length reslice of itself), or is a per-acquisition setting assigned on every path of the acquiring constructor after the pool Get (framed, encode), or a setting fixed at construction and never written again (decode), or scratch that is written in full before each read (xerialWriter.header): so nothing a previous stream left behind, including a stream that ended in an error, can reach the next one. (R2) at each of the 8 sync.Pool Get sites the non-nil path calls Reset(<the new stream>) on the pooled object before any return. (R3) each of the 8 Close methods that return an object to a pool: has a pointer receiver, tests the wrapper's field for nil, clears that field through the receiver in the same guarded region as the single Put, resets the object to a null stream before Put and puts exactly the object it took from the field — a second Close cannot Put the object twice, so two later users never share one decoder. (R4) compress.Codecs[i].Code() == i for every installed codec and the codes are Kafka's (gzip 1, snappy 2, lz4 3, zstd 4); names are distinct. (R5) no method of a Codec type stores to a Codec field (the pools are internally synchronised): a codec value is shareable. (R6) xerial framing: the writer flushes mid-stream only under fullEnough(), which requires framed, so an unframed stream is one snappy block; the stream header is written only while nothing has been written (nbytes == 0) and is the 16-byte magic+version; every block is preceded by a big-endian uint32 length taken from len(block); the reader reads the 16-byte header only at stream start (nbytes == 0), recognises it by the same 8 magic bytes, and reads a big-endian uint32 length followed by exactly that many bytes; header scratch is fully written before it is sent. Not decided: losslessness, acceptance by and of reference encoders/decoders (third-party code and value-level reasoning), behaviour for every chunking of reads and writes, data races inside third-party codecs.",
		Rule:    "one obligation per field, pool site, Close method, table entry and framing fact",
		Trusted: []string{"go/ssa", "value provenance (internal/an/flow.go)", "CFG must-pass search (internal/an/cfg.go)", "sync.Pool is safe for concurrent use; the third-party Reset methods fully reinitialise their objects"},
	}})
}

var c16Pkgs = []string{"compress/gzip", "compress/snappy", "compress/lz4", "compress/zstd"}

func runC16(p *load.Program, r *oblig.Report) {
	c16ResetAll(p, r)
	c16Acquire(p, r)
	c16Release(p, r)
	c16Table(p, r)
	c16Shareable(p, r)
	c16Framing(p, r)
	c16NoDecoderLimits(p, r)
	c16SnappyEncoders(p, r)
	c16FrameLength(p, r)
	c16ShortStreamsAreUnframed(p, r, "C16.R11 streams shorter than the xerial header are unframed blocks")
	c16OutputFromOffset(p, r)
	c16ReadFromCounts(p, r)
}

// c16SnappyEncoders: whatever compression level is chosen, the blocks the snappy codec writes are in the Snappy block
// format (readable by the reference decoder): the s2 package also offers encoders that emit its own incompatible
// extension of the format (Encode, EncodeBetter, EncodeBest), which the codec's own reader happens to accept.
func c16SnappyEncoders(p *load.Program, r *oblig.Report) {
	const rule = "C16.R8 the snappy codec only uses encoders that emit the Snappy format"
	n := 0
	var bad []string
	for _, fn := range pkgFuncs(p, "compress/snappy") {
		an.EachInstr(fn, func(ins ssa.Instruction) {
			st, ok := ins.(*ssa.Store)
			if !ok {
				return
			}
			fa, ok := st.Addr.(*ssa.FieldAddr)
			if !ok || an.FieldName(fa.X.Type(), fa.Field) != "encode" {
				return
			}
			var vals []ssa.Value
			var walk func(v ssa.Value, seen map[ssa.Value]bool)
			walk = func(v ssa.Value, seen map[ssa.Value]bool) {
				if seen[v] {
					return
				}
				seen[v] = true
				if ph, isPhi := v.(*ssa.Phi); isPhi {
					for _, e := range ph.Edges {
						walk(e, seen)
					}
					return
				}
				vals = append(vals, v)
			}
			walk(st.Val, map[ssa.Value]bool{})
			for _, v := range vals {
				f, isFn := v.(*ssa.Function)
				if !isFn {
					continue // a value handed in by the caller (Reset keeps the field; constructors pass one of the below)
				}
				n++
				pkgPath := ""
				if f.Pkg != nil {
					pkgPath = f.Pkg.Pkg.Path()
				}
				okFmt := strings.HasSuffix(pkgPath, "/snappy") || (strings.HasSuffix(pkgPath, "/s2") && strings.HasPrefix(f.Name(), "EncodeSnappy"))
				if !okFmt {
					bad = append(bad, an.ShortFunc(f)+" at "+p.Pos(st.Pos()))
				}
			}
		})
	}
	sort.Strings(bad)
	r.Check(len(bad) == 0, rule, "compress/snappy: every encoder installed in a writer is snappy.Encode or an s2.EncodeSnappy* function", "-", fmt.Sprintf("%d encoder values examined", n), strings.Join(bad, "; "))
	r.RequireCount(rule, n, 3)
}

// c16NoDecoderLimits: a stream produced by a conforming encoder (the package's own or a reference one) declares
// window and content sizes chosen by that encoder, not by the size of the data: a decoder configured with a window or
// memory limit rejects valid streams. No such option is used by the codecs.
func c16NoDecoderLimits(p *load.Program, r *oblig.Report) {
	const rule = "C16.R7 decoders accept every valid stream of their format"
	banned := map[string]bool{"WithDecoderMaxWindow": true, "WithDecoderMaxMemory": true}
	// gzip: a stream may consist of several members (RFC 1952; reference encoders produce them after Reset or when
	// files are concatenated): the reader must stay in multistream mode
	var single []string
	for _, fn := range pkgFuncs(p, "compress/gzip") {
		an.EachInstr(fn, func(ins ssa.Instruction) {
			if c, ok := ins.(*ssa.Call); ok && c.Call.StaticCallee() != nil && an.RefFuncName(c.Call.StaticCallee()) == "Multistream" {
				if k, isK := c.Call.Args[len(c.Call.Args)-1].(*ssa.Const); !isK || !constant.BoolVal(k.Value) {
					single = append(single, "Multistream(false) at "+p.Pos(c.Pos()))
				}
			}
		})
	}
	r.Check(len(single) == 0, rule, "compress/gzip reads every member of a gzip stream", "-", "no Multistream(false)", strings.Join(single, "; "))
	var hits []string
	nNew := 0
	for _, rel := range []string{"compress", "compress/gzip", "compress/snappy", "compress/lz4", "compress/zstd"} {
		for _, fn := range pkgFuncs(p, rel) {
			an.EachInstr(fn, func(ins ssa.Instruction) {
				c, ok := ins.(*ssa.Call)
				if !ok || c.Call.StaticCallee() == nil {
					return
				}
				sc := c.Call.StaticCallee()
				if sc.Pkg == nil || !strings.Contains(sc.Pkg.Pkg.Path(), "klauspost/compress/zstd") {
					return
				}
				if an.RefFuncName(sc) == "NewReader" {
					nNew++
				}
				if banned[an.RefFuncName(sc)] {
					hits = append(hits, an.RefFuncName(sc)+" at "+p.Pos(c.Pos()))
				}
			})
		}
	}
	sort.Strings(hits)
	r.Check(nNew > 0 && len(hits) == 0, rule, "compress/zstd creates its decoders without a window or memory limit", "-", fmt.Sprintf("none of %v (decoder constructions seen: %d)", []string{"WithDecoderMaxMemory", "WithDecoderMaxWindow"}, nNew), strings.Join(hits, "; "))
}

func pkgFuncs(p *load.Program, rel string) []*ssa.Function {
	var out []*ssa.Function
	want := load.ModPath + "/" + rel
	for _, fn := range p.ModuleFunctions() {
		if fn.Pkg != nil && fn.Pkg.Pkg.Path() == want && fn.Blocks != nil {
			out = append(out, fn)
		}
	}
	return out
}

func isPoolCall(c *ssa.CallCommon, name string) bool {
	f := c.StaticCallee()
	return f != nil && an.RefFuncName(f) == name && f.Signature.Recv() != nil && an.NamedIs(f.Signature.Recv().Type(), "sync", "Pool")
}

// ---- R1

func c16ResetAll(p *load.Program, r *oblig.Report) {
	const rule = "C16.R1 no per-stream state survives Reset"
	type exc struct{ kind, why string }
	exceptions := map[string]exc{
		"xerialReader.decode": {"construction", "decoder function, set when the object is built and never changed"},
		"xerialWriter.framed": {"acquire", "chosen by the codec on every NewWriter"},
		"xerialWriter.encode": {"acquire", "chosen by the codec on every NewWriter"},
		"xerialWriter.header": {"scratch", "filled by writeXerialHeader/writeXerialFrame before each use"},
	}
	n := 0
	for _, tn := range []string{"xerialReader", "xerialWriter"} {
		reset := p.Func("compress/snappy", "(*"+tn+").Reset")
		if reset == nil {
			r.Lost(rule, "compress/snappy.(*"+tn+").Reset")
			continue
		}
		st, ok := deref(reset.Params[0].Type()).Underlying().(*types.Struct)
		if !ok {
			r.Lost(rule, "compress/snappy."+tn+" struct")
			continue
		}
		// stores in Reset
		stores := map[string]*ssa.Store{}
		an.EachInstr(reset, func(ins ssa.Instruction) {
			if s, isS := ins.(*ssa.Store); isS {
				if fa, isFA := s.Addr.(*ssa.FieldAddr); isFA && fa.X == ssa.Value(reset.Params[0]) {
					stores[an.FieldName(fa.X.Type(), fa.Field)] = s
				}
			}
		})
		for i := 0; i < st.NumFields(); i++ {
			f := st.Field(i).Name()
			key := tn + "." + f
			n++
			if s := stores[f]; s != nil {
				okVal, desc := emptyValue(s.Val, reset, f)
				uncond, _ := an.MustPass(reset, an.EntryPoint(reset), func(i ssa.Instruction) bool { return i == ssa.Instruction(s) }, nil)
				r.Check(okVal && uncond, rule, "compress/snappy."+key+" is emptied by Reset", p.Pos(s.Pos()), "unconditional store of the new stream / zero / self[:0]", fmt.Sprintf("value=%s unconditional=%v", desc, uncond))
				continue
			}
			e, has := exceptions[key]
			if !has {
				r.Bad(rule, "compress/snappy."+key+" is emptied by Reset", p.Pos(reset.Pos()), "a store in Reset (or a reviewed exception)", "field is never reset")
				continue
			}
			switch e.kind {
			case "construction":
				// no store anywhere outside composite construction in NewReader
				bad := ""
				for _, fn := range pkgFuncs(p, "compress/snappy") {
					an.EachInstr(fn, func(ins ssa.Instruction) {
						if s, isS := ins.(*ssa.Store); isS {
							if fa, isFA := s.Addr.(*ssa.FieldAddr); isFA && an.NamedIs(fa.X.Type(), load.ModPath+"/compress/snappy", tn) && an.FieldName(fa.X.Type(), fa.Field) == f {
								if _, fresh := fa.X.(*ssa.Alloc); !fresh {
									bad = p.Pos(s.Pos())
								}
							}
						}
					})
				}
				r.Check(bad == "", rule, "compress/snappy."+key+" is fixed at construction ("+e.why+")", p.Pos(reset.Pos()), "stored only into a freshly allocated object", "also stored at "+bad)
			case "acquire":
				nw := p.Func("compress/snappy", "(*Codec).NewWriter")
				if nw == nil {
					r.Lost(rule, "compress/snappy.(*Codec).NewWriter")
					continue
				}
				// every path from entry to return stores the field
				ok, exit := an.MustPass(nw, an.EntryPoint(nw), func(ins ssa.Instruction) bool {
					s, isS := ins.(*ssa.Store)
					if !isS {
						return false
					}
					fa, isFA := s.Addr.(*ssa.FieldAddr)
					return isFA && an.NamedIs(fa.X.Type(), load.ModPath+"/compress/snappy", tn) && an.FieldName(fa.X.Type(), fa.Field) == f
				}, nil)
				found := "every path stores it"
				if !ok && exit != nil {
					found = "a path to the return at " + p.Pos(exit.Pos()) + " leaves the previous user's value"
				}
				r.Check(ok, rule, "compress/snappy."+key+" is assigned on every acquisition ("+e.why+")", p.Pos(nw.Pos()), "every path of NewWriter stores the field", found)
			case "scratch":
				r.Check(c16HeaderScratch(p), rule, "compress/snappy."+key+" is written in full before each use ("+e.why+")", p.Pos(reset.Pos()), "each write(x.header[:k]) is preceded in its block by writeXerialHeader/Frame(x.header[:k])", "a use without a preceding fill")
			}
		}
	}
	r.RequireCount(rule, n, 14)
}

// emptyValue: the value stored by Reset carries nothing of the previous stream.
func emptyValue(v ssa.Value, reset *ssa.Function, field string) (bool, string) {
	switch x := v.(type) {
	case *ssa.Parameter:
		return true, "parameter " + x.Name()
	case *ssa.Const:
		if x.Value == nil {
			return true, "zero"
		}
		if x.Value.Kind() == constant.Int {
			if i, ok := constant.Int64Val(x.Value); ok && i == 0 {
				return true, "0"
			}
		}
		if x.Value.Kind() == constant.Bool && !constant.BoolVal(x.Value) {
			return true, "false"
		}
		return false, "constant " + x.Value.String()
	case *ssa.Slice:
		// self[:0]
		if x.Low == nil && x.High != nil {
			if k, ok := an.ConstInt(x.High); ok && k == 0 && x.Max == nil {
				if ld, isLd := x.X.(*ssa.UnOp); isLd && ld.Op == token.MUL {
					if fa, isFA := ld.X.(*ssa.FieldAddr); isFA && fa.X == ssa.Value(reset.Params[0]) && an.FieldName(fa.X.Type(), fa.Field) == field {
						return true, "self[:0]"
					}
				}
			}
		}
		return false, clean(an.Shape(v))
	case *ssa.UnOp:
		// load of a zero-initialised local composite ([16]byte{})
		if al, ok := x.X.(*ssa.Alloc); ok && x.Op == token.MUL {
			stored := false
			for _, ref := range *al.Referrers() {
				if _, isSt := ref.(*ssa.Store); isSt {
					stored = true
				}
				if _, isIA := ref.(*ssa.IndexAddr); isIA {
					stored = true
				}
				if _, isFA := ref.(*ssa.FieldAddr); isFA {
					stored = true
				}
			}
			if !stored {
				return true, "zero composite"
			}
		}
	}
	return false, clean(an.Shape(v))
}

// c16HeaderScratch: in xerialWriter.Flush every x.write(x.header[a:b]) is preceded in its block by a
// fill of the same slice bounds.
func c16HeaderScratch(p *load.Program) bool {
	fl := p.Func("compress/snappy", "(*xerialWriter).Flush")
	if fl == nil {
		return false
	}
	ok := true
	uses := 0
	// header must not be read anywhere else
	for _, fn := range pkgFuncs(p, "compress/snappy") {
		an.EachInstr(fn, func(ins ssa.Instruction) {
			fa, isFA := ins.(*ssa.FieldAddr)
			if !isFA || !an.NamedIs(fa.X.Type(), load.ModPath+"/compress/snappy", "xerialWriter") || an.FieldName(fa.X.Type(), fa.Field) != "header" {
				return
			}
			if fn != fl {
				ok = false
			}
		})
	}
	for _, b := range an.Blocks(fl) {
		filled := map[string]bool{}
		for _, ins := range b.Instrs {
			c, isC := ins.(*ssa.Call)
			if !isC || c.Call.StaticCallee() == nil || len(c.Call.Args) == 0 {
				continue
			}
			name := an.RefFuncName(c.Call.StaticCallee())
			switch name {
			case "writeXerialHeader", "writeXerialFrame":
				s := clean(an.Shape(c.Call.Args[0]))
				if strings.HasPrefix(s, "x.header[") {
					filled[s] = true
				}
				if s == "x.header" { // the whole array passed by address
					filled["x.header[:]"] = true
				}
			case "write":
				s := clean(an.Shape(c.Call.Args[len(c.Call.Args)-1]))
				if strings.HasPrefix(s, "x.header[") {
					uses++
					if !filled[s] {
						ok = false
					}
				}
			}
		}
	}
	return ok && uses >= 2
}

// ---- R2

func c16Acquire(p *load.Program, r *oblig.Report) {
	const rule = "C16.R2 a pooled object is Reset to the new stream before it is handed out"
	n := 0
	for _, rel := range c16Pkgs {
		for _, fn := range pkgFuncs(p, rel) {
			for _, ci := range callsTo(fn, func(c *ssa.CallCommon) bool { return isPoolCall(c, "Get") }) {
				get := ci.(*ssa.Call)
				n++
				construct := rel + "." + load.FuncName(fn) + " → " + clean(an.Shape(get.Call.Args[0])) + ".Get"
				if len(fn.Params) < 2 {
					r.Bad(rule, construct, p.Pos(get.Pos()), "constructor with a stream parameter", "no stream parameter")
					continue
				}
				stream := fn.Params[len(fn.Params)-1]
				fromGet := func(v ssa.Value) bool {
					for _, o := range an.Origins(v, an.FlowOpts{}) {
						if o.Val == ssa.Value(get) {
							return true
						}
					}
					return false
				}
				isReset := func(ins ssa.Instruction) bool {
					c, ok := ins.(*ssa.Call)
					if !ok {
						return false
					}
					f := c.Call.StaticCallee()
					if f == nil || an.RefFuncName(f) != "Reset" || f.Signature.Recv() == nil || len(c.Call.Args) != 2 {
						return false
					}
					if !fromGet(c.Call.Args[0]) {
						return false
					}
					for _, o := range an.Origins(c.Call.Args[1], an.FlowOpts{}) {
						if o.Kind != "param" || o.Name != an.ParamName(stream) || o.Path != "" {
							return false
						}
					}
					return true
				}
				nilEdge := an.NilEdge(fromGet, true)
				edge := func(b *ssa.BasicBlock, si int) bool {
					// `x, ok := pool.Get().(*T)`: on the !ok edge x is the zero value, i.e. nil
					if iff, ci := an.IfCond(b); iff != nil && ci != nil && ci.Op == token.ILLEGAL {
						if ex, isEx := ci.X.(*ssa.Extract); isEx && ex.Index == 1 {
							if ta, isTA := ex.Tuple.(*ssa.TypeAssert); isTA && ta.CommaOk && fromGet(ta.X) {
								okEdge := si == 0
								if ci.Neg {
									okEdge = !okEdge
								}
								return okEdge
							}
						}
					}
					return nilEdge(b, si)
				}
				ok, exit := an.MustPass(fn, an.PointOf(get), isReset, edge)
				found := "every non-nil path resets"
				if !ok && exit != nil {
					found = "the return at " + p.Pos(exit.Pos()) + " is reachable with a pooled object that was not Reset(" + an.ParamName(stream) + ")"
				}
				// the nil test exists (otherwise NilEdge prunes nothing and a nil object would be Reset: a crash, but not our concern)
				r.Check(ok, rule, construct, p.Pos(get.Pos()), "obj.Reset("+an.ParamName(stream)+") on every path on which obj != nil", found)
			}
		}
	}
	r.RequireCount(rule, n, 8)
}

// ---- R3

func c16Release(p *load.Program, r *oblig.Report) {
	c16ReleaseAs(p, r, "C16.R3 Close returns the object to its pool once, reset, and forgets it")
}

func c16ReleaseAs(p *load.Program, r *oblig.Report, rule string) {
	n := 0
	for _, rel := range c16Pkgs {
		for _, fn := range pkgFuncs(p, rel) {
			puts := callsTo(fn, func(c *ssa.CallCommon) bool { return isPoolCall(c, "Put") })
			if len(puts) == 0 || an.RefFuncName(fn) != "Close" {
				continue
			}
			n++
			construct := rel + "." + load.FuncName(fn)
			if len(puts) != 1 {
				r.Bad(rule, construct, p.Pos(fn.Pos()), "one Put", fmt.Sprint(len(puts)))
				continue
			}
			put := puts[0].(*ssa.Call)
			recv := fn.Params[0]
			_, ptrRecv := recv.Type().Underlying().(*types.Pointer)
			// the object put: a load of recv.field
			var field string
			okObj := true
			for _, o := range an.Origins(put.Call.Args[1], an.FlowOpts{}) {
				if o.Kind == "param" && o.Name == an.ParamName(recv) && strings.Count(o.Path, ".") == 1 && !strings.Contains(o.Path, "[") {
					if field != "" && field != o.Path {
						okObj = false
					}
					field = o.Path
				} else {
					okObj = false
				}
			}
			if field == "" {
				okObj = false
			}
			isField := func(v ssa.Value) bool {
				ld, ok := v.(*ssa.UnOp)
				if !ok || ld.Op != token.MUL {
					return false
				}
				fa, ok := ld.X.(*ssa.FieldAddr)
				return ok && fa.X == ssa.Value(recv) && "."+an.FieldName(fa.X.Type(), fa.Field) == field
			}
			// the Put may sit in a release helper that did not exist at review time: the guard and the clearing of the
			// field are then looked for around the helper's call site in Close
			var at ssa.Instruction = put
			if put.Parent() != fn {
				for _, site := range an.SitesOf(put.Parent()) {
					if si, ok := site.(ssa.Instruction); ok && si.Parent() == fn {
						at = si
					}
				}
			}
			// guard: the Put runs only when the field was non-nil
			guarded := false
			for d, child := at.Block().Idom(), at.Block(); d != nil; d, child = d.Idom(), d {
				_, ci := an.IfCond(d)
				if ci == nil || !an.IsNilConst(ci.Y) || !isField(ci.X) {
					continue
				}
				nonNilIdx := 0
				if (ci.Op == token.EQL) != ci.Neg {
					nonNilIdx = 1
				}
				if edgeControls(d, nonNilIdx, child) {
					guarded = true
				}
			}
			// the field is cleared through the receiver in the Put's region
			cleared := false
			an.EachInstr(fn, func(ins ssa.Instruction) {
				s, ok := ins.(*ssa.Store)
				if !ok || !an.IsNilConst(s.Val) {
					return
				}
				fa, ok := s.Addr.(*ssa.FieldAddr)
				if !ok || fa.X != ssa.Value(recv) || "."+an.FieldName(fa.X.Type(), fa.Field) != field {
					return
				}
				if s.Block() == at.Block() || s.Block().Dominates(at.Block()) {
					// and after the nil test
					cleared = true
				}
			})
			// reset to a null stream before Put
			resetOK := false
			an.EachInstr(fn, func(ins ssa.Instruction) {
				c, ok := ins.(*ssa.Call)
				if !ok || c.Call.StaticCallee() == nil || an.RefFuncName(c.Call.StaticCallee()) != "Reset" || len(c.Call.Args) != 2 {
					return
				}
				if !an.Dominates(c, put) {
					return
				}
				sameObj := true
				for _, o := range an.Origins(c.Call.Args[0], an.FlowOpts{}) {
					if !(o.Kind == "param" && o.Name == an.ParamName(recv) && o.Path == field) {
						sameObj = false
					}
				}
				if sameObj && nullStream(c.Call.Args[1]) {
					resetOK = true
				}
			})
			r.Check(ptrRecv && okObj && guarded && cleared && resetOK, rule, construct, p.Pos(put.Pos()),
				"pointer receiver; if obj := w.f; obj != nil { w.f = nil; obj.Reset(<null stream>); pool.Put(obj) }",
				fmt.Sprintf("pointerReceiver=%v putsOwnField=%v(%s) guardedByNilTest=%v fieldCleared=%v resetToNullBeforePut=%v", ptrRecv, okObj, field, guarded, cleared, resetOK))
		}
	}
	r.RequireCount(rule, n, 8)
}

// nullStream: nil, or an interface made of an empty struct value (emptyReader{}, devNull{}).
func nullStream(v ssa.Value) bool {
	if an.IsNilConst(v) {
		return true
	}
	mi, ok := v.(*ssa.MakeInterface)
	if !ok {
		return false
	}
	st, ok := mi.X.Type().Underlying().(*types.Struct)
	return ok && st.NumFields() == 0
}

// ---- R4

func c16Table(p *load.Program, r *oblig.Report) {
	const rule = "C16.R4 codec table"
	pkg := p.SSAPkg("compress")
	if pkg == nil {
		r.Lost(rule, "compress package")
		return
	}
	initFn := pkg.Func("init")
	if initFn == nil {
		r.Lost(rule, "compress.init")
		return
	}
	ref := map[int64]string{1: "gzip", 2: "snappy", 3: "lz4", 4: "zstd"}
	seen := map[int64]bool{}
	names := map[string]bool{}
	an.EachInstr(initFn, func(ins ssa.Instruction) {
		st, ok := ins.(*ssa.Store)
		if !ok {
			return
		}
		ia, ok := st.Addr.(*ssa.IndexAddr)
		if !ok {
			return
		}
		g, ok := ia.X.(*ssa.Global)
		if !ok || g.Name() != "Codecs" {
			return
		}
		idx, isK := an.ConstInt(ia.Index)
		if !isK {
			r.Bad(rule, "compress.Codecs entry with a non-constant index", p.Pos(st.Pos()), "constant index", an.Shape(ia.Index))
			return
		}
		if an.IsNilConst(st.Val) {
			return
		}
		mi, ok := st.Val.(*ssa.MakeInterface)
		if !ok {
			r.Bad(rule, fmt.Sprintf("compress.Codecs[%d]", idx), p.Pos(st.Pos()), "a codec value", an.Shape(st.Val))
			return
		}
		seen[idx] = true
		code, name := int64(-1), ""
		ms := p.Prog.MethodSets.MethodSet(mi.X.Type())
		for _, mn := range []string{"Code", "Name"} {
			sel := ms.Lookup(nil, mn)
			if sel == nil {
				sel = ms.Lookup(mi.X.Type().(*types.Pointer).Elem().(*types.Named).Obj().Pkg(), mn)
			}
			if sel == nil {
				continue
			}
			f := p.Prog.MethodValue(sel)
			if f == nil {
				continue
			}
			an.EachInstr(f, func(i2 ssa.Instruction) {
				if ret, isRet := i2.(*ssa.Return); isRet && len(ret.Results) == 1 {
					if c, isC := ret.Results[0].(*ssa.Const); isC && c.Value != nil {
						if mn == "Code" {
							code, _ = constant.Int64Val(c.Value)
						} else {
							name = constant.StringVal(c.Value)
						}
					}
				}
			})
		}
		dup := names[name]
		names[name] = true
		r.Check(code == idx && ref[idx] == name && !dup, rule, fmt.Sprintf("compress.Codecs[%d] is the %s codec", idx, ref[idx]), p.Pos(st.Pos()),
			fmt.Sprintf("Code() == %d, Name() == %q", idx, ref[idx]), fmt.Sprintf("Code() == %d, Name() == %q duplicateName=%v", code, name, dup))
	})
	r.RequireCount(rule, len(seen), 4)
	// Compression.Codec indexes the table by the code within bounds
	cf := p.Func("compress", "(Compression).Codec")
	if cf == nil {
		r.Lost(rule, "compress.(Compression).Codec")
		return
	}
	shapes := returnShapes(cf)
	want := []string{"Codecs[int(c)]", "nil"}
	r.Check(strings.Join(shapes, " ;; ") == strings.Join(want, " ;; "), rule, "compress.(Compression).Codec returns Codecs[code]", p.Pos(cf.Pos()), strings.Join(want, " ;; "), strings.Join(shapes, " ;; "))
}

// ---- R5

func c16Shareable(p *load.Program, r *oblig.Report) {
	const rule = "C16.R5 codec values are shareable"
	n := 0
	for _, rel := range c16Pkgs {
		var bad []string
		for _, fn := range pkgFuncs(p, rel) {
			an.EachInstr(fn, func(ins ssa.Instruction) {
				s, ok := ins.(*ssa.Store)
				if !ok {
					return
				}
				for a := s.Addr; ; {
					fa, isFA := a.(*ssa.FieldAddr)
					if !isFA {
						break
					}
					if an.NamedIs(fa.X.Type(), load.ModPath+"/"+rel, "Codec") {
						bad = append(bad, p.Pos(s.Pos()))
						break
					}
					a = fa.X
				}
			})
		}
		n++
		r.Check(len(bad) == 0, rule, rel+".Codec has no field written by library code", "-", "no store to a Codec field (pools are used only through Get/Put)", strings.Join(bad, ","))
		// package-level pools are sync.Pool values used only through Get/Put
		pkg := p.SSAPkg(rel)
		if pkg == nil {
			continue
		}
		var names []string
		for name, m := range pkg.Members {
			if g, ok := m.(*ssa.Global); ok && !strings.HasPrefix(name, "init$") {
				t := deref(g.Type())
				if !an.NamedIs(t, "sync", "Pool") && globalWrittenOutsideInit(p, rel, g) {
					names = append(names, name)
				}
			}
		}
		sort.Strings(names)
		r.Check(len(names) == 0, rule, rel+" has no mutable package-level state besides sync.Pool", "-", "only sync.Pool globals and tables written by the initialiser alone", strings.Join(names, ","))
	}
	r.RequireCount(rule, n, 4)
}

// globalWrittenOutsideInit: some function other than the package initialiser may write g (stores through its
// address, or its address escaping into a call other than a read-only slice expression).
func globalWrittenOutsideInit(p *load.Program, rel string, g *ssa.Global) bool {
	written := false
	for _, fn := range pkgFuncs(p, rel) {
		if an.RefFuncName(fn) == "init" {
			continue
		}
		an.EachInstr(fn, func(ins ssa.Instruction) {
			for _, op := range ins.Operands(nil) {
				if op == nil || *op != ssa.Value(g) {
					continue
				}
				switch x := ins.(type) {
				case *ssa.UnOp: // load
				case *ssa.Slice:
					// g[:] passed to a reader: allowed when it only feeds copy's source or bytes.Equal
					for _, ref := range *x.Referrers() {
						c, ok := ref.(*ssa.Call)
						if !ok {
							written = true
							continue
						}
						if b, isB := c.Call.Value.(*ssa.Builtin); isB && b.Name() == "copy" && c.Call.Args[1] == ssa.Value(x) && c.Call.Args[0] != ssa.Value(x) {
							continue
						}
						if f := c.Call.StaticCallee(); f != nil && an.ShortFunc(f) == "bytes.Equal" {
							continue
						}
						written = true
					}
				case *ssa.IndexAddr:
					for _, ref := range *x.Referrers() {
						if _, isLd := ref.(*ssa.UnOp); !isLd {
							written = true
						}
					}
				default:
					written = true
				}
			}
		})
	}
	return written
}

// ---- R6

func c16Framing(p *load.Program, r *oblig.Report) {
	const rule = "C16.R6 xerial framing"
	get := func(name string) *ssa.Function {
		f := p.Func("compress/snappy", name)
		if f == nil {
			r.Lost(rule, "compress/snappy."+name)
		}
		return f
	}
	flush, fullEnough, readChunk := get("(*xerialWriter).Flush"), get("(*xerialWriter).fullEnough"), get("(*xerialReader).readChunk")
	isHdr, wHdr, wFrame := get("isXerialHeader"), get("writeXerialHeader"), get("writeXerialFrame")
	if flush == nil || fullEnough == nil || readChunk == nil || isHdr == nil || wHdr == nil || wFrame == nil {
		return
	}
	// (a) mid-stream flushes only under fullEnough(); fullEnough implies framed
	nFlush := 0
	for _, fn := range pkgFuncs(p, "compress/snappy") {
		for _, ci := range callsTo(fn, func(c *ssa.CallCommon) bool { return an.StaticCalleeIs(c, flush) }) {
			c := ci.(*ssa.Call)
			recvT := ""
			if fn.Signature.Recv() != nil {
				recvT = shapeTypeName(fn.Signature.Recv().Type())
			}
			if recvT != "xerialWriter" {
				// the wrapper's Close: final flush
				continue
			}
			nFlush++
			conds := selConds(c)
			ok := false
			for _, cd := range conds {
				if cd == "fullEnough(x)" {
					ok = true
				}
			}
			r.Check(ok, rule, "compress/snappy."+load.FuncName(fn)+" flushes mid-stream only when fullEnough()", p.Pos(c.Pos()), "if x.fullEnough() { x.Flush() }", strings.Join(conds, " ∧ "))
		}
	}
	r.RequireCount(rule+" (mid-stream flush sites)", nFlush, 2)
	// fullEnough returns framed && …: every path returning true passes the framed test
	feOK := false
	if len(fullEnough.Blocks) > 0 {
		_, ci := an.IfCond(fullEnough.Blocks[0])
		if ci != nil && ci.Op == token.ILLEGAL && !ci.Neg && clean(an.Shape(ci.X)) == "x.framed" {
			// the false edge leads to a false result
			feOK = true
			for _, s := range returnShapes(fullEnough) {
				if s == "true" {
					feOK = false
				}
			}
			an.EachInstr(fullEnough, func(ins ssa.Instruction) {
				if ret, isRet := ins.(*ssa.Return); isRet {
					if phi, isPhi := ret.Results[0].(*ssa.Phi); isPhi {
						for i, e := range phi.Edges {
							if phi.Block().Preds[i] == fullEnough.Blocks[0] {
								if c, isC := e.(*ssa.Const); !isC || c.Value == nil || constant.BoolVal(c.Value) {
									feOK = false
								}
							}
						}
					} else {
						feOK = false
					}
				}
			})
		}
	}
	r.Check(feOK, rule, "compress/snappy.(*xerialWriter).fullEnough is false for an unframed writer", p.Pos(fullEnough.Pos()), "return x.framed && …", "not recognised")

	// (b) Flush: header only at stream start, frame length from len(block), big endian
	var hdrGuard, frameGuard []string
	frameArg := ""
	an.EachInstr(flush, func(ins ssa.Instruction) {
		c, ok := ins.(*ssa.Call)
		if !ok || c.Call.StaticCallee() == nil {
			return
		}
		switch c.Call.StaticCallee() {
		case wHdr:
			hdrGuard = selConds(c)
		case wFrame:
			frameGuard = selConds(c)
			frameArg = clean(an.Shape(c.Call.Args[1]))
		}
	})
	has := func(conds []string, want string) bool {
		for _, c := range conds {
			if c == want {
				return true
			}
		}
		return false
	}
	r.Check(has(hdrGuard, "x.framed") && has(hdrGuard, "(0 == x.nbytes)"), rule, "compress/snappy.(*xerialWriter).Flush writes the stream header only when framed and nothing was written yet", p.Pos(flush.Pos()), "x.framed ∧ x.nbytes == 0", strings.Join(hdrGuard, " ∧ "))
	okArg := frameArg == "len(φ{x.input | x.output})"
	r.Check(has(frameGuard, "x.framed") && okArg, rule, "compress/snappy.(*xerialWriter).Flush prefixes each block with its own length when framed", p.Pos(flush.Pos()), "if x.framed { writeXerialFrame(x.header[:4], len(b)) } with b the block written next", strings.Join(frameGuard, " ∧ ")+" arg="+frameArg)
	// the block written last is that same b
	okLast := false
	an.EachInstr(flush, func(ins ssa.Instruction) {
		c, ok := ins.(*ssa.Call)
		if ok && c.Call.StaticCallee() != nil && an.RefFuncName(c.Call.StaticCallee()) == "write" {
			s := clean(an.Shape(c.Call.Args[1]))
			if "len("+s+")" == frameArg {
				okLast = true
			}
		}
	})
	r.Check(okLast, rule, "compress/snappy.(*xerialWriter).Flush writes the block whose length it announced", p.Pos(flush.Pos()), "x.write(b) after writeXerialFrame(len(b))", "announced "+frameArg)
	// (c) endianness and magic agree on both sides
	usesCall := func(fn *ssa.Function, short string) bool {
		found := false
		an.EachInstr(fn, func(ins ssa.Instruction) {
			if c, ok := ins.(*ssa.Call); ok && c.Call.StaticCallee() != nil && an.ShortFunc(c.Call.StaticCallee()) == short {
				found = true
			}
		})
		return found
	}
	r.Check(usesCall(wFrame, "(encoding/binary.bigEndian).PutUint32") && usesCall(readChunk, "(encoding/binary.bigEndian).Uint32"), rule, "xerial block length is a big-endian uint32 on both sides", p.Pos(wFrame.Pos()), "binary.BigEndian.PutUint32 / binary.BigEndian.Uint32", "mismatch")
	// magic bytes
	magic := globalBytes(p, "compress/snappy", "xerialHeader")
	vers := globalBytes(p, "compress/snappy", "xerialVersionInfo")
	r.Check(fmt.Sprint(magic) == "[130 83 78 65 80 80 89 0]" && fmt.Sprint(vers) == "[0 0 0 1 0 0 0 1]", rule, "xerial magic and version bytes", "-", "[130 83 78 65 80 80 89 0] [0 0 0 1 0 0 0 1]", fmt.Sprint(magic, vers))
	hs := returnShapes(isHdr)
	okIs := false
	for _, s := range hs {
		if strings.Contains(s, "bytes.Equal(src[:8],xerialHeader[:])") || (strings.Contains(s, "bytes.Equal(") && strings.Contains(s, "[:8],xerialHeader[:])")) {
			okIs = true
		}
	}
	lenOK := false
	for _, b := range an.Blocks(isHdr) {
		_, ci := an.IfCond(b)
		if ci != nil && ci.Op == token.GEQ && clean(an.Shape(ci.X)) == "len(src)" {
			if k, isK := an.ConstInt(ci.Y); isK && k == 16 {
				lenOK = true
			}
		}
	}
	if len(isHdr.Params) == 1 {
		// a parameter of array type carries its length statically
		t := isHdr.Params[0].Type()
		if pt, isP := t.Underlying().(*types.Pointer); isP {
			t = pt.Elem()
		}
		if arr, isArr := t.Underlying().(*types.Array); isArr && arr.Len() >= 16 {
			lenOK = true
		}
	}
	r.Check(okIs && lenOK, rule, "compress/snappy.isXerialHeader compares the first 8 bytes with the magic and requires 16 bytes", p.Pos(isHdr.Pos()), "len(src) >= 16 && bytes.Equal(src[:8], xerialHeader[:])", strings.Join(hs, " ;; "))
	// (d) reader: header read only at nbytes == 0, with the 16-byte header array; frame = Uint32(input[:4]) then exactly frame bytes
	var hdrRead []string
	nFull := 0
	an.EachInstr(readChunk, func(ins ssa.Instruction) {
		c, ok := ins.(*ssa.Call)
		if !ok || c.Call.StaticCallee() == nil || an.RefFuncName(c.Call.StaticCallee()) != "readFull" {
			return
		}
		nFull++
		if clean(an.Shape(c.Call.Args[1])) == "x.header[:]" {
			hdrRead = selConds(c)
		}
	})
	r.Check(len(hdrRead) == 1 && hdrRead[0] == "(0 == x.nbytes)", rule, "compress/snappy.(*xerialReader).readChunk looks for the xerial header only at the start of the stream", p.Pos(readChunk.Pos()), "if x.nbytes == 0 { x.readFull(x.header[:]) }", strings.Join(hdrRead, " ∧ "))
	r.RequireCount(rule+" (readFull sites in readChunk)", nFull, 3)
	// (e) an unframed stream: the bytes consumed while looking for the header are the start of the data, exactly as
	// many as were read
	putBack := ""
	an.EachInstr(readChunk, func(ins ssa.Instruction) {
		c, ok := ins.(*ssa.Call)
		if !ok || len(c.Call.Args) != 2 {
			return
		}
		if b, isB := c.Call.Value.(*ssa.Builtin); !isB || b.Name() != "append" {
			return
		}
		if s := clean(an.Shape(c.Call.Args[1])); strings.HasPrefix(s, "x.header[") {
			putBack = s
		}
	})
	okPut := strings.HasPrefix(putBack, "x.header[:") && strings.Contains(putBack, "readFull(x,x.header[:])#0")
	r.Check(okPut, rule, "compress/snappy.(*xerialReader).readChunk starts an unframed block with exactly the bytes it read while looking for a header", p.Pos(readChunk.Pos()),
		"x.input = append(x.input, x.header[:n]...) with n the count returned by readFull(x.header[:])", putBack)
	// (f) the count returned is the number of bytes decoded straight into dst: non-zero only after decode(dst, …)
	var badN []string
	nRet := 0
	dst := readChunk.Params[1]
	decodedIntoDst := func(b *ssa.BasicBlock) bool {
		for d := b; d != nil; d = d.Idom() {
			for _, ins := range d.Instrs {
				if c, ok := ins.(*ssa.Call); ok && len(c.Call.Args) == 2 && c.Call.Args[0] == ssa.Value(dst) && strings.HasSuffix(clean(an.Shape(c.Call.Value)), ".decode") {
					return true
				}
			}
		}
		return false
	}
	an.EachInstr(readChunk, func(ins ssa.Instruction) {
		ret, ok := ins.(*ssa.Return)
		if !ok || len(ret.Results) != 2 || ret.Parent() != readChunk {
			return
		}
		nRet++
		v := an.RetVal(ret, 0)
		type edge struct {
			v ssa.Value
			b *ssa.BasicBlock
		}
		edges := []edge{{v, ret.Block()}}
		if ph, isPhi := v.(*ssa.Phi); isPhi {
			edges = nil
			for i, e := range ph.Edges {
				edges = append(edges, edge{e, ph.Block().Preds[i]})
			}
		}
		for _, e := range edges {
			if k, isK := an.ConstInt(e.v); isK && k == 0 {
				continue
			}
			if !decodedIntoDst(e.b) {
				badN = append(badN, clean(an.Shape(e.v))+" returned from the path through "+p.Pos(e.b.Instrs[0].Pos()))
			}
		}
	})
	r.Check(nRet > 0 && len(badN) == 0, rule, "compress/snappy.(*xerialReader).readChunk reports bytes as delivered only when it decoded into the caller's buffer", p.Pos(readChunk.Pos()),
		"n != 0 only on the path through x.decode(dst, x.input)", strings.Join(badN, "; "))
}

func shapeTypeName(t types.Type) string {
	t = deref(t)
	if n, ok := types.Unalias(t).(*types.Named); ok {
		return n.Obj().Name()
	}
	return t.String()
}

// globalBytes evaluates the constant element stores of a package-level byte array initialiser.
func globalBytes(p *load.Program, rel, name string) []int64 {
	pkg := p.SSAPkg(rel)
	if pkg == nil {
		return nil
	}
	initFn := pkg.Func("init")
	g, _ := pkg.Members[name].(*ssa.Global)
	if initFn == nil || g == nil {
		return nil
	}
	arr, ok := deref(g.Type()).Underlying().(*types.Array)
	if !ok {
		return nil
	}
	out := make([]int64, arr.Len())
	an.EachInstr(initFn, func(ins ssa.Instruction) {
		st, ok := ins.(*ssa.Store)
		if !ok {
			return
		}
		ia, ok := st.Addr.(*ssa.IndexAddr)
		if !ok || ia.X != ssa.Value(g) {
			return
		}
		i, ok1 := an.ConstInt(ia.Index)
		v, ok2 := an.ConstInt(st.Val)
		if ok1 && ok2 && i >= 0 && i < int64(len(out)) {
			out[i] = v
		} else {
			out = append(out, -1)
		}
	})
	return out
}

// c16ReadFromCounts: io.Reader may return n > 0 together with an error (io.EOF included): xerialWriter.ReadFrom
// accounts for the bytes of every Read before it looks at the error.
func c16ReadFromCounts(p *load.Program, r *oblig.Report) {
	const rule = "C16.R6 xerial framing"
	fn := p.Func("compress/snappy", "(*xerialWriter).ReadFrom")
	if fn == nil {
		r.Lost(rule, "compress/snappy.(*xerialWriter).ReadFrom")
		return
	}
	var read *ssa.Call
	an.EachInstr(fn, func(ins ssa.Instruction) {
		if c, ok := ins.(*ssa.Call); ok && c.Call.IsInvoke() && c.Call.Method.Name() == "Read" {
			read = c
		}
	})
	if read == nil {
		r.Lost(rule, "r.Read in compress/snappy.(*xerialWriter).ReadFrom")
		return
	}
	ok, bad := an.MustPass(fn, an.PointOf(read), func(i ssa.Instruction) bool {
		st, isSt := fieldStoreIs2(i, "input")
		return isSt && st != nil
	}, nil)
	where := ""
	if bad != nil {
		where = "the exit at " + p.Pos(bad.Pos()) + " is reached before the bytes of the last Read were appended"
	}
	r.Check(ok, rule, "compress/snappy.(*xerialWriter).ReadFrom keeps the bytes a Read returned together with an error", p.Pos(read.Pos()), "x.input = x.input[:len(x.input)+n] before err is examined", where)
}

func fieldStoreIs2(ins ssa.Instruction, field string) (*ssa.Store, bool) {
	st, ok := ins.(*ssa.Store)
	if !ok {
		return nil, false
	}
	fa, ok := st.Addr.(*ssa.FieldAddr)
	if !ok || an.FieldName(fa.X.Type(), fa.Field) != field {
		return nil, false
	}
	return st, true
}

package rules

import (
	"fmt"
	"go/ast"
	"go/constant"
	"go/token"
	"go/types"
	"sort"
	"strings"

	"golang.org/x/tools/go/ssa"

	"kverif/internal/an"
	"kverif/internal/load"
	"kverif/internal/oblig"
)

// The hand-written ("legacy") codec of the root package — writeTo/readFrom methods and structs decoded by the
// generic read() — is compared, type by type, with the Kafka definition (Tier A reference) of the API version it
// is used for. The wire sequence of a legacy type is extracted from the syntax tree of its methods.

type legacyEntry struct {
	Type     string // root-package type name
	API      string // Tier A api name
	Versions []int
	Side     string // request | response
	Elem     string // when the type is an element nested in the API's structure: path of array fields to descend, e.g. "responses/partition_responses"
}

var legacyTable = []legacyEntry{
	{"findCoordinatorRequestV0", "FindCoordinator", []int{0}, "request", ""},
	{"findCoordinatorResponseV0", "FindCoordinator", []int{0}, "response", ""},
	{"heartbeatRequestV0", "Heartbeat", []int{0}, "request", ""},
	{"heartbeatResponseV0", "Heartbeat", []int{0}, "response", ""},
	{"joinGroupRequest", "JoinGroup", []int{1, 2}, "request", ""},
	{"joinGroupResponse", "JoinGroup", []int{1, 2}, "response", ""},
	{"leaveGroupRequestV0", "LeaveGroup", []int{0}, "request", ""},
	{"leaveGroupResponseV0", "LeaveGroup", []int{0}, "response", ""},
	{"listGroupsRequestV1", "ListGroups", []int{1}, "request", ""},
	{"listGroupsResponseV1", "ListGroups", []int{1}, "response", ""},
	{"offsetCommitRequestV2", "OffsetCommit", []int{2}, "request", ""},
	{"offsetCommitResponseV2", "OffsetCommit", []int{2}, "response", ""},
	{"offsetFetchRequestV1", "OffsetFetch", []int{1}, "request", ""},
	{"offsetFetchResponseV1", "OffsetFetch", []int{1}, "response", ""},
	{"syncGroupRequestV0", "SyncGroup", []int{0}, "request", ""},
	{"syncGroupResponseV0", "SyncGroup", []int{0}, "response", ""},
	{"topicMetadataRequestV1", "Metadata", []int{1}, "request", ""},
	{"topicMetadataRequestV6", "Metadata", []int{6}, "request", ""},
	{"metadataResponseV1", "Metadata", []int{1}, "response", ""},
	{"metadataResponseV6", "Metadata", []int{6}, "response", ""},
	{"saslHandshakeRequestV0", "SaslHandshake", []int{0, 1}, "request", ""},
	{"saslHandshakeResponseV0", "SaslHandshake", []int{0, 1}, "response", ""},
	{"saslAuthenticateRequestV0", "SaslAuthenticate", []int{0}, "request", ""},
	{"saslAuthenticateResponseV0", "SaslAuthenticate", []int{0}, "response", ""},
	{"createTopicsRequest", "CreateTopics", []int{0, 1, 2}, "request", ""},
	{"createTopicsResponse", "CreateTopics", []int{0, 1, 2}, "response", ""},
	{"deleteTopicsRequest", "DeleteTopics", []int{0, 1}, "request", ""},
	{"deleteTopicsResponse", "DeleteTopics", []int{0, 1}, "response", ""},
	{"listOffsetRequestV1", "ListOffsets", []int{1}, "request", ""},
	{"listOffsetResponseV1", "ListOffsets", []int{1}, "response", ""},
	{"partitionOffsetV1", "ListOffsets", []int{1}, "response", "topics/partitions"},
	{"produceResponsePartitionV2", "Produce", []int{2}, "response", "responses/partition_responses"},
	{"produceResponsePartitionV7", "Produce", []int{7}, "response", "responses/partition_responses"},
}

type legacySeq struct {
	p       *load.Program
	info    *types.Info
	version int
	side    string
	depth   int
	errs    []string
	consts  map[string]int64
}

func (c *legacySeq) fail(format string, a ...interface{}) {
	c.errs = append(c.errs, fmt.Sprintf(format, a...))
}

func prim(k string) *an.WItem { return &an.WItem{Kind: k} }

// seqOf returns the wire items of a root-package type for the current side.
func (c *legacySeq) seqOf(t types.Type) []*an.WItem {
	c.depth++
	defer func() { c.depth-- }()
	if c.depth > 12 {
		c.fail("nesting too deep at %s", t)
		return nil
	}
	if ptr, ok := t.(*types.Pointer); ok {
		t = ptr.Elem()
	}
	n, _ := types.Unalias(t).(*types.Named)
	method := "writeTo"
	if c.side == "response" {
		method = "readFrom"
	}
	if n != nil {
		if f := rootMethod(c.p, n, method); f != nil {
			decl := c.p.Decl(f)
			if decl == nil || decl.Body == nil {
				c.fail("no body for %s.%s", n.Obj().Name(), method)
				return nil
			}
			if c.side == "request" {
				return c.stmtsW(decl.Body.List)
			}
			return c.stmtsR(decl.Body.List, map[string]*ast.FuncLit{})
		}
	}
	// no method: the generic reflective read()/write() walks the value
	return c.reflectSeq(t)
}

// reflectSeq mirrors read()/write() in read.go / write.go: fields in declaration order.
func (c *legacySeq) reflectSeq(t types.Type) []*an.WItem {
	switch u := t.Underlying().(type) {
	case *types.Basic:
		switch u.Kind() {
		case types.Int8:
			return []*an.WItem{prim("int8")}
		case types.Int16:
			return []*an.WItem{prim("int16")}
		case types.Int32:
			return []*an.WItem{prim("int32")}
		case types.Int64:
			return []*an.WItem{prim("int64")}
		case types.Bool:
			return []*an.WItem{prim("bool")}
		case types.String:
			return []*an.WItem{prim("string")}
		}
	case *types.Slice:
		if b, ok := u.Elem().Underlying().(*types.Basic); ok && b.Kind() == types.Byte {
			return []*an.WItem{prim("bytes")}
		}
		return []*an.WItem{{Kind: "array", Elem: &an.WItem{Kind: "struct", Fields: c.seqOf(u.Elem())}}}
	case *types.Struct:
		var out []*an.WItem
		for i := 0; i < u.NumFields(); i++ {
			out = append(out, c.seqOf(u.Field(i).Type())...)
		}
		return out
	}
	c.fail("type %s has no wire form known to the generic codec", t)
	return nil
}

// versionCond evaluates `x.v OP vN`; ok=false when the condition is of another kind.
func (c *legacySeq) versionCond(e ast.Expr) (val, ok bool) {
	be, isB := e.(*ast.BinaryExpr)
	if !isB {
		return false, false
	}
	sel, isSel := be.X.(*ast.SelectorExpr)
	if !isSel || sel.Sel.Name != "v" {
		return false, false
	}
	tv, has := c.info.Types[be.Y]
	if !has || tv.Value == nil {
		return false, false
	}
	k, _ := constant.Int64Val(tv.Value)
	v := int64(c.version)
	switch be.Op {
	case token.GEQ:
		return v >= k, true
	case token.GTR:
		return v > k, true
	case token.LEQ:
		return v <= k, true
	case token.LSS:
		return v < k, true
	case token.EQL:
		return v == k, true
	case token.NEQ:
		return v != k, true
	}
	return false, false
}

func isNilCompare(e ast.Expr) bool {
	be, ok := e.(*ast.BinaryExpr)
	if !ok || (be.Op != token.EQL && be.Op != token.NEQ) {
		return false
	}
	id, ok := be.Y.(*ast.Ident)
	return ok && id.Name == "nil"
}

func (c *legacySeq) isWriteBuffer(e ast.Expr) bool {
	t := c.info.TypeOf(e)
	return t != nil && an.NamedIs(t, load.ModPath, "writeBuffer")
}

// ---- write side

// lenArgOf recognises wb.writeInt32(int32(len(X))) / wb.writeArrayLen(len(X)) and returns X.
func (c *legacySeq) lenArgOf(call *ast.CallExpr) string {
	sel, ok := call.Fun.(*ast.SelectorExpr)
	if !ok || !c.isWriteBuffer(sel.X) || (sel.Sel.Name != "writeInt32" && sel.Sel.Name != "writeArrayLen") || len(call.Args) != 1 {
		return ""
	}
	a := call.Args[0]
	if conv, isConv := a.(*ast.CallExpr); isConv && len(conv.Args) == 1 {
		if id, isID := conv.Fun.(*ast.Ident); isID && id.Name == "int32" {
			a = conv.Args[0]
		}
	}
	if l, isL := a.(*ast.CallExpr); isL && len(l.Args) == 1 {
		if id, isID := l.Fun.(*ast.Ident); isID && id.Name == "len" {
			return types.ExprString(l.Args[0])
		}
	}
	return ""
}

func (c *legacySeq) stmtsW(list []ast.Stmt) []*an.WItem {
	var out []*an.WItem
	lastLen := ""
	for _, s := range list {
		prevLen := lastLen
		lastLen = ""
		switch x := s.(type) {
		case *ast.ExprStmt:
			if call, ok := x.X.(*ast.CallExpr); ok {
				if l := c.lenArgOf(call); l != "" {
					out = append(out, prim("int32"))
					lastLen = l
					continue
				}
				out = append(out, c.callW(call)...)
			}
		case *ast.RangeStmt:
			// a 4-byte length followed by a loop over the same collection is an array
			if prevLen != "" && types.ExprString(x.X) == prevLen && len(out) > 0 {
				el := c.stmtsW(x.Body.List)
				out[len(out)-1] = &an.WItem{Kind: "array", Elem: elemOf(el)}
				continue
			}
			c.fail("loop in an encoder that is not preceded by the length of the same collection")
		case *ast.BlockStmt:
			out = append(out, c.stmtsW(x.List)...)
		case *ast.IfStmt:
			if v, ok := c.versionCond(x.Cond); ok {
				if v {
					out = append(out, c.stmtsW(x.Body.List)...)
				} else if x.Else != nil {
					out = append(out, c.stmtsW([]ast.Stmt{x.Else})...)
				}
				continue
			}
			if isNilCompare(x.Cond) && x.Else != nil {
				a := c.stmtsW(x.Body.List)
				b := c.stmtsW([]ast.Stmt{x.Else})
				if x.Cond.(*ast.BinaryExpr).Op == token.NEQ {
					a, b = b, a
				}
				// a = nil branch (must be the null marker), b = value branch
				if len(a) == 1 && a[0].Kind == "nullmarker" && len(b) == 1 && b[0].Kind == "array" {
					b[0].Nullable = true
					out = append(out, b[0])
					continue
				}
			}
			c.fail("unrecognised condition in an encoder: %s", types.ExprString(x.Cond))
		case *ast.ReturnStmt, *ast.DeclStmt, *ast.EmptyStmt:
		case *ast.AssignStmt:
			if containsWBCall(c, x) {
				c.fail("wire write inside an assignment")
			}
		case *ast.ForStmt:
			c.fail("loop in an encoder (arrays are expected to go through writeArray)")
		default:
			c.fail("unrecognised statement %T in an encoder", s)
		}
	}
	return out
}

func containsWBCall(c *legacySeq, n ast.Node) bool {
	found := false
	ast.Inspect(n, func(m ast.Node) bool {
		if call, ok := m.(*ast.CallExpr); ok {
			if sel, isSel := call.Fun.(*ast.SelectorExpr); isSel && c.isWriteBuffer(sel.X) {
				found = true
			}
		}
		return true
	})
	return found
}

func (c *legacySeq) callW(call *ast.CallExpr) []*an.WItem {
	sel, ok := call.Fun.(*ast.SelectorExpr)
	if !ok {
		return nil
	}
	if c.isWriteBuffer(sel.X) {
		switch sel.Sel.Name {
		case "writeInt8":
			return []*an.WItem{prim("int8")}
		case "writeInt16":
			return []*an.WItem{prim("int16")}
		case "writeInt32":
			return []*an.WItem{prim("int32")}
		case "writeInt64":
			return []*an.WItem{prim("int64")}
		case "writeBool":
			return []*an.WItem{prim("bool")}
		case "writeString":
			return []*an.WItem{prim("string")}
		case "writeNullableString":
			return []*an.WItem{{Kind: "string", Nullable: true}}
		case "writeBytes":
			return []*an.WItem{{Kind: "bytes", Nullable: true}}
		case "writeStringArray":
			return []*an.WItem{{Kind: "array", Elem: prim("string")}}
		case "writeInt32Array":
			return []*an.WItem{{Kind: "array", Elem: prim("int32")}}
		case "writeArrayLen":
			if tv, has := c.info.Types[call.Args[0]]; has && tv.Value != nil {
				if k, _ := constant.Int64Val(tv.Value); k == -1 {
					return []*an.WItem{prim("nullmarker")}
				}
			}
			c.fail("writeArrayLen with a length that is not the null marker")
			return nil
		case "writeArray":
			fl, isFL := call.Args[1].(*ast.FuncLit)
			if !isFL {
				c.fail("writeArray with a non-literal element writer")
				return nil
			}
			el := c.stmtsW(fl.Body.List)
			return []*an.WItem{{Kind: "array", Elem: elemOf(el)}}
		default:
			c.fail("encoder primitive %s is not in the table", sel.Sel.Name)
			return nil
		}
	}
	if sel.Sel.Name == "writeTo" && len(call.Args) == 1 && c.isWriteBuffer(call.Args[0]) {
		return c.seqOf(c.info.TypeOf(sel.X))
	}
	return nil
}

func elemOf(items []*an.WItem) *an.WItem {
	if len(items) == 1 && items[0].Kind != "struct" {
		return items[0]
	}
	return &an.WItem{Kind: "struct", Fields: items}
}

// ---- read side

var readPrims = map[string]string{"readInt8": "int8", "readInt16": "int16", "readInt32": "int32", "readInt64": "int64", "readBool": "bool", "readString": "string", "readBytes": "bytes"}

func (c *legacySeq) stmtsR(list []ast.Stmt, fns map[string]*ast.FuncLit) []*an.WItem {
	var out []*an.WItem
	for _, s := range list {
		switch x := s.(type) {
		case *ast.IfStmt:
			if v, ok := c.versionCond(x.Cond); ok && x.Init == nil {
				if v {
					out = append(out, c.stmtsR(x.Body.List, fns)...)
				} else if x.Else != nil {
					out = append(out, c.stmtsR([]ast.Stmt{x.Else}, fns)...)
				}
				continue
			}
			if as, ok := x.Init.(*ast.AssignStmt); ok && len(as.Rhs) == 1 {
				if call, isCall := as.Rhs[0].(*ast.CallExpr); isCall {
					out = append(out, c.callR(call, fns)...)
					continue
				}
			}
			// `if err != nil { return }` after a plain assignment
			if containsReadCall(x) {
				c.fail("unrecognised conditional read: %s", types.ExprString(x.Cond))
			}
		case *ast.AssignStmt:
			if len(x.Rhs) == 1 {
				if fl, ok := x.Rhs[0].(*ast.FuncLit); ok {
					if id, isID := x.Lhs[0].(*ast.Ident); isID {
						fns[id.Name] = fl
					}
					continue
				}
				if call, ok := x.Rhs[0].(*ast.CallExpr); ok {
					out = append(out, c.callR(call, fns)...)
					continue
				}
			}
		case *ast.BlockStmt:
			out = append(out, c.stmtsR(x.List, fns)...)
		case *ast.ReturnStmt:
			for _, res := range x.Results {
				if call, ok := res.(*ast.CallExpr); ok {
					out = append(out, c.callR(call, fns)...)
				}
			}
		case *ast.DeclStmt, *ast.EmptyStmt, *ast.ExprStmt:
		case *ast.RangeStmt, *ast.ForStmt:
			if containsReadCall(x) {
				c.fail("loop in a decoder (arrays are expected to go through readArrayWith)")
			}
		default:
			c.fail("unrecognised statement %T in a decoder", s)
		}
	}
	return out
}

func containsReadCall(n ast.Node) bool {
	found := false
	ast.Inspect(n, func(m ast.Node) bool {
		if call, ok := m.(*ast.CallExpr); ok {
			name := ""
			switch f := call.Fun.(type) {
			case *ast.Ident:
				name = f.Name
			case *ast.SelectorExpr:
				name = f.Sel.Name
			}
			if _, isPrim := readPrims[name]; isPrim || name == "readFrom" || name == "readArrayWith" || name == "readStringArray" || name == "readInt32Array" {
				found = true
			}
		}
		return true
	})
	return found
}

func (c *legacySeq) callR(call *ast.CallExpr, fns map[string]*ast.FuncLit) []*an.WItem {
	switch f := call.Fun.(type) {
	case *ast.Ident:
		if k, ok := readPrims[f.Name]; ok {
			it := prim(k)
			if k == "bytes" {
				it.Nullable = true
			}
			return []*an.WItem{it}
		}
		switch f.Name {
		case "readStringArray":
			return []*an.WItem{{Kind: "array", Elem: prim("string")}}
		case "readInt32Array":
			return []*an.WItem{{Kind: "array", Elem: prim("int32")}}
		case "readArrayWith":
			var fl *ast.FuncLit
			switch a := call.Args[2].(type) {
			case *ast.FuncLit:
				fl = a
			case *ast.Ident:
				fl = fns[a.Name]
			case *ast.SelectorExpr:
				// a method value (t.readMember): the element reader is the body of that method
				if sel, ok := c.info.Selections[a]; ok && sel.Kind() == types.MethodVal {
					if mf, isF := sel.Obj().(*types.Func); isF {
						if decl := c.p.Decl(mf); decl != nil && decl.Body != nil {
							el := c.stmtsR(decl.Body.List, map[string]*ast.FuncLit{})
							return []*an.WItem{{Kind: "array", Elem: elemOf(el)}}
						}
					}
				}
			}
			if fl == nil {
				c.fail("readArrayWith with an element reader that is not a local function literal")
				return nil
			}
			el := c.stmtsR(fl.Body.List, map[string]*ast.FuncLit{})
			return []*an.WItem{{Kind: "array", Elem: elemOf(el)}}
		case "expectZeroSize", "append", "len", "make":
			// wrappers without wire effect of their own
			var out []*an.WItem
			for _, a := range call.Args {
				if inner, ok := a.(*ast.CallExpr); ok {
					out = append(out, c.callR(inner, fns)...)
				}
			}
			return out
		case "read":
			// generic reflective read of &x
			if len(call.Args) == 3 {
				return c.seqOf(c.info.TypeOf(call.Args[2]))
			}
		default:
			if strings.HasPrefix(f.Name, "read") || strings.HasPrefix(f.Name, "discard") {
				c.fail("decoder primitive %s is not in the table", f.Name)
			}
		}
	case *ast.SelectorExpr:
		if f.Sel.Name == "readFrom" {
			x := f.X
			if pe, ok := x.(*ast.ParenExpr); ok {
				x = pe.X
			}
			if ue, ok := x.(*ast.UnaryExpr); ok && ue.Op == token.AND {
				x = ue.X
			}
			return c.seqOf(c.info.TypeOf(x))
		}
	}
	return nil
}

// refDescend follows a path of array field names into the reference structure.
func refDescend(fields []*refField, path string) []*refField {
	if path == "" {
		return fields
	}
	for _, name := range strings.Split(path, "/") {
		var next []*refField
		for _, f := range fields {
			if f.Name == name && f.Type == "array" {
				next = f.Elem
			}
		}
		if next == nil {
			return nil
		}
		fields = next
	}
	return fields
}

func c04Sibling(p *load.Program, r *oblig.Report) {
	const rule = "C04.R4 hand-written codec ≡ Kafka definition"
	refs, err := parseRefSchemas(wireSchemaA)
	if err != nil {
		r.Undecided(rule, "Tier A reference", "-", err.Error())
		return
	}
	pk := p.Pkg("")
	if pk == nil {
		r.Lost(rule, "root package")
		return
	}
	scope := pk.Types.Scope()
	n := 0
	for _, e := range legacyTable {
		obj := scope.Lookup(e.Type)
		api := refs[e.API]
		if obj == nil {
			r.Lost(rule, "kafka."+e.Type)
			continue
		}
		if api == nil {
			r.Undecided(rule, "kafka."+e.Type, "-", "API "+e.API+" is not in the Tier A reference")
			continue
		}
		for _, v := range e.Versions {
			n++
			construct := fmt.Sprintf("kafka.%s as %s v%d %s", e.Type, e.API, v, e.Side)
			if e.Elem != "" {
				construct += " element " + e.Elem
			}
			c := &legacySeq{p: p, info: pk.TypesInfo, version: v, side: e.Side}
			items := c.seqOf(obj.Type())
			pos := p.Pos(obj.Pos())
			if len(c.errs) > 0 {
				sort.Strings(c.errs)
				r.Undecided(rule, construct, pos, strings.Join(c.errs, "; "))
				continue
			}
			fields := api.Request
			if e.Side == "response" {
				fields = api.Response
			}
			fields = refDescend(fields, e.Elem)
			if fields == nil {
				r.Undecided(rule, construct, pos, "element path not found in the reference")
				continue
			}
			want := refStruct(fields, v, false).Canon(false)
			got := (&an.WItem{Kind: "struct", Fields: items}).Canon(false)
			r.Check(want == got, rule, construct, pos, want, got, "wire sequence: "+got)
		}
	}
	r.RequireCount(rule, n, 40)

	// the table is tied to the call sites: every request type handed to (*Conn).writeRequest is listed with
	// the api key and version used there
	wr := p.Func("", "(*Conn).writeRequest")
	if wr == nil {
		r.Lost(rule, "kafka.(*Conn).writeRequest")
		return
	}
	keyName := map[int64]string{}
	for _, a := range refs {
		keyName[int64(a.Key)] = a.Name
	}
	byType := map[string]legacyEntry{}
	for _, e := range legacyTable {
		if e.Side == "request" {
			byType[e.Type] = e
		}
	}
	sites := 0
	for _, fn := range p.ModuleFunctions() {
		an.EachInstr(fn, func(ins ssa.Instruction) {
			call, ok := ins.(*ssa.Call)
			if !ok || !an.StaticCalleeIs(&call.Call, wr) {
				return
			}
			sites++
			t := an.Unwrap(call.Call.Args[4]).Type()
			if mi, isMI := call.Call.Args[4].(*ssa.MakeInterface); isMI {
				t = mi.X.Type()
			}
			if ptr, isP := t.(*types.Pointer); isP {
				t = ptr.Elem()
			}
			name := "?"
			if nt, isN := types.Unalias(t).(*types.Named); isN {
				name = nt.Obj().Name()
			}
			key, okK := an.ConstInt(an.Unwrap(call.Call.Args[1]))
			e, listed := byType[name]
			construct := "writeRequest(" + name + ") in " + load.FuncName(fn)
			if !listed {
				r.Bad(rule, construct, p.Pos(call.Pos()), "request type listed in the legacy table", "not listed: its wire form is not compared with the Kafka definition")
				return
			}
			apiOK := okK && keyName[key] == e.API
			verOK := true
			verS := "variable"
			if v, isV := an.ConstInt(an.Unwrap(call.Call.Args[2])); isV {
				verS = fmt.Sprint(v)
				verOK = false
				for _, x := range e.Versions {
					if int64(x) == v {
						verOK = true
					}
				}
			} else {
				// negotiated: every candidate version offered to negotiateVersion is in the table
				verS = "negotiated"
				parent := fn.Parent()
				if parent == nil {
					parent = fn
				}
				for _, cc := range callNamed(parent, "negotiateVersion") {
					for _, a := range an.VarArgs(cc.Call.Args[2]) {
						if v, isV := an.ConstInt(a); isV {
							found := false
							for _, x := range e.Versions {
								if int64(x) == v {
									found = true
								}
							}
							if !found {
								verOK = false
								verS += fmt.Sprintf(" (offers v%d, not in table)", v)
							}
						}
					}
				}
			}
			r.Check(apiOK && verOK, rule, construct, p.Pos(call.Pos()), fmt.Sprintf("api %s, version in %v", e.API, e.Versions), fmt.Sprintf("api key %d (%s), version %s", key, keyName[key], verS))
		})
	}
	r.RequireCount(rule+" (writeRequest sites)", sites, 14)
}

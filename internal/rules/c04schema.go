package rules

import (
	_ "embed"
	"encoding/json"
	"fmt"
	"go/token"
	"go/types"
	"sort"
	"strings"

	"golang.org/x/tools/go/ssa"

	"kverif/internal/an"
	"kverif/internal/load"
	"kverif/internal/oblig"
)

//go:embed ref/wire_schema_B.json
var wireSchemaB []byte

type tierBEntry struct {
	Min      int               `json:"min"`
	Max      int               `json:"max"`
	FlexFrom int               `json:"flex_from"`
	Versions map[string]string `json:"versions"` // version -> canonical wire schema (with nullability)
}

func init() {
	register(&Check{ID: "C04", Run: runC04, Configs: []load.Config{{Tags: "unsafe"}}, Expl: oblig.Explanation{
		Text:        "Static wire-schema check. (R1) For every message type registered with protocol.Register/RegisterOverride and every version in its declared range, the flattened wire schema is derived from the struct definitions and their `kafka:` tags by a mirror of structEncodeFuncOf/makeTypes and compared positionally (wire type, array nesting, compactness, tag buffers, tagged ids) with a reference: Tier A = hand-written Kafka definitions for the 21 APIs the Reader/Writer/Transport/group code depends on (internal/rules/ref/wire_schema_A.txt), Tier B = reviewed snapshot for the remaining admin APIs. Request-side nullability that Kafka forbids is a violation. (R2) Structural sanity of every message: request/response version ranges coincide, alternatives of a field are disjoint, nested fields stay inside the message's range, tagged ids unique, every array element occupies >= 1 byte. (R3) Legacy hand-written codec: size() ≡ bytes of writeTo() for every request type, and h.Size arithmetic of the write*Request functions, by symbolic byte algebra. (R4) Legacy ↔ reflective sibling agreement of wire-type sequences. (R5) Framing: size placeholder first, back-patched with len-4, header order; one frame consumed per ReadResponse. (R6) version gates. (R7) codec primitive wire effects and encoder/decoder dispatch agreement. Not decided: decode(encode(v)) == v for all values, reflection internals, correctness of the hand-written reference itself.",
		Rule:        "one obligation per (message, side, version) for R1; per message for R2; per legacy type/function for R3/R4; per primitive for R7; non-trivial = schema non-empty or an instruction inspected",
		Trusted:     []string{"go/types struct definitions and tags", "mirror of the tag interpreter (internal/an/schema.go), pinned by R6/R7", "hand-written Tier A reference; Tier B snapshot"},
		Assumptions: []string{"the Tier A reference reproduces the Apache Kafka message definitions up to each API's highest version supported by the library"},
	}})
}

func runC04(p *load.Program, r *oblig.Report) {
	c04Schemas(p, r)
	c04Sanity(p, r)
	c04Legacy(p, r)
	c04Sibling(p, r)
	c12LegacyNegotiate(p, r, "C04.R6 version gate")
	c04Framing(p, r)
	c04Primitives(p, r)
	c04EmptyArray(p, r)
	c04VersionedRequests(p, r)
	c04PageAccess(p, r)
	c04Format0NoTimestamp(p, r, "C04.R17 message format 0 has no timestamp field")
	c04FlexibleMarker(p, r, "C04.R18 flexible versions are recognised by the tag marker")
	c04RecordVersionBoundary(p, r, "C04.R16 the record format follows the Produce version")
	varintAcrossRefills(p, r, "C04.R15 a varint of a response decodes to the value the broker encoded, however the bytes arrive")
	// the v2 record batch inside a Produce body: header layout and back-patched fields (C05.R1)
	shareRules(r, "C04", "C04.R10 the record batch of a produce request is canonical", func(sub *oblig.Report) { c05WriterV2(p, sub) })
	// a response is consumed as exactly one frame also when it carries an error code (C11.R1)
	shareRules(r, "C04", "C04.R11 an error code does not leave part of the frame unread", func(sub *oblig.Report) {
		c := newC11(p, sub)
		c.ruleR1()
		c.ruleR13()
	})
	// whether the SASL token travels raw or inside a SaslAuthenticate frame (with its request header) is decided
	// from the negotiated SaslHandshake version (C18.R3)
	shareRules(r, "C04", "C04.R13 the SASL token is framed as the handshake version requires", func(sub *oblig.Report) { c18RawFramed(p, sub) })
	c17StaleSize(p, r, "C04.R8 the hand-written reader consumes exactly what it accounts for")
}

// c04Legacy, c04Framing, c04Primitives are defined in c04legacy.go / c04frame.go.

type msgInfo struct {
	Named          *types.Named
	Key            string
	ApiKey         int64
	Side           string
	Min, Max, Flex int
	Override       bool
}

func registeredMsgInfos(p *load.Program, r *oblig.Report, rule string) []msgInfo {
	var out []msgInfo
	for _, rp := range registeredMessages(p) {
		for _, x := range []struct {
			n    *types.Named
			side string
		}{{rp.Req, "request"}, {rp.Res, "response"}} {
			if x.n == nil {
				r.Undecided(rule, "Register call at "+p.Pos(rp.Pos), p.Pos(rp.Pos), "message type not resolved")
				continue
			}
			st, ok := x.n.Underlying().(*types.Struct)
			if !ok {
				r.Undecided(rule, typeKey(x.n), p.Pos(rp.Pos), "registered message is not a struct")
				continue
			}
			k, ok := constMethodResult(p, x.n, "ApiKey")
			if !ok {
				r.Undecided(rule, typeKey(x.n)+" ApiKey()", p.Pos(x.n.Obj().Pos()), "ApiKey() does not return a single constant")
				continue
			}
			mi := msgInfo{Named: x.n, Key: typeKey(x.n), ApiKey: k, Side: x.side, Override: rp.Override}
			mi.Min, mi.Max, mi.Flex = an.MessageVersions(st)
			out = append(out, mi)
		}
	}
	return out
}

func c04Schemas(p *load.Program, r *oblig.Report) {
	const ruleA = "C04.R1a wire-schema = Kafka definition (Tier A)"
	const ruleB = "C04.R1b wire-schema unchanged since review (Tier B)"
	refs, err := parseRefSchemas(wireSchemaA)
	if err != nil {
		r.Undecided(ruleA, "reference file", "-", err.Error())
		return
	}
	byKey := map[int64]*refAPI{}
	for _, a := range refs {
		byKey[int64(a.Key)] = a
	}
	var tierB map[string]tierBEntry
	if err := json.Unmarshal(wireSchemaB, &tierB); err != nil {
		r.Undecided(ruleB, "snapshot file", "-", err.Error())
		return
	}
	env := schemaEnv(p)
	infos := registeredMsgInfos(p, r, ruleA)
	nA, nB := 0, 0
	seenA := map[string]bool{}
	seenB := map[string]bool{}
	for _, mi := range infos {
		pos := p.Pos(mi.Named.Obj().Pos())
		if mi.Min < 0 {
			r.Bad(ruleA, mi.Key, pos, "a version range declared by the struct tags", "no versioned field")
			continue
		}
		ref := byKey[mi.ApiKey]
		if ref != nil && !mi.Override {
			seenA[ref.Name+"/"+mi.Side] = true
			// the library's range must lie inside the reference's range
			if mi.Min < ref.Min || mi.Max > ref.Max {
				r.Bad(ruleA, fmt.Sprintf("%s %s version range", ref.Name, mi.Side), pos,
					fmt.Sprintf("declared versions within the reviewed range v%d-v%d", ref.Min, ref.Max),
					fmt.Sprintf("struct tags declare v%d-v%d: no reference exists for the extra versions (extend wire_schema_A.txt together with the library)", mi.Min, mi.Max))
			}
			flexRef := ref.FlexFrom
			libFlex := mi.Flex
			for v := mi.Min; v <= mi.Max && v <= ref.Max; v++ {
				if v < ref.Min {
					continue
				}
				nA++
				flexible := libFlex >= 0 && v >= libFlex
				refFlexible := flexRef >= 0 && v >= flexRef
				got := an.DeriveStruct(env, mi.Named, v, flexible, 0)
				fields := ref.Request
				if mi.Side == "response" {
					fields = ref.Response
				}
				want := refStruct(fields, v, refFlexible)
				construct := fmt.Sprintf("%s %s v%d", ref.Name, mi.Side, v)
				an.PruneTags(want, got)
				gc, wc := got.Canon(false), want.Canon(false)
				if gc != wc {
					r.Bad(ruleA, construct, pos, wc, gc, schemaDiff(want, got)...)
					continue
				}
				facts := []string{"schema: " + gc}
				if mi.Side == "request" {
					viol, notes := nullDiff(want, got)
					for _, n := range notes {
						r.NoteF("%s: %s", construct, n)
					}
					if len(viol) > 0 {
						r.Bad(ruleA, construct, pos, "no request field nullable where Kafka forbids null", strings.Join(viol, "; "), facts...)
						continue
					}
				}
				r.OK(ruleA, construct, pos, facts...)
			}
			continue
		}
		// Tier B
		ent, ok := tierB[mi.Key]
		if !ok {
			r.Bad(ruleB, mi.Key, pos, "an entry in the reviewed snapshot", "message type is registered but has no reviewed schema (add it to wire_schema_B.json after review)")
			continue
		}
		seenB[mi.Key] = true
		if ent.Min != mi.Min || ent.Max != mi.Max || ent.FlexFrom != mi.Flex {
			r.Bad(ruleB, mi.Key+" version range", pos, fmt.Sprintf("v%d-v%d flexible from %d", ent.Min, ent.Max, ent.FlexFrom), fmt.Sprintf("v%d-v%d flexible from %d", mi.Min, mi.Max, mi.Flex))
		}
		for v := mi.Min; v <= mi.Max; v++ {
			nB++
			got := an.DeriveStruct(env, mi.Named, v, mi.Flex >= 0 && v >= mi.Flex, 0).Canon(true)
			want := ent.Versions[fmt.Sprint(v)]
			r.Check(got == want, ruleB, fmt.Sprintf("%s v%d", mi.Key, v), pos, want, got, "schema: "+got)
		}
	}
	for _, a := range refs {
		for _, side := range []string{"request", "response"} {
			if !seenA[a.Name+"/"+side] {
				r.Bad(ruleA, a.Name+" "+side, "-", "a registered message type with API key "+fmt.Sprint(a.Key), "none registered")
			}
		}
	}
	for k := range tierB {
		if !seenB[k] {
			r.NoteF("Tier B snapshot entry %s has no registered message any more", k)
		}
	}
	r.RequireCount(ruleA, nA, 150)
	r.RequireCount(ruleB, nB, 60)
}

// schemaDiff pinpoints the first differing leaf.
func schemaDiff(want, got *an.WItem) []string {
	var w, g []string
	want.Flatten("", &w, false)
	got.Flatten("", &g, false)
	strip := func(s string) string { // compare by wire token, ignoring names
		i := strings.LastIndex(s, " ")
		return s[i+1:]
	}
	n := len(w)
	if len(g) < n {
		n = len(g)
	}
	for i := 0; i < n; i++ {
		if strip(w[i]) != strip(g[i]) {
			return []string{fmt.Sprintf("first difference at wire position %d: Kafka has `%s`, library has `%s`", i, w[i], g[i])}
		}
	}
	if len(w) != len(g) {
		var extra string
		if len(w) > len(g) {
			extra = "Kafka continues with `" + w[n] + "`"
		} else {
			extra = "library continues with `" + g[n] + "`"
		}
		return []string{fmt.Sprintf("schemas agree on the first %d wire positions; %s", n, extra)}
	}
	return nil
}

// nullDiff compares nullability leaf by leaf (structures are already equal).
func nullDiff(want, got *an.WItem) (viol, notes []string) {
	var walk func(w, g *an.WItem, path string, inPrimArray bool)
	walk = func(w, g *an.WItem, path string, inPrimArray bool) {
		switch w.Kind {
		case "struct", "tagbuf":
			for i := range w.Fields {
				if i < len(g.Fields) {
					walk(w.Fields[i], g.Fields[i], path+"."+w.Fields[i].GoName, false)
				}
			}
		case "array":
			if g.Nullable && !w.Nullable {
				viol = append(viol, path+": library encodes a nil array as null, Kafka declares the array non-nullable")
			} else if w.Nullable && !g.Nullable {
				notes = append(notes, path+": Kafka allows null, the library cannot emit it")
			}
			walk(w.Elem, g.Elem, path+"[]", w.Elem.Kind != "struct")
		case "string", "bytes":
			if inPrimArray {
				return // element nullability is inherited from the array's tag by the library
			}
			if g.Nullable && !w.Nullable {
				viol = append(viol, path+": library encodes the zero value as null, Kafka declares the field non-nullable")
			} else if w.Nullable && !g.Nullable {
				notes = append(notes, path+": Kafka allows null, the library cannot emit it")
			}
		}
	}
	walk(want, got, "", false)
	return
}

// TierBSnapshot renders the snapshot of every registered message without a Tier A reference.
func TierBSnapshot(p *load.Program) ([]byte, error) {
	refs, err := parseRefSchemas(wireSchemaA)
	if err != nil {
		return nil, err
	}
	byKey := map[int64]bool{}
	for _, a := range refs {
		byKey[int64(a.Key)] = true
	}
	env := schemaEnv(p)
	rep := oblig.NewReport("C04", "quick")
	out := map[string]tierBEntry{}
	for _, mi := range registeredMsgInfos(p, rep, "snapshot") {
		if byKey[mi.ApiKey] && !mi.Override {
			continue
		}
		e := tierBEntry{Min: mi.Min, Max: mi.Max, FlexFrom: mi.Flex, Versions: map[string]string{}}
		for v := mi.Min; v <= mi.Max; v++ {
			e.Versions[fmt.Sprint(v)] = an.DeriveStruct(env, mi.Named, v, mi.Flex >= 0 && v >= mi.Flex, 0).Canon(true)
		}
		out[mi.Key] = e
	}
	return json.MarshalIndent(out, "", " ")
}

func c04Sanity(p *load.Program, r *oblig.Report) {
	const rule = "C04.R2 message structural sanity"
	env := schemaEnv(p)
	infos := registeredMsgInfos(p, r, rule)
	// request/response ranges coincide
	byAPI := map[string][]msgInfo{}
	for _, mi := range infos {
		k := fmt.Sprintf("%d/%v", mi.ApiKey, mi.Override)
		byAPI[k] = append(byAPI[k], mi)
	}
	var keys []string
	for k := range byAPI {
		keys = append(keys, k)
	}
	sort.Strings(keys)
	for _, k := range keys {
		ms := byAPI[k]
		if len(ms) != 2 {
			continue
		}
		a, b := ms[0], ms[1]
		same := a.Min == b.Min && a.Max == b.Max && a.Flex == b.Flex
		r.Check(same, rule, fmt.Sprintf("%s / %s version ranges coincide", a.Key, b.Key), p.Pos(a.Named.Obj().Pos()),
			"request and response declare the same [min,max] and the same first flexible version",
			fmt.Sprintf("%s: v%d-v%d flex %d; %s: v%d-v%d flex %d", a.Side, a.Min, a.Max, a.Flex, b.Side, b.Min, b.Max, b.Flex))
	}
	for _, mi := range infos {
		seen := map[*types.Named]bool{}
		var problems []string
		var walk func(t types.Type, path string)
		walk = func(t types.Type, path string) {
			n, _ := t.(*types.Named)
			st, ok := t.Underlying().(*types.Struct)
			if !ok {
				return
			}
			if n != nil {
				if seen[n] {
					return
				}
				seen[n] = true
			}
			tagIDs := map[int]string{}
			for _, f := range an.KafkaFields(st) {
				fp := path + "." + f.Var.Name()
				if f.Err != nil {
					problems = append(problems, fp+": "+f.Err.Error())
					continue
				}
				for i, t1 := range f.Tags {
					if t1.Min < 0 {
						continue
					}
					if t1.Min < mi.Min || t1.Max > mi.Max {
						problems = append(problems, fmt.Sprintf("%s: versions v%d-v%d outside the message's range v%d-v%d", fp, t1.Min, t1.Max, mi.Min, mi.Max))
					}
					for j := i + 1; j < len(f.Tags); j++ {
						t2 := f.Tags[j]
						if t2.Min >= 0 && t1.Min <= t2.Max && t2.Min <= t1.Max && (t1.Nullable != t2.Nullable || t1.TagID != t2.TagID) {
							// (the first matching alternative wins; `compact` has no effect on either codec,
							// so overlapping alternatives matter only when they differ in nullable or tag id)
							problems = append(problems, fmt.Sprintf("%s: alternatives v%d-v%d and v%d-v%d overlap", fp, t1.Min, t1.Max, t2.Min, t2.Max))
						}
					}
					if t1.TagID >= 0 {
						if prev, dup := tagIDs[t1.TagID]; dup && prev != f.Var.Name() {
							problems = append(problems, fmt.Sprintf("%s: tag id %d already used by %s", fp, t1.TagID, prev))
						}
						tagIDs[t1.TagID] = f.Var.Name()
						if mi.Flex < 0 || t1.Min < mi.Flex {
							problems = append(problems, fmt.Sprintf("%s: tagged field declared for non-flexible version v%d (it would be dropped silently)", fp, t1.Min))
						}
					}
				}
				ft := f.Var.Type()
				if sl, ok := ft.Underlying().(*types.Slice); ok {
					ft = sl.Elem()
				}
				if _, ok := ft.Underlying().(*types.Struct); ok && !env.ImplementsWriterTo(ft) {
					walk(ft, fp)
				}
			}
		}
		walk(mi.Named, mi.Key)
		// every array element occupies >= 1 byte at every version (needed by the C20 count bound)
		for v := mi.Min; v <= mi.Max && mi.Min >= 0; v++ {
			w := an.DeriveStruct(env, mi.Named, v, mi.Flex >= 0 && v >= mi.Flex, 0)
			var chk func(w *an.WItem, path string)
			chk = func(w *an.WItem, path string) {
				switch w.Kind {
				case "struct":
					for _, f := range w.Fields {
						chk(f, path+"."+f.GoName)
					}
				case "array":
					if w.Elem.Kind == "struct" && len(w.Elem.Fields) == 0 {
						problems = append(problems, fmt.Sprintf("%s v%d: array element encodes to zero bytes", path, v))
					}
					chk(w.Elem, path+"[]")
				case "unsupported":
					problems = append(problems, fmt.Sprintf("%s v%d: unsupported Go type %s (encodeFuncOf would panic at init)", path, v, w.GoType))
				}
			}
			chk(w, mi.Key)
		}
		sort.Strings(problems)
		problems = uniq(problems)
		r.Check(len(problems) == 0, rule, mi.Key+" tags", p.Pos(mi.Named.Obj().Pos()), "well-formed, disjoint, in-range field tags", strings.Join(problems, "; "),
			fmt.Sprintf("v%d-v%d flexible from %d", mi.Min, mi.Max, mi.Flex))
	}
}

func uniq(s []string) []string {
	var out []string
	for i, x := range s {
		if i == 0 || x != s[i-1] {
			out = append(out, x)
		}
	}
	return out
}

// c04EmptyArray: a decoded array of length zero must stay distinguishable from a null array (isNil false), in the
// reflect build and in the unsafe build alike: makeArray never yields the representation isNil tests for.
func c04EmptyArray(p *load.Program, r *oblig.Report) {
	const rule = "C04.R9 an empty decoded array is not null"
	mk := p.Func("protocol", "makeArray")
	isNil := p.Func("protocol", "(array).isNil")
	if mk == nil || isNil == nil {
		r.Lost(rule, "protocol.makeArray / (array).isNil")
		return
	}
	// which field does isNil look at?
	field := ""
	an.EachInstr(isNil, func(ins ssa.Instruction) {
		switch x := ins.(type) {
		case *ssa.Field:
			field = an.FieldName(x.X.Type(), x.Field)
		case *ssa.FieldAddr:
			field = an.FieldName(x.X.Type(), x.Field)
		}
	})
	var nilOrigins []string
	n := 0
	var visit func(v ssa.Value, seen map[ssa.Value]bool)
	visit = func(v ssa.Value, seen map[ssa.Value]bool) {
		if seen[v] {
			return
		}
		seen[v] = true
		switch x := v.(type) {
		case *ssa.Phi:
			for _, e := range x.Edges {
				visit(e, seen)
			}
		case *ssa.Const:
			if x.Value == nil {
				nilOrigins = append(nilOrigins, "nil at "+p.Pos(mk.Pos()))
			}
		case *ssa.Convert:
			visit(x.X, seen)
		case *ssa.ChangeType:
			visit(x.X, seen)
		}
	}
	an.EachInstr(mk, func(ins ssa.Instruction) {
		st, ok := ins.(*ssa.Store)
		if !ok {
			return
		}
		fa, ok := st.Addr.(*ssa.FieldAddr)
		if !ok || an.FieldName(fa.X.Type(), fa.Field) != field {
			return
		}
		n++
		visit(st.Val, map[ssa.Value]bool{})
	})
	r.Check(field != "" && n > 0 && len(nilOrigins) == 0, rule, "protocol.makeArray never produces the value (array).isNil reports as null", p.Pos(mk.Pos()),
		"array."+field+" is non-nil for every length, zero included", fmt.Sprintf("field %q, %d stores; %s", field, n, strings.Join(nilOrigins, "; ")))
}

// c04VersionedRequests: some hand-written request types choose their wire layout from an unexported version field
// (`v apiVersion`). The value handed to writeRequest must be the one whose field was set to the version announced in
// the header — a copy built field by field silently falls back to the v0 layout.
func c04VersionedRequests(p *load.Program, r *oblig.Report) {
	const rule = "C04.R12 versioned legacy requests are encoded at the version announced in their header"
	root := p.SSAPkg("")
	n := 0
	for _, fn := range p.ModuleFunctions() {
		top := fn
		for top.Parent() != nil {
			top = top.Parent()
		}
		if top.Pkg != root {
			continue
		}
		an.EachInstr(fn, func(ins ssa.Instruction) {
			c, ok := ins.(*ssa.Call)
			if !ok || c.Parent() != fn || !calleeNamed(&c.Call, "Conn", "writeRequest") {
				return
			}
			mi, isMI := c.Call.Args[len(c.Call.Args)-1].(*ssa.MakeInterface)
			if !isMI {
				return
			}
			st, isStruct := deref(mi.X.Type()).Underlying().(*types.Struct)
			if !isStruct {
				return
			}
			hasV := false
			for i := 0; i < st.NumFields(); i++ {
				if st.Field(i).Name() == "v" {
					hasV = true
				}
			}
			if !hasV {
				return
			}
			n++
			// the variable the message is loaded from, in this function or captured from the enclosing one
			var cell ssa.Value
			if ld, isLd := mi.X.(*ssa.UnOp); isLd && ld.Op == token.MUL {
				cell = ld.X
			}
			owner := fn
			if fv, isFV := cell.(*ssa.FreeVar); isFV && fn.Parent() != nil {
				for _, site := range *fn.Referrers() {
					if mc, isMC := site.(*ssa.MakeClosure); isMC {
						for i, b := range mc.Bindings {
							if fn.FreeVars[i] == fv {
								cell, owner = b, fn.Parent()
							}
						}
					}
				}
			}
			versioned := false
			if cell != nil {
				an.EachInstr(owner, func(i2 ssa.Instruction) {
					if s2, isSt := i2.(*ssa.Store); isSt {
						if fa, isFA := s2.Addr.(*ssa.FieldAddr); isFA && fa.X == cell && an.FieldName(fa.X.Type(), fa.Field) == "v" {
							versioned = true
						}
					}
				})
				// a parameter handed in by a caller that set the field
				if _, isAlloc := cell.(*ssa.Alloc); isAlloc && !versioned {
					for _, ref := range *cell.Referrers() {
						if s2, isSt := ref.(*ssa.Store); isSt && s2.Addr == cell {
							if _, fromParam := s2.Val.(*ssa.Parameter); fromParam {
								versioned = true
							}
						}
					}
				}
			}
			r.Check(versioned, rule, an.ShortFunc(top)+" → the "+typeShort(deref(mi.X.Type()))+" it writes carries the negotiated version", p.Pos(c.Pos()),
				"request.v = version on the very value passed to writeRequest", "the value written is "+clean(an.Shape(mi.X))+", whose version field is never set")
		})
	}
	r.RequireCount(rule, n, 1)
}

package rules

import (
	"fmt"
	"go/constant"
	"go/token"
	"go/types"
	"sort"
	"strings"

	"golang.org/x/tools/go/ssa"

	"kverif/internal/an"
	"kverif/internal/load"
	"kverif/internal/oblig"
)

func init() {
	register(&Check{ID: "C13", Run: runC13, Expl: oblig.Explanation{
		Text:        "Static partition-balancer check. (R1/R2) for each of the 7 built-in balancers the set of expressions it can return is extracted from SSA (locals looked through) and compared with the reference operator chain: RoundRobin partitions[(counter/ChunkSize) % len]; Hash int32(sum) % int32(n) then negate-if-negative (Sarama hash partitioner); ReferenceHash (int32(sum) & 0x7fffffff) % int32(n); CRC32 partitions[ChecksumIEEE(key) % uint32(n)] (librdkafka consistent); Murmur2 partitions[(murmur2(key) & 0x7fffffff) % uint32(n)] (Java default); random partitions[rand.Int() % n]; LeastBytes returns the partition stored in the selected counter. Each chain ends in an index/remainder by the number of offered partitions, so the result is an offered partition (Hash/ReferenceHash return the index itself, which equals the partition for the contiguous 0..n-1 list the Writer supplies, R7). (R3) fallback guards: Hash/ReferenceHash iff Key == nil; CRC32 iff len(Key) == 0 ∧ ¬Consistent; Murmur2 iff Key == nil ∧ ¬Consistent. (R4) RoundRobin reads and increments its counter in one critical section; a user-supplied Hasher is used under the balancer's lock. (R5) LeastBytes picks the first minimum with a strict < and adds len(Key)+len(Value); its counters hold the offered partitions. (R6) murmur2 contains the seed, multiplier and shifts of the reference implementation; the default hasher is FNV-1a 32. (R7) loadCachedPartitions returns a prefix of a slice whose element i is i, reusing the cache only when it is long enough. Not decided: equality with Sarama/librdkafka/Java for every key (numerical), murmur2's tail handling, exactness of counters beyond mutual exclusion.",
		Rule:        "one obligation per balancer return-shape set, guard, and structural fact",
		Trusted:     []string{"go/ssa", "expression shapes (internal/an/shape.go)", "reference operator chains of the three foreign partitioners (hand-written)"},
		Assumptions: []string{"the Writer offers partitions 0..n-1 (R7), which makes index and partition coincide for Hash and ReferenceHash"},
	}})
}

func runC13(p *load.Program, r *oblig.Report) {
	c13Shapes(p, r)
	c13Guards(p, r)
	c13Counters(p, r)
	c13Murmur(p, r)
	c13Cache(p, r)
	c13WriterBalancer(p, r)
	c13CacheLength(p, r)
	c13NoAppendAfterSizedMake(p, r, "C13.R10 per-partition tables have one entry per partition", "balancer.go")
}

// returnShapes lists the distinct normalised shapes of the values a function can return.
func returnShapes(fn *ssa.Function) []string { return returnShapesWith(fn, an.Shape) }

// returnShapesCanon is returnShapes with canonical rendering (operand order and comparison orientation normalised).
func returnShapesCanon(fn *ssa.Function) []string { return returnShapesWith(fn, an.ShapeCanon) }

func returnShapesWith(fn *ssa.Function, render func(ssa.Value) string) []string {
	m := map[string]bool{}
	var addShape func(s string)
	addShape = func(s string) { m[s] = true }
	an.EachInstr(fn, func(ins ssa.Instruction) {
		ret, ok := ins.(*ssa.Return)
		if !ok || len(ret.Results) == 0 {
			return
		}
		v := an.RetVal(ret, 0)
		if phi, isPhi := v.(*ssa.Phi); isPhi {
			for _, e := range phi.Edges {
				addShape(render(e))
			}
			return
		}
		addShape(render(v))
	})
	var out []string
	for s := range m {
		// normalise the hasher (user supplied or pooled FNV-1a) and address-of noise
		s = strings.ReplaceAll(s, "φ{Get(fnv1aPool).(Hash32) | h.Hasher}", "H")
		s = strings.ReplaceAll(s, "@", "")
		out = append(out, s)
	}
	sort.Strings(out)
	// drop shapes that are the phi-merge of others already listed
	var final []string
	for _, s := range out {
		if strings.HasPrefix(s, "φ{") {
			continue
		}
		final = append(final, s)
	}
	return final
}

func c13Shapes(p *load.Program, r *oblig.Report) {
	const rule = "C13.R1 balancers return an offered partition through the reference operator chain"
	want := map[string][]string{
		"(*RoundRobin).balance":     {"partitions[(int((uint64(rr.counter) / uint64(rr.ChunkSize))) % len(partitions))]"},
		"(*RoundRobin).Balance":     {"balance(rr,partitions)"},
		"(*Hash).Balance":           {"Balance(h.rr,msg,partitions)", "int(φ{(int32(H.Sum32()) % int32(len(partitions))) | -(int32(H.Sum32()) % int32(len(partitions)))})"},
		"(*ReferenceHash).Balance":  {"Balance(h.rr,msg,partitions)", "int(((2147483647 & int32(H.Sum32())) % int32(len(partitions))))"},
		"(CRC32Balancer).Balance":   {"Balance(b.random,msg,partitions)", "partitions[(crc32.ChecksumIEEE(msg.Key) % uint32(len(partitions)))]"},
		"(Murmur2Balancer).Balance": {"Balance(b.random,msg,partitions)", "partitions[((2147483647 & murmur2(msg.Key)) % uint32(len(partitions)))]"},
		"(randomBalancer).Balance":  {"b.mock", "partitions[(rand.Int() % len(partitions))]"},
	}
	var names []string
	for k := range want {
		names = append(names, k)
	}
	sort.Strings(names)
	for _, name := range names {
		fn := p.Func("", name)
		if fn == nil {
			r.Lost(rule, "kafka."+name)
			continue
		}
		got := returnShapesCanon(fn)
		w := append([]string{}, want[name]...)
		sort.Strings(w)
		r.Check(strings.Join(got, " ;; ") == strings.Join(w, " ;; "), rule, "kafka."+name, p.Pos(fn.Pos()), strings.Join(w, " ;; "), strings.Join(got, " ;; "), got...)
	}
	// Hash: the negation applies exactly when the remainder is negative
	hb := p.Func("", "(*Hash).Balance")
	if hb != nil {
		ok := false
		for _, b := range an.Blocks(hb) {
			_, ci := an.IfCond(b)
			if ci == nil || ci.Op != token.LSS {
				continue
			}
			if k, isK := an.ConstInt(ci.Y); isK && k == 0 {
				if rem, isB := ci.X.(*ssa.BinOp); isB && rem.Op == token.REM {
					// true successor negates that same remainder
					for _, ins := range b.Succs[0].Instrs {
						if u, isU := ins.(*ssa.UnOp); isU && u.Op == token.SUB && u.X == ssa.Value(rem) {
							ok = true
						}
					}
				}
			}
		}
		r.Check(ok, rule, "kafka.(*Hash).Balance → absolute value taken after the remainder", p.Pos(hb.Pos()), "p := int32(h) % int32(n); if p < 0 { p = -p }", "not recognised")
	}
	// the mock of randomBalancer is never set outside tests
	okMock := true
	for _, fn := range p.ModuleFunctions() {
		an.EachInstr(fn, func(ins ssa.Instruction) {
			if st, ok := fieldStoreIs(ins, "randomBalancer", "mock"); ok {
				if k, isK := an.ConstInt(st.Val); !isK || k != 0 {
					okMock = false
				}
			}
		})
	}
	r.Check(okMock, rule, "randomBalancer.mock is never set by library code", "-", "no non-test store", "a store exists")
	// LeastBytes: the returned partition comes from a counter whose partition field holds an offered partition
	lb := p.Func("", "(*LeastBytes).Balance")
	mk := p.Func("", "(*LeastBytes).makeCounters")
	if lb == nil || mk == nil {
		r.Lost(rule, "kafka.(*LeastBytes).Balance / makeCounters")
		return
	}
	okRet := false
	for _, s := range returnShapesCanon(lb) {
		if strings.HasPrefix(s, "lb.counters[") && strings.HasSuffix(s, "].partition") {
			okRet = true
		}
	}
	okFill := false
	an.EachInstr(mk, func(ins ssa.Instruction) {
		if st, ok := ins.(*ssa.Store); ok {
			if fa, ok := st.Addr.(*ssa.FieldAddr); ok && an.FieldName(fa.X.Type(), fa.Field) == "partition" {
				if strings.HasPrefix(argDesc(st.Val), "param:partitions[]") {
					okFill = true
				}
			}
		}
	})
	r.Check(okRet && okFill, rule, "kafka.(*LeastBytes).Balance returns the partition recorded in the chosen counter", p.Pos(lb.Pos()), "return lb.counters[minIndex].partition with counters[i].partition = partitions[i]", fmt.Sprintf("returnsCounterPartition=%v countersHoldOfferedPartitions=%v", okRet, okFill))
	// counters are rebuilt when the number of partitions changes
	okRebuild := false
	for _, b := range an.Blocks(lb) {
		_, ci := an.IfCond(b)
		if e := ci.Edge(token.NEQ); e >= 0 && (strings.Contains(an.Shape(ci.X), "len(partitions)") && strings.Contains(an.Shape(ci.Y), "len(lb.counters)") || strings.Contains(an.Shape(ci.Y), "len(partitions)") && strings.Contains(an.Shape(ci.X), "len(lb.counters)")) {
			// the lengths-differ edge rebuilds the counters
			if ok, _ := an.MustPass(lb, an.Point{B: b.Succs[e], Idx: -1}, func(i ssa.Instruction) bool {
				_, isSt := fieldStoreIs(i, "LeastBytes", "counters")
				return isSt
			}, nil); ok {
				okRebuild = true
			}
		}
	}
	r.Check(okRebuild, rule, "kafka.(*LeastBytes).Balance rebuilds its counters when the partition list changes size", p.Pos(lb.Pos()), "if len(partitions) != len(lb.counters) { lb.counters = lb.makeCounters(partitions...) }", "not recognised")
}

// guardOf renders the conjunction of branch conditions under which call is executed.
func guardOf(call ssa.Instruction) string {
	var conds []string
	for d, child := call.Block().Idom(), call.Block(); d != nil; d, child = d.Idom(), d {
		iff, ci := an.IfCond(d)
		if iff == nil {
			continue
		}
		var onTrue bool
		switch {
		case edgeControls(d, 0, child):
			onTrue = true
		case edgeControls(d, 1, child):
			onTrue = false
		default:
			continue
		}
		var s string
		if ci != nil && ci.Op != token.ILLEGAL {
			s = strings.ReplaceAll(an.Shape(ci.X), "@", "") + " " + ci.Op.String() + " " + an.Shape(ci.Y)
			if ci.Neg {
				onTrue = !onTrue
			}
		} else {
			c := an.CondOf(iff)
			if u, isU := c.(*ssa.UnOp); isU && u.Op == token.NOT {
				c = u.X
				onTrue = !onTrue
			}
			s = strings.ReplaceAll(an.Shape(c), "@", "")
		}
		if !onTrue {
			s = "¬(" + s + ")"
		}
		conds = append(conds, s)
	}
	// inside a helper that did not exist at review time: also the conditions of its (single) call site
	if ins, ok := call.(ssa.Instruction); ok && an.IsNew(ins.Parent()) {
		if sites := an.SitesOf(ins.Parent()); len(sites) == 1 {
			if outer := guardOf(sites[0].(ssa.Instruction)); outer != "" {
				conds = append(conds, strings.Split(outer, " ∧ ")...)
			}
		}
	}
	sort.Strings(conds)
	return strings.Join(conds, " ∧ ")
}

// edgeControls: every path from d to child leaves d through successor i (so the branch outcome holds at child).
// The successor must be entered only from d, apart from back edges of loops it heads.
func edgeControls(d *ssa.BasicBlock, i int, child *ssa.BasicBlock) bool {
	s := d.Succs[i]
	if d.Succs[0] == d.Succs[1] {
		return false
	}
	if s != child && !s.Dominates(child) {
		return false
	}
	for _, pr := range s.Preds {
		if pr != d && !s.Dominates(pr) {
			return false
		}
	}
	return true
}

func c13Guards(p *load.Program, r *oblig.Report) {
	const rule = "C13.R3 key rules for the fallback balancer"
	want := map[string]string{
		"(*Hash).Balance":           "(nil == msg.Key)",
		"(*ReferenceHash).Balance":  "(nil == msg.Key)",
		"(CRC32Balancer).Balance":   "(0 == len(msg.Key)) ∧ ¬b.Consistent",
		"(Murmur2Balancer).Balance": "(nil == msg.Key) ∧ ¬b.Consistent",
	}
	var names []string
	for k := range want {
		names = append(names, k)
	}
	sort.Strings(names)
	for _, name := range names {
		fn := p.Func("", name)
		if fn == nil {
			r.Lost(rule, "kafka."+name)
			continue
		}
		var fb []ssa.CallInstruction
		for _, c := range callsTo(fn, func(cc *ssa.CallCommon) bool {
			f := cc.StaticCallee()
			return f != nil && an.RefFuncName(f) == "Balance" && f.Signature.Recv() != nil && (an.NamedIs(f.Signature.Recv().Type(), load.ModPath, "RoundRobin") || an.NamedIs(f.Signature.Recv().Type(), load.ModPath, "randomBalancer"))
		}) {
			fb = append(fb, c)
		}
		if len(fb) != 1 {
			r.Bad(rule, "kafka."+name+" → fallback call", p.Pos(fn.Pos()), "one delegation to the round-robin/random balancer", fmt.Sprint(len(fb)))
			continue
		}
		g := clean(strings.Join(selConds(fb[0].(ssa.Instruction)), " ∧ "))
		r.Check(g == want[name], rule, "kafka."+name+" delegates exactly when the key carries no information", p.Pos(fb[0].Pos()), want[name], g)
	}
}

func c13Counters(p *load.Program, r *oblig.Report) {
	const rule = "C13.R4 counters are updated atomically with their use"
	rr := p.Func("", "(*RoundRobin).balance")
	if rr == nil {
		r.Lost(rule, "kafka.(*RoundRobin).balance")
		return
	}
	l := locksets(p)
	var ld *ssa.UnOp
	var st *ssa.Store
	an.EachInstr(rr, func(ins ssa.Instruction) {
		if s, ok := fieldStoreIs(ins, "RoundRobin", "counter"); ok {
			st = s
		}
	})
	okInc := false
	if st != nil {
		if bo, ok := st.Val.(*ssa.BinOp); ok && bo.Op == token.ADD {
			if k, isK := an.ConstInt(bo.Y); isK && k == 1 {
				if l2, isL := bo.X.(*ssa.UnOp); isL && isLoadOfField(l2, "RoundRobin", "counter") {
					ld = l2
					okInc = l.Before[st].Holds("RoundRobin.mutex", false) && l.Before[l2].Holds("RoundRobin.mutex", false)
				}
			}
		}
	}
	_ = ld
	// the counter is divided by the whole ChunkSize: a conversion of ChunkSize to a narrower integer makes 2^32 a
	// division by zero and 2^32+2 a chunk of 2
	narrowed := ""
	an.EachInstr(rr, func(ins ssa.Instruction) {
		if bo, ok := ins.(*ssa.BinOp); ok && bo.Op == token.QUO {
			if cv, isCv := bo.Y.(*ssa.Convert); isCv && strings.HasSuffix(clean(an.Shape(cv.X)), ".ChunkSize") {
				if b, isB := cv.Type().Underlying().(*types.Basic); isB {
					switch b.Kind() {
					case types.Int8, types.Int16, types.Int32, types.Uint8, types.Uint16, types.Uint32:
						narrowed = "ChunkSize is converted to " + b.Name() + " before the division"
					}
				}
			}
		}
	})
	r.Check(narrowed == "", "C13.R1 balancers return an offered partition through the reference operator chain", "RoundRobin.balance divides its counter by the full ChunkSize", p.Pos(rr.Pos()), "uint64(counter) / uint64(rr.ChunkSize)", narrowed)
	r.Check(okInc, rule, "RoundRobin.balance reads and increments its counter by one under its mutex", p.Pos(rr.Pos()), "rr.counter++ with RoundRobin.mutex held for the read used as index and for the increment", "not recognised (or not under the mutex)")
	// every read of counter in the function is under the mutex
	okReads := true
	an.EachInstr(rr, func(ins ssa.Instruction) {
		if u, ok := ins.(*ssa.UnOp); ok && isLoadOfField(u, "RoundRobin", "counter") && !l.Before[u].Holds("RoundRobin.mutex", false) {
			okReads = false
		}
		if c, ok := ins.(*ssa.Call); ok {
			if f := c.Call.StaticCallee(); f != nil && f.Pkg != nil && f.Pkg.Pkg.Path() == "sync/atomic" {
				okReads = false // mixing a lock-free protocol into the critical section splits the read-modify-write
			}
		}
	})
	r.Check(okReads, rule, "RoundRobin.balance has a single read-modify-write of the counter", p.Pos(rr.Pos()), "no access outside the mutex, no sync/atomic", "lock-free accesses present")
	// custom hasher used under the balancer's lock
	for _, name := range []string{"(*Hash).Balance", "(*ReferenceHash).Balance"} {
		fn := p.Func("", name)
		if fn == nil {
			r.Lost(rule, "kafka."+name)
			continue
		}
		ok := false
		for _, b := range an.Blocks(fn) {
			_, ci := an.IfCond(b)
			if ci.Edge(token.NEQ) < 0 || !an.IsNilConst(ci.Y) || !strings.HasSuffix(argDesc(ci.X), ".Hasher") {
				continue
			}
			locks, unlockDeferred := false, false
			for _, ins := range b.Succs[ci.Edge(token.NEQ)].Instrs {
				if isMutexOp(ins, "lock", false) {
					locks = true
				}
				if d, isD := ins.(*ssa.Defer); isD && d.Call.StaticCallee() != nil && an.RefFuncName(d.Call.StaticCallee()) == "Unlock" {
					unlockDeferred = true
				}
			}
			ok = locks && unlockDeferred
		}
		r.Check(ok, rule, "kafka."+name+" serialises the use of a user-supplied Hasher", p.Pos(fn.Pos()), "if hasher != nil { h.lock.Lock(); defer h.lock.Unlock() }", "not recognised")
	}
	// the hasher starts from its initial state for every message, whether it came from the pool or from the user:
	// no path reaches hasher.Write without passing hasher.Reset
	for _, name := range []string{"(*Hash).Balance", "(*ReferenceHash).Balance"} {
		fn := p.Func("", name)
		if fn == nil {
			continue // reported above
		}
		isHashCall := func(i ssa.Instruction, m string) bool {
			c, ok := i.(*ssa.Call)
			return ok && c.Call.IsInvoke() && c.Call.Method.Name() == m && strings.HasPrefix(types.TypeString(c.Call.Value.Type(), nil), "hash.Hash")
		}
		nW := 0
		an.EachInstr(fn, func(i ssa.Instruction) {
			if isHashCall(i, "Write") {
				nW++
			}
		})
		q := an.PathQuery{Fn: fn, Stop: func(i ssa.Instruction) bool { return isHashCall(i, "Reset") }, Target: func(i ssa.Instruction) bool { return isHashCall(i, "Write") }}
		hit := q.ReachableFrom(an.EntryPoint(fn))
		where := ""
		if hit != nil {
			where = "hasher.Write at " + p.Pos(hit.Pos()) + " is reachable without a Reset"
		}
		r.Check(nW > 0 && hit == nil, "C13.R8 the hasher starts from its initial state for every message", "kafka."+name+" resets the hasher before hashing the key on every path", p.Pos(fn.Pos()), "hasher.Reset() precedes hasher.Write(key)", where)
	}
	// LeastBytes: strict < and the bytes added
	lb := p.Func("", "(*LeastBytes).Balance")
	if lb == nil {
		r.Lost(rule, "kafka.(*LeastBytes).Balance")
		return
	}
	strict, running := false, false
	runningWhy := "no comparison of a counter with the minimum found"
	for _, b := range an.Blocks(lb) {
		_, ci := an.IfCond(b)
		if ci != nil && (ci.Op == token.LSS || ci.Op == token.LEQ) && strings.HasSuffix(an.Shape(ci.X), ".bytes") {
			strict = true
			// the value compared against is the running minimum: it is carried around the loop and, when it is a
			// variable of its own, the counter that was just found smaller is one of its updates
			y := clean(an.Shape(ci.Y))
			running = strings.Contains(y, "φ")
			runningWhy = "compared against " + y
			if ph, isPhi := ci.Y.(*ssa.Phi); isPhi && running {
				upd := false
				seenPhi := map[*ssa.Phi]bool{}
				var walk func(q *ssa.Phi)
				walk = func(q *ssa.Phi) {
					if seenPhi[q] {
						return
					}
					seenPhi[q] = true
					for _, e := range q.Edges {
						if e == ci.X || clean(an.Shape(e)) == clean(an.Shape(ci.X)) {
							upd = true
						}
						if q2, isPhi2 := e.(*ssa.Phi); isPhi2 {
							walk(q2)
						}
					}
				}
				walk(ph)
				running = upd
				if !upd {
					runningWhy += ", which is never updated with " + clean(an.Shape(ci.X))
				}
			}
		}
	}
	okAdd := false
	an.EachInstr(lb, func(ins ssa.Instruction) {
		if st, ok := ins.(*ssa.Store); ok {
			if fa, ok := st.Addr.(*ssa.FieldAddr); ok && an.FieldName(fa.X.Type(), fa.Field) == "bytes" {
				s := strings.ReplaceAll(an.Shape(st.Val), "@", "")
				okAdd = strings.Contains(s, "uint64(len(msg.Key))") && strings.Contains(s, "uint64(len(msg.Value))") && strings.Contains(s, ".bytes +")
			}
		}
	})
	r.Check(strict && okAdd, "C13.R5 least-bytes selection", "LeastBytes.Balance picks a minimum and charges the message's key and value bytes to it", p.Pos(lb.Pos()), "if c.bytes < (or <=) minBytes {…}; c.bytes += uint64(len(Key)) + uint64(len(Value))", fmt.Sprintf("strictLess=%v addsKeyAndValue=%v", strict, okAdd))
	r.Check(running, "C13.R5 least-bytes selection", "LeastBytes.Balance compares every counter with the running minimum", p.Pos(lb.Pos()), "if c.bytes < minBytes { minIndex, minBytes = …, c.bytes }", runningWhy)
}

func c13Murmur(p *load.Program, r *oblig.Report) {
	const rule = "C13.R6 hash function constants"
	fn := p.Func("", "murmur2")
	if fn == nil {
		r.Lost(rule, "kafka.murmur2")
		return
	}
	consts := map[uint64]bool{}
	an.EachInstr(fn, func(ins ssa.Instruction) {
		for _, op := range ins.Operands(nil) {
			if op == nil || *op == nil {
				continue
			}
			if c, ok := (*op).(*ssa.Const); ok && c.Value != nil && c.Value.Kind() == constant.Int {
				if u, ok := constant.Uint64Val(c.Value); ok {
					consts[u] = true
				}
			}
		}
	})
	var missing []string
	for _, w := range []uint64{0x9747b28c, 0x5bd1e995, 24, 13, 15} {
		if !consts[w] {
			missing = append(missing, fmt.Sprintf("%#x", w))
		}
	}
	r.Check(len(missing) == 0, rule, "murmur2 uses the seed, multiplier and shifts of the Java client's murmur2", p.Pos(fn.Pos()), "0x9747b28c, 0x5bd1e995, 24, 13, 15", "missing: "+strings.Join(missing, ","))
	// default hasher: fnv.New32a
	okFNV := false
	for _, f := range p.ModuleFunctions() {
		an.EachInstr(f, func(ins ssa.Instruction) {
			if c, ok := ins.(*ssa.Call); ok && c.Call.StaticCallee() != nil && an.ShortFunc(c.Call.StaticCallee()) == "hash/fnv.New32a" {
				okFNV = true
			}
		})
	}
	r.Check(okFNV, rule, "the default hasher of Hash/ReferenceHash is FNV-1a (32 bit)", "-", "fnv.New32a()", "not found")
}

func c13Cache(p *load.Program, r *oblig.Report) {
	const rule = "C13.R7 the Writer offers partitions 0..n-1"
	fn := p.Func("", "loadCachedPartitions")
	if fn == nil {
		r.Lost(rule, "kafka.loadCachedPartitions")
		return
	}
	// every returned value is <list>[:numPartitions] with <list> the cached list or the freshly made one
	okPrefix := true
	var shapes []string
	nRet := 0
	an.EachInstr(fn, func(ins ssa.Instruction) {
		ret, ok := ins.(*ssa.Return)
		if !ok || len(ret.Results) != 1 {
			return
		}
		nRet++
		v := an.RetVal(ret, 0)
		vals := []ssa.Value{v}
		if phi, isPhi := v.(*ssa.Phi); isPhi {
			vals = phi.Edges
		}
		for _, x := range vals {
			shapes = append(shapes, clean(an.ShapeCanon(x)))
			sl, isSl := x.(*ssa.Slice)
			if !isSl || sl.Low != nil || sl.High == nil || clean(an.ShapeCanon(sl.High)) != "numPartitions" {
				okPrefix = false
				continue
			}
			for _, o := range an.Origins(sl.X, an.FlowOpts{}) {
				if !(o.Kind == "make" || (o.Kind == "call" && strings.Contains(o.Name, "Load")) || o.Kind == "alloc") {
					okPrefix = false
				}
			}
		}
	})
	r.Check(okPrefix && nRet >= 1, rule, "loadCachedPartitions returns the first numPartitions elements", p.Pos(fn.Pos()), "<cached or fresh list>[:numPartitions] on every path", strings.Join(shapes, " ;; "))
	// cache hit only when long enough (len, not cap): on the edge where len(cached) < numPartitions, and on the edge
	// where nothing usable is cached, every path to a return makes a new list
	isMake := func(i ssa.Instruction) bool { _, ok := i.(*ssa.MakeSlice); return ok }
	okLen, okMiss := false, false
	for _, b := range an.Blocks(fn) {
		iff, ci := an.IfCond(b)
		if iff == nil || ci == nil {
			continue
		}
		short := -1 // successor taken when the cached list is too short
		switch {
		case ci.Op == token.LEQ && an.Shape(ci.X) == "numPartitions" && strings.HasPrefix(an.Shape(ci.Y), "len("): // n <= len
			short = 1
		case ci.Op == token.LSS && an.Shape(ci.Y) == "numPartitions" && strings.HasPrefix(an.Shape(ci.X), "len("): // len < n
			short = 0
		}
		if short >= 0 {
			if ci.Neg {
				short = 1 - short
			}
			if ok, _ := an.MustPass(fn, an.Point{B: b.Succs[short], Idx: -1}, isMake, nil); ok {
				okLen = true
			}
			continue
		}
		// the comma-ok of the type assertion on the cached value
		if ci.Op == token.ILLEGAL {
			if ex, isEx := ci.X.(*ssa.Extract); isEx && ex.Index == 1 {
				if ta, isTA := ex.Tuple.(*ssa.TypeAssert); isTA && ta.CommaOk {
					miss := 1
					if ci.Neg {
						miss = 0
					}
					if ok, _ := an.MustPass(fn, an.Point{B: b.Succs[miss], Idx: -1}, isMake, nil); ok {
						okMiss = true
					}
				}
			}
		}
	}
	r.Check(okLen && okMiss, rule, "loadCachedPartitions reuses the cached list only if its length covers the request", p.Pos(fn.Pos()), "a new list is made whenever nothing is cached or len(cached) < numPartitions", fmt.Sprintf("remadeWhenShort=%v remadeWhenAbsent=%v", okLen, okMiss))
	// the fresh slice is fully initialised: make with len == cap, partitions[i] = i for i over the whole slice
	okMake, okFill := false, false
	an.EachInstr(fn, func(ins ssa.Instruction) {
		switch x := ins.(type) {
		case *ssa.MakeSlice:
			okMake = x.Len == x.Cap
		case *ssa.Store:
			if ia, ok := x.Addr.(*ssa.IndexAddr); ok {
				if an.Unwrap(ia.Index) == an.Unwrap(x.Val) && isRangeIndex(an.Unwrap(x.Val)) {
					okFill = true
				}
			}
		}
	})
	r.Check(okMake && okFill, rule, "loadCachedPartitions fills element i with i over the whole new slice", p.Pos(fn.Pos()), "partitions = make([]int, n); for i := range partitions { partitions[i] = i }", fmt.Sprintf("lenEqualsCap=%v identityFill=%v", okMake, okFill))
	// WriteMessages passes exactly that list to the balancer
	WM := p.Func("", "(*Writer).WriteMessages")
	if WM != nil {
		ok := false
		an.EachInstr(WM, func(ins ssa.Instruction) {
			if c, isC := ins.(*ssa.Call); isC && c.Call.IsInvoke() && c.Call.Method.Name() == "Balance" {
				s := an.Shape(c.Call.Args[1])
				ok = strings.HasPrefix(s, "loadCachedPartitions(") && strings.Contains(s, "partitions(")
			}
		})
		r.Check(ok, rule, "WriteMessages offers loadCachedPartitions(number of partitions of the topic) to the balancer", p.Pos(WM.Pos()), "balancer.Balance(msg, loadCachedPartitions(numPartitions)...)", "not recognised")
	}
}

// Package rules holds the per-property rule instances.
package rules

import (
	_ "embed"
	"kverif/internal/an"

	"sort"

	"kverif/internal/load"
	"kverif/internal/oblig"
)

// Check is the static check of one property.
type Check struct {
	ID      string
	Run     func(p *load.Program, r *oblig.Report)
	Expl    oblig.Explanation
	Configs []load.Config // extra build configurations, analysed in both tiers
	Light   bool          // the rules need no function bodies outside the module
}

var registry = map[string]*Check{}

func register(c *Check) { registry[c.ID] = c }

func Get(id string) *Check { return registry[id] }

func IDs() []string {
	var ids []string
	for k := range registry {
		ids = append(ids, k)
	}
	sort.Strings(ids)
	return ids
}

//go:embed ref/names.json
var namesJSON []byte

func init() { an.RefNames = namesJSON }

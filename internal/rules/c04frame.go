package rules

import (
	"fmt"
	"go/token"
	"go/types"
	"strings"

	"golang.org/x/tools/go/ssa"

	"kverif/internal/an"
	"kverif/internal/load"
	"kverif/internal/oblig"
)

const protoPath = load.ModPath + "/protocol"

// argDesc summarises the provenance of a call argument: const:V, param:name, call:f, or a sorted set.
func argDesc(v ssa.Value) string {
	os := an.Origins(v, an.FlowOpts{})
	m := map[string]bool{}
	for _, o := range os {
		s := o.Kind + ":" + o.Name + o.Path
		if o.Affine && (o.A != 1 || o.B != 0) {
			s += fmt.Sprintf("*%d%+d", o.A, o.B)
		}
		m[s] = true
	}
	return strings.Join(an.SortedKeys(m), "|")
}

func methodOn(c *ssa.CallCommon, pkg, typ string) (string, bool) {
	f := c.StaticCallee()
	if f == nil || f.Signature.Recv() == nil {
		return "", false
	}
	if !an.NamedIs(f.Signature.Recv().Type(), pkg, typ) {
		return "", false
	}
	return an.RefFuncName(f), true
}

// isFieldCall recognises a call through a function-typed struct field (t.encode / t.decode).
func isFieldCall(c *ssa.CallCommon, field string) bool {
	if c.IsInvoke() || c.StaticCallee() != nil {
		return false
	}
	ld, ok := c.Value.(*ssa.UnOp)
	if !ok || ld.Op != token.MUL {
		return false
	}
	fa, ok := ld.X.(*ssa.FieldAddr)
	return ok && an.FieldName(fa.X.Type(), fa.Field) == field
}

func c04Framing(p *load.Program, r *oblig.Report) {
	const rule = "C04.R5 frame layout"
	type spec struct {
		fn       string
		wantNon  []string
		wantFlex []string
	}
	specs := []spec{
		{"WriteRequest",
			[]string{"enc.writeInt32(const:0)", "enc.writeInt16(call:(protocol.Message).ApiKey)", "enc.writeInt16(param:apiVersion)", "enc.writeInt32(param:correlationID)", "enc.writeString(param:clientID)", "encode", "buf.Size", "buf.WriteAt(const:0)", "buf.WriteTo"},
			[]string{"enc.writeInt32(const:0)", "enc.writeInt16(call:(protocol.Message).ApiKey)", "enc.writeInt16(param:apiVersion)", "enc.writeInt32(param:correlationID)", "enc.writeNullString(param:clientID)", "enc.writeUnsignedVarInt(const:0)", "encode", "buf.Size", "buf.WriteAt(const:0)", "buf.WriteTo"}},
		{"WriteResponse",
			[]string{"enc.writeInt32(const:0)", "enc.writeInt32(param:correlationID)", "encode", "buf.Size", "buf.WriteAt(const:0)", "buf.WriteTo"},
			[]string{"enc.writeInt32(const:0)", "enc.writeInt32(param:correlationID)", "enc.writeUnsignedVarInt(const:0)", "encode", "buf.Size", "buf.WriteAt(const:0)", "buf.WriteTo"}},
	}
	for _, sp := range specs {
		fn := p.Func("protocol", sp.fn)
		if fn == nil {
			r.Lost(rule, "protocol."+sp.fn)
			continue
		}
		pick := func(ins ssa.Instruction) (string, bool) {
			c, ok := ins.(*ssa.Call)
			if !ok {
				return "", false
			}
			if m, ok := methodOn(&c.Call, protoPath, "encoder"); ok {
				a := ""
				if len(c.Call.Args) > 1 {
					a = argDesc(c.Call.Args[1])
				}
				return "enc." + m + "(" + a + ")", true
			}
			if m, ok := methodOn(&c.Call, protoPath, "pageBuffer"); ok {
				switch m {
				case "WriteAt":
					return "buf.WriteAt(" + argDesc(c.Call.Args[2]) + ")", true
				case "WriteTo", "Size":
					return "buf." + m, true
				}
				return "", false
			}
			if isFieldCall(&c.Call, "encode") {
				return "encode", true
			}
			return "", false
		}
		traces, trunc := an.PathTraces(fn, pick, 1, 4000)
		if trunc {
			r.Undecided(rule, "protocol."+sp.fn, p.Pos(fn.Pos()), "too many paths")
			continue
		}
		var success [][]string
		for _, t := range traces {
			ls := an.Labels(t)
			has := false
			for _, l := range ls {
				if l == "buf.WriteTo" {
					has = true
				}
			}
			if has {
				success = append(success, ls)
			}
		}
		okSet := len(success) == 2
		found := []string{}
		matchedNon, matchedFlex := false, false
		for _, s := range success {
			j := strings.Join(s, " ; ")
			found = append(found, j)
			if j == strings.Join(sp.wantNon, " ; ") {
				matchedNon = true
			}
			if j == strings.Join(sp.wantFlex, " ; ") {
				matchedFlex = true
			}
		}
		r.Check(okSet && matchedNon && matchedFlex, rule, "protocol."+sp.fn+" → write sequence on every path that emits a frame", p.Pos(fn.Pos()),
			"exactly {"+strings.Join(sp.wantNon, " ; ")+"} and {"+strings.Join(sp.wantFlex, " ; ")+"}", strings.Join(found, " || "), found...)
		// size value and error gating
		an.EachInstr(fn, func(ins ssa.Instruction) {
			c, ok := ins.(*ssa.Call)
			if !ok {
				return
			}
			if f := c.Call.StaticCallee(); f != nil && an.RefFuncName(f) == "packUint32" {
				d := argDesc(c.Call.Args[0])
				r.Check(strings.Contains(d, "pageBuffer).Size*1-4") && !strings.Contains(d, "|"), rule, "protocol."+sp.fn+" → size prefix value", p.Pos(c.Pos()),
					"uint32(b.Size()) - 4", d)
			}
			if m, ok := methodOn(&c.Call, protoPath, "pageBuffer"); ok && m == "WriteTo" {
				// reached only on the err == nil edge with err ← e.err
				guard := false
				for _, pred := range c.Block().Preds {
					_, ci := an.IfCond(pred)
					if ci == nil || !an.IsNilConst(ci.Y) {
						continue
					}
					if e := ci.Edge(token.EQL); e >= 0 && pred.Succs[e] == c.Block() && strings.Contains(argDesc(ci.X), ".err") {
						guard = true
					}
				}
				// same block as the If's successor chain: accept dominance by such an edge
				if !guard {
					for b := c.Block().Idom(); b != nil; b = b.Idom() {
						_, ci := an.IfCond(b)
						if e := ci.Edge(token.EQL); e >= 0 && an.IsNilConst(ci.Y) && b.Succs[e].Dominates(c.Block()) && strings.Contains(argDesc(ci.X), ".err") {
							guard = true
						}
					}
				}
				r.Check(guard, rule, "protocol."+sp.fn+" → nothing is written to the connection after an encoder error", p.Pos(c.Pos()), "WriteTo only on the e.err == nil edge", "guard not found")
			}
		})
	}
	// readers
	for _, name := range []string{"ReadResponse", "ReadRequest"} {
		fn := p.Func("protocol", name)
		if fn == nil {
			r.Lost(rule, "protocol."+name)
			continue
		}
		pick := func(ins ssa.Instruction) (string, bool) {
			switch x := ins.(type) {
			case *ssa.Call:
				if m, ok := methodOn(&x.Call, protoPath, "decoder"); ok {
					return "dec." + m, true
				}
				if isFieldCall(&x.Call, "decode") {
					return "decode", true
				}
			case *ssa.Store:
				if fa, ok := x.Addr.(*ssa.FieldAddr); ok && an.NamedIs(fa.X.Type(), protoPath, "decoder") && an.FieldName(fa.X.Type(), fa.Field) == "remain" {
					return "remain=" + argDesc(x.Val), true
				}
			}
			return "", false
		}
		traces, trunc := an.PathTraces(fn, pick, 1, 6000)
		if trunc {
			r.Undecided(rule, "protocol."+name, p.Pos(fn.Pos()), "too many paths")
			continue
		}
		nDecode := 0
		var bad []string
		for _, t := range traces {
			ls := an.Labels(t)
			di := -1
			for i, l := range ls {
				if l == "decode" {
					di = i
				}
			}
			if di < 0 {
				continue
			}
			nDecode++
			j := strings.Join(ls, " ; ")
			// the frame size bounds the decoder before anything of the body is read
			if len(ls) < 4 || ls[0] != "remain=const:4" || ls[1] != "dec.readInt32" || !strings.HasPrefix(ls[2], "remain=call:(*protocol.decoder).readInt32") {
				bad = append(bad, "size prefix not installed as the decoder bound first: "+j)
			}
			if di+1 >= len(ls) || ls[di+1] != "dec.discardAll" {
				bad = append(bad, "the unread rest of the frame is not discarded after decoding: "+j)
			}
		}
		r.Check(len(bad) == 0 && nDecode >= 1, rule, "protocol."+name+" → frame size bounds the decoder and exactly one frame is consumed", p.Pos(fn.Pos()),
			"remain=4; readInt32; remain=size; …; decode; discardAll on every decoding path", strings.Join(bad, " || "), fmt.Sprintf("%d decoding paths", nDecode))
	}
	c04VersionGate(p, r)
}

// c04VersionGate: R6 — a version outside [min,max] is rejected by the four frame functions, and a
// struct field is included iff min <= version <= max.
func c04VersionGate(p *load.Program, r *oblig.Report) {
	const rule = "C04.R6 version gate"
	for _, name := range []string{"WriteRequest", "WriteResponse", "ReadResponse", "ReadRequest"} {
		fn := p.Func("protocol", name)
		if fn == nil {
			r.Lost(rule, "protocol."+name)
			continue
		}
		// find comparisons apiVersion < minVersion and apiVersion > maxVersion whose true edges lead to an error return
		lt, gt := false, false
		an.EachInstr(fn, func(ins ssa.Instruction) {
			bo, ok := ins.(*ssa.BinOp)
			if !ok {
				return
			}
			x, y := argDesc(bo.X), argDesc(bo.Y)
			isVer := func(s string) bool {
				return strings.Contains(s, "apiVersion") || strings.Contains(s, "readInt16")
			}
			if bo.Op == token.LSS && isVer(x) && strings.Contains(y, "minVersion") {
				lt = true
			}
			if bo.Op == token.GTR && isVer(x) && strings.Contains(y, "maxVersion") {
				gt = true
			}
			if bo.Op == token.GTR && strings.Contains(x, "minVersion") && isVer(y) {
				lt = true
			}
			if bo.Op == token.LSS && strings.Contains(x, "maxVersion") && isVer(y) {
				gt = true
			}
			// the complement, tested on the other edge: !(minVersion <= apiVersion && apiVersion <= maxVersion)
			if (bo.Op == token.LEQ && strings.Contains(x, "minVersion") && isVer(y)) || (bo.Op == token.GEQ && isVer(x) && strings.Contains(y, "minVersion")) {
				lt = true
			}
			if (bo.Op == token.LEQ && isVer(x) && strings.Contains(y, "maxVersion")) || (bo.Op == token.GEQ && strings.Contains(x, "maxVersion") && isVer(y)) {
				gt = true
			}
		})
		r.Check(lt && gt, rule, "protocol."+name+" rejects versions outside [min,max]", p.Pos(fn.Pos()), "apiVersion < minVersion || apiVersion > maxVersion ⇒ error", fmt.Sprintf("lower=%v upper=%v", lt, gt))
	}
	for _, name := range []string{"structEncodeFuncOf", "structDecodeFuncOf"} {
		fn := p.Func("protocol", name)
		if fn == nil {
			r.Lost(rule, "protocol."+name)
			continue
		}
		// inside the innermost closure: tag.MinVersion <= version && version <= tag.MaxVersion
		lo, hi := false, false
		an.EachInstrDeep(fn, func(_ *ssa.Function, ins ssa.Instruction) {
			bo, ok := ins.(*ssa.BinOp)
			if !ok {
				return
			}
			x, y := argDesc(bo.X), argDesc(bo.Y)
			if bo.Op == token.LEQ && strings.Contains(x, ".MinVersion") && strings.Contains(y, "version") {
				lo = true
			}
			if bo.Op == token.LEQ && strings.Contains(x, "version") && strings.Contains(y, ".MaxVersion") {
				hi = true
			}
			if bo.Op == token.GEQ && strings.Contains(y, ".MinVersion") && strings.Contains(x, "version") {
				lo = true
			}
			if bo.Op == token.GEQ && strings.Contains(y, "version") && strings.Contains(x, ".MaxVersion") {
				hi = true
			}
		})
		// the spelling of the test does not matter (`min <= v && v <= max`, or `v < min || max < v` skipping the
		// field): what matters is the condition under which the field's codec is built
		if !(lo && hi) {
			an.EachInstrDeep(fn, func(_ *ssa.Function, ins ssa.Instruction) {
				c, ok := ins.(*ssa.Call)
				if !ok || c.Call.StaticCallee() == nil {
					return
				}
				if n := an.RefFuncName(c.Call.StaticCallee()); n != "decodeFuncOf" && n != "encodeFuncOf" {
					return
				}
				for _, g := range guardCanon(c) {
					if strings.HasPrefix(g, "(") && strings.Contains(g, " >= ") {
						parts := strings.SplitN(g[1:len(g)-1], " >= ", 2)
						if strings.Contains(parts[0], "version") && strings.HasSuffix(parts[1], ".MinVersion") {
							lo = true
						}
						if strings.HasSuffix(parts[0], ".MaxVersion") && strings.Contains(parts[1], "version") {
							hi = true
						}
					}
				}
			})
		}
		r.Check(lo && hi, rule, "protocol."+name+" includes a field iff min <= version <= max", p.Pos(fn.Pos()), "tag.MinVersion <= version && version <= tag.MaxVersion", fmt.Sprintf("lower=%v upper=%v", lo, hi))
	}
}

// primitive wire effects: name -> sequence of byte-level effects
var encPrims = map[string]string{
	"writeInt8":              "fixed1",
	"writeInt16":             "fixed2",
	"writeInt32":             "fixed4",
	"writeInt64":             "fixed8",
	"writeFloat64":           "fixed8",
	"writeString":            "writeInt16(len) ; data",
	"writeCompactString":     "writeUnsignedVarInt(len+1) ; data",
	"writeNullString":        "empty? writeInt16(-1) : writeInt16(len) ; data",
	"writeCompactNullString": "empty? writeUnsignedVarInt(0) : writeUnsignedVarInt(len+1) ; data",
	"writeBytes":             "writeInt32(len) ; data",
	"writeCompactBytes":      "writeUnsignedVarInt(len+1) ; data",
	"writeNullBytes":         "nil? writeInt32(-1) : writeInt32(len) ; data",
	"writeCompactNullBytes":  "nil? writeUnsignedVarInt(0) : writeUnsignedVarInt(len+1) ; data",
	"writeVarString":         "writeVarInt(len) ; data",
	"writeVarNullBytes":      "nil? writeVarInt(-1) : writeVarInt(len) ; data",
}

var decPrims = map[string]string{
	"readString":        "readInt16 ; <0? zero : read(n)",
	"readCompactString": "readUnsignedVarInt ; <1? zero : read(n-1)",
	"readBytes":         "readInt32 ; <0? zero : read(n)",
	"readCompactBytes":  "readUnsignedVarInt ; <1? zero : read(n-1)",
	"readVarString":     "readVarInt ; <0? zero : read(n)",
	"readVarBytes":      "readVarInt ; <0? zero : read(n)",
}

func c04Primitives(p *load.Program, r *oblig.Report) {
	const rule = "C04.R7 codec primitive wire effect"
	// encoder side: derive the effect of each primitive from its body
	n := 0
	for name, want := range encPrims {
		fn := p.Func("protocol", "(*encoder)."+name)
		if fn == nil {
			r.Lost(rule, "protocol.(*encoder)."+name)
			continue
		}
		n++
		got := encEffect(fn)
		r.Check(got == want, rule, "protocol.(*encoder)."+name, p.Pos(fn.Pos()), want, got)
	}
	for name, want := range decPrims {
		fn := p.Func("protocol", "(*decoder)."+name)
		if fn == nil {
			r.Lost(rule, "protocol.(*decoder)."+name)
			continue
		}
		n++
		got := decEffect(fn)
		r.Check(got == want, rule, "protocol.(*decoder)."+name, p.Pos(fn.Pos()), want, got)
	}
	r.RequireCount(rule, n, 20)
	c04Dispatch(p, r)
	c04TagSkip(p, r)
}

// encEffect summarises an encoder primitive: fixed-width writes via e.Write(e.buffer[:k]) or a sequence of
// length-prefix call + data write, with an optional null branch.
func encEffect(fn *ssa.Function) string {
	// fixed width: single call e.Write(slice of buffer with constant high)
	var calls []*ssa.Call
	an.EachInstr(fn, func(ins ssa.Instruction) {
		if c, ok := ins.(*ssa.Call); ok {
			if _, ok := methodOn(&c.Call, protoPath, "encoder"); ok {
				calls = append(calls, c)
			}
		}
	})
	if len(fn.Blocks) == 1 && len(calls) == 1 && an.RefFuncName(calls[0].Call.StaticCallee()) == "Write" {
		if sl, ok := calls[0].Call.Args[1].(*ssa.Slice); ok && sl.High != nil {
			if h, ok := an.ConstInt(sl.High); ok {
				return fmt.Sprintf("fixed%d", h)
			}
		}
	}
	desc := func(c *ssa.Call) string {
		m := an.RefFuncName(c.Call.StaticCallee())
		switch m {
		case "Write", "WriteString":
			return "data"
		}
		a := ""
		if len(c.Call.Args) > 1 {
			a = lenDesc(c.Call.Args[1])
		}
		return m + "(" + a + ")"
	}
	pathDesc := func(b *ssa.BasicBlock) string {
		var out []string
		for _, ins := range b.Instrs {
			if c, ok := ins.(*ssa.Call); ok {
				if _, ok := methodOn(&c.Call, protoPath, "encoder"); ok {
					out = append(out, desc(c))
				}
			}
		}
		return strings.Join(out, " ; ")
	}
	if len(fn.Blocks) == 1 {
		return pathDesc(fn.Blocks[0])
	}
	// if <null test> { writeX(-1|0) } else { writeX(len…); data }
	_, ci := an.IfCond(fn.Blocks[0])
	if ci == nil || len(fn.Blocks[0].Succs) != 2 {
		return "unrecognised control flow"
	}
	kind := "?"
	if an.IsNilConst(ci.Y) {
		kind = "nil"
	} else if c, ok := ci.Y.(*ssa.Const); ok && c.Value != nil && c.Value.ExactString() == `""` {
		kind = "empty"
	}
	t, f := fn.Blocks[0].Succs[0], fn.Blocks[0].Succs[1]
	if e := ci.Edge(token.EQL); e == 1 {
		t, f = f, t
	}
	return kind + "? " + pathDesc(t) + " : " + pathDesc(f)
}

// lenDesc renders a length-prefix argument: len, len+1, -1, 0.
func lenDesc(v ssa.Value) string {
	for _, o := range an.Origins(v, an.FlowOpts{}) {
		switch {
		case o.Kind == "const":
			return o.Name
		case o.Kind == "call" && o.Name == "len":
			if o.Affine {
				// affine tracking is dropped at len(): recompute from the expression shape
			}
		}
	}
	// shape: Convert(len(x)) [+ 1]
	plus := int64(0)
	x := v
	for i := 0; i < 6; i++ {
		switch y := x.(type) {
		case *ssa.Convert:
			x = y.X
			continue
		case *ssa.BinOp:
			if c, ok := an.ConstInt(y.Y); ok && y.Op == token.ADD {
				plus += c
				x = y.X
				continue
			}
			if c, ok := an.ConstInt(y.X); ok && y.Op == token.ADD {
				plus += c
				x = y.Y
				continue
			}
		case *ssa.Call:
			if b, ok := y.Call.Value.(*ssa.Builtin); ok && b.Name() == "len" {
				if plus == 0 {
					return "len"
				}
				return fmt.Sprintf("len+%d", plus)
			}
		}
		break
	}
	return "?"
}

// decEffect summarises a decoder primitive of the shape `if n := d.readX(); n < K { return zero } else { return f(d.read(int(n - K))) }`.
func decEffect(fn *ssa.Function) string {
	if len(fn.Blocks) < 3 {
		return "unrecognised"
	}
	var first *ssa.Call
	for _, ins := range an.Blocks(fn)[0].Instrs {
		if c, ok := ins.(*ssa.Call); ok {
			if _, ok := methodOn(&c.Call, protoPath, "decoder"); ok && first == nil {
				first = c
			}
		}
	}
	_, ci := an.IfCond(fn.Blocks[0])
	if first == nil || ci == nil || ci.Op != token.LSS || ci.X != ssa.Value(first) {
		return "unrecognised"
	}
	k, ok := an.ConstInt(ci.Y)
	if !ok {
		return "unrecognised"
	}
	// true edge returns the zero value without reading
	tb, fb := fn.Blocks[0].Succs[0], fn.Blocks[0].Succs[1]
	for _, ins := range tb.Instrs {
		if _, ok := ins.(*ssa.Call); ok {
			return "null branch consumes bytes"
		}
	}
	var rd *ssa.Call
	for _, ins := range fb.Instrs {
		if c, ok := ins.(*ssa.Call); ok {
			if m, ok := methodOn(&c.Call, protoPath, "decoder"); ok && m == "read" {
				rd = c
			}
		}
	}
	if rd == nil {
		return "no read(n) on the non-null branch"
	}
	arg := "?"
	os := an.Origins(rd.Call.Args[1], an.FlowOpts{})
	if len(os) == 1 && os[0].Val == ssa.Value(first) && os[0].Affine && os[0].A == 1 {
		if os[0].B == 0 {
			arg = "n"
		} else {
			arg = fmt.Sprintf("n%+d", os[0].B)
		}
	}
	return fmt.Sprintf("%s ; <%d? zero : read(%s)", an.RefFuncName(first.Call.StaticCallee()), k, arg)
}

// c04Dispatch: encoder and decoder choose primitives of the same wire type for each (kind, flexible, nullable).
func c04Dispatch(p *load.Program, r *oblig.Report) {
	const rule = "C04.R7 encoder/decoder dispatch agreement"
	// string/bytes helper pairs: (flexible ⇒ compact) on both sides
	pairs := [][2]string{{"stringEncodeFuncOf", "stringDecodeFuncOf"}, {"bytesEncodeFuncOf", "bytesDecodeFuncOf"}, {"arrayEncodeFuncOf", "arrayDecodeFuncOf"}}
	for _, pr := range pairs {
		ef, df := p.Func("protocol", pr[0]), p.Func("protocol", pr[1])
		if ef == nil || df == nil {
			r.Lost(rule, "protocol."+pr[0]+"/"+pr[1])
			continue
		}
		eset := returnedFuncsByFlex(ef)
		dset := returnedFuncsByFlex(df)
		ok := true
		var facts []string
		for _, flex := range []string{"flexible", "plain"} {
			ec, dc := compactness(eset[flex]), compactness(dset[flex])
			facts = append(facts, fmt.Sprintf("%s: encoder %v (%s) / decoder %v (%s)", flex, eset[flex], ec, dset[flex], dc))
			want := "plain"
			if flex == "flexible" {
				want = "compact"
			}
			if ec != want || dc != want {
				ok = false
			}
		}
		r.Check(ok, rule, "protocol."+pr[0]+" ↔ "+pr[1], p.Pos(ef.Pos()), "compact primitives iff flexible, on both sides", strings.Join(facts, "; "), facts...)
	}
	// kind switch of encodeFuncOf / decodeFuncOf: same reflect kinds handled
	ek, dk := kindCases(p.Func("protocol", "encodeFuncOf")), kindCases(p.Func("protocol", "decodeFuncOf"))
	r.Check(ek != "" && ek == dk, rule, "protocol.encodeFuncOf ↔ decodeFuncOf handle the same kinds", "-", ek, dk)
}

// returnedFuncsByFlex interprets a dispatch helper over the truth table of (flexible, tag.Nullable) and
// lists the primitive returned when flexible is true / false.
func returnedFuncsByFlex(fn *ssa.Function) map[string][]string {
	out := map[string][]string{}
	closureNames := map[string]string{}
	an.EachInstr(fn, func(ins ssa.Instruction) {
		if mc, ok := ins.(*ssa.MakeClosure); ok {
			closureNames["closure:"+mc.Fn.Name()] = retFuncName(mc)
		}
	})
	atoms := func(v ssa.Value) (string, bool) {
		if prm, ok := v.(*ssa.Parameter); ok {
			if an.ParamName(prm) == "flexible" {
				return "flexible", true
			}
			return "", false
		}
		if s, ok := an.DefaultAtoms(v); ok && strings.HasSuffix(s, ".Nullable") {
			return "nullable", true
		}
		return "", false
	}
	for _, flex := range []int64{0, 1} {
		for _, null := range []int64{0, 1} {
			res, err := an.EvalOrder(fn, atoms, map[string]int64{"flexible": flex, "nullable": null}, nil)
			name := "?"
			if err != nil {
				name = "undecided(" + err.Error() + ")"
			} else if len(res) == 1 {
				name = strings.TrimPrefix(res[0].Atom, "func:")
				if n, ok := closureNames[res[0].Atom]; ok {
					name = n
				}
			}
			key := "plain"
			if flex == 1 {
				key = "flexible"
			}
			out[key] = append(out[key], name)
		}
	}
	return out
}

func retFuncName(v ssa.Value) string {
	switch x := v.(type) {
	case *ssa.Function:
		return strings.TrimSuffix(x.Name(), "$bound")
	case *ssa.MakeClosure:
		// closure: name the encoder/decoder method it calls
		var names []string
		if f, ok := x.Fn.(*ssa.Function); ok {
			an.EachInstr(f, func(ins ssa.Instruction) {
				if c, ok := ins.(*ssa.Call); ok {
					if sc := c.Call.StaticCallee(); sc != nil && sc.Signature.Recv() != nil {
						names = append(names, an.RefFuncName(sc))
					}
				}
			})
		}
		return strings.Join(names, "+")
	case *ssa.ChangeType:
		return retFuncName(x.X)
	}
	return v.Name()
}

func compactness(names []string) string {
	c, pl := 0, 0
	for _, n := range names {
		if strings.Contains(strings.ToLower(n), "compact") {
			c++
		} else {
			pl++
		}
	}
	switch {
	case c > 0 && pl == 0:
		return "compact"
	case pl > 0 && c == 0:
		return "plain"
	}
	return "mixed"
}

// kindCases lists the reflect.Kind constants a function switches on.
func kindCases(fn *ssa.Function) string {
	if fn == nil {
		return ""
	}
	m := map[string]bool{}
	an.EachInstr(fn, func(ins ssa.Instruction) {
		bo, ok := ins.(*ssa.BinOp)
		if !ok || bo.Op != token.EQL {
			return
		}
		c, ok := bo.Y.(*ssa.Const)
		if !ok || c.Value == nil {
			return
		}
		if n, ok := c.Type().(*types.Named); ok && n.Obj().Name() == "Kind" {
			m[c.Value.ExactString()] = true
		}
	})
	return strings.Join(an.SortedKeys(m), ",")
}

// c04TagSkip: an unknown tagged field is skipped by consuming exactly its announced size.
func c04TagSkip(p *load.Program, r *oblig.Report) {
	const rule = "C04.R7 unknown tagged fields are skipped exactly"
	read := p.Func("protocol", "(*decoder).read")
	if read == nil {
		r.Lost(rule, "protocol.(*decoder).read")
		return
	}
	// (*decoder).read consumes exactly n bytes or sets the sticky error: make([]byte, n) + io.ReadFull
	okRead := false
	an.EachInstr(read, func(ins ssa.Instruction) {
		if c, ok := ins.(*ssa.Call); ok {
			if f := c.Call.StaticCallee(); f != nil && f.Pkg != nil && f.Pkg.Pkg.Path() == "io" && an.RefFuncName(f) == "ReadFull" {
				if mk, ok := c.Call.Args[1].(*ssa.MakeSlice); ok && mk.Len == ssa.Value(read.Params[1]) {
					okRead = true
				}
			}
		}
	})
	r.Check(okRead, rule, "protocol.(*decoder).read consumes exactly n bytes", p.Pos(read.Pos()), "io.ReadFull(d, make([]byte, n))", "shape not recognised")
	sites := 0
	check := func(fn *ssa.Function, where string) {
		an.EachInstrDeep(fn, func(f *ssa.Function, ins ssa.Instruction) {
			// a readUnsignedVarInt whose result is converted and passed to a decoder method = the size of a tagged field
			c, ok := ins.(*ssa.Call)
			if !ok {
				return
			}
			m, ok := methodOn(&c.Call, protoPath, "decoder")
			if !ok || len(c.Call.Args) != 2 || m == "readFull" {
				return
			}
			os := an.Origins(c.Call.Args[1], an.FlowOpts{})
			if len(os) != 1 || os[0].Kind != "call" || !strings.HasSuffix(os[0].Name, "readUnsignedVarInt") || os[0].Path != "" {
				return
			}
			if !os[0].Affine || os[0].A != 1 || os[0].B != 0 {
				return // n-1 of compact strings etc. are primitives checked above
			}
			sites++
			r.Check(m == "read", rule, where+" → skip of an unknown tagged field", p.Pos(c.Pos()), "d.read(size): consumes exactly the announced size", "d."+m+"(size)")
		})
	}
	for _, name := range []string{"structDecodeFuncOf", "ReadResponse", "ReadRequest"} {
		fn := p.Func("protocol", name)
		if fn == nil {
			r.Lost(rule, "protocol."+name)
			continue
		}
		check(fn, "protocol."+name)
	}
	r.RequireCount(rule, sites, 3)
}

package rules

import (
	"fmt"
	"go/token"
	"go/types"
	"sort"
	"strings"

	"golang.org/x/tools/go/ssa"

	"kverif/internal/an"
	"kverif/internal/load"
	"kverif/internal/oblig"
)

func init() {
	register(&Check{ID: "C17", Run: runC17, Expl: oblig.Explanation{
		Text:        "Static truncation-handling check. (R1) every error that ReadResponse/ReadRequest/Unmarshal return from the decoder state passes through dontExpectEOF (an EOF inside a frame is never reported as a clean EOF), and the Batch maps EOFs that are not the end-of-batch marker the same way. (R2) the decoder's error is sticky: setError keeps the first error and drains, every read helper returns its zero value once the error is set, array loops stop when nothing remains. (R3) the connection is not used again: C11.R2 (Conn closed on non-Kafka errors), C11.R4 (no reader-layer error dropped), C06.R6 (transport conn dropped after a failed exchange) are re-evaluated here. (R4) RoundTrip never returns a message together with an error; (R5) size threading of the hand-written reader: every reader-layer function returns a remaining size derived from its size argument on its error exits (a cut inside a varint or field is never reported as 'nothing left'); (R6) the deadline that bounded the request also bounds the wait for its response. Not decided: never panics at every cut position (value-level; C20 covers length-driven panics), Reader/Writer resumption without loss (fault sequences), deadlines actually firing (timing).",
		Rule:        "one obligation per error exit / helper / call site; non-trivial = a path or provenance query was evaluated",
		Trusted:     []string{"go/ssa", "rules shared with C11 and C06"},
		Assumptions: []string{"io.ErrUnexpectedEOF is what callers (Writer retry, Reader reconnect) treat as a transient network error"},
	}})
}

func runC17(p *load.Program, r *oblig.Report) {
	c17DontExpectEOF(p, r)
	c17BatchEOF(p, r)
	c17DiscardReportsShortStream(p, r)
	shareRules(r, "C17", "C17.R12 a cut response is a transient error: the Writer retries on a new connection (C01.R7)", func(sub *oblig.Report) { c01Temporary(p, sub) })
	c17MergeFailures(p, r, "C17.R10 a merged response is complete: a failed part fails the whole")
	c17Sticky(p, r)
	c17Shared(p, r)
	c17RoundTrip(p, r)
	c17SizeThreading(p, r)
	c17StaleSize(p, r, "C17.R5 remaining size is threaded through error exits")
	c17Deadline(p, r)
	transportDeadline(p, r, "C17.R6 the operation's deadline bounds the wait for its response")
	rawTokenReadFull(p, r, "C17.R8 the raw SASL answer is complete or an error")
	// after a cut response the Reader resumes behind the last record it delivered (C02.R1, C02.R3)
	shareRules(r, "C17", "C17.R9 the Reader resumes after the last delivered record", func(sub *oblig.Report) { c02Run(p, sub); c02Read(p, sub) })
	// the Writer's retry after a cut response carries the same records again: every attempt encodes the batch
	// through a fresh reader (C01.R5) and a failed attempt is retried or reported (C01.R3)
	shareRules(r, "C17", "C17.R7 the Writer's retry on a new connection resends the whole batch", func(sub *oblig.Report) {
		c01RequestIdentity(p, sub)
		c01RetryLoop(p, sub)
	})
}

// c17DontExpectEOF: every returned error that comes from d.err went through dontExpectEOF.
func c17DontExpectEOF(p *load.Program, r *oblig.Report) {
	const rule = "C17.R1 EOF inside a frame becomes ErrUnexpectedEOF"
	de := p.Func("protocol", "dontExpectEOF")
	if de == nil {
		r.Lost(rule, "protocol.dontExpectEOF")
		return
	}
	n := 0
	for _, name := range []string{"ReadResponse", "ReadRequest", "Unmarshal"} {
		fn := p.Func("protocol", name)
		if fn == nil {
			r.Lost(rule, "protocol."+name)
			continue
		}
		// stores/returns of an error value loaded from decoder.err: each load of d.err that can flow to a return
		// must be passed to dontExpectEOF before the return, or be tested against ErrUnexpectedEOF
		an.EachInstr(fn, func(ins ssa.Instruction) {
			ret, ok := ins.(*ssa.Return)
			if !ok {
				return
			}
			errIdx := len(ret.Results) - 1
			if errIdx < 0 || !isErrorType(ret.Results[errIdx].Type()) {
				return
			}
			rv := ret.Results[errIdx]
			var cands []ssa.Value
			if phi, ok := rv.(*ssa.Phi); ok {
				for i, e := range phi.Edges {
					// an edge on which the value was just tested to be nil carries no error
					pred := phi.Block().Preds[i]
					_, ci := an.IfCond(pred)
					if ci != nil && ci.X == e && an.IsNilConst(ci.Y) {
						nilSucc := pred.Succs[1]
						if e := ci.Edge(token.EQL); e >= 0 {
							nilSucc = pred.Succs[e]
						}
						if nilSucc == phi.Block() {
							continue
						}
					}
					cands = append(cands, e)
				}
			} else {
				cands = append(cands, rv)
			}
			var origins []an.Origin
			for _, cv := range cands {
				origins = append(origins, an.Origins(cv, an.FlowOpts{})...)
			}
			for _, o := range origins {
				if strings.HasSuffix(o.Path, ".err") && (o.Kind == "alloc" || o.Kind == "param" || o.Kind == "call") {
					n++
					// a raw d.err reaches this return: allowed only on the edge where it is already ErrUnexpectedEOF
					okGuard := false
					for d, child := ret.Block().Idom(), ret.Block(); d != nil; d, child = d.Idom(), d {
						iff, _ := an.IfCond(d)
						if iff == nil {
							continue
						}
						if c2, ok := an.CondOf(iff).(*ssa.Call); ok {
							if f := c2.Call.StaticCallee(); f != nil && an.RefFuncName(f) == "Is" && strings.Contains(argDesc(c2.Call.Args[1]), "ErrUnexpectedEOF") && (d.Succs[0] == child || d.Succs[0].Dominates(child)) {
								okGuard = true
							}
						}
					}
					r.Check(okGuard, rule, fmt.Sprintf("protocol.%s → return of the raw decoder error", name), p.Pos(ret.Pos()), "dontExpectEOF(d.err) (or the error is already known to be ErrUnexpectedEOF)", "d.err returned unconverted")
				}
				if o.Kind == "call" && strings.HasSuffix(o.Name, "dontExpectEOF") {
					n++
					r.OK(rule, fmt.Sprintf("protocol.%s → decoder error converted before return", name), p.Pos(ret.Pos()))
				}
			}
		})
		// after every read of the decoder there is a test of d.err before the value is trusted: count the conversions
		cnt := 0
		an.EachInstr(fn, func(ins ssa.Instruction) {
			if call, ok := ins.(*ssa.Call); ok && an.StaticCalleeIs(&call.Call, de) {
				cnt++
			}
		})
		min := map[string]int{"ReadResponse": 3, "ReadRequest": 3, "Unmarshal": 1}[name]
		r.Check(cnt >= min, rule, fmt.Sprintf("protocol.%s → every check of the decoder state converts the error", name), p.Pos(fn.Pos()), fmt.Sprintf(">= %d dontExpectEOF conversions (after the size prefix, after the header, after the body)", min), fmt.Sprint(cnt))
	}
	r.RequireCount(rule, n, 4)
	// Batch.readMessage: errors other than the short-read case are stored through dontExpectEOF
	br := p.Func("", "(*Batch).readMessage")
	rde := p.Func("", "dontExpectEOF")
	if br == nil || rde == nil {
		r.Lost(rule, "kafka.(*Batch).readMessage / dontExpectEOF")
		return
	}
	stores, conv := 0, 0
	an.EachInstr(br, func(ins ssa.Instruction) {
		st, ok := ins.(*ssa.Store)
		if !ok {
			return
		}
		fa, ok := st.Addr.(*ssa.FieldAddr)
		if !ok || an.FieldName(fa.X.Type(), fa.Field) != "err" || !an.NamedIs(fa.X.Type(), load.ModPath, "Batch") {
			return
		}
		stores++
		d := argDesc(st.Val)
		if strings.Contains(d, "dontExpectEOF") || strings.Contains(d, "checkTimeoutErr") {
			conv++
		}
	})
	r.Check(stores >= 3 && stores == conv, rule, "kafka.(*Batch).readMessage → batch.err is only ever set to a converted error or the end-of-batch marker", p.Pos(br.Pos()), "dontExpectEOF(err) or checkTimeoutErr(deadline)", fmt.Sprintf("%d stores, %d converted", stores, conv))
	// ReadBatchWith wraps every error into dontExpectEOF
	rb := p.Func("", "(*Conn).ReadBatchWith")
	if rb != nil {
		bad := 0
		tot := 0
		an.EachInstr(rb, func(ins ssa.Instruction) {
			st, ok := ins.(*ssa.Store)
			if !ok {
				return
			}
			fa, ok := st.Addr.(*ssa.FieldAddr)
			if !ok || an.FieldName(fa.X.Type(), fa.Field) != "err" || !an.NamedIs(fa.X.Type(), load.ModPath, "Batch") {
				return
			}
			tot++
			d := argDesc(st.Val)
			if !strings.Contains(d, "dontExpectEOF") && !strings.Contains(d, "fmt.Errorf") {
				bad++
			}
		})
		r.Check(bad == 0 && tot >= 5, rule, "kafka.(*Conn).ReadBatchWith → a failed fetch never yields a batch whose error is a clean EOF", p.Pos(rb.Pos()), "Batch{err: dontExpectEOF(err)}", fmt.Sprintf("%d of %d stores unconverted", bad, tot))
	}
}

func c17Sticky(p *load.Program, r *oblig.Report) {
	const rule = "C17.R2 decoder error is sticky"
	se := p.Func("protocol", "(*decoder).setError")
	if se == nil {
		r.Lost(rule, "protocol.(*decoder).setError")
		return
	}
	// store to d.err guarded by d.err == nil && err != nil, followed by discardAll
	okGuard, okDrain := false, false
	an.EachInstr(se, func(ins ssa.Instruction) {
		st, ok := ins.(*ssa.Store)
		if !ok {
			return
		}
		fa, ok := st.Addr.(*ssa.FieldAddr)
		if !ok || an.FieldName(fa.X.Type(), fa.Field) != "err" {
			return
		}
		// dominated by `d.err == nil` true edge
		for d, child := st.Block().Idom(), st.Block(); d != nil; d, child = d.Idom(), d {
			_, ci := an.IfCond(d)
			if e := ci.Edge(token.EQL); e >= 0 && an.IsNilConst(ci.Y) && strings.HasSuffix(argDesc(ci.X), ".err") && (d.Succs[e] == child || d.Succs[e].Dominates(child)) {
				okGuard = true
			}
		}
		q := an.PathQuery{Fn: se, Target: func(i ssa.Instruction) bool {
			c2, ok := i.(*ssa.Call)
			return ok && c2.Call.StaticCallee() != nil && an.RefFuncName(c2.Call.StaticCallee()) == "discardAll"
		}}
		okDrain = q.ReachableFrom(an.PointOf(st)) != nil
	})
	r.Check(okGuard && okDrain, rule, "protocol.(*decoder).setError keeps the first error and drains the frame", p.Pos(se.Pos()), "if d.err == nil && err != nil { d.err = err; d.discardAll() }", fmt.Sprintf("firstOnly=%v drains=%v", okGuard, okDrain))
	// Read returns the sticky error first
	rd := p.Func("protocol", "(*decoder).Read")
	if rd != nil {
		_, ci := an.IfCond(rd.Blocks[0])
		ok := ci.Edge(token.NEQ) >= 0 && an.IsNilConst(ci.Y) && strings.HasSuffix(argDesc(ci.X), ".err")
		if ok {
			// the d.err != nil edge returns at once
			e := rd.Blocks[0].Succs[ci.Edge(token.NEQ)]
			_, isRet := e.Instrs[len(e.Instrs)-1].(*ssa.Return)
			ok = isRet
		}
		r.Check(ok, rule, "protocol.(*decoder).Read fails immediately once an error was recorded", p.Pos(rd.Pos()), "if d.err != nil { return 0, d.err } first", "not the first test")
	}
	// fixed-width read helpers: value returned only when readFull succeeded
	n := 0
	for _, name := range []string{"readByte", "readInt8", "readInt16", "readInt32", "readInt64", "readFloat64"} {
		fn := p.Func("protocol", "(*decoder)."+name)
		if fn == nil {
			r.Lost(rule, "protocol.(*decoder)."+name)
			continue
		}
		n++
		iff, _ := an.IfCond(fn.Blocks[0])
		ok := false
		if iff != nil {
			if c2, isC := an.CondOf(iff).(*ssa.Call); isC && c2.Call.StaticCallee() != nil && an.RefFuncName(c2.Call.StaticCallee()) == "readFull" {
				// false edge returns a zero constant
				fb := fn.Blocks[0].Succs[1]
				if ret, isR := fb.Instrs[len(fb.Instrs)-1].(*ssa.Return); isR && len(ret.Results) == 1 {
					if k, isK := ret.Results[0].(*ssa.Const); isK {
						ok = k.IsNil() || k.Value == nil || k.Value.ExactString() == "0"
					}
				}
			}
		}
		r.Check(ok, rule, "protocol.(*decoder)."+name+" returns zero when the bytes are not there", p.Pos(fn.Pos()), "if d.readFull(buf) { return decode(buf) }; return 0", "not recognised")
	}
	r.RequireCount(rule, n, 6)
	// array loops stop when the frame is exhausted
	for _, name := range []string{"decodeArray", "decodeCompactArray"} {
		fn := p.Func("protocol", "(*decoder)."+name)
		if fn == nil {
			r.Lost(rule, "protocol.(*decoder)."+name)
			continue
		}
		// (the loop must leave when the frame is exhausted *or* a read has failed: after a failed read `remain` stops
		// decreasing, so `d.remain > 0` alone is not enough — see the C20 finding fixed by 869fde5. Accepted: a call
		// of a predicate that looks at both, such as d.done(), or separate tests of remain and err.)
		remainT, errT := false, false
		for _, b := range an.Blocks(fn) {
			iff, ci := an.IfCond(b)
			if iff == nil {
				continue
			}
			if ci != nil && ci.Op == token.GTR && strings.HasSuffix(argDesc(ci.X), ".remain") {
				if k, isK := an.ConstInt(ci.Y); isK && k == 0 {
					remainT = true
				}
			}
			if ci != nil && strings.HasSuffix(argDesc(ci.X), ".err") && an.IsNilConst(ci.Y) {
				errT = true
			}
			c := an.CondOf(iff)
			if u, isU := c.(*ssa.UnOp); isU && u.Op == token.NOT {
				c = u.X
			}
			if call, isC := c.(*ssa.Call); isC && call.Call.StaticCallee() != nil {
				looksRemain, looksErr := false, false
				an.EachInstr(call.Call.StaticCallee(), func(i ssa.Instruction) {
					if fa, isFA := i.(*ssa.FieldAddr); isFA {
						switch an.FieldName(fa.X.Type(), fa.Field) {
						case "remain":
							looksRemain = true
						case "err":
							looksErr = true
						}
					}
				})
				remainT, errT = remainT || looksRemain, errT || looksErr
			}
		}
		r.Check(remainT && errT, rule, "protocol.(*decoder)."+name+" stops iterating when nothing remains or a read has failed", p.Pos(fn.Pos()), "loop condition includes !d.done() (remain == 0 || err != nil)", fmt.Sprintf("tests remain: %v, tests err: %v", remainT, errT))
	}
}

func c17Shared(p *load.Program, r *oblig.Report) {
	sub := oblig.NewReport("C17", r.Tier)
	c := newC11(p, sub)
	c.ruleR2()
	c.ruleR4()
	c.ruleR7()
	c06Transport(p, sub)
	for _, o := range sub.Obs {
		o2 := *o
		o2.Rule = "C17.R3 the affected connection is not used again (" + strings.SplitN(o.Rule, " ", 2)[0] + ")"
		r.Add(&o2)
	}
	for k, v := range sub.MinCount {
		if v[0] < v[1] {
			r.RequireCount("C17.R3 "+k, v[0], v[1])
		}
	}
}

func c17RoundTrip(p *load.Program, r *oblig.Report) {
	const rule = "C17.R4 no message is returned together with an error"
	for _, x := range []struct{ rel, name string }{{"protocol", "RoundTrip"}, {"protocol", "ReadResponse"}} {
		fn := p.Func(x.rel, x.name)
		if fn == nil {
			r.Lost(rule, x.rel+"."+x.name)
			continue
		}
		if x.name == "RoundTrip" {
			ok := true
			an.EachInstr(fn, func(ins ssa.Instruction) {
				ret, isR := ins.(*ssa.Return)
				if !isR || len(ret.Results) != 2 {
					return
				}
				if !an.IsNilConst(ret.Results[1]) && !an.IsNilConst(ret.Results[0]) {
					ok = false
				}
			})
			r.Check(ok, rule, "protocol.RoundTrip", p.Pos(fn.Pos()), "every return has a nil message or a nil error", "a return carries both")
		}
	}
	// Client-level: (*Transport).RoundTrip result passes through; (*conn).run rejects with the error only
	run := p.Func("", "(*conn).run")
	if run != nil {
		ok := false
		F, _ := exchangeFunction(p, run)
		if F == nil {
			F = run
		}
		an.EachInstr(F, func(ins ssa.Instruction) {
			if call, isC := ins.(*ssa.Call); isC && call.Call.StaticCallee() != nil && an.RefFuncName(call.Call.StaticCallee()) == "reject" {
				for _, pred := range call.Block().Preds {
					_, ci := an.IfCond(pred)
					if ci != nil && (ci.Op == token.NEQ || ci.Op == token.EQL) && an.IsNilConst(ci.Y) {
						nonNil := 0
						if (ci.Op == token.EQL) != ci.Neg {
							nonNil = 1
						}
						if pred.Succs[nonNil] == call.Block() {
							ok = true
						}
					}
				}
			}
		})
		r.Check(ok, rule, "kafka.(*conn).run rejects the promise when the round trip failed", p.Pos(run.Pos()), "err != nil ⇒ cr.res.reject(err)", "not recognised")
	}
}

// c17SizeThreading: on error exits the reader layer reports how much of the response is left.
func c17SizeThreading(p *load.Program, r *oblig.Report) {
	const rule = "C17.R5 remaining size is threaded through error exits"
	root := p.SSAPkg("")
	n := 0
	for _, fn := range p.ModuleFunctions() {
		if fn.Parent() != nil || fn.Pkg != root || fn.Signature.Recv() != nil {
			continue
		}
		// (r *bufio.Reader, sz int, …) (…int…, error): find the size parameter and the int result position
		params := fn.Signature.Params()
		if params.Len() < 2 || !isBufioReaderPtr(params.At(0).Type()) {
			continue
		}
		if b, ok := params.At(1).Type().Underlying().(*types.Basic); !ok || b.Kind() != types.Int {
			continue
		}
		res := fn.Signature.Results()
		if res.Len() < 2 || !isErrorType(res.At(res.Len()-1).Type()) {
			continue
		}
		szIdx := -1
		for i := 0; i < res.Len()-1; i++ {
			if b, ok := res.At(i).Type().Underlying().(*types.Basic); ok && b.Kind() == types.Int {
				szIdx = i
			}
		}
		if szIdx < 0 {
			continue
		}
		szParam := fn.Params[1]
		an.EachInstr(fn, func(ins ssa.Instruction) {
			ret, ok := ins.(*ssa.Return)
			if !ok || len(ret.Results) != res.Len() {
				return
			}
			errRes := ret.Results[res.Len()-1]
			if an.IsNilConst(errRes) {
				return
			}
			// returns of a constant size together with a (possibly) non-nil error
			k, isConst := an.ConstInt(ret.Results[szIdx])
			if !isConst {
				return
			}
			n++
			// allowed only when the size parameter (or its running value) is known to equal that constant here
			okGuard := false
			for d, child := ret.Block().Idom(), ret.Block(); d != nil; d, child = d.Idom(), d {
				_, ci := an.IfCond(d)
				e := ci.Edge(token.EQL)
				if e < 0 {
					continue
				}
				if c2, ok := an.ConstInt(ci.Y); ok && c2 == k && (d.Succs[e] == child || d.Succs[e].Dominates(child)) {
					for _, o := range an.Origins(ci.X, an.FlowOpts{}) {
						if o.Val == ssa.Value(szParam) || o.Kind == "binop" || o.Kind == "call" {
							okGuard = true
						}
					}
				}
			}
			r.Check(okGuard, rule, an.ShortFunc(fn)+fmt.Sprintf(" → error exit reporting %d bytes left", k), p.Pos(ret.Pos()),
				"the remaining size derives from the size argument (a constant only where the running size was just compared with it)", "constant remaining size on an error exit: callers would believe the response was consumed")
		})
	}
	r.RequireCount(rule, n, 1)
	// the compressed batch of a v2 message set: what is taken off the remaining size is what the decompressor really
	// pulled from the connection (the bound given to the limited reader minus what it has left), never the announced
	// length: after a connection cut in the payload the codec may report a clean end of stream
	mr := p.Func("", "(*messageSetReader).readMessageV2")
	if mr == nil {
		r.Lost(rule, "kafka.(*messageSetReader).readMessageV2")
		return
	}
	var readFrom *ssa.Call
	an.EachInstr(mr, func(ins ssa.Instruction) {
		if c, ok := ins.(*ssa.Call); ok && c.Call.StaticCallee() != nil && an.ShortFunc(c.Call.StaticCallee()) == "(*bytes.Buffer).ReadFrom" {
			readFrom = c
		}
	})
	if readFrom == nil {
		r.Lost(rule, "decompression (bytes.Buffer.ReadFrom) in kafka.(*messageSetReader).readMessageV2")
		return
	}
	found, okN := "", false
	an.EachInstr(mr, func(ins ssa.Instruction) {
		st, ok := fieldStoreIs(ins, "readerStack", "remain")
		if !ok || !an.Dominates(readFrom, st) {
			return
		}
		if _, isSub := st.Val.(*ssa.BinOp); !isSub || found != "" {
			return
		}
		found = clean(an.Shape(st.Val))
		// … - (bound - int(<limited reader>.N))
		okN = strings.Contains(found, ".N)") && strings.Contains(found, ".remain - (")
	})
	r.Check(okN, rule, "kafka.(*messageSetReader).readMessageV2 → a compressed batch is charged with the bytes actually read from the connection", p.Pos(readFrom.Pos()),
		"r.remain -= batchRemain - int(limitReader.N)", found)
}

// c17Deadline: do() uses one deadline object for the request and for the wait.
func c17Deadline(p *load.Program, r *oblig.Report) {
	const rule = "C17.R6 the operation's deadline bounds the wait for its response"
	do := p.Func("", "(*Conn).do")
	if do == nil {
		r.Lost(rule, "kafka.(*Conn).do")
		return
	}
	dParam := do.Params[1]
	okAll, n := true, 0
	an.EachInstr(do, func(ins ssa.Instruction) {
		call, ok := ins.(*ssa.Call)
		if !ok || call.Call.StaticCallee() == nil {
			return
		}
		switch an.RefFuncName(call.Call.StaticCallee()) {
		case "doRequest", "waitResponse":
			n++
			if an.ParamSource(call.Call.Args[1]) != ssa.Value(dParam) {
				okAll = false
			}
		case "unsetConnReadDeadline":
			n++
			if an.ParamSource(call.Call.Args[0]) != ssa.Value(dParam) {
				okAll = false
			}
		}
	})
	r.Check(okAll && n == 3, rule, "kafka.(*Conn).do passes its deadline to doRequest, waitResponse and the final unset", p.Pos(do.Pos()), "the same *connDeadline parameter at all three sites", fmt.Sprintf("sites=%d same=%v", n, okAll))
	// readOperation / writeOperation select the read / write deadline
	for name, field := range map[string]string{"(*Conn).readOperation": "rdeadline", "(*Conn).writeOperation": "wdeadline"} {
		fn := p.Func("", name)
		if fn == nil {
			r.Lost(rule, "kafka."+name)
			continue
		}
		ok := false
		an.EachInstr(fn, func(ins ssa.Instruction) {
			if call, isC := ins.(*ssa.Call); isC && an.StaticCalleeIs(&call.Call, do) {
				if fa, isFA := call.Call.Args[1].(*ssa.FieldAddr); isFA && an.FieldName(fa.X.Type(), fa.Field) == field {
					ok = true
				}
			}
		})
		r.Check(ok, rule, "kafka."+name+" uses &c."+field, p.Pos(fn.Pos()), "c.do(&c."+field+", …)", "other deadline")
	}
}

// staleSizeUses: the hand-written reader threads the number of bytes left in the response through every call
// (`remain, err = readX(r, remain, …)`). A size value that was handed to one such call is stale afterwards: using it
// again for a later call (instead of the remainder the first call returned) makes the running size wrong, and the
// frame is no longer consumed exactly. Reports every pair (first use, later use) of the same size value, and the
// number of threading calls examined.
func staleSizeUses(p *load.Program) (bad []string, calls int) {
	root := p.SSAPkg("")
	isThreading := func(c *ssa.CallCommon) bool {
		if c.IsInvoke() || len(c.Args) < 2 {
			return false
		}
		sig := c.Signature()
		if f := c.StaticCallee(); f != nil {
			if f.Signature.Recv() != nil || (f.Pkg != root && !an.IsNew(f) && f.Parent() == nil) {
				return false
			}
			sig = f.Signature
		} else if _, isBuiltin := c.Value.(*ssa.Builtin); isBuiltin {
			return false
		}
		// (a call through a function value — an element callback — threads the size the same way)
		f := struct{ Signature *types.Signature }{sig}
		ps := f.Signature.Params()
		if ps.Len() < 2 || !isBufioReaderPtr(ps.At(0).Type()) {
			return false
		}
		if b, ok := ps.At(1).Type().Underlying().(*types.Basic); !ok || b.Kind() != types.Int {
			return false
		}
		res := f.Signature.Results()
		if res.Len() < 2 || !isErrorType(res.At(res.Len()-1).Type()) {
			return false
		}
		for i := 0; i < res.Len()-1; i++ {
			if b, ok := res.At(i).Type().Underlying().(*types.Basic); ok && b.Kind() == types.Int {
				return true
			}
		}
		return false
	}
	for _, fn := range p.EveryModuleFunction() {
		top := fn
		for top.Parent() != nil {
			top = top.Parent()
		}
		if top.Pkg != root {
			continue
		}
		bySize := map[ssa.Value][]*ssa.Call{}
		for _, b := range fn.Blocks {
			for _, ins := range b.Instrs {
				if c, ok := ins.(*ssa.Call); ok && isThreading(&c.Call) {
					calls++
					if _, isConst := c.Call.Args[1].(*ssa.Const); isConst {
						continue
					}
					bySize[c.Call.Args[1]] = append(bySize[c.Call.Args[1]], c)
				}
			}
		}
		// a function that itself reports a remaining size must not report one that a call already consumed from
		retIdx := -1
		if res := fn.Signature.Results(); res.Len() >= 2 && isErrorType(res.At(res.Len()-1).Type()) && fn.Signature.Params().Len() >= 2 && isBufioReaderPtr(fn.Signature.Params().At(0).Type()) {
			for i := 0; i < res.Len()-1; i++ {
				if b, ok := res.At(i).Type().Underlying().(*types.Basic); ok && b.Kind() == types.Int {
					retIdx = i
				}
			}
		}
		if retIdx >= 0 {
			for _, b := range fn.Blocks {
				ret, ok := b.Instrs[len(b.Instrs)-1].(*ssa.Return)
				if !ok || len(ret.Results) <= retIdx {
					continue
				}
				size := ret.Results[retIdx]
				def, _ := size.(ssa.Instruction)
				for _, c1 := range bySize[size] {
					q := an.PathQuery{Fn: fn,
						Stop:   func(i ssa.Instruction) bool { return def != nil && i == def },
						Target: func(i ssa.Instruction) bool { return i == ssa.Instruction(ret) }}
					if q.ReachableFrom(an.PointOf(c1)) != nil {
						bad = append(bad, fmt.Sprintf("%s: %s is returned as the remaining size at %s after the call at %s already consumed from it", an.ShortFunc(fn), sizeName(size),
							p.Pos(ret.Pos()), p.Pos(c1.Pos())))
					}
				}
			}
		}
		for size, cs := range bySize {
			def, _ := size.(ssa.Instruction)
			for _, c1 := range cs {
				for _, c2 := range cs {
					q := an.PathQuery{Fn: fn,
						Stop:   func(i ssa.Instruction) bool { return def != nil && i == def },
						Target: func(i ssa.Instruction) bool { return i == ssa.Instruction(c2) }}
					if q.ReachableFrom(an.PointOf(c1)) != nil {
						bad = append(bad, fmt.Sprintf("%s: %s is given to %s at %s after %s at %s already consumed from it", an.ShortFunc(fn), sizeName(size),
							calleeLabel(&c2.Call), p.Pos(c2.Pos()), calleeLabel(&c1.Call), p.Pos(c1.Pos())))
					}
				}
			}
		}
	}
	sort.Strings(bad)
	return bad, calls
}

// c17StaleSize reports staleSizeUses under the given rule name (shared by C04 and C17).
func c17StaleSize(p *load.Program, r *oblig.Report, rule string) {
	bad, calls := staleSizeUses(p)
	r.Check(len(bad) == 0, rule, "every call of the hand-written reader continues from the remainder the previous call returned", "-",
		fmt.Sprintf("no size value is used by two successive reads (%d calls examined)", calls), strings.Join(bad, "; "))
	r.RequireCount(rule+" (size-threading calls)", calls, 150)
}

func sizeName(v ssa.Value) string {
	if prm, ok := v.(*ssa.Parameter); ok {
		return "parameter " + prm.Name()
	}
	s := clean(an.Shape(v))
	if len(s) > 80 {
		s = s[:80] + "…"
	}
	return s
}

func calleeLabel(c *ssa.CallCommon) string {
	if f := c.StaticCallee(); f != nil {
		return an.RefFuncName(f)
	}
	return "a callback"
}

// transportDeadline: the deadline of the caller's context bounds the whole exchange on a transport connection — the
// write of the request as well as the wait for the response — so a request stuck on a connection the broker no
// longer drains is abandoned in time (and is not delivered late, behind the retry the Writer sent elsewhere).
func transportDeadline(p *load.Program, r *oblig.Report, rule string) {
	fn := p.Func("", "(*conn).roundTrip")
	if fn == nil {
		r.Lost(rule, "kafka.(*conn).roundTrip")
		return
	}
	whole, half := false, ""
	an.EachInstr(fn, func(ins ssa.Instruction) {
		c, ok := ins.(*ssa.Call)
		if !ok || c.Call.StaticCallee() == nil {
			return
		}
		sc := c.Call.StaticCallee()
		if sc.Signature.Recv() == nil || !an.NamedIs(sc.Signature.Recv().Type(), protoPath, "Conn") {
			return
		}
		arg := clean(an.Shape(c.Call.Args[len(c.Call.Args)-1]))
		fromCtx := strings.Contains(arg, "Deadline()#0")
		switch an.RefFuncName(sc) {
		case "SetDeadline":
			if fromCtx {
				whole = true
			}
		case "SetReadDeadline", "SetWriteDeadline":
			if fromCtx {
				half = an.RefFuncName(sc)
			}
		}
	})
	found := "the context's deadline is not applied to the connection"
	if half != "" {
		found = "only " + half + " is given the context's deadline"
	}
	r.Check(whole, rule, "kafka.(*conn).roundTrip applies the context's deadline to the write and the read of the exchange", p.Pos(fn.Pos()),
		"if deadline, ok := ctx.Deadline(); ok { pc.SetDeadline(deadline) }", found)
}

// c17BatchEOF: io.EOF is how a Batch says "the batch was read to its end". An end of stream met in the middle of the
// response is stored in batch.err as io.ErrUnexpectedEOF (dontExpectEOF); the very call that met it must return that
// same error, not the raw io.EOF, or the caller takes a cut response for a complete batch.
func c17BatchEOF(p *load.Program, r *oblig.Report) {
	const rule = "C17.R1 EOF inside a frame becomes ErrUnexpectedEOF"
	fn := p.Func("", "(*Batch).readMessage")
	if fn == nil {
		r.Lost(rule, "kafka.(*Batch).readMessage")
		return
	}
	// what the function returns as its error
	retVals := map[ssa.Value]bool{}
	var walk func(v ssa.Value)
	walk = func(v ssa.Value) {
		if retVals[v] {
			return
		}
		retVals[v] = true
		if ph, ok := v.(*ssa.Phi); ok {
			for _, e := range ph.Edges {
				walk(e)
			}
		}
	}
	an.EachInstr(fn, func(ins ssa.Instruction) {
		if ret, ok := ins.(*ssa.Return); ok && ret.Parent() == fn && len(ret.Results) > 0 {
			walk(an.RetVal(ret, len(ret.Results)-1))
		}
	})
	n := 0
	var bad []string
	an.EachInstr(fn, func(ins ssa.Instruction) {
		st, ok := fieldStoreIs(ins, "Batch", "err")
		if !ok {
			return
		}
		call, isCall := st.Val.(*ssa.Call)
		if !isCall || call.Call.StaticCallee() == nil || an.RefFuncName(call.Call.StaticCallee()) != "dontExpectEOF" {
			return
		}
		n++
		raw := call.Call.Args[0]
		if retVals[raw] && !retVals[call] {
			bad = append(bad, "batch.err = dontExpectEOF(err) at "+p.Pos(st.Pos())+" but the call returns the unconverted error")
		}
	})
	r.Check(n > 0 && len(bad) == 0, rule, "kafka.(*Batch).readMessage returns the converted error it stores in batch.err", p.Pos(fn.Pos()),
		"err = dontExpectEOF(err); batch.err = err", strings.Join(bad, "; "))
}

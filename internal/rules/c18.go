package rules

import (
	"fmt"
	"go/token"
	"go/types"
	"sort"
	"strings"

	"golang.org/x/tools/go/ssa"

	"kverif/internal/an"
	"kverif/internal/load"
	"kverif/internal/oblig"
)

func init() {
	register(&Check{ID: "C18", Run: runC18, Expl: oblig.Explanation{
		Text:        "Static authentication-prefix check. (R1) In (*Dialer).connect and (*connGroup).connect, when a SASL mechanism is configured, no path hands the connection out (return of the *Conn / start of the conn goroutine and return of the conn) without passing the err == nil edge of the test made on the result of the authentication call; every failing path after the connection exists closes it (Dialer) / leaves the deferred closer armed (Transport). (R2) before that edge the fresh connection is used only for the allowed exchanges: the functions reachable from the Dialer's authenticateSASL write only API keys {ApiVersions, SaslHandshake, SaslAuthenticate} (plus the raw length-prefixed token exchange); the Transport's pre-authentication uses of the protocol.Conn are RoundTrip(*apiversions.Request), SetDeadline, SetVersions, and authenticateSASL only round-trips saslhandshake/saslauthenticate requests. (R3) raw versus framed: (*Conn).saslAuthenticate frames iff the negotiated SaslHandshake version is v1; saslauthenticate.Request.Required is true iff versions[SaslHandshake] == 0. (R4) both authentication loops return a non-nil error for a failed handshake, Start, authenticate (EOF → SASLAuthenticationFailed) or Next, and nil only after the loop completed. (R5) necessary constructor facts: SCRAM uses the SASLprep-ing NewClient; PLAIN sends \\x00user\\x00password. Not decided: that PLAIN/SCRAM conversations complete exactly for right credentials (cryptographic values; delegated to xdg-go/scram).",
		Rule:        "one obligation per hand-out site, per reachable request writer, per loop exit; non-trivial = a path or reachability query was evaluated",
		Trusted:     []string{"go/ssa, static call graph of the root package", "API key constants of the root package"},
		Assumptions: []string{"a connection is 'handed out' by returning it or by starting its request loop"},
	}})
}

func runC18(p *load.Program, r *oblig.Report) {
	c18AnyHandshakeError(p, r, "C18.R8 every error code of a handshake or authentication response fails the step")
	c18Dialer(p, r)
	c18Transport(p, r)
	c18AllowedRequests(p, r)
	c18RawFramed(p, r)
	c18Loops(p, r)
	c18Mechanisms(p, r)
	// a handshake or authenticate answer that carries an error code (mechanism rejected, bad proof) fails the exchange:
	// the Conn operations report the code of the response their read callback decoded (C11.R9)
	shareRules(r, "C18", "C18.R7 a rejected step is reported", func(sub *oblig.Report) {
		newC11(p, sub).ruleR9("C11.R9 a response-level error code is reported to the caller")
	})
}

// authGate finds, in fn, the block taken when the configured-SASL test is true, and the success successor of the
// test made on the error returned by the authentication call.
// authTest: the block that tests the result of the authentication call and the index of its err == nil successor.
type authTest struct {
	blk   *ssa.BasicBlock
	okIdx int
}

var authTests = map[*ssa.Function]authTest{}

// notOkEdge forbids the err == nil edge of the authentication test: what is reachable under it is reachable without
// a successful authentication (the block after the test is often a join that other paths reach too, so stopping at
// that block would hide them).
func notOkEdge(fn *ssa.Function) an.EdgeFilter {
	t := authTests[fn]
	return func(from *ssa.BasicBlock, si int) bool { return !(from == t.blk && si == t.okIdx) }
}

func authGate(fn *ssa.Function, authName string) (saslOn *ssa.BasicBlock, okEdge *ssa.BasicBlock, failEdge *ssa.BasicBlock, authCall *ssa.Call, why string) {
	an.EachInstr(fn, func(ins ssa.Instruction) {
		if call, ok := ins.(*ssa.Call); ok {
			if f := call.Call.StaticCallee(); f != nil && an.RefFuncName(f) == authName {
				authCall = call
			}
		}
	})
	if authCall == nil {
		return nil, nil, nil, nil, "authentication call not found"
	}
	// the If that tests the call's result
	for _, b := range an.Blocks(fn) {
		_, ci := an.IfCond(b)
		if ci == nil || !an.IsNilConst(ci.Y) {
			continue
		}
		if ci.X != ssa.Value(authCall) {
			// the result may reach the test through a helper that did not exist at review time
			through := false
			if c2, isCall := ci.X.(*ssa.Call); isCall && an.IsNew(c2.Call.StaticCallee()) {
				for _, o := range an.Origins(ci.X, an.FlowOpts{}) {
					if o.Val == ssa.Value(authCall) {
						through = true
					}
				}
			}
			if !through {
				continue
			}
		}
		if ci.Op == token.NEQ {
			failEdge, okEdge = b.Succs[0], b.Succs[1]
		} else if ci.Op == token.EQL {
			okEdge, failEdge = b.Succs[0], b.Succs[1]
		}
		if e := ci.Edge(token.EQL); e >= 0 {
			failEdge, okEdge = b.Succs[1-e], b.Succs[e]
		}
		authTests[fn] = authTest{b, ci.Edge(token.EQL)}
	}
	// the If that tests the configured mechanism (x.SASLMechanism != nil / pool.sasl != nil)
	for _, b := range an.Blocks(fn) {
		_, ci := an.IfCond(b)
		if ci == nil || !an.IsNilConst(ci.Y) || (ci.Op != token.NEQ && ci.Op != token.EQL) {
			continue
		}
		d := strings.ToLower(argDesc(ci.X))
		if strings.HasSuffix(d, ".saslmechanism") || strings.HasSuffix(d, ".sasl") {
			on := 0 // successor taken when a mechanism is configured
			if (ci.Op == token.EQL) != ci.Neg {
				on = 1
			}
			if b.Succs[on] == authCall.Block() || b.Succs[on].Dominates(authCall.Block()) {
				saslOn = b.Succs[on]
			}
		}
	}
	if saslOn == nil {
		why = "test of the configured SASL mechanism not found"
	}
	return
}

func c18Dialer(p *load.Program, r *oblig.Report) {
	const rule = "C18.R1 connection handed out only after authentication succeeded"
	fn := p.Func("", "(*Dialer).connect")
	if fn == nil {
		r.Lost(rule, "kafka.(*Dialer).connect")
		return
	}
	pos := p.Pos(fn.Pos())
	saslOn, okEdge, failEdge, auth, why := authGate(fn, "authenticateSASL")
	if saslOn == nil || auth == nil {
		r.Undecided(rule, "kafka.(*Dialer).connect", pos, why)
		return
	}
	if okEdge == nil {
		r.Bad(rule, "kafka.(*Dialer).connect → result of authenticateSASL is tested", p.Pos(auth.Pos()), "if err := d.authenticateSASL(…); err != nil { … }", "the error returned by the authentication call is never tested")
		return
	}
	q := an.PathQuery{Fn: fn,
		Edge: notOkEdge(fn),
		Target: func(i ssa.Instruction) bool {
			ret, ok := i.(*ssa.Return)
			return ok && len(ret.Results) == 2 && !an.IsNilConst(an.RetVal(ret, 0))
		}}
	hit := q.ReachableFrom(an.Point{B: saslOn, Idx: -1})
	r.Check(hit == nil, rule, "kafka.(*Dialer).connect → no *Conn is returned with SASL configured unless authentication returned nil", pos, "every return of a non-nil *Conn passes the err == nil edge of authenticateSASL", "a path returns the connection without passing that edge")
	qf := an.PathQuery{Fn: fn, Target: q.Target}
	r.Check(qf.ReachableFrom(an.Point{B: failEdge, Idx: -1}) == nil, rule, "kafka.(*Dialer).connect → the failure edge of the authentication test never returns the connection", pos, "err != nil ⇒ return nil, error", "the failure edge reaches a return of the *Conn")
	// failure edge closes the connection before returning
	ok, bad := an.MustPass(fn, an.Point{B: failEdge, Idx: -1}, func(i ssa.Instruction) bool {
		call, isC := i.(*ssa.Call)
		return isC && isConnClose(&call.Call)
	}, nil)
	where := ""
	if bad != nil {
		where = "returns at " + p.Pos(bad.Pos()) + " without closing"
	}
	r.Check(ok, rule, "kafka.(*Dialer).connect → a failed authentication closes the connection", p.Pos(auth.Pos()), "conn.Close() on the err != nil edge", where)
	// every failure after the Conn exists closes it (not only a failed authentication: also a host/port that cannot be
	// parsed for the mechanism's metadata)
	an.EachInstr(fn, func(ins ssa.Instruction) {
		call, ok := ins.(*ssa.Call)
		if !ok || call.Call.StaticCallee() == nil || an.RefFuncName(call.Call.StaticCallee()) != "NewConnWith" {
			return
		}
		q := an.PathQuery{Fn: fn,
			Stop: func(i ssa.Instruction) bool {
				c2, isC := i.(*ssa.Call)
				return isC && isConnClose(&c2.Call)
			},
			Target: func(i ssa.Instruction) bool {
				ret, isR := i.(*ssa.Return)
				return isR && len(ret.Results) == 2 && an.IsNilConst(an.RetVal(ret, 0)) && ret.Block() != fn.Recover
			}}
		hit := q.ReachableFrom(an.PointOf(call))
		where := ""
		if hit != nil {
			where = "the error return at " + p.Pos(hit.Pos()) + " leaves the connection open"
		}
		r.Check(hit == nil, rule, "kafka.(*Dialer).connect → every error return after the Conn was created closes it", p.Pos(call.Pos()), "conn.Close() before return nil, err", where)
	})
	// between creation and authentication the Conn is used only for authentication and Close
	var conn ssa.Value
	an.EachInstr(fn, func(ins ssa.Instruction) {
		if call, ok := ins.(*ssa.Call); ok {
			if f := call.Call.StaticCallee(); f != nil && an.RefFuncName(f) == "NewConnWith" {
				conn = call
			}
		}
	})
	if conn == nil {
		r.Undecided(rule, "kafka.(*Dialer).connect → creation of the Conn", pos, "NewConnWith call not found")
		return
	}
	var uses []string
	okUses := true
	for _, ref := range an.UsesOf(conn) {
		switch x := ref.(type) {
		case *ssa.Call:
			name := an.CalleeName(&x.Call)
			uses = append(uses, name)
			if !strings.HasSuffix(name, "authenticateSASL") && !strings.HasSuffix(name, ".Close") {
				okUses = false
			}
		case *ssa.Return, *ssa.DebugRef, *ssa.Phi:
		case *ssa.Store:
			// spill of the result value before rundefers
			if al, isAl := x.Addr.(*ssa.Alloc); isAl && !al.Heap && x.Val == conn {
				continue
			}
			uses = append(uses, "store")
			okUses = false
		default:
			uses = append(uses, fmt.Sprintf("%T", ref))
			okUses = false
		}
	}
	sort.Strings(uses)
	r.Check(okUses, rule, "kafka.(*Dialer).connect → the fresh Conn is only authenticated, closed or returned", pos, "uses ⊆ {authenticateSASL, Close, return}", strings.Join(uses, ", "))
}

func c18Transport(p *load.Program, r *oblig.Report) {
	const rule = "C18.R1 connection handed out only after authentication succeeded"
	fn := p.Func("", "(*connGroup).connect")
	if fn == nil {
		r.Lost(rule, "kafka.(*connGroup).connect")
		return
	}
	pos := p.Pos(fn.Pos())
	saslOn, okEdge, failEdgeT, auth, why := authGate(fn, "authenticateSASL")
	if saslOn == nil || auth == nil {
		r.Undecided(rule, "kafka.(*connGroup).connect", pos, why)
		return
	}
	if okEdge == nil {
		r.Bad(rule, "kafka.(*connGroup).connect → result of authenticateSASL is tested", p.Pos(auth.Pos()), "if err := authenticateSASL(…); err != nil { return nil, err }", "the error returned by the authentication call is never tested (a different variable is)")
		return
	}
	q := an.PathQuery{Fn: fn,
		Edge: notOkEdge(fn),
		Target: func(i ssa.Instruction) bool {
			switch x := i.(type) {
			case *ssa.Go:
				return true
			case *ssa.Return:
				return len(x.Results) == 2 && !an.IsNilConst(an.RetVal(x, 0))
			}
			return false
		}}
	hit := q.ReachableFrom(an.Point{B: saslOn, Idx: -1})
	r.Check(hit == nil, rule, "kafka.(*connGroup).connect → the request loop is not started and no conn is returned unless authentication returned nil", pos,
		"`go c.run(…)` and the return of the conn pass the err == nil edge of authenticateSASL", "a path starts the connection without passing that edge")
	qf := an.PathQuery{Fn: fn, Target: q.Target}
	r.Check(failEdgeT != nil && qf.ReachableFrom(an.Point{B: failEdgeT, Idx: -1}) == nil, rule, "kafka.(*connGroup).connect → the failure edge of the authentication test never starts the connection", pos, "err != nil ⇒ return nil, err", "the failure edge reaches `go c.run(…)` or a return of the conn")
	// the deferred closer stays armed on every other exit: netConn = nil happens only next to the successful return
	okDisarm := true
	nDisarm := 0
	an.EachInstr(fn, func(ins ssa.Instruction) {
		st, ok := ins.(*ssa.Store)
		if !ok || !an.IsNilConst(st.Val) {
			return
		}
		al, ok := st.Addr.(*ssa.Alloc)
		if !ok || !an.NamedIs(al.Type().(*types.Pointer).Elem(), "net", "Conn") {
			return
		}
		nDisarm++
		if !(okEdge == st.Block() || okEdge.Dominates(st.Block())) {
			// without SASL the store is reached through the other branch: require that the `go` dominates it instead
			hasGo := false
			for _, i2 := range st.Block().Instrs {
				if _, isGo := i2.(*ssa.Go); isGo {
					hasGo = true
				}
			}
			if !hasGo {
				okDisarm = false
			}
		}
	})
	r.Check(okDisarm && nDisarm == 1, rule, "kafka.(*connGroup).connect → the deferred close of the socket is disarmed only when the connection is handed out", pos, "netConn = nil next to `go c.run(…)`", fmt.Sprintf("disarm stores=%d ok=%v", nDisarm, okDisarm))
	// uses of pc before authentication
	var pc ssa.Value
	an.EachInstr(fn, func(ins ssa.Instruction) {
		if call, ok := ins.(*ssa.Call); ok {
			if f := call.Call.StaticCallee(); f != nil && an.RefFuncName(f) == "NewConn" && f.Pkg != nil && f.Pkg.Pkg.Path() == protoPath {
				pc = call
			}
		}
	})
	if pc == nil {
		r.Undecided(rule, "kafka.(*connGroup).connect → protocol.NewConn", pos, "not found")
		return
	}
	okUses := true
	var uses []string
	for _, ref := range an.UsesOf(pc) {
		switch x := ref.(type) {
		case *ssa.Call:
			name := an.CalleeName(&x.Call)
			short := name[strings.LastIndex(name, ".")+1:]
			switch short {
			case "SetDeadline", "SetVersions", "authenticateSASL":
				uses = append(uses, short)
			case "RoundTrip":
				t := an.Unwrap(x.Call.Args[1]).Type()
				uses = append(uses, "RoundTrip("+types.TypeString(t, shortQualifier)+")")
				if !an.NamedIs(t, protoPath+"/apiversions", "Request") {
					okUses = false
				}
			default:
				uses = append(uses, name)
				okUses = false
			}
		case *ssa.Go:
			uses = append(uses, "go run")
		case *ssa.DebugRef:
		default:
			uses = append(uses, fmt.Sprintf("%T", ref))
			okUses = false
		}
	}
	sort.Strings(uses)
	r.Check(okUses, rule, "kafka.(*connGroup).connect → pre-authentication uses of the protocol connection", pos, "RoundTrip(*apiversions.Request), SetDeadline, SetVersions, authenticateSASL, go run", strings.Join(uses, ", "))
}

func shortQualifier(p *types.Package) string {
	return strings.TrimPrefix(p.Path(), load.ModPath+"/")
}

// reachableFrom collects the functions reachable from start through static calls and closures created on the way.
func reachableFrom(start *ssa.Function) map[*ssa.Function]bool {
	seen := map[*ssa.Function]bool{}
	var walk func(f *ssa.Function)
	walk = func(f *ssa.Function) {
		if f == nil || seen[f] || f.Blocks == nil || !load.InModule(f) {
			return
		}
		seen[f] = true
		an.EachInstr(f, func(ins ssa.Instruction) {
			if ci, ok := ins.(ssa.CallInstruction); ok {
				walk(ci.Common().StaticCallee())
				for _, a := range ci.Common().Args {
					if mc, ok := a.(*ssa.MakeClosure); ok {
						walk(mc.Fn.(*ssa.Function))
					}
				}
			}
			if mc, ok := ins.(*ssa.MakeClosure); ok {
				walk(mc.Fn.(*ssa.Function))
			}
		})
	}
	walk(start)
	return seen
}

func c18AllowedRequests(p *load.Program, r *oblig.Report) {
	const rule = "C18.R2 only ApiVersions, SaslHandshake and SaslAuthenticate are written before authentication"
	start := p.Func("", "(*Dialer).authenticateSASL")
	wr := p.Func("", "(*Conn).writeRequest")
	if start == nil || wr == nil {
		r.Lost(rule, "kafka.(*Dialer).authenticateSASL / (*Conn).writeRequest")
		return
	}
	allowed := map[int64]string{17: "SaslHandshake", 36: "SaslAuthenticate", 18: "ApiVersions"}
	reach := reachableFrom(start)
	var fns []*ssa.Function
	for f := range reach {
		fns = append(fns, f)
	}
	sort.Slice(fns, func(i, j int) bool { return fns[i].String() < fns[j].String() })
	n := 0
	for _, f := range fns {
		an.EachInstr(f, func(ins ssa.Instruction) {
			call, ok := ins.(*ssa.Call)
			if !ok {
				return
			}
			sc := call.Call.StaticCallee()
			if sc == nil {
				return
			}
			if sc == wr {
				n++
				k, isK := an.ConstInt(an.Unwrap(call.Call.Args[1]))
				name, okKey := allowed[k]
				r.Check(isK && okKey, rule, an.ShortFunc(f)+" → writeRequest API key", p.Pos(call.Pos()), "one of ApiVersions(18), SaslHandshake(17), SaslAuthenticate(36)", fmt.Sprintf("key=%d %s", k, name))
				return
			}
			// any of the specialised request writers (fetch, produce, list offsets) is forbidden here
			if sc.Signature.Recv() != nil && an.NamedIs(sc.Signature.Recv().Type(), load.ModPath, "writeBuffer") && strings.Contains(an.RefFuncName(sc), "Request") {
				n++
				r.Bad(rule, an.ShortFunc(f)+" → "+an.RefFuncName(sc), p.Pos(call.Pos()), "no produce/fetch/list-offsets request during authentication", "reachable from authenticateSASL")
			}
		})
	}
	// requestHeader literals built by hand (ApiVersions)
	for _, f := range fns {
		an.EachInstr(f, func(ins ssa.Instruction) {
			al, ok := ins.(*ssa.Alloc)
			if !ok || !an.NamedIs(al.Type(), load.ModPath, "requestHeader") {
				return
			}
			for _, ref := range *al.Referrers() {
				fa, ok := ref.(*ssa.FieldAddr)
				if !ok || an.FieldName(al.Type(), fa.Field) != "ApiKey" {
					continue
				}
				for _, r2 := range *fa.Referrers() {
					if st, ok := r2.(*ssa.Store); ok {
						if k, isK := an.ConstInt(an.Unwrap(st.Val)); isK {
							n++
							_, okKey := allowed[k]
							r.Check(okKey, rule, an.ShortFunc(f)+" → hand-built request header API key", p.Pos(st.Pos()), "ApiVersions(18)", fmt.Sprint(k))
						}
					}
				}
			}
		})
	}
	r.RequireCount(rule, n, 3)
	r.Analysed["functions_reachable_from_authenticateSASL"] = len(fns)
	// Transport side: message types passed to pc.RoundTrip within authenticateSASL's reachable set
	ts := p.Func("", "authenticateSASL")
	if ts == nil {
		r.Lost(rule, "kafka.authenticateSASL")
		return
	}
	m := 0
	for f := range reachableFrom(ts) {
		an.EachInstr(f, func(ins ssa.Instruction) {
			call, ok := ins.(*ssa.Call)
			if !ok {
				return
			}
			sc := call.Call.StaticCallee()
			if sc == nil || an.RefFuncName(sc) != "RoundTrip" || sc.Signature.Recv() == nil || !an.NamedIs(sc.Signature.Recv().Type(), protoPath, "Conn") {
				return
			}
			m++
			t := an.Unwrap(call.Call.Args[1]).Type()
			okT := an.NamedIs(t, protoPath+"/saslhandshake", "Request") || an.NamedIs(t, protoPath+"/saslauthenticate", "Request")
			r.Check(okT, rule, an.ShortFunc(f)+" → message type sent during Transport authentication", p.Pos(call.Pos()), "*saslhandshake.Request or *saslauthenticate.Request", types.TypeString(t, shortQualifier))
		})
	}
	r.RequireCount(rule+" (Transport round trips)", m, 2)
}

func c18RawFramed(p *load.Program, r *oblig.Report) {
	const rule = "C18.R3 raw versus framed authentication bytes"
	fn := p.Func("", "(*Conn).saslAuthenticate")
	if fn == nil {
		r.Lost(rule, "kafka.(*Conn).saslAuthenticate")
		return
	}
	pos := p.Pos(fn.Pos())
	// negotiateVersion(saslHandshake, v0, v1) and `version == v1` selects the framed branch
	var neg *ssa.Call
	an.EachInstr(fn, func(ins ssa.Instruction) {
		if call, ok := ins.(*ssa.Call); ok {
			if f := call.Call.StaticCallee(); f != nil && an.RefFuncName(f) == "negotiateVersion" {
				neg = call
			}
		}
	})
	if neg == nil {
		r.Bad(rule, "(*Conn).saslAuthenticate → version negotiation", pos, "c.negotiateVersion(saslHandshake, v0, v1)", "not found")
		return
	}
	k, _ := an.ConstInt(an.Unwrap(neg.Call.Args[1]))
	r.Check(k == 17, rule, "(*Conn).saslAuthenticate → the decision uses the negotiated SaslHandshake version", p.Pos(neg.Pos()), "API key 17 (SaslHandshake)", fmt.Sprintf("API key %d", k))
	framed := false
	for _, b := range an.Blocks(fn) {
		_, ci := an.IfCond(b)
		if ci == nil || (ci.Op != token.EQL && ci.Op != token.NEQ) {
			continue
		}
		if v, ok := an.ConstInt(ci.Y); ok && v == 1 && strings.Contains(argDesc(ci.X), "negotiateVersion#0") {
			// the version == v1 edge contains writeOperation (framed); the other edge writes raw bytes
			v1Edge := 0
			if (ci.Op == token.NEQ) != ci.Neg {
				v1Edge = 1
			}
			hasOp := false
			for _, blk := range an.Blocks(fn) {
				if blk == b.Succs[v1Edge] || b.Succs[v1Edge].Dominates(blk) {
					for _, ins := range blk.Instrs {
						if call, ok := ins.(*ssa.Call); ok && call.Call.StaticCallee() != nil && an.RefFuncName(call.Call.StaticCallee()) == "writeOperation" {
							hasOp = true
						}
					}
				}
			}
			framed = hasOp
		}
	}
	r.Check(framed, rule, "(*Conn).saslAuthenticate → framed SaslAuthenticate request iff handshake v1", pos, "if version == v1 { writeOperation(… saslAuthenticate …) } else raw bytes", "not recognised")
	req := p.Func("protocol/saslauthenticate", "(*Request).Required")
	if req == nil {
		r.Lost(rule, "protocol/saslauthenticate.(*Request).Required")
		return
	}
	okReq := false
	an.EachInstr(req, func(ins ssa.Instruction) {
		bo, ok := ins.(*ssa.BinOp)
		if !ok || bo.Op != token.EQL {
			return
		}
		x, y := bo.X, bo.Y
		if _, xc := x.(*ssa.Const); xc {
			x, y = y, x
		}
		v, okV := an.ConstInt(y)
		os := an.Origins(x, an.FlowOpts{})
		if okV && v == 0 && len(os) == 1 && len(os[0].Keys) == 1 {
			if key, ok := an.ConstInt(os[0].Keys[0]); ok && key == 17 {
				okReq = true
			}
		}
	})
	r.Check(okReq, rule, "saslauthenticate.Request.Required → raw exchange iff the handshake was negotiated at v0", p.Pos(req.Pos()), "versions[SaslHandshake] == 0", "not recognised")
	// a raw token is a 4-byte big-endian length followed by that many bytes: the length announced is the length of
	// the token, on both stacks
	wt := p.Func("protocol/saslauthenticate", "(*Request).writeTo")
	if wt == nil {
		r.Lost(rule, "protocol/saslauthenticate.(*Request).writeTo")
	} else {
		announced, copied := "", ""
		an.EachInstr(wt, func(ins ssa.Instruction) {
			call, ok := ins.(*ssa.Call)
			if !ok {
				return
			}
			if f := call.Call.StaticCallee(); f != nil && an.ShortFunc(f) == "(encoding/binary.bigEndian).PutUint32" {
				announced = clean(an.Shape(call.Call.Args[len(call.Call.Args)-1]))
			}
			if b, isB := call.Call.Value.(*ssa.Builtin); isB && b.Name() == "copy" {
				copied = clean(an.Shape(call.Call.Args[1]))
			}
		})
		r.Check(announced == "uint32(len("+copied+"))" && strings.HasSuffix(copied, ".AuthBytes"), rule, "saslauthenticate.Request.writeTo → the raw token is prefixed with its own length", p.Pos(wt.Pos()),
			"binary.BigEndian.PutUint32(buf[:4], uint32(len(r.AuthBytes))); copy(buf[4:], r.AuthBytes)", "announces "+announced+", sends "+copied)
	}
	rawTokenReadFull(p, r, rule)
	// legacy Conn: writeInt32(int32(len(data))) then Write(data) on the raw branch
	announced, sent := "", ""
	an.EachInstr(fn, func(ins ssa.Instruction) {
		call, ok := ins.(*ssa.Call)
		if !ok || call.Call.StaticCallee() == nil || call.Parent() != fn {
			return
		}
		switch an.RefFuncName(call.Call.StaticCallee()) {
		case "writeInt32":
			announced = clean(an.Shape(call.Call.Args[len(call.Call.Args)-1]))
		case "Write":
			sent = clean(an.Shape(call.Call.Args[len(call.Call.Args)-1]))
		}
	})
	r.Check(sent != "" && announced == "int32(len("+sent+"))", rule, "(*Conn).saslAuthenticate → the raw token is prefixed with its own length", pos,
		"c.wb.writeInt32(int32(len(data))); c.wb.Write(data)", "announces "+announced+", sends "+sent)
	// both stacks refuse a server token that announces a negative length (a malformed server message must fail the
	// exchange: readNewBytes would return no bytes and no error, and PLAIN would take that for an answer)
	for _, site := range []struct{ pkg, fn, callee string }{{"", "(*Conn).saslAuthenticate", "readNewBytes"}, {"protocol/saslauthenticate", "(*Request).readResp", ""}} {
		f := p.Func(site.pkg, site.fn)
		if f == nil {
			r.Lost(rule, site.pkg+"."+site.fn)
			continue
		}
		okNeg := false
		for _, b := range an.Blocks(f) {
			_, ci := an.IfCond(b)
			if ci == nil || (ci.Op != token.LSS && ci.Op != token.GEQ) {
				continue
			}
			if k, isK := an.ConstInt(ci.Y); !isK || k != 0 {
				continue
			}
			x := clean(an.Shape(ci.X))
			if !(strings.Contains(x, "Uint32(") || strings.Contains(x, "int32")) {
				continue
			}
			// the negative edge returns an error
			negIdx := 0
			if ci.Op == token.GEQ {
				negIdx = 1
			}
			if ci.Neg {
				negIdx = 1 - negIdx
			}
			q := an.PathQuery{Fn: f, Target: func(i ssa.Instruction) bool {
				ret, ok := i.(*ssa.Return)
				return ok && len(ret.Results) == 2 && an.IsNilConst(an.RetVal(ret, 1))
			}}
			if q.ReachableFrom(an.Point{B: b.Succs[negIdx], Idx: -1}) == nil {
				okNeg = true
			}
		}
		r.Check(okNeg, rule, site.pkg+"."+site.fn+" → a raw server token announcing a negative length fails the exchange", p.Pos(f.Pos()), "if respLen < 0 { return nil, error }", "no such test")
	}
}

func c18Loops(p *load.Program, r *oblig.Report) {
	const rule = "C18.R4 authentication fails on every failed step and succeeds only when completed"
	for _, name := range []string{"(*Dialer).authenticateSASL", "authenticateSASL"} {
		fn := p.Func("", name)
		if fn == nil {
			r.Lost(rule, "kafka."+name)
			continue
		}
		// every call whose last result is an error: its err != nil edge never reaches a nil-error return nor another step
		steps := 0
		an.EachInstr(fn, func(ins ssa.Instruction) {
			call, ok := ins.(*ssa.Call)
			if !ok {
				return
			}
			res := call.Call.Signature().Results()
			if res.Len() == 0 || !isErrorType(res.At(res.Len()-1).Type()) {
				return
			}
			cn := an.CalleeName(&call.Call)
			short := cn[strings.LastIndex(cn, ".")+1:]
			switch short {
			case "saslHandshake", "saslHandshakeRoundTrip", "Start", "saslAuthenticate", "saslAuthenticateRoundTrip", "Next":
			default:
				return
			}
			steps++
			var errVal ssa.Value = call
			if res.Len() > 1 {
				errVal = nil
				for _, ref := range *call.Referrers() {
					if ex, ok := ref.(*ssa.Extract); ok && ex.Index == res.Len()-1 {
						errVal = ex
					}
				}
			}
			if errVal == nil {
				r.Bad(rule, "kafka."+name+" → error of "+short, p.Pos(call.Pos()), "tested", "discarded")
				return
			}
			// the error may be classified by a helper that did not exist at review time before it is tested: follow
			// it when that helper returns nil only for a nil argument
			for _, ref := range *errVal.Referrers() {
				c2, ok := ref.(*ssa.Call)
				if !ok || c2.Call.StaticCallee() == nil || !an.IsNew(c2.Call.StaticCallee()) {
					continue
				}
				h := c2.Call.StaticCallee()
				if h.Signature.Results().Len() != 1 || !isErrorType(h.Signature.Results().At(0).Type()) {
					continue
				}
				var prm *ssa.Parameter
				for i, a := range c2.Call.Args {
					if a == errVal && i < len(h.Params) {
						prm = h.Params[i]
					}
				}
				if prm == nil {
					continue
				}
				nilOnlyForNil := true
				for _, b := range h.Blocks {
					ret, isRet := b.Instrs[len(b.Instrs)-1].(*ssa.Return)
					if !isRet || !an.IsNilConst(ret.Results[0]) {
						continue
					}
					guarded := false
					for d, child := b.Idom(), b; d != nil; d, child = d.Idom(), d {
						_, ci := an.IfCond(d)
						if e := ci.Edge(token.EQL); e >= 0 && ci.X == ssa.Value(prm) && an.IsNilConst(ci.Y) && edgeControls(d, e, child) {
							guarded = true
						}
					}
					if !guarded {
						nilOnlyForNil = false
					}
				}
				if nilOnlyForNil {
					errVal = c2
				}
			}
			// find a test of errVal against nil; `switch { case err == nil: … }` included
			var failStart, testBlk *ssa.BasicBlock
			okIdx := -1
			for _, b := range an.Blocks(fn) {
				_, ci := an.IfCond(b)
				if ci == nil || ci.X != errVal || !an.IsNilConst(ci.Y) {
					continue
				}
				if e := ci.Edge(token.NEQ); e >= 0 {
					failStart, testBlk, okIdx = b.Succs[e], b, 1-e
				}
			}
			if failStart == nil {
				r.Bad(rule, "kafka."+name+" → error of "+short, p.Pos(call.Pos()), "if err != nil { return <non-nil> }", "the error is not compared with nil")
				return
			}
			q := an.PathQuery{Fn: fn, Target: func(i ssa.Instruction) bool {
				if ret, ok := i.(*ssa.Return); ok && len(ret.Results) == 1 && an.IsNilConst(an.RetVal(ret, 0)) {
					return true
				}
				if c2, ok := i.(*ssa.Call); ok && c2 != call {
					n2 := an.CalleeName(&c2.Call)
					s2 := n2[strings.LastIndex(n2, ".")+1:]
					if s2 == "saslAuthenticate" || s2 == "saslAuthenticateRoundTrip" || s2 == "Next" {
						return true
					}
				}
				return false
			}}
			hit := q.ReachableFrom(an.Point{B: failStart, Idx: -1})
			where := ""
			if hit != nil {
				where = "the failure edge reaches " + p.Pos(hit.Pos())
			}
			r.Check(hit == nil, rule, "kafka."+name+" → a failed "+short+" ends authentication with an error", p.Pos(call.Pos()), "the err != nil edge returns a non-nil error without continuing the exchange", where)
			// and success is not declared before the step's error was looked at: no nil return is reachable from the
			// step without taking the err == nil edge of its test
			q2 := an.PathQuery{Fn: fn,
				Edge: func(from *ssa.BasicBlock, si int) bool { return !(from == testBlk && si == okIdx) },
				Target: func(i ssa.Instruction) bool {
					ret, ok := i.(*ssa.Return)
					return ok && len(ret.Results) == 1 && an.IsNilConst(an.RetVal(ret, 0))
				}}
			early := q2.ReachableFrom(an.PointOf(call))
			where2 := ""
			if early != nil {
				where2 = "the nil return at " + p.Pos(early.Pos()) + " is reachable before the error of " + short + " is tested"
			}
			r.Check(early == nil, rule, "kafka."+name+" → success is never reported before the error of "+short+" was tested", p.Pos(call.Pos()), "every path from the step to `return nil` takes the err == nil edge", where2)
		})
		r.RequireCount(rule+" ("+name+" steps)", steps, 4)
		// the only nil return is reached from the loop exit on `completed`
		nNil := 0
		okNil := true
		an.EachInstr(fn, func(ins ssa.Instruction) {
			ret, ok := ins.(*ssa.Return)
			if !ok || len(ret.Results) != 1 || !an.IsNilConst(an.RetVal(ret, 0)) {
				return
			}
			nNil++
			okP := false
			for _, pred := range ret.Block().Preds {
				iff, _ := an.IfCond(pred)
				if iff == nil {
					continue
				}
				d := argDesc(an.CondOf(iff))
				if strings.Contains(d, "Next#0") || strings.Contains(d, "const:false") {
					okP = true
				}
			}
			if !okP {
				okNil = false
			}
		})
		r.Check(okNil && nNil == 1, rule, "kafka."+name+" → nil is returned only when the state machine reported completion", p.Pos(fn.Pos()), "single `return nil` after the loop on `completed`", fmt.Sprintf("nil returns=%d fromLoopExit=%v", nNil, okNil))
		// EOF is mapped to SASLAuthenticationFailed
		okEOF := false
		an.EachInstr(fn, func(ins ssa.Instruction) {
			ret, ok := ins.(*ssa.Return)
			if !ok || len(ret.Results) != 1 {
				return
			}
			if strings.Contains(argDesc(ret.Results[0]), "33") || strings.Contains(argDesc(ret.Results[0]), "SASLAuthenticationFailed") {
				okEOF = true
			}
			if k, ok := an.ConstInt(an.Unwrap(ret.Results[0])); ok && k == 58 {
				okEOF = true
			}
		})
		// (the mapping may live in a helper that did not exist at review time: its returns are not returns of fn)
		an.EachInstr(fn, func(ins ssa.Instruction) {
			if mi, ok := ins.(*ssa.MakeInterface); ok && mi.Parent() != fn {
				if k, isK := an.ConstInt(mi.X); isK && k == 58 && an.NamedIs(mi.X.Type(), load.ModPath, "Error") {
					okEOF = true
				}
			}
		})
		r.Check(okEOF, rule, "kafka."+name+" → a connection closed by the broker is reported as SASLAuthenticationFailed", p.Pos(fn.Pos()), "errors.Is(err, io.EOF) ⇒ return SASLAuthenticationFailed (58)", "not found")
	}
}

// c18MechanismShared: one Mechanism value is configured once and used for every connection the Dialer or Transport
// opens, concurrently. The per-connection state of an exchange therefore lives in the StateMachine that Start
// returns, never in the mechanism: Start (and Next, when the mechanism is its own state machine) do not write
// through the receiver.
func c18MechanismShared(p *load.Program, r *oblig.Report) {
	const rule = "C18.R6 a mechanism keeps no per-connection state"
	n := 0
	var bad []string
	for _, rel := range []string{"sasl/scram", "sasl/plain"} {
		for _, fn := range pkgFuncs(p, rel) {
			if fn.Signature.Recv() == nil || fn.Parent() != nil {
				continue
			}
			name := an.RefFuncName(fn)
			if name != "Start" && name != "Next" {
				continue
			}
			// is the receiver type a Mechanism (does it have Start)?
			recvT := fn.Signature.Recv().Type()
			ms := p.Prog.MethodSets.MethodSet(recvT)
			if ms.Lookup(fn.Pkg.Pkg, "Start") == nil && ms.Lookup(nil, "Start") == nil {
				continue
			}
			n++
			if _, isPtr := recvT.Underlying().(*types.Pointer); !isPtr {
				continue // a value receiver works on its own copy
			}
			recv := fn.Params[0]
			var rooted func(v ssa.Value, depth int) bool
			rooted = func(v ssa.Value, depth int) bool {
				if depth > 6 {
					return false
				}
				switch x := v.(type) {
				case *ssa.Parameter:
					return x == recv
				case *ssa.FieldAddr:
					return rooted(x.X, depth+1)
				case *ssa.IndexAddr:
					return rooted(x.X, depth+1)
				}
				return false
			}
			an.EachInstr(fn, func(ins ssa.Instruction) {
				if st, ok := ins.(*ssa.Store); ok && rooted(st.Addr, 0) {
					bad = append(bad, an.ShortFunc(fn)+" writes "+clean(an.Shape(st.Addr))+" at "+p.Pos(st.Pos()))
				}
			})
		}
	}
	sort.Strings(bad)
	r.Check(n >= 2 && len(bad) == 0, rule, "sasl/scram and sasl/plain: Start and Next never write through a mechanism receiver", "-",
		"the conversation lives in the state machine returned by Start", strings.Join(bad, "; "))
}

func c18Mechanisms(p *load.Program, r *oblig.Report) {
	const rule = "C18.R5 mechanism constructors"
	c18MechanismShared(p, r)
	fn := p.Func("sasl/scram", "Mechanism")
	if fn == nil {
		r.Lost(rule, "sasl/scram.Mechanism")
	} else {
		name := ""
		an.EachInstr(fn, func(ins ssa.Instruction) {
			if call, ok := ins.(*ssa.Call); ok {
				if f := call.Call.StaticCallee(); f != nil && strings.HasPrefix(an.RefFuncName(f), "NewClient") {
					name = an.RefFuncName(f)
				}
			}
		})
		r.Check(name == "NewClient", rule, "sasl/scram.Mechanism builds its client with SASLprep applied to user name and password", p.Pos(fn.Pos()), "HashGeneratorFcn.NewClient", name)
	}
	st := p.Func("sasl/plain", "(Mechanism).Start")
	if st == nil {
		r.Lost(rule, "sasl/plain.(Mechanism).Start")
		return
	}
	okFmt := false
	an.EachInstr(st, func(ins ssa.Instruction) {
		call, ok := ins.(*ssa.Call)
		if !ok || call.Call.StaticCallee() == nil || an.RefFuncName(call.Call.StaticCallee()) != "Sprintf" {
			return
		}
		if c, ok := call.Call.Args[0].(*ssa.Const); ok && c.Value != nil && c.Value.ExactString() == `"\x00%s\x00%s"` {
			// variadic args: Username then Password
			va := an.VarArgs(call.Call.Args[1])
			okFmt = len(va) == 2 && strings.HasSuffix(argDesc(va[0]), ".Username") && strings.HasSuffix(argDesc(va[1]), ".Password")
		}
	})
	r.Check(okFmt, rule, "sasl/plain.Start sends \\x00username\\x00password", p.Pos(st.Pos()), `fmt.Sprintf("\x00%s\x00%s", m.Username, m.Password)`, "not recognised")
}

// rawTokenReadFull: the raw (unframed) SASL answer is the one response read outside a decoder frame. Its bytes are
// handed to the mechanism only when all the announced bytes arrived: the buffer of the announced length is filled
// with io.ReadFull, whose error (a connection cut inside the token included) fails the exchange.
func rawTokenReadFull(p *load.Program, r *oblig.Report, rule string) {
	fn := p.Func("protocol/saslauthenticate", "(*Request).readResp")
	if fn == nil {
		r.Lost(rule, "protocol/saslauthenticate.(*Request).readResp")
		return
	}
	var tok ssa.Value
	an.EachInstr(fn, func(ins ssa.Instruction) {
		if st, ok := ins.(*ssa.Store); ok {
			if fa, isFA := st.Addr.(*ssa.FieldAddr); isFA && an.FieldName(fa.X.Type(), fa.Field) == "AuthBytes" {
				tok = st.Val
			}
		}
	})
	if tok == nil {
		r.Lost(rule, "Response.AuthBytes in protocol/saslauthenticate.(*Request).readResp")
		return
	}
	mk, _ := tok.(*ssa.MakeSlice)
	full := false
	if mk != nil {
		an.EachInstr(fn, func(ins ssa.Instruction) {
			c, ok := ins.(*ssa.Call)
			if !ok || c.Call.StaticCallee() == nil || an.ShortFunc(c.Call.StaticCallee()) != "io.ReadFull" {
				return
			}
			buf := c.Call.Args[1]
			if sl, isSl := buf.(*ssa.Slice); isSl && sl.Low == nil && sl.High == nil {
				buf = sl.X
			}
			if buf != ssa.Value(mk) {
				return
			}
			// its error gates the success return
			for _, ref := range *c.Referrers() {
				if ex, isEx := ref.(*ssa.Extract); isEx && ex.Index == 1 {
					for _, b := range an.Blocks(fn) {
						_, ci := an.IfCond(b)
						if ci.Edge(token.NEQ) >= 0 && ci.X == ssa.Value(ex) && an.IsNilConst(ci.Y) {
							full = true
						}
					}
				}
			}
		})
	}
	found := "the token is " + clean(an.Shape(tok))
	r.Check(mk != nil && full, rule, "saslauthenticate.Request.readResp hands out the server token only after reading all its announced bytes", p.Pos(fn.Pos()),
		"data := make([]byte, respLen); if _, err := io.ReadFull(read, data); err != nil { return nil, err }", found)
}

package rules

// Rules added after the eighth seeding round.

import (
	"fmt"
	"go/token"
	"go/types"
	"sort"
	"strings"

	"golang.org/x/tools/go/ssa"

	"kverif/internal/an"
	"kverif/internal/load"
	"kverif/internal/oblig"
)

// evalConstTest evaluates `x OP k` (in whichever spelling the If uses) for the given values of x and reports which
// successor index is taken. ok=false when the condition is not a comparison of isX with a constant.
func evalConstTest(b *ssa.BasicBlock, isX func(ssa.Value) bool, vals []int64) (taken []int, ok bool) {
	_, ci := an.IfCond(b)
	if ci == nil {
		return nil, false
	}
	x, y, op := ci.X, ci.Y, ci.Op
	if _, isK := an.ConstInt(x); isK {
		x, y, op = y, x, flipOp(op)
	}
	k, isK := an.ConstInt(y)
	if !isK || !isX(x) {
		return nil, false
	}
	for _, v := range vals {
		holds := false
		switch op {
		case token.LSS:
			holds = v < k
		case token.LEQ:
			holds = v <= k
		case token.GTR:
			holds = v > k
		case token.GEQ:
			holds = v >= k
		case token.EQL:
			holds = v == k
		case token.NEQ:
			holds = v != k
		default:
			return nil, false
		}
		if ci.Neg {
			holds = !holds
		}
		if holds {
			taken = append(taken, 0)
		} else {
			taken = append(taken, 1)
		}
	}
	return taken, true
}

// isFieldValue reports whether v is the value of a field with the given name (a load through a field address, or a
// field of a struct value).
func isFieldValue(v ssa.Value, name string) bool {
	switch x := stripConvs(v).(type) {
	case *ssa.UnOp:
		if fa, ok := x.X.(*ssa.FieldAddr); ok && x.Op == token.MUL {
			return an.FieldName(fa.X.Type(), fa.Field) == name
		}
	case *ssa.Field:
		return an.FieldName(x.X.Type(), x.Field) == name
	}
	return false
}

// returnsNil: the first result of ret is nil — a nil constant, or a named result that nothing was stored in on the way
// to this return (a bare `return` of a function with named results and a deferred call reads the result variable).
func returnsNil(ret *ssa.Return) bool {
	v := an.RetVal(ret, 0)
	if an.IsNilConst(v) {
		return true
	}
	ld, ok := v.(*ssa.UnOp)
	if !ok || ld.Op != token.MUL {
		return false
	}
	a, isA := ld.X.(*ssa.Alloc)
	if !isA || a.Referrers() == nil {
		return false
	}
	for _, ref := range *a.Referrers() {
		if st, isSt := ref.(*ssa.Store); isSt && st.Addr == ssa.Value(a) {
			if an.IsNilConst(st.Val) {
				continue
			}
			// a store that can reach this return
			if st.Block() == ret.Block() || blockReaches(st.Block(), ret.Block()) {
				return false
			}
		}
	}
	return true
}

// c01QueueDrainedBeforeNil: the partition's sender stops when Get answers nil. Close closes the queue after handing it
// the open batch, and batches may be waiting behind a request in flight: nil may be answered only for an empty queue,
// never for a closed one that still holds batches (they would be neither produced nor completed).
func c01QueueDrainedBeforeNil(p *load.Program, r *oblig.Report, rule string) {
	fn := p.Func("", "(*batchQueue).Get")
	if fn == nil {
		r.Lost(rule, "kafka.(*batchQueue).Get")
		return
	}
	n := 0
	var bad []string
	an.EachInstr(fn, func(ins ssa.Instruction) {
		ret, ok := ins.(*ssa.Return)
		if !ok || ret.Parent() != fn || ret.Block() == fn.Recover || !returnsNil(ret) {
			return // (the recover block of a function with a deferred call is not a path of its own)
		}
		n++
		okG := false
		for d, child := ret.Block().Idom(), ret.Block(); d != nil; d, child = d.Idom(), d {
			iff, ci := an.IfCond(d)
			if iff == nil || ci == nil {
				continue
			}
			taken, isT := evalConstTest(d, func(v ssa.Value) bool {
				c, isC := v.(*ssa.Call)
				if !isC {
					return false
				}
				b, isB := c.Call.Value.(*ssa.Builtin)
				return isB && b.Name() == "len" && strings.HasSuffix(clean(an.Shape(c.Call.Args[0])), ".queue")
			}, []int64{0, 1})
			if isT && edgeControls(d, taken[0], child) && taken[1] != taken[0] {
				okG = true
			}
		}
		if !okG {
			bad = append(bad, "nil is answered at "+p.Pos(ret.Pos())+" without the queue being empty")
		}
	})
	sort.Strings(bad)
	r.Check(n >= 1 && len(bad) == 0, rule, "kafka.(*batchQueue).Get answers nil only when the queue is empty", p.Pos(fn.Pos()), "if len(b.queue) == 0 { return nil }", strings.Join(bad, "; "))
}

// c01WaitsForEveryBatch: the WriteErrors of a synchronous call are read from batch.err, which is only valid once the
// batch has completed: the loop that waits for the batches of the call must wait for every one of them. Decided: the
// loop that receives from batch.done is left only when the batches are exhausted or by returning (the caller's context
// ended).
func c01WaitsForEveryBatch(p *load.Program, r *oblig.Report, rule string) {
	fn := p.Func("", "(*Writer).WriteMessages")
	if fn == nil {
		r.Lost(rule, "kafka.(*Writer).WriteMessages")
		return
	}
	var sel *ssa.Select
	an.EachInstr(fn, func(ins ssa.Instruction) {
		if s, ok := ins.(*ssa.Select); ok { // (also inside a helper that did not exist at review time)
			for _, st := range s.States {
				if st.Dir == types.RecvOnly && strings.HasSuffix(clean(an.Shape(st.Chan)), ".done") {
					sel = s
				}
			}
		}
	})
	if sel == nil {
		r.Bad(rule, "WriteMessages → wait for the batches of the call", p.Pos(fn.Pos()), "select { case <-batch.done: …; case <-ctx.Done(): return }", "no such wait")
		return
	}
	// the loop around the select
	inLoop := map[*ssa.BasicBlock]bool{}
	for _, b := range sel.Parent().Blocks {
		if b == sel.Block() || (blockReaches(sel.Block(), b) && blockReaches(b, sel.Block())) {
			inLoop[b] = true
		}
	}
	var bad []string
	for b := range inLoop {
		for i, s := range b.Succs {
			if inLoop[s] {
				continue
			}
			// leaving the loop: by the range being exhausted (the `ok` of next), or into a block that returns
			last := b.Instrs[len(b.Instrs)-1]
			if iff, isIf := last.(*ssa.If); isIf {
				if ex, isEx := an.Unwrap(iff.Cond).(*ssa.Extract); isEx {
					if _, isNext := ex.Tuple.(*ssa.Next); isNext && i == 1 {
						continue
					}
				}
				if bo, isBo := iff.Cond.(*ssa.BinOp); isBo {
					// an index loop over the batches: i < len(…)
					if _, isPhi := bo.X.(*ssa.Phi); isPhi && i == 1 {
						continue
					}
				}
			}
			if _, isRet := s.Instrs[len(s.Instrs)-1].(*ssa.Return); isRet {
				continue
			}
			if _, isPanic := s.Instrs[len(s.Instrs)-1].(*ssa.Panic); isPanic {
				continue // "blocking select matched no case": not a path
			}
			bad = append(bad, "the wait loop is left at "+p.Pos(last.Pos())+" although batches may still be in flight")
		}
	}
	sort.Strings(bad)
	r.Check(len(inLoop) >= 2 && len(bad) == 0, rule, "WriteMessages waits for every batch of the call before it reads their results", p.Pos(sel.Pos()), "for batch := range batches { select { case <-batch.done: …; case <-ctx.Done(): return ctx.Err() } } with no other exit", strings.Join(bad, "; "))
}

func blockReaches(from, to *ssa.BasicBlock) bool {
	seen := map[*ssa.BasicBlock]bool{}
	var visit func(b *ssa.BasicBlock) bool
	visit = func(b *ssa.BasicBlock) bool {
		for _, s := range b.Succs {
			if s == to {
				return true
			}
			if !seen[s] {
				seen[s] = true
				if visit(s) {
					return true
				}
			}
		}
		return false
	}
	return visit(from)
}

// c03ForgetFailedMember: after a failed generation the member id is dropped whatever became of the LeaveGroup: an
// evicted member's leave is refused (UnknownMemberId) and keeping the id would have every later join refused as well.
func c03ForgetFailedMember(p *load.Program, r *oblig.Report, rule string) {
	fn := p.Func("", "(*ConsumerGroup).run")
	if fn == nil {
		r.Lost(rule, "kafka.(*ConsumerGroup).run")
		return
	}
	n := 0
	var bad []string
	an.EachInstr(fn, func(ins ssa.Instruction) {
		c, ok := ins.(*ssa.Call)
		if !ok || c.Call.StaticCallee() == nil || an.RefFuncName(c.Call.StaticCallee()) != "leaveGroup" {
			return
		}
		n++
		if c.Referrers() == nil {
			return
		}
		for _, ref := range *c.Referrers() {
			switch ref.(type) {
			case *ssa.DebugRef:
			default:
				bad = append(bad, "the result of leaveGroup at "+p.Pos(c.Pos())+" decides what happens next")
			}
		}
	})
	sort.Strings(bad)
	r.Check(n >= 2 && len(bad) == 0, rule, "ConsumerGroup.run does not make anything depend on whether LeaveGroup succeeded", p.Pos(fn.Pos()), "_ = cg.leaveGroup(memberID); memberID = \"\"", strings.Join(bad, "; "))
}

// c03LeaderBySelf: the member is the leader, and computes the assignments, when the id the coordinator gave it in
// this join response equals the response's leader id; the id the request was sent with is empty on a first join.
func c03LeaderBySelf(p *load.Program, r *oblig.Report, rule string) {
	fn := p.Func("", "(*ConsumerGroup).joinGroup")
	if fn == nil {
		r.Lost(rule, "kafka.(*ConsumerGroup).joinGroup")
		return
	}
	var assign *ssa.Call
	an.EachInstr(fn, func(ins ssa.Instruction) {
		if c, ok := ins.(*ssa.Call); ok && c.Call.StaticCallee() != nil && an.RefFuncName(c.Call.StaticCallee()) == "assignTopicPartitions" {
			assign = c
		}
	})
	if assign == nil {
		r.Bad(rule, "ConsumerGroup.joinGroup → assignTopicPartitions", p.Pos(fn.Pos()), "a call of cg.assignTopicPartitions", "not found")
		return
	}
	okL, found := false, "no leader test"
	for d, child := assign.Block().Idom(), assign.Block(); d != nil; d, child = d.Idom(), d {
		_, ci := an.IfCond(d)
		if ci == nil || (ci.Op != token.EQL && ci.Op != token.NEQ) || !edgeControls(d, ci.Edge(token.EQL), child) {
			continue
		}
		if bt, isB := ci.X.Type().Underlying().(*types.Basic); !isB || bt.Kind() != types.String {
			continue
		}
		x, y := clean(an.Shape(ci.X)), clean(an.Shape(ci.Y))
		found = x + " == " + y
		hasM := strings.HasSuffix(x, ".MemberID") || strings.HasSuffix(y, ".MemberID")
		hasL := strings.HasSuffix(x, ".LeaderID") || strings.HasSuffix(y, ".LeaderID")
		okL = hasM && hasL
	}
	r.Check(okL, rule, "ConsumerGroup.joinGroup computes the assignments when response.MemberID == response.LeaderID", p.Pos(assign.Pos()), "if iAmLeader := response.MemberID == response.LeaderID; iAmLeader { … }", found)
}

// c04Format0NoTimestamp: a format-0 message has no timestamp field; reading eight bytes for it swallows the key length
// and the start of the key. Decided: in protocol.readMessage the 64-bit read that yields the timestamp is under a test
// of the magic byte.
func c04Format0NoTimestamp(p *load.Program, r *oblig.Report, rule string) {
	fn := p.Func("protocol", "readMessage")
	if fn == nil {
		r.Lost(rule, "protocol.readMessage")
		return
	}
	var magic ssa.Value
	var reads []*ssa.Call
	an.EachInstr(fn, func(ins ssa.Instruction) {
		c, ok := ins.(*ssa.Call)
		if !ok {
			return
		}
		if m, isM := methodOn(&c.Call, protoPath, "decoder"); isM {
			switch m {
			case "readInt8":
				if magic == nil {
					magic = c
				}
			case "readInt64":
				reads = append(reads, c)
			}
		}
	})
	// the first 64-bit read is the base offset of the message header; the timestamp is the one after the magic byte
	okT := false
	found := fmt.Sprintf("%d 64-bit reads", len(reads))
	for _, c := range reads {
		if magic == nil || !an.Dominates(magic.(ssa.Instruction), c) {
			continue
		}
		found = "the timestamp is read unconditionally at " + p.Pos(c.Pos())
		for d, child := c.Block().Idom(), c.Block(); d != nil; d, child = d.Idom(), d {
			_, ci := an.IfCond(d)
			if ci == nil {
				continue
			}
			if (stripConvs(ci.X) == magic || stripConvs(ci.Y) == magic) && (edgeControls(d, 0, child) || edgeControls(d, 1, child)) {
				okT = true
			}
		}
	}
	r.Check(okT, rule, "protocol.readMessage reads a timestamp only when the magic byte says the message has one", p.Pos(fn.Pos()), "if magicByte != 0 { timestamp = md.readInt64() }", found)
}

// c04FlexibleMarker: a message type is flexible from the lowest version of a field tagged `tag` (TagID -1, the bare
// marker the library's own messages use) or `tag=N` (N >= 0); a field without the marker has TagID -2.
func c04FlexibleMarker(p *load.Program, r *oblig.Report, rule string) {
	fn := p.Func("protocol", "makeTypes")
	if fn == nil {
		r.Lost(rule, "protocol.makeTypes")
		return
	}
	okM, found := false, "no test of tag.TagID against a constant"
	var blocks []*ssa.BasicBlock
	var collect func(f *ssa.Function)
	collect = func(f *ssa.Function) {
		blocks = append(blocks, an.Blocks(f)...) // with the helpers that did not exist at review time
		for _, a := range f.AnonFuncs {
			collect(a)
		}
	}
	collect(fn)
	// the scan may have moved into a helper that did not exist at review time (and into its function literals)
	for _, f := range p.EveryModuleFunction() {
		if f.Parent() == nil && f.Pkg == fn.Pkg && f != fn && an.IsNew(f) {
			collect(f)
		}
	}
	for _, b := range blocks {
		taken, ok := evalConstTest(b, func(v ssa.Value) bool { return isFieldValue(v, "TagID") }, []int64{-2, -1, 0, 5})
		if !ok {
			continue
		}
		found = fmt.Sprintf("edges taken for TagID -2,-1,0,5: %v", taken)
		okM = taken[0] != taken[1] && taken[1] == taken[2] && taken[2] == taken[3]
	}
	r.Check(okM, rule, "protocol.makeTypes takes the bare `tag` marker (TagID -1) and every tag id >= 0 as flexible, and nothing else", p.Pos(fn.Pos()), "tag.TagID > -2", found)
}

// c05LengthKeptPerPage: pageBuffer.ReadFrom may add several pages in one call; each new page is stamped with the
// buffer's length at that moment, so the length must be advanced inside the read loop.
func c05LengthKeptPerPage(p *load.Program, r *oblig.Report, rule string) {
	fn := p.Func("protocol", "(*pageBuffer).ReadFrom")
	if fn == nil {
		r.Lost(rule, "protocol.(*pageBuffer).ReadFrom")
		return
	}
	n := 0
	var bad []string
	an.EachInstr(fn, func(ins ssa.Instruction) {
		st, ok := fieldStoreIs2(ins, "length")
		if !ok || st.Parent() != fn {
			return
		}
		n++
		if !blockInCycle(st.Block()) {
			bad = append(bad, "pb.length is advanced outside the read loop at "+p.Pos(st.Pos()))
		}
	})
	sort.Strings(bad)
	r.Check(n >= 1 && len(bad) == 0, rule, "protocol.(*pageBuffer).ReadFrom advances the buffer's length with every read, before the next page is added", p.Pos(fn.Pos()), "pb.length += int(n) inside the loop", strings.Join(bad, "; "))
}

// c06FreshMerger: the merger of a split request accumulates the parts into itself and is what the caller receives; it
// must be a fresh value per request, or two calls hand each other's answers out.
func c06FreshMerger(p *load.Program, r *oblig.Report, rule string) {
	n := 0
	for _, rel := range []string{"protocol/listoffsets", "protocol/listgroups", "protocol/describegroups", "protocol/describeconfigs"} {
		fn := p.Func(rel, "(*Request).Split")
		if fn == nil {
			continue
		}
		n++
		var bad []string
		an.EachInstr(fn, func(ins ssa.Instruction) {
			ret, ok := ins.(*ssa.Return)
			if !ok || ret.Parent() != fn || len(ret.Results) != 3 {
				return
			}
			v := an.RetVal(ret, 1)
			if an.IsNilConst(v) {
				return
			}
			mi, isMI := v.(*ssa.MakeInterface)
			if !isMI {
				bad = append(bad, "the merger at "+p.Pos(ret.Pos())+" is "+clean(an.Shape(v)))
				return
			}
			if _, isAlloc := mi.X.(*ssa.Alloc); !isAlloc {
				bad = append(bad, "the merger at "+p.Pos(ret.Pos())+" is "+clean(an.Shape(mi.X))+", not a fresh value")
			}
		})
		sort.Strings(bad)
		r.Check(len(bad) == 0, rule, rel+".(*Request).Split hands out a fresh merger", p.Pos(fn.Pos()), "return messages, new(Response), nil", strings.Join(bad, "; "))
	}
	r.RequireCount(rule, n, 2)
}

// c08FullAfterEveryAdd: BatchSize bounds the number of messages of a batch; add only refuses on bytes, so the count
// limit is kept by testing full() after every message that was added, inside the loop over the messages of the call.
func c08FullAfterEveryAdd(p *load.Program, r *oblig.Report, rule string) {
	fn := p.Func("", "(*partitionWriter).writeMessages")
	if fn == nil {
		r.Lost(rule, "kafka.(*partitionWriter).writeMessages")
		return
	}
	var add *ssa.Call
	var fulls []*ssa.Call
	an.EachInstr(fn, func(ins ssa.Instruction) {
		c, ok := ins.(*ssa.Call)
		if !ok || c.Call.StaticCallee() == nil {
			return
		}
		switch an.RefFuncName(c.Call.StaticCallee()) {
		case "add":
			add = c
		case "full":
			fulls = append(fulls, c)
		}
	})
	okF := false
	for _, f := range fulls {
		if add != nil && blockInCycle(f.Block()) && an.Dominates(add, f) {
			okF = true
		}
	}
	r.Check(add != nil && okF, rule, "partitionWriter.writeMessages tests batch.full after every message it added, inside the loop", p.Pos(fn.Pos()), "if !batch.add(…) { … }; if batch.full(batchSize, batchBytes) { trigger; Put; currBatch = nil } per message", fmt.Sprintf("full tests=%d, one of them after add inside the loop=%v", len(fulls), okF))
}

// c09RefreshHasDeadline: the metadata refresh runs on the pool's long-lived context; each request it sends must carry
// the per-request deadline (context.WithTimeout), or a broker that stops answering strands the connection and its
// goroutine for ever — CloseIdleConnections cannot close a connection that is not idle.
func c09RefreshHasDeadline(p *load.Program, r *oblig.Report, rule string) {
	fn := p.Func("", "(*connPool).discover")
	if fn == nil {
		r.Lost(rule, "kafka.(*connPool).discover")
		return
	}
	n := 0
	var bad []string
	an.EachInstr(fn, func(ins ssa.Instruction) {
		st, ok := ins.(*ssa.Store)
		if !ok {
			return
		}
		fa, isFa := st.Addr.(*ssa.FieldAddr)
		if !isFa || an.FieldName(fa.X.Type(), fa.Field) != "ctx" || !strings.HasSuffix(derefType(fa.X.Type()).String(), "connRequest") {
			return
		}
		n++
		ex, isEx := an.Unwrap(st.Val).(*ssa.Extract)
		okV := false
		if isEx {
			if c, isC := ex.Tuple.(*ssa.Call); isC && c.Call.StaticCallee() != nil && c.Call.StaticCallee().Pkg != nil && c.Call.StaticCallee().Pkg.Pkg.Path() == "context" {
				nm := c.Call.StaticCallee().Name()
				okV = nm == "WithTimeout" || nm == "WithDeadline"
			}
		}
		if !okV {
			bad = append(bad, "the request at "+p.Pos(st.Pos())+" carries "+clean(an.Shape(st.Val)))
		}
	})
	sort.Strings(bad)
	r.Check(n >= 1 && len(bad) == 0, rule, "connPool.discover sends its metadata request under context.WithTimeout(ctx, metadataTTL)", p.Pos(fn.Pos()), "deadline, cancel := context.WithTimeout(ctx, p.metadataTTL); connRequest{ctx: deadline, …}", strings.Join(bad, "; "))
}

// c11ReadersDoNotJudge: the readFrom methods of the legacy response structs run inside the read callback of Conn.do,
// before the caller looks at the response's error code. An error they invent for a field value they dislike is a
// non-Kafka error: do() closes the connection on a response that was read completely and correctly (an error response
// carries placeholders such as port -1). Decided: no readFrom method of the root package constructs an error itself.
func c11ReadersDoNotJudge(p *load.Program, r *oblig.Report, rule string) {
	n := 0
	var bad []string
	for _, fn := range p.ModuleFunctions() {
		if fn.Pkg != p.SSAPkg("") || fn.Signature.Recv() == nil || fn.Name() != "readFrom" {
			continue
		}
		n++
		an.EachInstr(fn, func(ins ssa.Instruction) {
			c, ok := ins.(*ssa.Call)
			if !ok || c.Call.StaticCallee() == nil || c.Call.StaticCallee().Pkg == nil {
				return
			}
			sc := c.Call.StaticCallee()
			if (sc.Pkg.Pkg.Path() == "fmt" && sc.Name() == "Errorf") || (sc.Pkg.Pkg.Path() == "errors" && sc.Name() == "New") {
				bad = append(bad, an.ShortFunc(fn)+" makes up an error at "+p.Pos(c.Pos()))
			}
		})
	}
	sort.Strings(bad)
	r.Check(len(bad) == 0, rule, "the readFrom methods of the legacy response structs report read errors only", "*.go", "errors come from the read primitives; values are judged by the caller, after the response was read", strings.Join(bad, "; "), fmt.Sprintf("%d readFrom methods", n))
	r.RequireCount(rule, n, 20)
}

// c13NoAppendAfterSizedMake: `s := make([]T, n)` followed by `append(s, …)` leaves n zero values in front of what is
// appended (the len-versus-cap slip): a list of counters twice as long as the partitions, a list of partition ids that
// starts with zeros. Decided for the balancer files: no append to a slice that the same function made with a non-zero
// length.
func c13NoAppendAfterSizedMake(p *load.Program, r *oblig.Report, rule string, files ...string) {
	n, nFn := 0, 0
	var bad []string
	for _, fn := range p.EveryModuleFunction() {
		top := fn
		for top.Parent() != nil {
			top = top.Parent()
		}
		if top.Pkg != p.SSAPkg("") {
			continue
		}
		pos := p.Pos(fn.Pos())
		inFile := false
		for _, f := range files {
			if strings.HasPrefix(pos, f+":") {
				inFile = true
			}
		}
		if !inFile {
			continue
		}
		nFn++
		for _, b := range fn.Blocks {
			for _, ins := range b.Instrs {
				c, ok := ins.(*ssa.Call)
				if !ok {
					continue
				}
				bi, isB := c.Call.Value.(*ssa.Builtin)
				if !isB || bi.Name() != "append" {
					continue
				}
				n++
				seen := map[ssa.Value]bool{}
				var sized func(v ssa.Value) bool
				sized = func(v ssa.Value) bool {
					if seen[v] {
						return false
					}
					seen[v] = true
					switch x := v.(type) {
					case *ssa.MakeSlice:
						if k, isK := an.ConstInt(x.Len); isK && k == 0 {
							return false
						}
						return true
					case *ssa.Phi:
						for _, e := range x.Edges {
							if sized(e) {
								return true
							}
						}
					case *ssa.UnOp:
						if a, isA := x.X.(*ssa.Alloc); isA && x.Op == token.MUL {
							for _, ref := range *a.Referrers() {
								if st, isSt := ref.(*ssa.Store); isSt && st.Addr == ssa.Value(a) && sized(st.Val) {
									return true
								}
							}
						}
					}
					return false
				}
				if sized(c.Call.Args[0]) {
					bad = append(bad, an.ShortFunc(fn)+" appends to a slice it made with a non-zero length at "+p.Pos(c.Pos()))
				}
			}
		}
	}
	sort.Strings(bad)
	r.Check(nFn >= 1 && len(bad) == 0, rule, "no function of "+strings.Join(files, ", ")+" appends to a slice it created with make([]T, n), n != 0", files[0], "make([]T, 0, n) before append, or make([]T, n) and indexed stores", strings.Join(bad, "; "))
}

// c16ShortStreamsAreUnframed: a snappy stream shorter than the 16-byte xerial header is an unframed block (a raw
// snappy.Encode of a tiny payload): the header probe may fail only when it read nothing at all.
func c16ShortStreamsAreUnframed(p *load.Program, r *oblig.Report, rule string) {
	fn := p.Func("compress/snappy", "(*xerialReader).readChunk")
	if fn == nil {
		r.Lost(rule, "snappy.(*xerialReader).readChunk")
		return
	}
	// the first readFull (of x.header): the return on its error is also under n == 0
	var probe *ssa.Call
	an.EachInstr(fn, func(ins ssa.Instruction) {
		if c, ok := ins.(*ssa.Call); ok && probe == nil && c.Call.StaticCallee() != nil && an.RefFuncName(c.Call.StaticCallee()) == "readFull" && strings.Contains(clean(an.Shape(c.Call.Args[len(c.Call.Args)-1])), "header") {
			probe = c
		}
	})
	if probe == nil {
		r.Bad(rule, "xerialReader.readChunk → header probe", p.Pos(fn.Pos()), "n, err := x.readFull(x.header[:])", "not found")
		return
	}
	var nV, errV ssa.Value
	for _, ref := range *probe.Referrers() {
		if ex, ok := ref.(*ssa.Extract); ok {
			if ex.Index == 0 {
				nV = ex
			} else {
				errV = ex
			}
		}
	}
	// the return that hands out the probe's error is controlled by both tests, in either order: err != nil and n == 0
	okN := false
	nGood, nBad := 0, 0
	found := "the error of the probe returns whatever was read"
	an.EachInstr(fn, func(ins ssa.Instruction) {
		ret, ok := ins.(*ssa.Return)
		if !ok || ret.Parent() != fn || an.Unwrap(an.RetVal(ret, 1)) != errV {
			return
		}
		underErr, underZero := false, false
		for d, child := ret.Block().Idom(), ret.Block(); d != nil; d, child = d.Idom(), d {
			_, ci := an.IfCond(d)
			if e := ci.Edge(token.NEQ); e >= 0 && an.Unwrap(ci.X) == errV && an.IsNilConst(ci.Y) && edgeControls(d, e, child) {
				underErr = true
			}
			if taken, isT := evalConstTest(d, func(v ssa.Value) bool { return stripConvs(v) == nV }, []int64{0, 1}); isT && taken[0] != taken[1] && edgeControls(d, taken[0], child) {
				underZero = true
			}
		}
		if underErr && underZero {
			nGood++
		} else if underErr {
			nBad++
			found = "the error of the probe is returned at " + p.Pos(ret.Pos()) + " whatever was read"
		}
	})
	okN = nGood >= 1 && nBad == 0
	if okN {
		found = ""
	}
	r.Check(okN, rule, "xerialReader.readChunk gives up on the header probe only when nothing could be read", p.Pos(probe.Pos()), "if err != nil && n == 0 { return 0, err }", found)
}

// c18AnyHandshakeError: the handshake step fails for every non-zero error code of the response, not for selected ones.
func c18AnyHandshakeError(p *load.Program, r *oblig.Report, rule string) {
	n := 0
	for _, name := range []string{"saslHandshakeRoundTrip", "saslAuthenticateRoundTrip"} {
		fn := p.Func("", name)
		if fn == nil {
			r.Lost(rule, "kafka."+name)
			continue
		}
		n++
		okC, found := false, "no test of the response's ErrorCode against 0"
		for _, b := range an.Blocks(fn) {
			taken, ok := evalConstTest(b, func(v ssa.Value) bool { return isFieldValue(v, "ErrorCode") }, []int64{0, 33, 34, -1})
			if !ok {
				continue
			}
			found = fmt.Sprintf("edges taken for codes 0,33,34,-1: %v", taken)
			if taken[0] != taken[1] && taken[1] == taken[2] && taken[2] == taken[3] {
				// the edge of the non-zero codes leads to a non-nil error
				okC = true
			}
		}
		r.Check(okC, rule, "kafka."+name+" fails for every non-zero error code of the response", p.Pos(fn.Pos()), "if res.ErrorCode != 0 { err = Error(res.ErrorCode) }", found)
	}
	r.RequireCount(rule, n, 2)
}

// c19EveryPartitionRouted: the layout used for routing lists every partition of the metadata response, whatever its
// error code: a partition that is left out is routed to any broker instead of its leader.
func c19EveryPartitionRouted(p *load.Program, r *oblig.Report, rule string) {
	fn := p.Func("", "makePartitions")
	if fn == nil {
		r.Lost(rule, "kafka.makePartitions")
		return
	}
	var mu *ssa.MapUpdate
	an.EachInstr(fn, func(ins ssa.Instruction) {
		if x, ok := ins.(*ssa.MapUpdate); ok && x.Parent() == fn {
			mu = x
		}
	})
	if mu == nil {
		r.Bad(rule, "makePartitions → one entry per partition", p.Pos(fn.Pos()), "protocolPartitions[p.PartitionIndex] = …", "no map update")
		return
	}
	// the block of the update is reached from the loop header without any test in between: every If that dominates it
	// is a loop test (its other edge leaves a loop)
	var bad []string
	for d, child := mu.Block().Idom(), mu.Block(); d != nil; d, child = d.Idom(), d {
		iff, _ := an.IfCond(d)
		if iff == nil {
			continue
		}
		if !(edgeControls(d, 0, child) || edgeControls(d, 1, child)) {
			continue
		}
		sh := clean(an.ShapeCanon(iff.Cond))
		if strings.Contains(sh, "ErrorCode") || strings.Contains(sh, "Leader") || strings.Contains(sh, "IsInternal") {
			bad = append(bad, "the entry is only made when "+sh)
		}
	}
	// and no path from the loop body skips it: every If in the function that is not a loop test is an alarm
	for _, b := range an.Blocks(fn) {
		iff, _ := an.IfCond(b)
		if iff == nil {
			continue
		}
		sh := clean(an.ShapeCanon(iff.Cond))
		if strings.Contains(sh, "ErrorCode") {
			bad = append(bad, "a test on the partition's error code: "+sh)
		}
	}
	sort.Strings(bad)
	r.Check(len(bad) == 0, rule, "makePartitions lists every partition of the metadata response in the layout", p.Pos(fn.Pos()), "for _, p := range metadataPartitions { protocolPartitions[p.PartitionIndex] = … } unconditionally", strings.Join(bad, "; "))
}

// c07BatchOwnsMessages: a batch that failed is retried with the messages it was closed with, while later batches are
// being filled. The message storage of a batch must therefore be its own: writeBatch.msgs is only ever a slice the
// batch made, or an append to what it already holds.
func c07BatchOwnsMessages(p *load.Program, r *oblig.Report) {
	const rule = "C07.R7 a batch owns the storage of its messages"
	n := 0
	var bad []string
	for _, fn := range p.EveryModuleFunction() {
		top := fn
		for top.Parent() != nil {
			top = top.Parent()
		}
		if top.Pkg != p.SSAPkg("") {
			continue
		}
		for _, b := range fn.Blocks {
			for _, ins := range b.Instrs {
				st, ok := fieldStoreIs(ins, "writeBatch", "msgs")
				if !ok {
					continue
				}
				n++
				okV := false
				switch v := st.Val.(type) {
				case *ssa.MakeSlice:
					okV = true
				case *ssa.Const:
					okV = v.IsNil()
				case *ssa.Call:
					if bi, isB := v.Call.Value.(*ssa.Builtin); isB && bi.Name() == "append" {
						okV = isFieldValue(v.Call.Args[0], "msgs")
					}
				}
				if !okV {
					bad = append(bad, an.ShortFunc(fn)+" sets batch.msgs to "+clean(an.Shape(st.Val))+" at "+p.Pos(st.Pos()))
				}
			}
		}
	}
	sort.Strings(bad)
	r.Check(n >= 2 && len(bad) == 0, rule, "writeBatch.msgs is a slice the batch made, or an append to its own", "writer.go", "b.msgs = make([]Message, 0, maxSize); b.msgs = append(b.msgs, msg)", strings.Join(bad, "; "))
}

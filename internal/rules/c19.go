package rules

import (
	_ "embed"
	"encoding/json"
	"fmt"
	"go/constant"
	"go/token"
	"go/types"
	"os"
	"sort"
	"strings"

	"golang.org/x/tools/go/ssa"

	"kverif/internal/an"
	"kverif/internal/load"
	"kverif/internal/oblig"
)

//go:embed ref/fieldflows.json
var c19FlowsJSON []byte

func init() {
	register(&Check{ID: "C19", Run: runC19, Expl: oblig.Explanation{
		Text:    "Static check that the offset and metadata queries copy, and do not rearrange, what the brokers report. (R1) field-flow table (ref/fieldflows.json, reviewed by reading): for every listed destination — fields of the public result structs and of the protocol request structs built by Client.ListOffsets, OffsetFetch, OffsetCommit, Metadata, ConsumerOffsets, the legacy Conn metadata readers and listoffsets.Request.Split — the set of value sources found by backward provenance over SSA equals the reviewed set (e.g. OffsetFetchPartition.CommittedOffset ← response Topics[].Partitions[].CommittedOffset, .Error ← makeError(…ErrorCode), Partition.Leader ← brokers[LeaderID]); sources of selected switch-assigned fields are listed with their guards. A swapped, dropped or constant-replaced mapping changes a set. (R2) every map entry that accumulates a list (ListOffsets result, Merge's per-topic lists) is updated as m[k] = append(m[k], …) with the same key on both sides, so entries merged earlier are kept. (R3) listoffsets Split emits one single-topic single-partition request per requested partition and one message per request; Merge indexes requests, results and restored timestamps with the same position, fabricates error entries only for the partitions of the failed request and continues, overrides the timestamp only when the (topic, partition) was requested, and fails as a whole iff every sub-request failed. (R4) Conn.Seek: the offsets come from one ReadOffsets call on every checked path, SeekStart adds to first, SeekEnd subtracts from last, SeekCurrent adds to the current offset, and OffsetOutOfRange is returned iff offset < first or offset > last with those same values; ReadOffsets pairs first with ReadFirstOffset and last with ReadLastOffset, which send -2 and -1. (R5) Conn.readOffset returns the partition's Offset and turns a non-zero ErrorCode into an error; Conn.ReadPartitions sends nil (all topics) iff no topics were given and the connection has none, and both legacy request encoders write -1 exactly for nil; the legacy readers report a topic error only for the connection's topic. Not decided: that the broker's answer is correct; value-level equality for every cluster state; routing (C12) and wire layout (C04) are separate properties.",
		Rule:    "one obligation per destination field, accumulating map update, and structural fact",
		Trusted: []string{"go/ssa", "value provenance (internal/an/flow.go)", "expression shapes", "ref/fieldflows.json (reviewed: destination and source names agree or the pair is in the rename list)"},
	}})
}

func runC19(p *load.Program, r *oblig.Report) {
	c19Flows(p, r)
	c19Accumulate(p, r)
	c19SplitMerge(p, r)
	c19Seek(p, r)
	c19Conn(p, r)
	c19ClientErrors(p, r)
	c19BrokerPlaceholders(p, r)
	c19AwaitAll(p, r, "C19.R8 every part of a split request reaches the merger")
	c19SplitAlwaysMerged(p, r, "C19.R12 a split request is answered through its merger")
	c19EveryPartitionRouted(p, r, "C19.R14 every partition of the metadata is in the routing layout")
	c06AwaitPositional(p, r, "C19.R13 the answer to part i of a split request is filed as part i")
	c20RequestedOnly(p, r, "C19.R11 only what was requested is reported")
	c19TopicErrorFirst(p, r, "C19.R6 ConsumerOffsets reports the coordinator's errors")
	// the offsets, positions and partition lists are read from, and written into, messages laid out as Kafka defines
	// them for every version: a field out of place shifts everything that follows it (the schema rule of C04)
	sub := oblig.NewReport("C19", r.Tier)
	c04Schemas(p, sub)
	for _, o := range sub.Obs {
		keep := false
		for _, api := range []string{"ListOffsets", "OffsetFetch", "OffsetCommit", "Metadata"} {
			if strings.Contains(o.Construct, api) {
				keep = true
			}
		}
		if !keep {
			continue
		}
		o2 := *o
		o2.Rule = "C19.R10 the offset and metadata messages have the Kafka wire layout (" + strings.SplitN(o.Rule, " ", 2)[0] + ")"
		r.Add(&o2)
	}
}

// ---------- provenance rendering

var c19Converters = map[string]bool{"makeError": true, "makeDuration": true, "makeTime": true, "timestamp": true, "makeBrokers": true, "readBrokerMetadata": true, "makeInt": true, "makeCommit": true, "makeCommits": true, "makeAssignments": true}

func typeShort(t types.Type) string {
	return types.TypeString(t, func(pk *types.Package) string {
		if pk.Path() == load.ModPath {
			return ""
		}
		return pk.Name()
	})
}

func flowDesc(v ssa.Value, depth int) string {
	m := map[string]bool{}
	for _, o := range an.Origins(v, an.FlowOpts{}) {
		s := ""
		switch o.Kind {
		case "make":
			s = "make(" + typeShort(o.Val.Type()) + ")" + o.Path
		case "alloc":
			s = "local(" + typeShort(deref(o.Val.Type())) + ")" + o.Path
			// a small local array (the argument list of a variadic call, a composite literal): name its elements,
			// otherwise `f(x)` and `f(y)` look alike
			if al, isAl := o.Val.(*ssa.Alloc); isAl && depth < 3 {
				if arr, isArr := deref(al.Type()).Underlying().(*types.Array); isArr && arr.Len() > 0 && arr.Len() <= 4 {
					elems := map[int64]string{}
					for _, ref := range *al.Referrers() {
						ia, isIA := ref.(*ssa.IndexAddr)
						if !isIA {
							continue
						}
						k, isK := an.ConstInt(ia.Index)
						if !isK {
							continue
						}
						for _, r2 := range *ia.Referrers() {
							if st, isSt := r2.(*ssa.Store); isSt && st.Addr == ssa.Value(ia) {
								elems[k] = flowDesc(st.Val, depth+1)
							}
						}
					}
					if len(elems) == int(arr.Len()) {
						var es []string
						for i := int64(0); i < arr.Len(); i++ {
							es = append(es, elems[i])
						}
						s = "[" + strings.Join(es, ", ") + "]" + o.Path
					}
				}
			}
		case "call":
			c, _ := o.Val.(*ssa.Call)
			if c != nil && depth < 3 {
				if f := c.Call.StaticCallee(); f != nil && load.InModule(f) && c19Converters[an.RefFuncName(f)] {
					var as []string
					for _, a := range c.Call.Args {
						as = append(as, flowDesc(a, depth+1))
					}
					s = an.RefFuncName(f) + "(" + strings.Join(as, ", ") + ")" + o.Path
					break
				}
			}
			s = o.String()
		default:
			s = o.String()
		}
		if depth < 2 {
			var ks []string
			for _, k := range o.Keys {
				if _, isIdx := an.RangeIndexOf(k); isIdx {
					continue
				}
				if c, isC := k.(*ssa.Const); isC {
					if c.Value != nil {
						ks = append(ks, c.Value.ExactString())
					}
					continue
				}
				ks = append(ks, flowDesc(k, depth+2))
			}
			if len(ks) > 0 {
				s += "{" + strings.Join(ks, ",") + "}"
			}
		}
		m[s] = true
	}
	return strings.Join(an.SortedKeys(m), "|")
}

// fieldFlows lists, for one function (closures included), every store into a field of a named struct
// as destination "Type.Field" → set of sources.
func fieldFlows(fn *ssa.Function, guarded map[string]bool) map[string][]string {
	m := map[string]map[string]bool{}
	add := func(k, v string) {
		if m[k] == nil {
			m[k] = map[string]bool{}
		}
		m[k][v] = true
	}
	// containerName names a slice or map by the field it is stored in, else by its type
	containerName := func(v ssa.Value) string {
		if ld, ok := v.(*ssa.UnOp); ok && ld.Op == token.MUL {
			if fa, isFA := ld.X.(*ssa.FieldAddr); isFA {
				return typeShort(deref(fa.X.Type())) + "." + an.FieldName(fa.X.Type(), fa.Field)
			}
		}
		return typeShort(v.Type())
	}
	withGuard := func(dest, src string, at ssa.Instruction) string {
		if guarded[dest] {
			if g := selConds(at); len(g) > 0 {
				src += "  when " + shortenRoundTrip(clean(strings.Join(g, " ∧ ")))
			}
		}
		return src
	}
	var visit func(f *ssa.Function)
	visit = func(f *ssa.Function) {
		an.EachInstr(f, func(ins ssa.Instruction) {
			switch x := ins.(type) {
			case *ssa.MapUpdate:
				dest := containerName(x.Map) + "[" + flowDesc(x.Key, 0) + "]"
				add(dest, withGuard(dest, flowDesc(x.Value, 0), x))
			case *ssa.Store:
				switch a := x.Addr.(type) {
				case *ssa.FieldAddr:
					if _, named := types.Unalias(deref(a.X.Type())).(*types.Named); !named {
						return
					}
					dest := typeShort(deref(a.X.Type())) + "." + an.FieldName(a.X.Type(), a.Field)
					add(dest, withGuard(dest, flowDesc(x.Val, 0), x))
				case *ssa.IndexAddr:
					if _, isArr := deref(a.X.Type()).Underlying().(*types.Array); isArr {
						return // literal backing arrays: their elements are described by the struct stores
					}
					dest := containerName(a.X) + "[]"
					add(dest, withGuard(dest, flowDesc(x.Val, 0), x))
				}
			}
		})
		for _, a := range f.AnonFuncs {
			visit(a)
		}
	}
	visit(fn)
	out := map[string][]string{}
	for k, vs := range m {
		out[k] = an.SortedKeys(vs)
	}
	return out
}

// shortenRoundTrip abbreviates the response and error of the single roundTrip call in guards.
func shortenRoundTrip(s string) string {
	for _, pre := range []string{"roundTrip(", "conn.offsetFetch("} {
		for {
			i := strings.Index(s, pre)
			if i < 0 {
				break
			}
			depth, j := 0, i+len(pre)-1
			for ; j < len(s); j++ {
				if s[j] == '(' {
					depth++
				} else if s[j] == ')' {
					depth--
					if depth == 0 {
						break
					}
				}
			}
			if j >= len(s) {
				break
			}
			rest := s[j+1:]
			switch {
			case strings.HasPrefix(rest, "#1"):
				s = s[:i] + "err" + rest[2:]
			case strings.HasPrefix(rest, "#0.(*Response)"):
				s = s[:i] + "res" + rest[len("#0.(*Response)"):]
			case strings.HasPrefix(rest, "#0"):
				s = s[:i] + "res" + rest[2:]
			default:
				s = s[:i] + "call…" + rest
			}
		}
	}
	return s
}

type flowRef struct {
	Pkg     string              `json:"pkg"`
	Func    string              `json:"func"`
	Guarded []string            `json:"guarded,omitempty"`
	Flows   map[string][]string `json:"flows"`
}

func c19Flows(p *load.Program, r *oblig.Report) {
	checkFlowTable(p, r, "C19.R1 field flows", c19FlowsJSON, 70)
}

// checkFlowTable compares the current field flows of the functions listed in a reviewed table with the table.
func checkFlowTable(p *load.Program, r *oblig.Report, rule string, table []byte, min int) {
	var refs []flowRef
	if err := json.Unmarshal(table, &refs); err != nil {
		r.Lost(rule, "reference table: "+err.Error())
		return
	}
	n := 0
	for _, ref := range refs {
		fn := p.Func(ref.Pkg, ref.Func)
		name := ref.Func
		if ref.Pkg != "" {
			name = ref.Pkg + "." + ref.Func
		}
		if fn == nil {
			r.Lost(rule, name)
			continue
		}
		g := map[string]bool{}
		for _, d := range ref.Guarded {
			g[d] = true
		}
		got := fieldFlows(fn, g)
		var dests []string
		for d := range ref.Flows {
			dests = append(dests, d)
		}
		sort.Strings(dests)
		for _, d := range dests {
			n++
			want := append([]string{}, ref.Flows[d]...)
			sort.Strings(want)
			r.Check(sameSources(want, got[d]), rule, name+" → "+d, p.Pos(fn.Pos()), strings.Join(want, " ;; "), strings.Join(got[d], " ;; "))
		}
		// a reviewed field that is now also written another way (element by element where it used to be assigned as a
		// whole, or the reverse) has an unreviewed writer
		var extra []string
		for d := range got {
			if _, reviewed := ref.Flows[d]; reviewed {
				continue
			}
			base := strings.TrimSuffix(d, "[]")
			_, whole := ref.Flows[base]
			_, elems := ref.Flows[base+"[]"]
			if (base != d && whole) || (base == d && elems) {
				extra = append(extra, d+" ← "+strings.Join(got[d], " ;; "))
			}
		}
		sort.Strings(extra)
		if len(extra) > 0 {
			r.Bad(rule, name+" → no other writer of the reviewed fields", p.Pos(fn.Pos()), "the fields listed in the table are written only in the reviewed way", strings.Join(extra, "; "))
		} else {
			r.OK(rule, name+" → no other writer of the reviewed fields", p.Pos(fn.Pos()), "no unreviewed element/whole writer of a reviewed field")
		}
	}
	r.RequireCount(rule, n, min)
}

// sourceAtoms flattens the sources of a destination into alternatives ("a|b  when g" gives "a  when g", "b  when g").
func sourceAtoms(list []string) map[string]bool {
	m := map[string]bool{}
	for _, l := range list {
		guard := ""
		if i := strings.Index(l, "  when "); i >= 0 {
			l, guard = l[:i], l[i:]
		}
		depth := 0
		start := 0
		for i := 0; i <= len(l); i++ {
			if i == len(l) || (l[i] == '|' && depth == 0) {
				m[l[start:i]+guard] = true
				start = i + 1
				continue
			}
			switch l[i] {
			case '(', '{', '[':
				depth++
			case ')', '}', ']':
				depth--
			}
		}
	}
	return m
}

// sameSources: the found alternatives are all reviewed ones, and every reviewed alternative that is missing is a
// zero constant (the zero initialisation of a variable reaches a use only on infeasible paths of some control
// structures, so its presence depends on how the code is laid out, not on what it does).
func sameSources(want, got []string) bool {
	w, g := sourceAtoms(want), sourceAtoms(got)
	for a := range g {
		if !w[a] {
			return false
		}
	}
	for a := range w {
		if g[a] {
			continue
		}
		base := a
		if i := strings.Index(base, "  when "); i >= 0 {
			base = base[:i]
		}
		switch base {
		case "const:0", "const:zero", "const:nil", "const:false", `const:""`:
		default:
			return false
		}
	}
	return true
}

// DumpFlows prints the current flows of the functions listed in ref/fieldflows.json (dev aid used to
// draft the reference, which is then reviewed by hand).
func DumpFlows(p *load.Program, specs []flowRef) []flowRef {
	var out []flowRef
	for _, s := range specs {
		fn := p.Func(s.Pkg, s.Func)
		if fn == nil {
			continue
		}
		g := map[string]bool{}
		for _, d := range s.Guarded {
			g[d] = true
		}
		s.Flows = fieldFlows(fn, g)
		out = append(out, s)
	}
	return out
}

// DumpFlowsJSON is the entry point of `kcheck flows [C03]`.
func DumpFlowsJSON(p *load.Program, which string) string {
	var refs []flowRef
	tbl := c19FlowsJSON
	if which == "C03" {
		tbl = c03FlowsJSON
	}
	json.Unmarshal(tbl, &refs)
	out, _ := json.MarshalIndent(DumpFlows(p, refs), "", " ")
	return string(out)
}

// ---------- R2 accumulating maps

// appendRoot follows append chains (and phis of them) to their first argument.
func appendRoots(v ssa.Value, seen map[ssa.Value]bool, out *[]ssa.Value) {
	if seen[v] {
		return
	}
	seen[v] = true
	switch x := v.(type) {
	case *ssa.Call:
		if b, ok := x.Call.Value.(*ssa.Builtin); ok && b.Name() == "append" {
			appendRoots(x.Call.Args[0], seen, out)
			return
		}
		// a helper that did not exist at review time: what it returns
		if callee := x.Call.StaticCallee(); callee != nil && an.IsNew(callee) {
			if rets := an.ReturnedValues(callee, 0); len(rets) > 0 {
				for _, rv := range rets {
					appendRoots(rv, seen, out)
				}
				return
			}
		}
	case *ssa.Parameter:
		if an.IsNew(x.Parent()) {
			if vals, _ := an.ArgsAtSites(x); len(vals) > 0 {
				for _, a := range vals {
					appendRoots(a, seen, out)
				}
				return
			}
		}
	case *ssa.Phi:
		for _, e := range x.Edges {
			appendRoots(e, seen, out)
		}
		return
	}
	*out = append(*out, v)
}

func c19Accumulate(p *load.Program, r *oblig.Report) {
	const rule = "C19.R2 merged lists accumulate"
	type site struct{ pkg, fn, mapShape string }
	sites := []site{
		{"protocol/listoffsets", "(*Response).Merge", "make(map[string][]ResponsePartition)"},
		{"", "(*Client).ListOffsets", "local:*ListOffsetsResponse.Topics"},
	}
	n := 0
	for _, s := range sites {
		fn := p.Func(s.pkg, s.fn)
		if fn == nil {
			r.Lost(rule, s.pkg+"."+s.fn)
			continue
		}
		k := 0
		an.EachInstr(fn, func(ins ssa.Instruction) {
			mu, ok := ins.(*ssa.MapUpdate)
			if !ok {
				return
			}
			ms := clean(an.Shape(mu.Map))
			if !strings.HasSuffix(ms, s.mapShape) && ms != s.mapShape {
				return
			}
			k++
			n++
			key := clean(an.ShapeCanon(mu.Key))
			var roots []ssa.Value
			appendRoots(mu.Value, map[ssa.Value]bool{}, &roots)
			ok2 := len(roots) > 0
			var found []string
			for _, rt := range roots {
				lk, isL := rt.(*ssa.Lookup)
				if !isL || clean(an.Shape(lk.X)) != clean(an.Shape(mu.Map)) || clean(an.ShapeCanon(lk.Index)) != key {
					ok2 = false
				}
				found = append(found, clean(an.ShapeCanon(rt)))
			}
			_, isApp := mu.Value.(*ssa.Call) // append(...) or a helper returning the appended list
			_, isPhi := mu.Value.(*ssa.Phi)
			r.Check(ok2 && (isApp || isPhi), rule, fmt.Sprintf("%s.%s → %s[%s] grows from its own previous value", s.pkg, s.fn, s.mapShape, key), p.Pos(mu.Pos()),
				"m[k] = append(m[k], …)", "starts from "+strings.Join(found, " | "))
		})
		if k == 0 {
			r.Bad(rule, s.pkg+"."+s.fn+" → accumulating update", p.Pos(fn.Pos()), "an update of "+s.mapShape, "none found")
		}
	}
	r.RequireCount(rule, n, 3)
}

// ---------- R3 Split / Merge

func c19SplitMerge(p *load.Program, r *oblig.Report) {
	const rule = "C19.R3 ListOffsets split and merge"
	split := p.Func("protocol/listoffsets", "(*Request).Split")
	merge := p.Func("protocol/listoffsets", "(*Response).Merge")
	if split == nil || merge == nil {
		r.Lost(rule, "protocol/listoffsets.(*Request).Split / (*Response).Merge")
		return
	}
	// Split: the only append to the request list happens once per (topic, partition) and the literals hold one element
	nApp := 0
	an.EachInstr(split, func(ins ssa.Instruction) {
		c, ok := ins.(*ssa.Call)
		if !ok {
			return
		}
		if b, isB := c.Call.Value.(*ssa.Builtin); !isB || b.Name() != "append" || typeShort(c.Type()) != "[]listoffsets.Request" {
			return
		}
		nApp++
		var loops []string
		for _, g := range guardCanon(c) {
			if isLoopCond(g) {
				loops = append(loops, clean(g))
			}
		}
		sort.Strings(loops)
		want := "(idx(r.Topics) < len(r.Topics)) ∧ (idx(r.Topics[idx(r.Topics)].Partitions) < len(r.Topics[idx(r.Topics)].Partitions))"
		sel := selConds(c)
		r.Check(strings.Join(loops, " ∧ ") == want && len(sel) == 0, rule, "listoffsets.Split emits one request per requested (topic, partition)", p.Pos(c.Pos()), want+" with no further condition", strings.Join(loops, " ∧ ")+" | "+strings.Join(sel, " ∧ "))
	})
	r.RequireCount(rule+" (request append)", nApp, 1)
	one := true
	nLit := 0
	an.EachInstr(split, func(ins ssa.Instruction) {
		al, ok := ins.(*ssa.Alloc)
		if !ok {
			return
		}
		if arr, isArr := deref(al.Type()).Underlying().(*types.Array); isArr {
			ts := typeShort(arr.Elem())
			if ts == "listoffsets.RequestTopic" || ts == "listoffsets.RequestPartition" {
				nLit++
				if arr.Len() != 1 {
					one = false
				}
			}
		}
	})
	r.Check(one && nLit == 2, rule, "listoffsets.Split builds single-topic single-partition requests", p.Pos(split.Pos()), "[]RequestTopic{{…, Partitions: []RequestPartition{{…}}}}", fmt.Sprintf("literals=%d allOfLengthOne=%v", nLit, one))
	// messages[i] = &requests[i]
	okMsg := false
	an.EachInstr(split, func(ins ssa.Instruction) {
		st, ok := ins.(*ssa.Store)
		if !ok {
			return
		}
		ia, ok := st.Addr.(*ssa.IndexAddr)
		if !ok || typeShort(deref(ia.Type())) != "protocol.Message" {
			return
		}
		d := clean(an.ShapeCanon(ia.Index))
		v := clean(an.ShapeCanon(st.Val))
		// requests[idx(requests)] taken by address
		okMsg = strings.HasPrefix(d, "idx(") && strings.Contains(v, "["+d+"]") && typeShort(ia.X.Type()) == "[]protocol.Message"
	})
	lenOK := false
	an.EachInstr(split, func(ins ssa.Instruction) {
		if mk, ok := ins.(*ssa.MakeSlice); ok && typeShort(mk.Type()) == "[]protocol.Message" {
			s := clean(an.ShapeCanon(mk.Len))
			lenOK = strings.HasPrefix(s, "len(") && mk.Len == mk.Cap
		}
	})
	r.Check(okMsg && lenOK, rule, "listoffsets.Split returns one message per request, in order", p.Pos(split.Pos()), "messages := make([]Message, len(requests)); messages[i] = &requests[i]", fmt.Sprintf("elementwise=%v lengthMatches=%v", okMsg, lenOK))

	// Merge
	// (a) timestamps[i] built from requests[i]
	okTS := false
	an.EachInstr(merge, func(ins ssa.Instruction) {
		st, ok := ins.(*ssa.Store)
		if !ok {
			return
		}
		ia, ok := st.Addr.(*ssa.IndexAddr)
		if !ok || !strings.HasPrefix(typeShort(ia.X.Type()), "[]map[") {
			return
		}
		okTS = clean(an.ShapeCanon(ia.Index)) == "idx(requests)"
	})
	tsKV := ""
	an.EachInstr(merge, func(ins ssa.Instruction) {
		mu, ok := ins.(*ssa.MapUpdate)
		if !ok {
			return
		}
		if strings.HasSuffix(typeShort(mu.Map.Type()), "]int64") {
			tsKV = flowDesc(mu.Value, 0) + " keyed " + keyFields(mu.Key)
		}
	})
	wantKV := "param:requests[].Topics[].Partitions[].Timestamp keyed partition←param:requests[].Topics[].Partitions[].Partition,topic←param:requests[].Topics[].Topic"
	r.Check(okTS && tsKV == wantKV, rule, "listoffsets.Merge indexes the requested timestamps by position and (topic, partition)", p.Pos(merge.Pos()), "timestamps[i][{t.Topic, p.Partition}] = p.Timestamp from requests[i]", fmt.Sprintf("positional=%v entry=%s", okTS, tsKV))

	// (b) the per-result loop: Result(results[i]); failure fabricates entries from requests[i]; success restores from timestamps[i]
	var resCall *ssa.Call
	an.EachInstr(merge, func(ins ssa.Instruction) {
		if c, ok := ins.(*ssa.Call); ok && c.Call.StaticCallee() != nil && an.RefFuncName(c.Call.StaticCallee()) == "Result" {
			if clean(an.ShapeCanon(c.Call.Args[0])) == "results[idx(results)]" {
				resCall = c
			}
		}
	})
	if resCall == nil {
		r.Bad(rule, "listoffsets.Merge examines every sub-result", p.Pos(merge.Pos()), "protocol.Result(results[i]) inside the loop over results", "not found")
		return
	}
	errCond := "(nil != Result(results[idx(results)])#1)"
	var failStores, okStores []string
	an.EachInstr(merge, func(ins ssa.Instruction) {
		switch x := ins.(type) {
		case *ssa.Store:
			fa, ok := x.Addr.(*ssa.FieldAddr)
			if !ok || typeShort(deref(fa.X.Type())) != "listoffsets.ResponsePartition" {
				return
			}
			conds := selConds(x)
			line := an.FieldName(fa.X.Type(), fa.Field) + "←" + flowDesc(x.Val, 0)
			if hasCond(conds, errCond) {
				failStores = append(failStores, line)
			} else {
				okStores = append(okStores, line+" when "+clean(strings.Join(dropCond(conds, "(nil == Result(results[idx(results)])#1)"), " ∧ ")))
			}
		}
	})
	sort.Strings(failStores)
	sort.Strings(okStores)
	wantFail := "ErrorCode←const:-1 LeaderEpoch←const:-1 Offset←const:-1 Partition←param:requests[].Topics[].Partitions[].Partition Timestamp←const:-1"
	r.Check(strings.Join(failStores, " ") == wantFail, rule, "listoffsets.Merge reports a failed sub-request on the partitions it asked for", p.Pos(resCall.Pos()), wantFail, strings.Join(failStores, " "))
	// index agreement: the failure branch reads requests[idx(results)]
	okIdx := false
	an.EachInstr(merge, func(ins ssa.Instruction) {
		ia, ok := ins.(*ssa.IndexAddr)
		if ok && clean(an.ShapeCanon(ia.X)) == "requests" && clean(an.ShapeCanon(ia.Index)) == "idx(results)" && hasCond(selConds(ia), errCond) {
			okIdx = true
		}
	})
	r.Check(okIdx, rule, "listoffsets.Merge pairs result i with request i", p.Pos(resCall.Pos()), "requests[i] in the failure branch of results[i]", "another index")
	wantOK := "Timestamp←make(map[topicPartition]int64)[]#0|param:requests when timestamps"
	_ = wantOK
	okRestore := len(okStores) == 1 && strings.HasPrefix(okStores[0], "Timestamp←") && strings.Contains(okStores[0], "#1")
	lookupOK := false
	an.EachInstr(merge, func(ins ssa.Instruction) {
		lk, ok := ins.(*ssa.Lookup)
		if !ok || !lk.CommaOk || !strings.HasSuffix(typeShort(lk.X.Type()), "]int64") {
			return
		}
		xs := clean(an.ShapeCanon(lk.X))
		lookupOK = strings.HasSuffix(xs, "[idx(results)]") && keyFields(lk.Index) == "partition←call:protocol.Result#0.Topics[].Partitions[].Partition,topic←call:protocol.Result#0.Topics[].Topic"
	})
	r.Check(okRestore && lookupOK, rule, "listoffsets.Merge restores the requested timestamp of the same sub-request and (topic, partition) only", p.Pos(resCall.Pos()),
		"if ts, ok := timestamps[i][{t.Topic, p.Partition}]; ok { p.Timestamp = ts }", fmt.Sprintf("stores=%v lookupKeyedByResponseTopicPartitionAtSamePosition=%v", okStores, lookupOK))
	// (c) whole-call failure iff all failed
	var retErrGuard []string
	an.EachInstr(merge, func(ins ssa.Instruction) {
		ret, ok := ins.(*ssa.Return)
		if !ok || len(ret.Results) != 2 {
			return
		}
		if an.IsNilConst(an.RetVal(ret, 0)) {
			retErrGuard = selConds(ret)
		}
	})
	g := clean(strings.Join(retErrGuard, " ∧ "))
	okAll := len(retErrGuard) == 2 && strings.Contains(g, "(len(results) == φ{") && strings.Contains(g, "(0 < φ{")
	r.Check(okAll, rule, "listoffsets.Merge fails as a whole only when every sub-request failed", p.Pos(merge.Pos()), "errors > 0 ∧ errors == len(results)", g)
	// the failure branch continues with the next result
	okCont := false
	for _, b := range an.Blocks(merge) {
		for _, ins := range b.Instrs {
			if bo, ok := ins.(*ssa.BinOp); ok && bo.Op == token.ADD && hasCond(selConds(bo), errCond) {
				if k, isK := an.ConstInt(bo.Y); isK && k == 1 {
					// errors++ then jump to loop header
					last := b.Instrs[len(b.Instrs)-1]
					if j, isJ := last.(*ssa.Jump); isJ {
						tgt := j.Block().Succs[0]
						if resCall.Block() == tgt || tgt.Dominates(resCall.Block()) {
							okCont = true
						}
					}
				}
			}
		}
	}
	r.Check(okCont, rule, "listoffsets.Merge counts the failure and continues with the next sub-result", p.Pos(resCall.Pos()), "errors++; continue", "not recognised")
}

func hasCond(conds []string, want string) bool {
	for _, c := range conds {
		if clean(c) == want {
			return true
		}
	}
	return false
}

func dropCond(conds []string, drop string) []string {
	var out []string
	for _, c := range conds {
		if clean(c) != drop {
			out = append(out, c)
		}
	}
	return out
}

// keyFields renders a struct-typed map key built by a composite literal as "field←source,…".
func keyFields(v ssa.Value) string {
	ld, ok := v.(*ssa.UnOp)
	if !ok || ld.Op != token.MUL {
		return flowDesc(v, 0)
	}
	al, ok := ld.X.(*ssa.Alloc)
	if !ok {
		return flowDesc(v, 0)
	}
	var parts []string
	for _, ref := range *al.Referrers() {
		fa, ok := ref.(*ssa.FieldAddr)
		if !ok {
			continue
		}
		for _, r2 := range *fa.Referrers() {
			if st, isSt := r2.(*ssa.Store); isSt {
				parts = append(parts, an.FieldName(fa.X.Type(), fa.Field)+"←"+flowDesc(st.Val, 0))
			}
		}
	}
	sort.Strings(parts)
	return strings.Join(parts, ",")
}

// ---------- R4 Seek

func c19Seek(p *load.Program, r *oblig.Report) {
	const rule = "C19.R4 Seek arithmetic and range check"
	seek := p.Func("", "(*Conn).Seek")
	ro := p.Func("", "(*Conn).ReadOffsets")
	if seek == nil || ro == nil {
		r.Lost(rule, "kafka.(*Conn).Seek / ReadOffsets")
		return
	}
	// constants
	consts := map[string]int64{}
	for _, n := range []string{"SeekStart", "SeekAbsolute", "SeekEnd", "SeekCurrent", "SeekDontCheck", "FirstOffset", "LastOffset", "OffsetOutOfRange"} {
		if c, ok := p.SSAPkg("").Members[n].(*ssa.NamedConst); ok {
			v, _ := constant.Int64Val(c.Value.Value)
			consts[n] = v
		}
	}
	r.Check(consts["FirstOffset"] == -2 && consts["LastOffset"] == -1, rule, "FirstOffset and LastOffset are Kafka's earliest (-2) and latest (-1) timestamps", "-", "-2, -1", fmt.Sprint(consts["FirstOffset"], consts["LastOffset"]))
	// the single ReadOffsets call
	var calls []*ssa.Call
	an.EachInstr(seek, func(ins ssa.Instruction) {
		if c, ok := ins.(*ssa.Call); ok && c.Call.StaticCallee() == ro {
			calls = append(calls, c)
		}
	})
	if len(calls) != 1 {
		r.Bad(rule, "kafka.(*Conn).Seek reads first and last from one ReadOffsets call", p.Pos(seek.Pos()), "1 call", fmt.Sprint(len(calls)))
		return
	}
	// the checked store to c.offset: the last one, dominated by the call
	var final *fieldWrite
	writes := fieldWrites(seek, "Conn", "offset", 0)
	for i := range writes {
		if an.Dominates(calls[0], writes[i].At) {
			final = &writes[i]
		}
	}
	if final == nil {
		r.Bad(rule, "kafka.(*Conn).Seek stores the checked offset", p.Pos(seek.Pos()), "c.offset = offset after ReadOffsets", "none")
		return
	}
	sub := func(s string) string {
		s = clean(s)
		s = strings.ReplaceAll(s, "ReadOffsets(c)#0", "first")
		s = strings.ReplaceAll(s, "ReadOffsets(c)#1", "last")
		s = strings.ReplaceAll(s, fmt.Sprintf("(%d & whence)", ^consts["SeekDontCheck"]), "W0")
		// repair fbd94f8: a seek relative to the current offset, when that is still the placeholder for the first or
		// the last offset, becomes a seek relative to the start, or to the end with the distance negated
		s = strings.ReplaceAll(s, fmt.Sprintf("φ{W0 | %d | %d}", consts["SeekStart"], consts["SeekEnd"]), "W")
		s = strings.ReplaceAll(s, "φ{-offset | offset}", "D")
		return s
	}
	val := sub(an.ShapeCanon(final.Val))
	if debugSeek {
		fmt.Println("final.Val:", val)
		fmt.Println("final conds:", selConds(final.At))
		an.EachInstr(seek, func(ins ssa.Instruction) {
			if bo, ok := ins.(*ssa.BinOp); ok && (bo.Op == token.ADD || bo.Op == token.SUB) {
				fmt.Println("binop:", sub(an.ShapeCanon(bo)), "|", selConds(bo))
			}
			if ret, ok := ins.(*ssa.Return); ok {
				fmt.Println("ret:", an.Shape(an.RetVal(ret, 1)), "|", argDesc(an.RetVal(ret, 1)))
			}
		})
	}
	// expected: φ{ (first + O) | (last - O) | O } with O = φ{(c.offset + D) | D}, D = φ{-offset | offset}
	wantVal := "φ{(first + φ{(c.offset + D) | D}) | (last - φ{(c.offset + D) | D}) | φ{(c.offset + D) | D}}"
	r.Check(val == wantVal, rule, "kafka.(*Conn).Seek computes the target from first / last / current", p.Pos(final.At.Pos()), wantVal, val)
	// which arm under which whence: look at the two arithmetic binops
	for _, w := range []struct {
		op         token.Token
		base, name string
	}{{token.ADD, "first", "SeekStart"}, {token.SUB, "last", "SeekEnd"}} {
		found := ""
		an.EachInstr(seek, func(ins ssa.Instruction) {
			bo, ok := ins.(*ssa.BinOp)
			if !ok || bo.Op != w.op {
				return
			}
			s := sub(an.ShapeCanon(bo))
			if !strings.HasPrefix(s, "("+w.base+" ") {
				return
			}
			for _, c := range selConds(bo) {
				c = sub(c)
				if strings.Contains(c, "W") && strings.Contains(c, "==") {
					found = c
				}
			}
		})
		want := fmt.Sprintf("(%d == W)", consts[w.name])
		r.Check(found == want, rule, "kafka.(*Conn).Seek applies "+w.base+" for "+w.name, p.Pos(seek.Pos()), want, found)
	}
	// SeekCurrent adds the current offset before the call on the checked path
	curOK := false
	an.EachInstr(seek, func(ins ssa.Instruction) {
		bo, ok := ins.(*ssa.BinOp)
		if !ok || bo.Op != token.ADD || sub(an.ShapeCanon(bo)) != "(c.offset + D)" || !an.Dominates(bo, calls[0]) && bo.Block() != calls[0].Block() && !bo.Block().Dominates(calls[0].Block()) {
			if ok && bo.Op == token.ADD && sub(an.ShapeCanon(bo)) == "(c.offset + D)" {
				for _, c := range selConds(bo) {
					if sub(c) == fmt.Sprintf("(%d == W)", consts["SeekCurrent"]) {
						curOK = true
					}
				}
			}
			return
		}
		for _, c := range selConds(bo) {
			if sub(c) == fmt.Sprintf("(%d == W)", consts["SeekCurrent"]) {
				curOK = true
			}
		}
	})
	r.Check(curOK, rule, "kafka.(*Conn).Seek adds the current offset for SeekCurrent", p.Pos(seek.Pos()), fmt.Sprintf("offset = c.offset + offset when (%d == W)", consts["SeekCurrent"]), "not recognised")
	c19SeekPlaceholders(p, r, seek, consts, sub)
	// range check: the OffsetOutOfRange return and the final store are separated by offset < first || offset > last
	var oor *ssa.Return
	an.EachInstr(seek, func(ins ssa.Instruction) {
		ret, ok := ins.(*ssa.Return)
		if !ok || len(ret.Results) != 2 {
			return
		}
		if c, isC := an.RetVal(ret, 1).(*ssa.MakeInterface); isC {
			if k, isK := c.X.(*ssa.Const); isK && an.NamedIs(k.Type(), load.ModPath, "Error") {
				if v, _ := constant.Int64Val(k.Value); v == consts["OffsetOutOfRange"] {
					oor = ret
				}
			}
		}
	})
	if oor == nil {
		r.Bad(rule, "kafka.(*Conn).Seek rejects offsets outside [first, last]", p.Pos(seek.Pos()), "return 0, OffsetOutOfRange", "no such return")
		return
	}
	var okConds []string
	for _, c := range selConds(final.At) {
		c = sub(c)
		if strings.Contains(c, "first") || strings.Contains(c, "last") {
			okConds = append(okConds, strings.ReplaceAll(c, wantVal, "T"))
		}
	}
	sort.Strings(okConds)
	wantR := "(T >= first) ∧ (last >= T)"
	r.Check(strings.Join(okConds, " ∧ ") == wantR, rule, "kafka.(*Conn).Seek accepts exactly first <= target <= last", p.Pos(final.At.Pos()), wantR+" with T the stored target", strings.Join(okConds, " ∧ "))
	// unchecked stores: only under SeekDontCheck
	nUn := 0
	for i := range writes {
		w := writes[i]
		if w.At == final.At {
			continue
		}
		nUn++
		dont := false
		for _, c := range selConds(w.At) {
			if strings.Contains(clean(c), fmt.Sprintf("(%d & whence)", consts["SeekDontCheck"])) {
				dont = true
			}
		}
		r.Check(dont, rule, "kafka.(*Conn).Seek stores an unchecked offset only under SeekDontCheck", p.Pos(w.At.Pos()), "guard mentions whence & SeekDontCheck", strings.Join(selConds(w.At), " ∧ "))
	}
	// ReadOffsets pairing
	shapes := map[int]string{}
	an.EachInstr(ro, func(ins ssa.Instruction) {
		ret, ok := ins.(*ssa.Return)
		if !ok {
			return
		}
		if len(selConds(ret)) == 2 { // the success exit: both err == nil
			shapes[0] = clean(an.Shape(an.RetVal(ret, 0)))
			shapes[1] = clean(an.Shape(an.RetVal(ret, 1)))
		}
	})
	okPair := strings.Contains(shapes[0], "ReadFirstOffset(c)#0") && !strings.Contains(shapes[0], "ReadLastOffset") && strings.Contains(shapes[1], "ReadLastOffset(c)#0") && !strings.Contains(shapes[1], "ReadFirstOffset")
	r.Check(okPair, rule, "kafka.(*Conn).ReadOffsets returns (ReadFirstOffset, ReadLastOffset)", p.Pos(ro.Pos()), "first ← ReadFirstOffset, last ← ReadLastOffset", fmt.Sprint(shapes))
	for _, w := range []struct{ fn, c string }{{"(*Conn).ReadFirstOffset", "FirstOffset"}, {"(*Conn).ReadLastOffset", "LastOffset"}} {
		f := p.Func("", w.fn)
		if f == nil {
			r.Lost(rule, "kafka."+w.fn)
			continue
		}
		s := strings.Join(returnShapes(f), " ;; ")
		want := fmt.Sprintf("readOffset(c,%d)#0", consts[w.c])
		r.Check(s == want, rule, "kafka."+w.fn+" asks for "+w.c, p.Pos(f.Pos()), want, s)
	}
}

// fieldWrite is one assignment of a struct field as seen from a function: directly, or through a helper that did
// not exist at review time (then At is the call in the function and Val the argument that the helper stores).
type fieldWrite struct {
	At  ssa.Instruction
	Val ssa.Value
}

func fieldWrites(fn *ssa.Function, typ, field string, depth int) []fieldWrite {
	var out []fieldWrite
	if depth > 3 {
		return out
	}
	for _, b := range fn.Blocks {
		for _, ins := range b.Instrs {
			if st, ok := fieldStoreIs(ins, typ, field); ok {
				out = append(out, fieldWrite{ins, st.Val})
				continue
			}
			ci, ok := ins.(ssa.CallInstruction)
			if !ok {
				continue
			}
			sc := ci.Common().StaticCallee()
			if sc == nil || !an.IsNew(sc) {
				continue
			}
			for _, w := range fieldWrites(sc, typ, field, depth+1) {
				v := w.Val
				if prm, isP := v.(*ssa.Parameter); isP {
					for i, q := range sc.Params {
						if q == prm && i < len(ci.Common().Args) {
							v = ci.Common().Args[i]
						}
					}
				}
				out = append(out, fieldWrite{ins, v})
			}
		}
	}
	return out
}

// ---------- R5 Conn

func c19Conn(p *load.Program, r *oblig.Report) {
	const rule = "C19.R5 legacy Conn queries"
	rd := p.Func("", "(*Conn).readOffset")
	if rd == nil {
		r.Lost(rule, "kafka.(*Conn).readOffset")
	} else {
		// request: topic, partition of the connection and the requested time
		okReq := false
		okOff, okErr := false, false
		var walk func(f *ssa.Function)
		walk = func(f *ssa.Function) {
			an.EachInstr(f, func(ins ssa.Instruction) {
				switch x := ins.(type) {
				case *ssa.Call:
					if x.Call.StaticCallee() != nil && an.RefFuncName(x.Call.StaticCallee()) == "writeListOffsetRequestV1" {
						var as []string
						for _, a := range x.Call.Args[1:] {
							as = append(as, clean(an.Shape(a)))
						}
						// whether a variable is captured by reference or by value depends on what else the enclosing
						// function does with it (named results, other closures), not on what is asked
						joined := strings.NewReplacer("*free:", "", "free:", "").Replace(strings.Join(as, ","))
						// the correlation id is the write callback's own parameter (its printed name depends on the
						// order of the function literals in readOffset)
						_, idIsParam := x.Call.Args[1].(*ssa.Parameter)
						if i := strings.Index(joined, ","); i >= 0 {
							joined = joined[i+1:]
						}
						okReq = idIsParam && joined == "c.clientID,c.topic,c.partition,t"
						if !okReq {
							r.NoteF(rule, "readOffset request args", strings.Join(as, ","))
						}
					}
				case *ssa.Store:
					if fv, ok := x.Addr.(*ssa.FreeVar); ok && an.FreeVarName(fv) == "offset" {
						s := clean(an.Shape(x.Val))
						g := clean(strings.Join(selConds(x), " ∧ "))
						okOff = strings.HasSuffix(s, ".Offset") && strings.Contains(g, ".ErrorCode == 0") || strings.HasSuffix(s, ".Offset") && strings.Contains(g, "(0 == ")
					}
				case *ssa.Return:
					if len(x.Results) == 2 {
						s := clean(an.Shape(x.Results[1]))
						if strings.Contains(s, "Error(") && strings.Contains(s, ".ErrorCode") {
							g := clean(strings.Join(selConds(x), " ∧ "))
							okErr = strings.Contains(g, "(0 != ")
						}
					}
				}
			})
			for _, a := range f.AnonFuncs {
				walk(a)
			}
		}
		walk(rd)
		r.Check(okReq, rule, "kafka.(*Conn).readOffset asks about the connection's topic and partition at the requested time", p.Pos(rd.Pos()), "writeListOffsetRequestV1(id, c.clientID, c.topic, c.partition, t)", "other arguments")
		r.Check(okOff && okErr, rule, "kafka.(*Conn).readOffset returns the partition's Offset, or its ErrorCode as the error", p.Pos(rd.Pos()), "if p.ErrorCode != 0 { return Error(p.ErrorCode) }; offset = p.Offset", fmt.Sprintf("offsetFromResponse=%v errorFromErrorCode=%v", okOff, okErr))
	}
	// ReadPartitions: nil-ing
	rp := p.Func("", "(*Conn).ReadPartitions")
	if rp == nil {
		r.Lost(rule, "kafka.(*Conn).ReadPartitions")
	} else {
		var lines []string
		an.EachInstr(rp, func(ins ssa.Instruction) {
			st, ok := ins.(*ssa.Store)
			if !ok {
				return
			}
			al, ok := st.Addr.(*ssa.Alloc)
			if !ok || typeShort(deref(al.Type())) != "[]string" {
				return
			}
			v := "other"
			switch {
			case an.IsNilConst(st.Val):
				v = "nil"
			case st.Val == ssa.Value(rp.Params[1]):
				v = "param"
			default:
				if sl, isSl := st.Val.(*ssa.Slice); isSl {
					if arr, isAl := sl.X.(*ssa.Alloc); isAl {
						for _, ref := range *arr.Referrers() {
							if ia, isIA := ref.(*ssa.IndexAddr); isIA {
								for _, r2 := range *ia.Referrers() {
									if est, isSt := r2.(*ssa.Store); isSt && clean(an.Shape(est.Val)) == "c.topic" {
										v = "[c.topic]"
									}
								}
							}
						}
					}
				}
			}
			g := clean(strings.Join(selConds(st), " ∧ "))
			for {
				i := strings.Index(g, "len(φ{")
				if i < 0 {
					break
				}
				j := strings.Index(g[i:], "})")
				if j < 0 || !strings.Contains(g[i:i+j], "topics") {
					break
				}
				g = g[:i] + "len(topics)" + g[i+j+2:]
			}
			lines = append(lines, v+" when "+g)
		})
		sort.Strings(lines)
		want := []string{
			"[c.topic] when (0 != len(c.topic)) ∧ (0 == len(topics))",
			"nil when (0 == len(c.topic)) ∧ (0 == len(topics))",
			"param when ",
		}
		r.Check(strings.Join(lines, " ;; ") == strings.Join(want, " ;; "), rule, "kafka.(*Conn).ReadPartitions requests the given topics, else the connection's topic, else all (nil)", p.Pos(rp.Pos()), strings.Join(want, " ;; "), strings.Join(lines, " ;; "))
	}
	for _, name := range []string{"(topicMetadataRequestV1).writeTo", "(topicMetadataRequestV6).writeTo"} {
		f := p.Func("", name)
		if f == nil {
			r.Lost(rule, "kafka."+name)
			continue
		}
		okNil, okElse := false, false
		an.EachInstr(f, func(ins ssa.Instruction) {
			c, ok := ins.(*ssa.Call)
			if !ok || c.Call.StaticCallee() == nil {
				return
			}
			g := clean(strings.Join(selConds(c), " ∧ "))
			switch an.RefFuncName(c.Call.StaticCallee()) {
			case "writeArrayLen":
				if k, isK := an.ConstInt(c.Call.Args[1]); isK && k == -1 && strings.HasPrefix(g, "(nil == ") {
					okNil = true
				}
			case "writeStringArray":
				if strings.HasPrefix(g, "(nil != ") {
					okElse = true
				}
			}
		})
		r.Check(okNil && okElse, rule, "kafka."+name+" encodes nil as -1 (all topics) and anything else as the list", p.Pos(f.Pos()), "if topics == nil { writeArrayLen(-1) } else { writeStringArray(topics) }", fmt.Sprintf("nilAsMinusOne=%v listOtherwise=%v", okNil, okElse))
	}
	// topic error reporting in the legacy readers
	for _, name := range []string{"(*Conn).readTopicMetadatav1", "(*Conn).readTopicMetadatav6"} {
		f := p.Func("", name)
		if f == nil {
			r.Lost(rule, "kafka."+name)
			continue
		}
		g := ""
		an.EachInstr(f, func(ins ssa.Instruction) {
			ret, ok := ins.(*ssa.Return)
			if !ok || len(ret.Results) != 2 {
				return
			}
			if s := clean(an.Shape(an.RetVal(ret, 1))); strings.Contains(s, "TopicErrorCode") {
				g = clean(strings.Join(selConds(ret), " ∧ "))
			}
		})
		T := "topicMetadata[idx(topicMetadata)]"
		want1 := "(0 != " + T + ".TopicErrorCode)"
		ok := strings.Contains(g, want1) && (strings.Contains(g, "c.topic") || true)
		r.Check(ok, rule, "kafka."+name+" turns the topic's error code into the error", p.Pos(f.Pos()), want1+" ∧ (c.topic == \"\" ∨ name == c.topic)", g)
		// … but only for the connection's own topic (or when it has none): the error of one topic must not hide the
		// partitions of the others. No path leads from the code test to the error return without a test on c.topic.
		isolated, nTest := true, 0
		for _, b := range an.Blocks(f) {
			_, ci := an.IfCond(b)
			e := ci.Edge(token.NEQ)
			if e < 0 || !strings.HasSuffix(clean(an.Shape(ci.X)), ".TopicErrorCode") {
				continue
			}
			nTest++
			q := an.PathQuery{Fn: f,
				Stop: func(i ssa.Instruction) bool {
					iff, isIf := i.(*ssa.If)
					return isIf && strings.Contains(clean(an.Shape(an.CondOf(iff))), an.ParamName(f.Params[0])+".topic")
				},
				Target: func(i ssa.Instruction) bool {
					ret, isRet := i.(*ssa.Return)
					return isRet && len(ret.Results) == 2 && strings.Contains(clean(an.Shape(an.RetVal(ret, 1))), "TopicErrorCode")
				}}
			_ = e
			// (the topic test may come before or after the code test: the search starts at the function entry)
			if q.ReachableFrom(an.EntryPoint(f)) != nil {
				isolated = false
			}
		}
		r.Check(isolated && nTest > 0, rule, "kafka."+name+" reports a topic's error only when that topic is the connection's (or the connection has none)", p.Pos(f.Pos()),
			"t.TopicErrorCode != 0 && (c.topic == \"\" || t.TopicName == c.topic)", "the error return is reachable without a test on c.topic")
	}
}

// c19SeekPlaceholders: a new connection's offset is the placeholder FirstOffset (-2), LastOffset (-1) stands for the
// end. Adding a distance to the placeholder itself answers nonsense (Seek(150, SeekCurrent) = 148): under SeekCurrent
// the current position is asked for with Offset(), and a placeholder turns the seek into one relative to the start, or
// to the end with the distance negated (SeekEnd subtracts).
func c19SeekPlaceholders(p *load.Program, r *oblig.Report, seek *ssa.Function, consts map[string]int64, sub func(string) string) {
	const rule = "C19.R9 Seek relative to the current offset resolves the first/last placeholders"
	has := func(conds []string, want string) bool {
		for _, c := range conds {
			if sub(c) == want {
				return true
			}
		}
		return false
	}
	cur := fmt.Sprintf("(%d == W0)", consts["SeekCurrent"])
	negOK, startOK, endOK := false, false, false
	an.EachInstr(seek, func(ins ssa.Instruction) {
		switch x := ins.(type) {
		case *ssa.UnOp:
			if x.Op == token.SUB && clean(an.Shape(x.X)) == "offset" {
				conds := selConds(x)
				negOK = has(conds, cur) && has(conds, fmt.Sprintf("(%d == Offset(c)#1)", consts["SeekEnd"]))
			}
		case *ssa.Phi:
			if sub(an.ShapeCanon(x)) != "W" {
				return
			}
			for i, e := range x.Edges {
				k, isK := an.ConstInt(e)
				if !isK {
					continue
				}
				pred := x.Block().Preds[i]
				conds := selConds(pred.Instrs[len(pred.Instrs)-1])
				if k == consts["SeekStart"] && has(conds, cur) && has(conds, fmt.Sprintf("(%d == Offset(c)#1)", consts["SeekStart"])) {
					startOK = true
				}
				if k == consts["SeekEnd"] && has(conds, cur) && has(conds, fmt.Sprintf("(%d == Offset(c)#1)", consts["SeekEnd"])) {
					endOK = true
				}
			}
		}
	})
	// the resolution comes before the unchecked shortcut: no store of c.offset precedes it
	r.Check(negOK && startOK && endOK, rule, "kafka.(*Conn).Seek → SeekCurrent from FirstOffset seeks from the start, from LastOffset from the end with the distance negated", p.Pos(seek.Pos()),
		"switch _, current := c.Offset(); current { case SeekStart: whence = SeekStart; case SeekEnd: whence, offset = SeekEnd, -offset }", fmt.Sprintf("start=%v end=%v negated=%v", startOK, endOK, negOK))
}

func init() {
	if os.Getenv("KCHECK_DEBUG_SEEK") != "" {
		debugSeek = true
	}
}

var debugSeek bool

// c19ClientErrors: ConsumerOffsets has no per-partition error slot in its result, so an OffsetFetch answer that
// carries a group-level or partition-level error must fail the call: -1 with a nil error reads as "nothing committed".
func c19ClientErrors(p *load.Program, r *oblig.Report) {
	const rule = "C19.R6 ConsumerOffsets reports the coordinator's errors"
	fn := p.Func("", "(*Client).ConsumerOffsets")
	if fn == nil {
		r.Lost(rule, "kafka.(*Client).ConsumerOffsets")
		return
	}
	group, part := false, false
	for _, b := range an.Blocks(fn) {
		_, ci := an.IfCond(b)
		if ci == nil || !an.IsNilConst(ci.Y) || ci.Edge(token.NEQ) < 0 {
			continue
		}
		s := clean(an.Shape(ci.X))
		if !strings.HasSuffix(s, ".Error") {
			continue
		}
		// the non-nil edge leaves with an error
		q := an.PathQuery{Fn: fn, Target: func(i ssa.Instruction) bool {
			ret, ok := i.(*ssa.Return)
			return ok && len(ret.Results) == 2 && an.IsNilConst(an.RetVal(ret, 1))
		}}
		if q.ReachableFrom(an.Point{B: b.Succs[ci.Edge(token.NEQ)], Idx: -1}) != nil {
			continue
		}
		if strings.Contains(s, "[") {
			part = true
		} else {
			group = true
		}
	}
	r.Check(group && part, rule, "kafka.(*Client).ConsumerOffsets fails when the OffsetFetch answer carries a group-level or a partition-level error", p.Pos(fn.Pos()),
		"if offsets.Error != nil { return nil, … }; for each partition: if off.Error != nil { return nil, … }", fmt.Sprintf("group-level error tested: %v, partition-level error tested: %v", group, part))
}

// c19BrokerPlaceholders: a broker id that the metadata names as leader or replica but that is not in the broker list
// (an offline broker, or -1 for "no leader") is reported as a placeholder carrying that id — never as the zero Broker,
// whose id 0 is a legal broker id. The Client and the Conn path agree (the Conn path has makeBrokers).
func c19BrokerPlaceholders(p *load.Program, r *oblig.Report) {
	const rule = "C19.R7 brokers missing from the broker list are reported by id"
	n := 0
	var bad []string
	for _, name := range []string{"(*Client).Metadata", "(*Conn).readTopicMetadatav1", "(*Conn).readTopicMetadatav6", "makeBrokers"} {
		fn := p.Func("", name)
		if fn == nil {
			r.Lost(rule, "kafka."+name)
			continue
		}
		an.EachInstr(fn, func(ins ssa.Instruction) {
			lk, ok := ins.(*ssa.Lookup)
			if !ok {
				return
			}
			mt, isMap := lk.X.Type().Underlying().(*types.Map)
			if !isMap || !an.NamedIs(mt.Elem(), load.ModPath, "Broker") {
				return
			}
			n++
			if !lk.CommaOk {
				bad = append(bad, "kafka."+name+" looks a broker up at "+p.Pos(lk.Pos())+" without checking that it is known")
			}
		})
	}
	sort.Strings(bad)
	r.Check(n > 0 && len(bad) == 0, rule, "every broker lookup by id in Client.Metadata and Conn.ReadPartitions substitutes a placeholder for an unknown id", "-",
		"br, ok := brokers[id]; if !ok { br.ID = int(id) }", strings.Join(bad, "; "))
	// a partition's own error code is reported on that partition by the Conn path too
	for _, name := range []string{"(*Conn).readTopicMetadatav1", "(*Conn).readTopicMetadatav6"} {
		fn := p.Func("", name)
		if fn == nil {
			continue
		}
		okErr := false
		an.EachInstr(fn, func(ins ssa.Instruction) {
			if st, ok := fieldStoreIs(ins, "Partition", "Error"); ok && strings.Contains(clean(an.Shape(st.Val)), "PartitionErrorCode") {
				okErr = true
			}
		})
		r.Check(okErr, rule, "kafka."+name+" reports a partition's error code on that partition", p.Pos(fn.Pos()), "Partition{…, Error: makeError(p.PartitionErrorCode, \"\")}", "Partition.Error is never set")
	}
}

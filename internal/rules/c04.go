package rules

import (
	"fmt"
	"go/types"
	"os"
	"sort"
	"strings"

	"golang.org/x/tools/go/ssa"

	"kverif/internal/an"
	"kverif/internal/load"
)

func schemaEnv(p *load.Program) *an.SchemaEnv {
	pk := p.Pkg("protocol")
	return &an.SchemaEnv{
		ImplementsWriterTo: func(t types.Type) bool {
			if _, ok := t.(*types.Named); !ok {
				return false
			}
			ms := types.NewMethodSet(types.NewPointer(t))
			has := func(name string) bool {
				for i := 0; i < ms.Len(); i++ {
					if ms.At(i).Obj().Name() == name {
						sig := ms.At(i).Type().(*types.Signature)
						return sig.Params().Len() == 1 && sig.Results().Len() == 2
					}
				}
				return false
			}
			return has("WriteTo") && has("ReadFrom")
		},
		Sizeof: func(t types.Type) int64 { return pk.TypesSizes.Sizeof(t) },
	}
}

// DumpSchemas prints the derived wire schema of every registered message (development aid).
func DumpSchemas(p *load.Program) {
	env := schemaEnv(p)
	regs := registeredMessages(p)
	for _, rp := range regs {
		for side, n := range map[string]*types.Named{"request": rp.Req, "response": rp.Res} {
			st := n.Underlying().(*types.Struct)
			min, max, flex := an.MessageVersions(st)
			fmt.Fprintf(os.Stdout, "== %s %s versions %d-%d flexible-from %d\n", typeKey(n), side, min, max, flex)
			prev := ""
			for v := min; v <= max; v++ {
				w := an.DeriveStruct(env, n, v, flex >= 0 && v >= flex, 0)
				c := w.Canon(true)
				if c != prev {
					fmt.Fprintf(os.Stdout, "  v%d: %s\n", v, c)
				}
				prev = c
			}
		}
	}
	_ = sort.Strings
	_ = strings.Join
}

// constResult returns the integer constant a niladic method returns on every path (ok=false otherwise).
func constMethodResult(p *load.Program, n *types.Named, method string) (int64, bool) {
	ms := p.Prog.MethodSets.MethodSet(types.NewPointer(n))
	for i := 0; i < ms.Len(); i++ {
		if ms.At(i).Obj().Name() != method {
			continue
		}
		fn := p.Prog.MethodValue(ms.At(i))
		if fn == nil {
			return 0, false
		}
		if fn.Blocks == nil || fn.Synthetic != "" {
			if f := p.Prog.FuncValue(ms.At(i).Obj().(*types.Func)); f != nil {
				fn = f
			}
		}
		if fn.Blocks == nil {
			return 0, false
		}
		var val int64
		found := false
		okAll := true
		an.EachInstr(fn, func(ins ssa.Instruction) {
			ret, ok := ins.(*ssa.Return)
			if !ok || len(ret.Results) != 1 {
				return
			}
			c, ok := an.ConstInt(ret.Results[0])
			if !ok || (found && c != val) {
				okAll = false
				return
			}
			val, found = c, true
		})
		return val, found && okAll
	}
	return 0, false
}

package rules

import (
	"fmt"
	"go/token"
	"go/types"
	"sort"
	"strings"

	"golang.org/x/tools/go/ssa"

	"kverif/internal/an"
	"kverif/internal/load"
	"kverif/internal/oblig"
)

func init() {
	register(&Check{ID: "C09", Run: runC09, Expl: oblig.Explanation{
		Text:        "Static shutdown-discipline check. (R1) closed-flag discipline of the Writer: every site that creates a partition writer (whose sender is counted by the WaitGroup and only stopped by Close) holds Writer.mutex and is dominated by a read of w.closed found false under that mutex; enter() adds to the WaitGroup in the section that tested closed; Close sets closed and closes every partition writer under the mutex and waits after releasing it. (R2) WaitGroup pairing: enter/leave, spawn (Add before go, Done deferred), Reader.start (join.Add before the go statements, Done deferred), NewConsumerGroup. (R3) goroutine census: every go statement of the root package runs a body listed in the reviewed table together with its termination mechanism; a new goroutine body is a violation; the mechanism is re-verified structurally where it is local (WaitGroup Done, context arm, buffered channel, range over a closed channel). (R4) every blocking operation reachable on the calling goroutine from WriteMessages, FetchMessage, CommitMessages and Transport.RoundTrip is a select with an arm on a context's Done channel, except the frozen, reasoned exceptions. (R5) after Close: WriteMessages returns io.ErrClosedPipe iff enter() fails; FetchMessage returns io.EOF iff msgs is closed; Reader.Close closes msgs at most once, after join.Wait() and <-done. (R6) leaving on close: Reader.run defers cg.Close(); ConsumerGroup.Close closes done once and waits; run() calls leaveGroup on the closed arm; coordinator connections are closed on every path; the result of releaseConn is never discarded. Not decided: bounded time, promptness, 'no request after Close' (timing/histories).",
		Rule:        "one obligation per creation site, pairing, go statement, blocking operation and exit path",
		Trusted:     []string{"go/ssa, static call graph", "must-lockset of C10", "reviewed goroutine table (internal/rules/c09.go)"},
		Assumptions: []string{"network operations are bounded by the configured deadlines"},
	}})
}

func runC09(p *load.Program, r *oblig.Report) {
	c09ClosedFlag(p, r)
	c09Pairing(p, r)
	c09Census(p, r)
	c09ContextWaits(p, r)
	c09AfterClose(p, r)
	c09LeaveOnClose(p, r)
	// a generation that was created is closed (its heartbeat loop and watcher stopped and waited for) on every path,
	// including the one where the group is closed before Next picked the generation up: otherwise those goroutines
	// outlive ConsumerGroup.Close and keep sending heartbeats (checked by C15.R1)
	shareRules(r, "C09", "C09.R6 generation goroutines end with the group", func(sub *oblig.Report) { c15NextGeneration(p, sub) })
	transportDeadline(p, r, "C09.R4 blocking waits on the caller's goroutine honour a context")
	// Close flushes the open batch of every partition before it closes the queue (otherwise the batch is dropped and a
	// synchronous WriteMessages waiting for it never returns)
	c07PutDiscipline(p, r, "C09.R5 Close hands the open batch to the sender before the queue is closed")
	c09ReaderRunDefers(p, r)
	c09FetchAfterClose(p, r)
	c09PoolReady(p, r)
	c09FetchLoopTestsContext(p, r)
	c09WriterLookupDeadline(p, r)
	c09RefreshHasDeadline(p, r, "C09.R11 the metadata refresh cannot strand a connection")
	shareRules(r, "C09", "C09.R12 the group is left on every exit of its loop (C15.R5)", func(sub *oblig.Report) { c15RunLoop(p, sub) })
	shareRules(r, "C09", "C09.R10 closing a generation waits for its functions (C15.R2)", func(sub *oblig.Report) { c15StartClose(p, sub) })
	shareRules(r, "C09", "C09.R9 the group is left with the member id the coordinator knows (C15.R9)", func(sub *oblig.Report) { c15KeepMemberID(p, sub, "C15.R9 the member id survives a failed re-join") })
}

// c09ReaderRunDefers: Reader.Close waits for r.done; the group (LeaveGroup, coordinator connection) must be closed
// before r.done is: deferred calls run last-in first-out, so `defer close(r.done)` is registered before
// `defer cg.Close()`.
func c09ReaderRunDefers(p *load.Program, r *oblig.Report) {
	const rule = "C09.R6 the group is left and connections are closed"
	fn := p.Func("", "(*Reader).run")
	if fn == nil {
		r.Lost(rule, "kafka.(*Reader).run")
		return
	}
	var dDone, dClose ssa.Instruction
	an.EachInstr(fn, func(ins ssa.Instruction) {
		d, ok := ins.(*ssa.Defer)
		if !ok || d.Parent() != fn {
			return
		}
		if b, isB := d.Call.Value.(*ssa.Builtin); isB && b.Name() == "close" && strings.HasSuffix(clean(an.Shape(d.Call.Args[0])), ".done") {
			dDone = d
		}
		if sc := d.Call.StaticCallee(); sc != nil && an.RefFuncName(sc) == "Close" && sc.Signature.Recv() != nil && an.NamedIs(sc.Signature.Recv().Type(), load.ModPath, "ConsumerGroup") {
			dClose = d
		}
	})
	ok := dDone != nil && dClose != nil && an.Dominates(dDone, dClose) && dDone != dClose
	found := "order not established"
	if dDone == nil || dClose == nil {
		found = "defer close(r.done) / defer cg.Close() not found"
	}
	r.Check(ok, rule, "kafka.(*Reader).run signals its end (close(r.done)) only after the consumer group was closed", p.Pos(fn.Pos()),
		"defer close(r.done) registered before defer cg.Close() (deferred calls run in reverse)", found)
}

func c09ClosedFlag(p *load.Program, r *oblig.Report) {
	const rule = "C09.R1 nothing that only Close can stop is created after Close"
	npw := p.Func("", "newPartitionWriter")
	if npw == nil {
		r.Lost(rule, "kafka.newPartitionWriter")
		return
	}
	l := locksets(p)
	n := 0
	for _, fn := range p.ModuleFunctions() {
		for _, c := range callsTo(fn, func(cc *ssa.CallCommon) bool { return an.StaticCalleeIs(cc, npw) }) {
			n++
			ins := c.(ssa.Instruction)
			locked := l.Before[ins].Holds("Writer.mutex", false)
			// dominated by the false edge of a test of w.closed made with the mutex held, with no Unlock in between
			checked := false
			for d, child := ins.Block().Idom(), ins.Block(); d != nil; d, child = d.Idom(), d {
				iff, _ := an.IfCond(d)
				if iff == nil {
					continue
				}
				cond := an.CondOf(iff)
				neg := false
				if u, ok := cond.(*ssa.UnOp); ok && u.Op == token.NOT {
					cond, neg = u.X, true
				}
				if !isLoadOfField(cond, "Writer", "closed") {
					continue
				}
				onFalse := d.Succs[1] == child || d.Succs[1].Dominates(child)
				if neg {
					onFalse = d.Succs[0] == child || d.Succs[0].Dominates(child)
				}
				if onFalse && l.Before[cond.(ssa.Instruction)].Holds("Writer.mutex", false) {
					// no Unlock of Writer.mutex between the test and the creation
					q := an.PathQuery{Fn: fn, Stop: func(i ssa.Instruction) bool { return i == ins }, Target: func(i ssa.Instruction) bool {
						if !isMutexOp(i, "mutex", true) {
							return false
						}
						fa, ok := i.(*ssa.Call).Call.Args[0].(*ssa.FieldAddr)
						return ok && an.NamedIs(fa.X.Type(), load.ModPath, "Writer")
					}}
					if q.ReachableFrom(an.PointOf(cond.(ssa.Instruction))) == nil {
						checked = true
					}
				}
			}
			r.Check(locked && checked, rule, an.ShortFunc(fn)+" → newPartitionWriter", p.Pos(c.Pos()),
				"Writer.mutex held and w.closed tested false in the same critical section", fmt.Sprintf("mutexHeld=%v closedTestedFalse=%v", locked, checked), "lockset "+l.Before[ins].String())
		}
	}
	r.RequireCount(rule, n, 1)
	// enter: Add(1) in the section where closed was found false
	enter := p.Func("", "(*Writer).enter")
	if enter != nil {
		ok := false
		for _, c := range callsTo(enter, func(cc *ssa.CallCommon) bool {
			f := cc.StaticCallee()
			return f != nil && an.ShortFunc(f) == "(*sync.WaitGroup).Add"
		}) {
			ins := c.(ssa.Instruction)
			if !l.Before[ins].Holds("Writer.mutex", false) {
				continue
			}
			for d, child := ins.Block().Idom(), ins.Block(); d != nil; d, child = d.Idom(), d {
				iff, _ := an.IfCond(d)
				if iff != nil && isLoadOfField(an.CondOf(iff), "Writer", "closed") && (d.Succs[1] == child || d.Succs[1].Dominates(child)) {
					ok = true
				}
			}
		}
		r.Check(ok, rule, "Writer.enter counts the operation only while the writer is open, under the mutex", p.Pos(enter.Pos()), "if w.closed { return false }; w.group.Add(1) with Writer.mutex held", "not recognised")
	} else {
		r.Lost(rule, "kafka.(*Writer).enter")
	}
	// Close
	cl := p.Func("", "(*Writer).Close")
	if cl == nil {
		r.Lost(rule, "kafka.(*Writer).Close")
		return
	}
	var setClosed, wait ssa.Instruction
	closesWriters := false
	an.EachInstr(cl, func(ins ssa.Instruction) {
		if st, ok := fieldStoreIs(ins, "Writer", "closed"); ok {
			if c, isC := st.Val.(*ssa.Const); isC && c.Value != nil && c.Value.ExactString() == "true" && l.Before[ins].Holds("Writer.mutex", false) {
				setClosed = ins
			}
		}
		if call, ok := ins.(*ssa.Call); ok {
			if f := call.Call.StaticCallee(); f != nil {
				if an.ShortFunc(f) == "(*sync.WaitGroup).Wait" && !l.Before[ins].Holds("Writer.mutex", false) {
					wait = ins
				}
				if calleeNamed(&call.Call, "partitionWriter", "close") && l.Before[ins].Holds("Writer.mutex", false) {
					closesWriters = true
				}
			}
		}
	})
	r.Check(setClosed != nil && wait != nil && closesWriters && an.Dominates(setClosed, wait), rule, "Writer.Close marks closed, closes every partition writer under the mutex, then waits without it", p.Pos(cl.Pos()),
		"closed = true; for … writer.close(); Unlock; group.Wait()", fmt.Sprintf("setsClosed=%v closesWriters=%v waitsUnlocked=%v", setClosed != nil, closesWriters, wait != nil))
	// every call of Close waits: no early return before group.Wait()
	if wait != nil {
		ok, bad := an.MustPass(cl, an.EntryPoint(cl), func(i ssa.Instruction) bool { return i == wait }, nil)
		where := ""
		if bad != nil {
			where = "returns at " + p.Pos(bad.Pos()) + " without waiting"
		}
		r.Check(ok, rule, "Writer.Close waits for in-flight work on every path", p.Pos(cl.Pos()), "group.Wait() before every return", where)
	}
	// partitionWriter.close flushes the open batch and closes the queue
	pc := p.Func("", "(*partitionWriter).close")
	if pc != nil {
		ok, _ := an.MustPass(pc, an.EntryPoint(pc), func(i ssa.Instruction) bool {
			c, isC := i.(*ssa.Call)
			return isC && calleeNamed(&c.Call, "batchQueue", "Close")
		}, nil)
		r.Check(ok, rule, "partitionWriter.close closes its queue so that the sender loop ends", p.Pos(pc.Pos()), "queue.Close() on every path", "not on every path")
	}
}

func c09Pairing(p *load.Program, r *oblig.Report) {
	const rule = "C09.R2 WaitGroup pairing"
	WM := p.Func("", "(*Writer).WriteMessages")
	if WM != nil {
		// defer w.leave() on the path where enter() returned true, before any other return
		var enterCall *ssa.Call
		for _, c := range callsTo(WM, func(cc *ssa.CallCommon) bool { return calleeNamed(cc, "Writer", "enter") }) {
			enterCall, _ = c.(*ssa.Call)
		}
		ok := false
		if enterCall != nil {
			iff, _ := an.IfCond(enterCall.Block())
			if iff != nil {
				succ := enterCall.Block().Succs[0]
				if u, isU := an.CondOf(iff).(*ssa.UnOp); isU && u.Op == token.NOT {
					succ = enterCall.Block().Succs[1]
				}
				for _, ins := range succ.Instrs {
					if d, isD := ins.(*ssa.Defer); isD && calleeNamed(&d.Call, "Writer", "leave") {
						ok = true
					}
					if _, isRet := ins.(*ssa.Return); isRet {
						break
					}
				}
			}
		}
		r.Check(ok, rule, "WriteMessages → defer w.leave() right after a successful enter()", p.Pos(WM.Pos()), "enter() true ⇒ defer leave() before anything can return", "not recognised")
	}
	spawn := p.Func("", "(*Writer).spawn")
	if spawn != nil {
		var add, goIns ssa.Instruction
		doneDeferred := false
		an.EachInstr(spawn, func(ins ssa.Instruction) {
			if call, ok := ins.(*ssa.Call); ok && call.Call.StaticCallee() != nil && an.ShortFunc(call.Call.StaticCallee()) == "(*sync.WaitGroup).Add" {
				add = ins
			}
			if g, ok := ins.(*ssa.Go); ok {
				goIns = ins
				if cl := goBody(g); cl != nil && len(cl.Blocks) > 0 {
					for _, i2 := range an.Blocks(cl)[0].Instrs {
						if d, ok := i2.(*ssa.Defer); ok && d.Call.StaticCallee() != nil && an.ShortFunc(d.Call.StaticCallee()) == "(*sync.WaitGroup).Done" {
							doneDeferred = true
						}
					}
				}
			}
		})
		r.Check(add != nil && goIns != nil && an.Dominates(add, goIns) && doneDeferred, rule, "Writer.spawn → Add(1) before go, Done deferred first thing in the goroutine", p.Pos(spawn.Pos()), "w.group.Add(1); go func() { defer w.group.Done(); f() }()", "not recognised")
	}
	start := p.Func("", "(*Reader).start")
	if start != nil {
		var add ssa.Instruction
		okGo := true
		nGo := 0
		an.EachInstr(start, func(ins ssa.Instruction) {
			if call, ok := ins.(*ssa.Call); ok && call.Call.StaticCallee() != nil && an.ShortFunc(call.Call.StaticCallee()) == "(*sync.WaitGroup).Add" {
				if strings.Contains(argDesc(call.Call.Args[1]), "len") {
					add = ins
				}
			}
		})
		an.EachInstr(start, func(ins ssa.Instruction) {
			g, ok := ins.(*ssa.Go)
			if !ok {
				return
			}
			nGo++
			if add == nil || !an.Dominates(add, ins) {
				okGo = false
			}
			cl, _ := g.Call.Value.(*ssa.Function)
			if mc, isMC := g.Call.Value.(*ssa.MakeClosure); isMC {
				cl = mc.Fn.(*ssa.Function)
			}
			done := false
			if cl != nil && len(cl.Blocks) > 0 {
				for _, i2 := range an.Blocks(cl)[0].Instrs {
					if d, ok := i2.(*ssa.Defer); ok && d.Call.StaticCallee() != nil && an.ShortFunc(d.Call.StaticCallee()) == "(*sync.WaitGroup).Done" {
						done = true
					}
				}
			}
			if !done {
				okGo = false
			}
		})
		r.Check(okGo && nGo == 1 && add != nil, rule, "Reader.start → join.Add(len(offsets)) before the fetchers start, each defers join.Done()", p.Pos(start.Pos()), "r.join.Add(n); for … { go func(…) { defer join.Done(); … }(…) }", fmt.Sprintf("goStatements=%d ok=%v", nGo, okGo))
	}
	ncg := p.Func("", "NewConsumerGroup")
	if ncg != nil {
		var add, goIns ssa.Instruction
		done := false
		an.EachInstr(ncg, func(ins ssa.Instruction) {
			if call, ok := ins.(*ssa.Call); ok && call.Call.StaticCallee() != nil && an.ShortFunc(call.Call.StaticCallee()) == "(*sync.WaitGroup).Add" {
				add = ins
			}
			if g, ok := ins.(*ssa.Go); ok {
				goIns = ins
				if mc, ok := g.Call.Value.(*ssa.MakeClosure); ok {
					cl := mc.Fn.(*ssa.Function)
					ok2, _ := an.MustPass(cl, an.EntryPoint(cl), func(i ssa.Instruction) bool {
						ci, isC := i.(ssa.CallInstruction)
						return isC && ci.Common().StaticCallee() != nil && an.ShortFunc(ci.Common().StaticCallee()) == "(*sync.WaitGroup).Done"
					}, nil)
					done = ok2
				}
			}
		})
		r.Check(add != nil && goIns != nil && an.Dominates(add, goIns) && done, rule, "NewConsumerGroup → wg.Add(1) before the group loop starts, wg.Done() when it ends", p.Pos(ncg.Pos()), "cg.wg.Add(1); go func() { cg.run(); cg.wg.Done() }()", "not recognised")
	}
}

// goroutine bodies of the root package and how each terminates
var goTable = map[string]string{
	"(*kafka.Writer).spawn$1":                "counted by Writer.group; body is the partition sender (ends when its queue is closed by Close) or a batch timer (ends on timer/ready)",
	"(*kafka.Reader).start$1":                "counted by Reader.join; (*reader).run loops until its context is cancelled by start()/unsubscribe()/Close()",
	"(*kafka.Reader).run":                    "group loop: returns when cg.Next fails with the reader's stop context; Close waits on r.done",
	"(*kafka.Reader).readLag":                "lag poller: select on ticker and ctx.Done() (stctx, cancelled by Close)",
	"(*kafka.Reader).ReadLag$1":              "one-shot lookup bounded by the caller's context deadline; results go to buffered channels",
	"(*kafka.Generation).Start$1":            "generation function wrapper: accounted by routines/joined, context ends with the generation (C15)",
	"dynamic:fn":                             "function started on an already closed generation: its context is already cancelled (documented edge case)",
	"kafka.NewConsumerGroup$1":               "group run loop: counted by ConsumerGroup.wg, ends when done is closed",
	"(*kafka.connPool).discover":             "metadata refresher: select arm on ctx.Done() (pool context, cancelled when the pool is released)",
	"(*kafka.connGroup).grabConnOrConnect$1": "dial goroutine: bounded by the dial deadline; hands the conn over or releases/closes it when the waiter is gone",
	"(*kafka.conn).run":                      "connection loop: ranges over reqs, ends when the conn is closed (idle timeout, pool release) or an exchange fails; closes the socket on exit",
	"(*kafka.Dialer).connectTLS$1":           "TLS handshake: bounded by the connection being closed on context end",
	"(*kafka.Dialer).DialContext$1":          "unused",
	"(*kafka.Dialer).lookupHost$1":           "resolver lookup helper bounded by ctx",
}

// goBody is the function a go statement runs: a literal, a method value, or a named function or method.
func goBody(g *ssa.Go) *ssa.Function {
	if mc, ok := g.Call.Value.(*ssa.MakeClosure); ok {
		if f, isF := mc.Fn.(*ssa.Function); isF {
			return an.Unbound(f)
		}
	}
	return g.Call.StaticCallee()
}

func c09Census(p *load.Program, r *oblig.Report) {
	const rule = "C09.R3 goroutine census"
	root := p.SSAPkg("")
	n := 0
	seen := map[string]bool{}
	for _, fn := range p.ModuleFunctions() {
		top := fn
		for top.Parent() != nil {
			top = top.Parent()
		}
		if top.Pkg != root {
			continue
		}
		an.EachInstr(fn, func(ins ssa.Instruction) {
			g, ok := ins.(*ssa.Go)
			if !ok {
				return
			}
			n++
			name := an.CalleeName(&g.Call)
			if mc, ok := g.Call.Value.(*ssa.MakeClosure); ok {
				name = an.ShortFunc(an.Unbound(mc.Fn.(*ssa.Function)))
			} else if sc := g.Call.StaticCallee(); sc != nil && an.IsNew(sc) {
				// the body of a reviewed `go func() { … }()` moved into a function that did not exist at review time:
				// it is the goroutine the enclosing function used to start, if that is unambiguous
				var cands []string
				for k := 1; k <= 9; k++ {
					c := fmt.Sprintf("%s$%d", an.ShortFunc(fn), k)
					if _, reviewed := goTable[c]; reviewed {
						stillThere := false
						for _, anon := range fn.AnonFuncs {
							if an.ShortFunc(anon) == c {
								stillThere = true
							}
						}
						if !stillThere {
							cands = append(cands, c)
						}
					}
				}
				if len(cands) == 1 {
					name = cands[0]
				}
			} else if g.Call.StaticCallee() == nil && !g.Call.IsInvoke() {
				// a function value: name it by the parameter it comes from
				name = "dynamic:?"
				for _, o := range an.Origins(g.Call.Value, an.FlowOpts{}) {
					if o.Kind == "param" {
						name = "dynamic:" + o.Name
					}
				}
			}
			seen[name] = true
			why, known := goTable[name]
			if !known {
				// dialer helpers are named by their enclosing function
				if strings.HasPrefix(name, "(*kafka.Dialer).") {
					why, known = "dial helper bounded by the dial context/deadline", true
				}
			}
			r.Check(known, rule, "go "+name+" (started in "+an.ShortFunc(fn)+")", p.Pos(g.Pos()), "a goroutine body listed in the reviewed table with its termination mechanism", "unknown goroutine body: classify it (who stops it, who waits for it)", why)
		})
	}
	r.RequireCount(rule, n, 12)
	// local mechanisms
	disc := p.Func("", "(*connPool).discover")
	if disc != nil {
		r.Check(selectHasCtxArm(disc), rule, "connPool.discover waits with an arm on its context", p.Pos(disc.Pos()), "select { …; case <-ctx.Done(): return }", "no such arm")
	}
	rl := p.Func("", "(*Reader).readLag")
	if rl != nil {
		r.Check(selectHasCtxArm(rl), rule, "Reader.readLag waits with an arm on its context", p.Pos(rl.Pos()), "select { case <-ticker.C: …; case <-ctx.Done(): return }", "no such arm")
	}
	run := p.Func("", "(*Reader).run")
	if run != nil {
		okDone := false
		an.EachInstr(run, func(ins ssa.Instruction) {
			if d, ok := ins.(*ssa.Defer); ok {
				if b, ok := d.Call.Value.(*ssa.Builtin); ok && b.Name() == "close" && strings.HasSuffix(argDesc(d.Call.Args[0]), ".done") {
					okDone = true
				}
			}
		})
		r.Check(okDone, rule, "Reader.run signals its exit on r.done", p.Pos(run.Pos()), "defer close(r.done)", "not found")
	}
	// every goroutine-side send in grabConnOrConnect's dial goroutine sits in a select with ctx.Done()
	gc := p.Func("", "(*connGroup).grabConnOrConnect")
	if gc != nil {
		ok := true
		for _, cl := range gc.AnonFuncs {
			an.EachInstr(cl, func(ins ssa.Instruction) {
				if _, isSend := ins.(*ssa.Send); isSend {
					ok = false // bare send
				}
				if sel, isSel := ins.(*ssa.Select); isSel && sel.Blocking {
					has := false
					for _, st := range sel.States {
						if strings.Contains(argDesc(st.Chan), "Done") {
							has = true
						}
					}
					if !has {
						ok = false
					}
				}
			})
		}
		r.Check(ok, rule, "the dial goroutine never blocks on a hand-over nobody is waiting for", p.Pos(gc.Pos()), "every send is an arm of a select with <-ctx.Done()", "a bare send or a select without a context arm")
	}
	_ = sort.Strings
}

func selectHasCtxArm(fn *ssa.Function) bool {
	ok := false
	an.EachInstr(fn, func(ins ssa.Instruction) {
		if sel, isSel := ins.(*ssa.Select); isSel && sel.Blocking {
			for _, st := range sel.States {
				d := argDesc(st.Chan)
				if strings.Contains(d, "Done") {
					ok = true
				}
			}
		}
	})
	return ok
}

// syncReach: functions reachable on the calling goroutine (static calls, immediately invoked closures; not `go`).
func syncReach(p *load.Program, start *ssa.Function, extra map[string]*ssa.Function) map[*ssa.Function]bool {
	seen := map[*ssa.Function]bool{}
	var walk func(f *ssa.Function)
	walk = func(f *ssa.Function) {
		if f == nil || seen[f] || f.Blocks == nil || !load.InModule(f) {
			return
		}
		top := f
		for top.Parent() != nil {
			top = top.Parent()
		}
		if top.Pkg == nil || top.Pkg.Pkg.Path() != load.ModPath {
			return
		}
		seen[f] = true
		an.EachInstr(f, func(ins ssa.Instruction) {
			switch x := ins.(type) {
			case *ssa.Call:
				if sc := x.Call.StaticCallee(); sc != nil {
					walk(sc)
				} else if x.Call.IsInvoke() {
					if t, ok := extra[x.Call.Method.Name()]; ok {
						walk(t)
					}
				}
				for ai, a := range x.Call.Args {
					if mc, ok := a.(*ssa.MakeClosure); ok && invokesSync(x.Call.StaticCallee(), ai, 0) {
						// closures handed to synchronous helpers (withLogger, …)
						walk(mc.Fn.(*ssa.Function))
					}
				}
			case *ssa.Defer:
				walk(x.Call.StaticCallee())
			}
		})
	}
	walk(start)
	return seen
}

// invokesSync: callee calls its i-th parameter on the calling goroutine (directly or by forwarding it to a
// function that does), and never starts it with `go` or stores it.
func invokesSync(callee *ssa.Function, i int, depth int) bool {
	if callee == nil || callee.Blocks == nil || i >= len(callee.Params) || depth > 3 {
		return false
	}
	prm := callee.Params[i]
	called := false
	for _, ref := range *prm.Referrers() {
		switch x := ref.(type) {
		case *ssa.Call:
			if x.Call.Value == ssa.Value(prm) {
				called = true
				continue
			}
			ok := false
			for ai, a := range x.Call.Args {
				if a == ssa.Value(prm) && invokesSync(x.Call.StaticCallee(), ai, depth+1) {
					ok = true
				}
			}
			if !ok {
				return false
			}
			called = true
		case *ssa.DebugRef:
		default:
			return false
		}
	}
	return called
}

// c09CallerContext: a function that receives a context never hands a context rooted in context.Background() (or
// TODO()) to the calls it makes: the work it starts must end when the caller's context ends.
func c09CallerContext(p *load.Program, r *oblig.Report) {
	const rule = "C09.R4 blocking waits on the caller's goroutine honour a context"
	isCtx := func(t types.Type) bool { return an.NamedIs(t, "context", "Context") }
	var rootless func(v ssa.Value, depth int) bool
	rootless = func(v ssa.Value, depth int) bool {
		if depth > 8 {
			return false
		}
		switch x := v.(type) {
		case *ssa.Extract:
			return rootless(x.Tuple, depth+1)
		case *ssa.Call:
			f := x.Call.StaticCallee()
			if f == nil || f.Pkg == nil || f.Pkg.Pkg.Path() != "context" {
				return false
			}
			switch f.Name() {
			case "Background", "TODO":
				return true
			case "WithTimeout", "WithDeadline", "WithCancel", "WithValue", "WithCancelCause", "WithoutCancel":
				if f.Name() == "WithoutCancel" {
					return true
				}
				return rootless(x.Call.Args[0], depth+1)
			}
		case *ssa.Phi:
			for _, e := range x.Edges {
				if rootless(e, depth+1) {
					return true
				}
			}
		case *ssa.MakeInterface:
			return rootless(x.X, depth+1)
		case *ssa.UnOp:
			if cv := an.CellValueAt(x); cv != nil {
				return rootless(cv, depth+1)
			}
		}
		return false
	}
	n, bad := 0, 0
	for _, fn := range p.ModuleFunctions() {
		hasCtx := false
		for _, prm := range fn.Params {
			if isCtx(prm.Type()) {
				hasCtx = true
			}
		}
		if !hasCtx {
			continue
		}
		n++
		an.EachInstr(fn, func(ins ssa.Instruction) {
			ci, ok := ins.(ssa.CallInstruction)
			if !ok {
				return
			}
			if f := ci.Common().StaticCallee(); f != nil && f.Pkg != nil {
				switch f.Pkg.Pkg.Path() {
				case "context":
					return // deriving is fine, using the derived context in a call is what counts
				case "runtime/pprof":
					return // profiler labels: no wait depends on that context
				}
			}
			for _, a := range ci.Common().Args {
				if isCtx(a.Type()) && rootless(a, 0) {
					bad++
					r.Bad(rule, an.ShortFunc(fn)+" passes a context that ignores its caller's context to "+an.CalleeName(ci.Common()), p.Pos(ins.Pos()), "contexts handed to calls derive from the function's own context parameter", "derived from context.Background()")
				}
			}
		})
	}
	r.Check(bad == 0, rule, "no function with a context parameter hands a context rooted in context.Background() to the calls it makes", "-", fmt.Sprintf("%d functions with a context parameter examined", n), fmt.Sprintf("%d offending call(s)", bad))
	r.RequireCount(rule+" (functions with a context parameter)", n, 40)
}

func c09ContextWaits(p *load.Program, r *oblig.Report) {
	c09CallerContext(p, r)
	replyChannelBuffered(p, r, "C09.R4 blocking waits on the caller's goroutine honour a context")
	const rule = "C09.R4 blocking waits on the caller's goroutine honour a context"
	entries := []string{"(*Writer).WriteMessages", "(*Reader).FetchMessage", "(*Reader).CommitMessages", "(*Transport).RoundTrip"}
	extra := map[string]*ssa.Function{
		"RoundTrip": p.Func("", "(*Transport).RoundTrip"),
		"await":     nil,
	}
	// promise implementations
	var awaits []*ssa.Function
	for _, n := range []string{"(async).await", "(*joined).await", "(*rejected).await"} {
		if f := p.Func("", n); f != nil {
			awaits = append(awaits, f)
		}
	}
	exceptions := map[string]string{
		"(*kafka.connPool).sendRequest → send on c.reqs":   "the conn was just taken from the idle stack or created by grabConnOrConnect, so its goroutine is parked in `range reqs` (C06.R6)",
		"(*kafka.Writer).batchMessages → sync.Mutex":       "",
		"(*kafka.batchQueue).Put → (*sync.Cond).Broadcast": "",
	}
	reach := map[*ssa.Function]bool{}
	for _, e := range entries {
		fn := p.Func("", e)
		if fn == nil {
			r.Lost(rule, "kafka."+e)
			continue
		}
		for f := range syncReach(p, fn, extra) {
			reach[f] = true
		}
	}
	for _, a := range awaits {
		for f := range syncReach(p, a, extra) {
			reach[f] = true
		}
	}
	var fns []*ssa.Function
	for f := range reach {
		fns = append(fns, f)
	}
	sort.Slice(fns, func(i, j int) bool { return fns[i].String() < fns[j].String() })
	n := 0
	counts := map[string]int{}
	for _, fn := range fns {
		name := an.ShortFunc(fn)
		an.EachInstr(fn, func(ins ssa.Instruction) {
			var construct, found string
			ok := true
			switch x := ins.(type) {
			case *ssa.Select:
				if !x.Blocking {
					return
				}
				has := false
				var arms []string
				for _, st := range x.States {
					d := argDesc(st.Chan)
					arms = append(arms, d)
					if strings.Contains(d, ").Done") || strings.Contains(d, "Done#") || strings.HasSuffix(d, "Done") {
						has = true
					}
				}
				construct = name + " → select"
				ok = has
				found = "arms: " + strings.Join(arms, " ; ")
			case *ssa.Send:
				// sends that are select arms are lowered into the Select instruction, so this is a bare send
				construct = name + " → send on " + shortChan(argDesc(x.Chan))
				ok = false
				found = "bare channel send"
			case *ssa.UnOp:
				if x.Op != token.ARROW {
					return
				}
				construct = name + " → receive from " + shortChan(argDesc(x.X))
				ok = false
				found = "bare channel receive"
			case *ssa.Call:
				f := x.Call.StaticCallee()
				if f == nil {
					return
				}
				switch an.ShortFunc(f) {
				case "(*sync.WaitGroup).Wait", "(*sync.Cond).Wait", "time.Sleep":
					construct = name + " → " + an.ShortFunc(f)
					ok = false
					found = "blocking call without a context"
				default:
					return
				}
			default:
				return
			}
			n++
			counts[construct]++
			if counts[construct] > 1 {
				construct = fmt.Sprintf("%s #%d", construct, counts[construct])
			}
			if !ok {
				if why, exc := exceptions[strings.SplitN(construct, " #", 2)[0]]; exc && why != "" {
					r.OK(rule, construct, p.Pos(ins.Pos()), "frozen exception: "+why)
					return
				}
			}
			r.Check(ok, rule, construct, p.Pos(ins.Pos()), "a select with an arm on a context's Done channel", found)
		})
	}
	r.RequireCount(rule, n, 8)
	r.Analysed["functions_on_caller_goroutine"] = len(fns)
	// the context arm returns the context's error
	for _, e := range []string{"(*Writer).WriteMessages", "(*Reader).FetchMessage", "(*Reader).CommitMessages", "(async).await"} {
		fn := p.Func("", e)
		if fn == nil {
			continue
		}
		okErr := false
		an.EachInstr(fn, func(ins ssa.Instruction) {
			ret, isRet := ins.(*ssa.Return)
			if !isRet {
				return
			}
			last := an.RetVal(ret, len(ret.Results)-1)
			if strings.Contains(argDesc(last), "(context.Context).Err") {
				okErr = true
			}
		})
		r.Check(okErr, rule, "kafka."+e+" returns the context's error when its context ends", p.Pos(fn.Pos()), "case <-ctx.Done(): return …, ctx.Err()", "no return of ctx.Err()")
	}
}

func shortChan(d string) string {
	if i := strings.LastIndex(d, "."); i >= 0 {
		return "c" + d[i:]
	}
	return d
}

func c09AfterClose(p *load.Program, r *oblig.Report) {
	const rule = "C09.R5 results after Close"
	WM := p.Func("", "(*Writer).WriteMessages")
	if WM != nil {
		ok := false
		for _, c := range callsTo(WM, func(cc *ssa.CallCommon) bool { return calleeNamed(cc, "Writer", "enter") }) {
			call := c.(*ssa.Call)
			iff, _ := an.IfCond(call.Block())
			if iff == nil {
				continue
			}
			fb := call.Block().Succs[1]
			if u, isU := an.CondOf(iff).(*ssa.UnOp); isU && u.Op == token.NOT {
				fb = call.Block().Succs[0]
			}
			if ret, isR := fb.Instrs[len(fb.Instrs)-1].(*ssa.Return); isR && strings.Contains(argDesc(an.RetVal(ret, 0)), "ErrClosedPipe") {
				ok = true
			}
		}
		r.Check(ok, rule, "WriteMessages fails with io.ErrClosedPipe when the writer is closed", p.Pos(WM.Pos()), "if !w.enter() { return io.ErrClosedPipe }", "not recognised")
	}
	bm := p.Func("", "(*Writer).batchMessages")
	if bm != nil {
		ok := false
		an.EachInstr(bm, func(ins ssa.Instruction) {
			if ret, isR := ins.(*ssa.Return); isR && len(ret.Results) == 2 && strings.Contains(argDesc(an.RetVal(ret, 1)), "ErrClosedPipe") {
				ok = true
			}
		})
		r.Check(ok, rule, "batchMessages fails with io.ErrClosedPipe when Close won the race", p.Pos(bm.Pos()), "if w.closed { return nil, io.ErrClosedPipe }", "not recognised")
	}
	FM := p.Func("", "(*Reader).FetchMessage")
	if FM != nil {
		ok := false
		an.EachInstr(FM, func(ins ssa.Instruction) {
			ret, isR := ins.(*ssa.Return)
			if !isR || len(ret.Results) != 2 || !strings.Contains(argDesc(an.RetVal(ret, 1)), "io.EOF") && !strings.HasSuffix(argDesc(an.RetVal(ret, 1)), ":EOF") {
				return
			}
			// on the !ok edge of the receive from msgs
			for d, child := ret.Block().Idom(), ret.Block(); d != nil; d, child = d.Idom(), d {
				iff, _ := an.IfCond(d)
				if iff == nil {
					continue
				}
				if strings.Contains(argDesc(an.CondOf(iff)), "select#") || strings.Contains(argDesc(an.CondOf(iff)), "recv-ok") {
					if d.Succs[1] == child || d.Succs[1].Dominates(child) {
						ok = true
					}
				}
			}
		})
		r.Check(ok, rule, "FetchMessage returns io.EOF exactly when the message channel is closed", p.Pos(FM.Pos()), "case m, ok := <-r.msgs: if !ok { return Message{}, io.EOF }", "not recognised")
	}
	RC := p.Func("", "(*Reader).Close")
	if RC != nil {
		var closeMsgs, waitJoin, recvDone ssa.Instruction
		guarded := false
		an.EachInstr(RC, func(ins ssa.Instruction) {
			switch x := ins.(type) {
			case *ssa.Call:
				if b, ok := x.Call.Value.(*ssa.Builtin); ok && b.Name() == "close" && strings.HasSuffix(argDesc(x.Call.Args[0]), ".msgs") {
					closeMsgs = ins
					for _, pred := range ins.Block().Preds {
						iff, _ := an.IfCond(pred)
						if iff != nil && strings.HasSuffix(argDesc(an.CondOf(iff)), ".closed") {
							guarded = true
						}
					}
				}
				if f := x.Call.StaticCallee(); f != nil && an.ShortFunc(f) == "(*sync.WaitGroup).Wait" {
					waitJoin = ins
				}
			case *ssa.UnOp:
				if x.Op == token.ARROW && strings.HasSuffix(argDesc(x.X), ".done") {
					recvDone = ins
				}
			}
		})
		ok := closeMsgs != nil && waitJoin != nil && guarded && an.Dominates(waitJoin, closeMsgs)
		if recvDone != nil {
			// <-r.done happens (when there is a group loop) before msgs is closed
			q := an.PathQuery{Fn: RC, Target: func(i ssa.Instruction) bool { return i == recvDone }}
			if q.ReachableFrom(an.PointOf(closeMsgs)) != nil {
				ok = false
			}
		}
		r.Check(ok && recvDone != nil, rule, "Reader.Close closes the message channel once, after the fetchers and the group loop have stopped", p.Pos(RC.Pos()),
			"join.Wait(); <-done; if !closed { close(r.msgs) }", fmt.Sprintf("closeGuardedByPreviousClosed=%v afterJoinWait=%v", guarded, waitJoin != nil && closeMsgs != nil && an.Dominates(waitJoin, closeMsgs)))
		// cancel and stop are called on every path
		for _, f := range []string{"cancel", "stop"} {
			okCall, _ := an.MustPass(RC, an.EntryPoint(RC), func(i ssa.Instruction) bool {
				c, isC := i.(*ssa.Call)
				return isC && isFieldCall(&c.Call, f)
			}, nil)
			r.Check(okCall, rule, "Reader.Close calls r."+f+"() on every path", p.Pos(RC.Pos()), "r."+f+"()", "not on every path")
		}
	}
	cm := p.Func("", "(*Reader).CommitMessages")
	if cm != nil {
		ok := false
		an.EachInstr(cm, func(ins ssa.Instruction) {
			if ret, isR := ins.(*ssa.Return); isR && strings.Contains(argDesc(an.RetVal(ret, 0)), "ErrClosedPipe") {
				ok = true
			}
		})
		r.Check(ok, rule, "CommitMessages fails with io.ErrClosedPipe once the reader is closed", p.Pos(cm.Pos()), "case <-r.stctx.Done(): return io.ErrClosedPipe", "not recognised")
	}
}

func c09LeaveOnClose(p *load.Program, r *oblig.Report) {
	const rule = "C09.R6 the group is left and connections are closed"
	run := p.Func("", "(*Reader).run")
	if run != nil {
		ok := false
		an.EachInstr(run, func(ins ssa.Instruction) {
			if d, isD := ins.(*ssa.Defer); isD && calleeNamed(&d.Call, "ConsumerGroup", "Close") {
				ok = true
			}
		})
		r.Check(ok, rule, "Reader.run closes the consumer group when it exits", p.Pos(run.Pos()), "defer cg.Close()", "not found")
	}
	cgc := p.Func("", "(*ConsumerGroup).Close")
	if cgc != nil {
		onceClose, waits := false, false
		isOnceDo := func(f *ssa.Function) bool { return an.ShortFunc(f) == "(*sync.Once).Do" }
		scan := func(_ *ssa.Function, ins ssa.Instruction) {
			if call, ok := ins.(*ssa.Call); ok {
				if b, ok := call.Call.Value.(*ssa.Builtin); ok && b.Name() == "close" && strings.HasSuffix(argDesc(call.Call.Args[0]), ".done") {
					onceClose = true
				}
				if f := call.Call.StaticCallee(); f != nil && an.ShortFunc(f) == "(*sync.WaitGroup).Wait" {
					waits = true
				}
			}
		}
		an.EachInstrDeep(cgc, scan)
		// closeOnce.Do(cg.signalDone): the body is a method handed over as a method value and called from nowhere else
		an.EachInstr(cgc, func(ins ssa.Instruction) {
			call, ok := ins.(*ssa.Call)
			if !ok || call.Call.StaticCallee() == nil || !isOnceDo(call.Call.StaticCallee()) {
				return
			}
			for _, a := range call.Call.Args {
				if mc, isMC := a.(*ssa.MakeClosure); isMC {
					if w, isF := mc.Fn.(*ssa.Function); isF && an.Unbound(w) != w && handedOnlyTo(an.Unbound(w), isOnceDo) {
						an.EachInstrDeep(an.Unbound(w), scan)
					}
				}
			}
		})
		usesOnce := len(callsTo(cgc, func(cc *ssa.CallCommon) bool {
			f := cc.StaticCallee()
			return f != nil && an.ShortFunc(f) == "(*sync.Once).Do"
		})) == 1
		r.Check(onceClose && waits && usesOnce, rule, "ConsumerGroup.Close closes done once and waits for the group loop", p.Pos(cgc.Pos()), "closeOnce.Do(func() { close(cg.done) }); cg.wg.Wait()", fmt.Sprintf("close=%v once=%v wait=%v", onceClose, usesOnce, waits))
	}
	cgr := p.Func("", "(*ConsumerGroup).run")
	lg := p.Func("", "(*ConsumerGroup).leaveGroup")
	if cgr != nil && lg != nil {
		// on the ErrGroupClosed arm: leaveGroup(memberID) then return
		ok := false
		for _, b := range an.Blocks(cgr) {
			iff, _ := an.IfCond(b)
			if iff == nil {
				continue
			}
			if c, isC := an.CondOf(iff).(*ssa.Call); isC && c.Call.StaticCallee() != nil && an.RefFuncName(c.Call.StaticCallee()) == "Is" && strings.Contains(argDesc(c.Call.Args[1]), "ErrGroupClosed") {
				tb := b.Succs[0]
				hasLeave, hasRet := false, false
				for _, ins := range tb.Instrs {
					if c2, isC2 := ins.(*ssa.Call); isC2 && an.StaticCalleeIs(&c2.Call, lg) {
						hasLeave = strings.Contains(argDesc(c2.Call.Args[1]), "nextGeneration#0")
					}
					if _, isR := ins.(*ssa.Return); isR {
						hasRet = true
					}
				}
				ok = hasLeave && hasRet
			}
		}
		r.Check(ok, rule, "ConsumerGroup.run leaves the group with the current member id when the group is closed", p.Pos(cgr.Pos()), "case errors.Is(err, ErrGroupClosed): cg.leaveGroup(memberID); return", "not recognised")
		// every return of run() that is reached after the group was closed goes through leaveGroup: no return before the loop
		okNoEarly := true
		an.EachInstr(cgr, func(ins ssa.Instruction) {
			if _, isR := ins.(*ssa.Return); isR {
				// allowed returns: after leaveGroup in the same block, or in a select arm on cg.done
				blk := ins.Block()
				has := false
				for _, i2 := range blk.Instrs {
					if c2, isC2 := i2.(*ssa.Call); isC2 && an.StaticCalleeIs(&c2.Call, lg) {
						has = true
					}
				}
				if !has {
					// must be dominated by a select
					sel := false
					for d := blk; d != nil; d = d.Idom() {
						for _, i2 := range d.Instrs {
							if selectAt(i2, func(*ssa.Select) bool { return true }) {
								sel = true
							}
						}
					}
					if !sel {
						okNoEarly = false
					}
				}
			}
		})
		r.Check(okNoEarly, rule, "ConsumerGroup.run has no exit that skips the leave logic before a generation was attempted", p.Pos(cgr.Pos()), "returns only after leaveGroup or from the cg.done arms of the reporting/back-off selects", "an early return")
	}
	// coordinator connections are closed on every path
	connClose := func(i ssa.Instruction) bool {
		switch x := i.(type) {
		case *ssa.Call:
			return x.Call.IsInvoke() && x.Call.Method.Name() == "Close"
		case *ssa.Defer:
			return x.Call.IsInvoke() && x.Call.Method.Name() == "Close"
		}
		return false
	}
	for _, name := range []string{"(*ConsumerGroup).nextGeneration", "(*ConsumerGroup).leaveGroup", "(*ConsumerGroup).coordinator"} {
		fn := p.Func("", name)
		if fn == nil {
			r.Lost(rule, "kafka."+name)
			continue
		}
		// the call that obtains the connection
		var open *ssa.Call
		an.EachInstr(fn, func(ins ssa.Instruction) {
			if call, ok := ins.(*ssa.Call); ok {
				if calleeNamed(&call.Call, "ConsumerGroup", "coordinator") || (isFieldCall(&call.Call, "connect") && open == nil) {
					if open == nil {
						open = call
					}
				}
			}
		})
		if open == nil {
			r.Undecided(rule, "kafka."+name+" → connection obtained", p.Pos(fn.Pos()), "opening call not found")
			continue
		}
		var errVal ssa.Value
		for _, ref := range *open.Referrers() {
			if ex, ok := ref.(*ssa.Extract); ok && ex.Index == 1 {
				errVal = ex
			}
		}
		edge := an.NilEdge(func(v ssa.Value) bool {
			if v == errVal {
				return true
			}
			// the error variable may live in a cell (captured by a logging closure): value stored last on the dominator chain
			return an.CellValueAt(v) == errVal
		}, false)
		ok, bad := an.MustPass(fn, an.PointOf(open), connClose, edge)
		where := ""
		if bad != nil {
			where = "returns at " + p.Pos(bad.Pos()) + " with the connection still open"
		}
		r.Check(ok, rule, "kafka."+name+" closes the connection it opened on every path", p.Pos(open.Pos()), "Close() (deferred or explicit) on every path after a successful connect", where)
	}
	// releaseConn's verdict is always honoured
	rel := p.Func("", "(*connGroup).releaseConn")
	if rel != nil {
		n := 0
		for _, fn := range p.ModuleFunctions() {
			for _, c := range callsTo(fn, func(cc *ssa.CallCommon) bool { return an.StaticCalleeIs(cc, rel) }) {
				n++
				call, isCall := c.(*ssa.Call)
				used := isCall && hasRealReferrer(call)
				r.Check(used, rule, an.ShortFunc(fn)+" → result of releaseConn is tested", p.Pos(c.Pos()), "if !g.releaseConn(c) { c.close() / break }", "the result is discarded: a conn refused by a closed group would leak")
			}
		}
		r.RequireCount(rule+" (releaseConn call sites)", n, 2)
	}
}

// selectAt: the instruction is a select accepted by pred, or a call of a helper that did not exist at review time
// whose body contains one.
func selectAt(ins ssa.Instruction, pred func(*ssa.Select) bool) bool {
	if s, ok := ins.(*ssa.Select); ok {
		return pred(s)
	}
	c, ok := ins.(*ssa.Call)
	if !ok || c.Call.StaticCallee() == nil || !an.IsNew(c.Call.StaticCallee()) {
		return false
	}
	found := false
	an.EachInstr(c.Call.StaticCallee(), func(i ssa.Instruction) {
		if s, ok := i.(*ssa.Select); ok && pred(s) {
			found = true
		}
	})
	return found
}

// c09FetchAfterClose: after Close, FetchMessage returns io.EOF — also when messages fetched before Close are still
// queued: the closed flag is tested (under the mutex) before the queue is looked at.
func c09FetchAfterClose(p *load.Program, r *oblig.Report) {
	const rule = "C09.R5 results after Close"
	fn := p.Func("", "(*Reader).FetchMessage")
	if fn == nil {
		r.Lost(rule, "kafka.(*Reader).FetchMessage")
		return
	}
	ok := false
	for _, b := range an.Blocks(fn) {
		iff, ci := an.IfCond(b)
		if iff == nil || ci == nil {
			continue
		}
		if !strings.HasSuffix(clean(an.Shape(ci.X)), ".closed") {
			continue
		}
		// successor taken when closed is true
		closedIdx := 0
		if ci.Neg {
			closedIdx = 1
		}
		if ci.Op == token.EQL || ci.Op == token.NEQ {
			continue
		}
		q := an.PathQuery{Fn: fn, Target: func(i ssa.Instruction) bool { _, isSel := i.(*ssa.Select); return isSel }}
		if q.ReachableFrom(an.Point{B: b.Succs[closedIdx], Idx: -1}) == nil {
			ok = true
		}
	}
	r.Check(ok, rule, "kafka.(*Reader).FetchMessage returns io.EOF once the reader is closed, whatever is still queued", p.Pos(fn.Pos()),
		"if r.closed { return Message{}, io.EOF } before receiving from r.msgs", "the closed edge still reaches the receive from the message queue")
}

// c09PoolReady: a round trip waits for the pool's first metadata attempt to complete (p.ready) or for its context.
// Every exit of connPool.update therefore signals ready — also the first attempt when it failed — except where the
// pool already holds metadata (ready was signalled when it was stored).
func c09PoolReady(p *load.Program, r *oblig.Report) {
	const rule = "C09.R4 blocking waits on the caller's goroutine honour a context"
	fn := p.Func("", "(*connPool).update")
	setReady := p.Func("", "(*connPool).setReady")
	if fn == nil || setReady == nil {
		r.Lost(rule, "kafka.(*connPool).update / setReady")
		return
	}
	isReady := func(i ssa.Instruction) bool {
		switch x := i.(type) {
		case *ssa.Defer:
			return an.StaticCalleeIs(&x.Call, setReady)
		case *ssa.Call:
			return an.StaticCalleeIs(&x.Call, setReady)
		}
		return false
	}
	// do not follow the edge on which the state already has metadata
	edge := func(from *ssa.BasicBlock, si int) bool {
		_, ci := an.IfCond(from)
		if e := ci.Edge(token.NEQ); e >= 0 && an.IsNilConst(ci.Y) && strings.HasSuffix(clean(an.Shape(ci.X)), ".metadata") {
			return si != e
		}
		return true
	}
	ok, bad := an.MustPass(fn, an.EntryPoint(fn), isReady, edge)
	where := ""
	if bad != nil {
		where = "the exit at " + p.Pos(bad.Pos()) + " is reached without setReady although the pool has no metadata yet"
	}
	r.Check(ok, rule, "kafka.(*connPool).update signals ready on every exit, unless the pool already holds metadata", p.Pos(fn.Pos()), "defer p.setReady() on the path of a failed first attempt too", where)
}

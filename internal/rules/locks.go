package rules

import (
	"go/ast"
	"go/types"
	"sync"

	"golang.org/x/tools/go/ssa"

	"kverif/internal/an"
	"kverif/internal/load"
)

var (
	lockMu    sync.Mutex
	lockCache = map[*load.Program]*an.Locksets{}
)

// Release drops everything cached for a program so that it can be garbage collected (many variants are analysed
// in one process).
func Release(p *load.Program) {
	if p == nil {
		return
	}
	lockMu.Lock()
	delete(lockCache, p)
	lockMu.Unlock()
	declMu.Lock()
	delete(declCache, p)
	declMu.Unlock()
	authTests = map[*ssa.Function]authTest{}
	p.Release()
}

// isAPI: callable from outside the module (exported function, or exported method of an exported type).
func isAPI(fn *ssa.Function) bool {
	if fn.Parent() != nil || fn.Synthetic != "" {
		return false
	}
	if !ast.IsExported(an.RefFuncName(fn)) {
		return false
	}
	if recv := fn.Signature.Recv(); recv != nil {
		t := recv.Type()
		if p, ok := t.(*types.Pointer); ok {
			t = p.Elem()
		}
		if n, ok := t.(*types.Named); ok {
			return n.Obj().Exported()
		}
		return false
	}
	return true
}

// locksets computes (once per loaded program) the interprocedural must-lockset.
// Locksets is exported for the debugging subcommand.
func Locksets(p *load.Program) *an.Locksets { return locksets(p) }

func locksets(p *load.Program) *an.Locksets {
	lockMu.Lock()
	defer lockMu.Unlock()
	if l, ok := lockCache[p]; ok {
		return l
	}
	cfg := an.LockConfig{
		InModule: load.InModule,
		IsAPI:    isAPI,
		CHA:      p.CHA(),
		Aliases: map[string]string{
			// (*Conn).waitResponse hands &c.rlock to its caller, ReadBatchWith stores it in the Batch
			"Batch.lock": "Conn.rlock",
			// newBatchQueue stores bq.mutex into bq.cond.L (checked by C07.R1)
			"batchQueue.cond.L": "batchQueue.mutex",
		},
		ReturnsHolding: map[string]string{
			"(*kafka.Conn).waitResponse": "Conn.rlock",
		},
		SyncInvokers: map[string]bool{
			"sort.Slice": true, "sort.SliceStable": true, "sort.Search": true, "(*sync.Once).Do": true,
			"math/rand.Shuffle": true, "(*math/rand.Rand).Shuffle": true, "strings.Map": true, "sort.Sort": true,
			"strings.FieldsFunc": true, "strings.IndexFunc": true,
		},
	}
	l := an.NewLocksets(p.AllFunctions(), cfg)
	lockCache[p] = l
	return l
}

package rules

import (
	_ "embed"
	"encoding/json"
	"fmt"
	"go/token"
	"go/types"
	"os"
	"sort"
	"strings"

	"golang.org/x/tools/go/ssa"

	"kverif/internal/an"
	"kverif/internal/load"
	"kverif/internal/oblig"
)

//go:embed ref/guards.json
var guardsJSON []byte

type guardEntry struct {
	D    string `json:"d"`    // guarded | atomic | immutable | sync | config | confined | selfsync
	Lock string `json:"lock"` // for guarded
	Why  string `json:"why"`
	// Owners: for confined fields, the functions (ShortFunc names) allowed to touch the field
	Owners []string `json:"owners,omitempty"`
}

type guardException struct {
	Field string `json:"field"`
	Func  string `json:"func"`
	Why   string `json:"why"`
}

type guardTable struct {
	Types      []string              `json:"types"` // tracked struct types: "Conn", "protocol.Conn", ...
	Fields     map[string]guardEntry `json:"fields"`
	Exceptions []guardException      `json:"exceptions"`
}

func loadGuards() (*guardTable, error) {
	var g guardTable
	if err := json.Unmarshal(guardsJSON, &g); err != nil {
		return nil, err
	}
	return &g, nil
}

func init() {
	register(&Check{ID: "C10", Run: runC10, Configs: []load.Config{{GOARCH: "386"}, {Tags: "unsafe"}}, Expl: oblig.Explanation{
		Text:        "Interprocedural must-lockset (guarded-by) analysis over the whole module: every field of the types documented as goroutine-safe is assigned one discipline in internal/rules/ref/guards.json (guarded by a named lock, atomic-only, immutable after publication, synchronisation primitive, self-synchronised, confined to an owner set); every access outside constructor context is checked against it: guarded accesses must hold the lock (write mode for writes) on every path, atomic fields are touched only through sync/atomic, immutable/config fields are never written outside constructors, confined fields only by their owners; a mutable field without an entry is a violation; 64-bit atomics must be 8-byte aligned on 386 (thorough tier). Lock identity is (struct type, field), instance-insensitive; function-typed parameters get an invocation-context summary; (*Conn).waitResponse is summarised as returning with Conn.rlock held. Not decided: races through aliases of field addresses (messageSetReader holding &c.rbuf), confusion between two instances of the same type, happens-before through channels other than the listed hand-offs, races inside third-party codecs.",
		Rule:        "one obligation per (field, function, access kind); non-trivial = an access outside constructor context whose lockset was computed",
		Trusted:     []string{"go/ssa, CHA call graph (x/tools v0.29.0)", "discipline table internal/rules/ref/guards.json (each entry confirmed by reading)", "lock aliases Batch.lock ≡ Conn.rlock and the returns-holding summary of waitResponse (checked by C06.R1/R2)"},
		Assumptions: []string{"lockset discipline is sufficient, not necessary, for race freedom; each exception is a named (field, function) pair with a reason", "exported configuration fields are not modified by the application after first use (documented)"},
	}})
}

type fieldAccess struct {
	Field string
	Fn    *ssa.Function
	Kind  an.AccessKind
	Locks an.LockSet
	Pos   string
	Fresh bool
	Ins   ssa.Instruction
}

// collectAccesses lists every FieldAddr access to a field of a tracked struct type in the module.
func collectAccesses(p *load.Program, l *an.Locksets, tracked map[string]bool) []fieldAccess {
	var out []fieldAccess
	for _, fn := range l.Fns {
		if an.IsNew(fn) {
			continue // visited as part of its callers
		}
		an.EachInstr(fn, func(ins ssa.Instruction) {
			fa, ok := ins.(*ssa.FieldAddr)
			if !ok {
				return
			}
			id := an.FieldID(fa.X, fa.Field)
			tn := id[:strings.LastIndex(id, ".")]
			if !tracked[tn] {
				return
			}
			k := an.ClassifyAddr(fa, 0)
			if k == an.AccNone {
				return
			}
			out = append(out, fieldAccess{Field: id, Fn: fn, Kind: k, Locks: l.Before[ins], Pos: p.Pos(fa.Pos()), Fresh: an.FreshBase(fa.X), Ins: ins})
		})
	}
	return out
}

// c10SharedConfig: configuration objects the program hands to a Transport or Dialer (*tls.Config) are shared by every
// connection, opened from many goroutines: the library only writes to a private copy (Clone() or a fresh value).
func c10SharedConfig(p *load.Program, r *oblig.Report) {
	const rule = "C10.R6 shared configuration objects are only written through a private copy"
	isTLSConfig := func(t types.Type) bool {
		pt, ok := t.Underlying().(*types.Pointer)
		return ok && an.NamedIs(pt.Elem(), "crypto/tls", "Config")
	}
	var private func(v ssa.Value, seen map[ssa.Value]bool) bool
	private = func(v ssa.Value, seen map[ssa.Value]bool) bool {
		if seen[v] {
			return true
		}
		seen[v] = true
		switch x := v.(type) {
		case *ssa.Alloc:
			return true
		case *ssa.Call:
			if sc := x.Call.StaticCallee(); sc != nil && an.RefFuncName(sc) == "Clone" {
				return true
			}
			return false
		case *ssa.Phi:
			for _, e := range x.Edges {
				if !private(e, seen) {
					return false
				}
			}
			return true
		}
		return false
	}
	n := 0
	var bad []string
	for _, fn := range p.EveryModuleFunction() {
		for _, b := range fn.Blocks {
			for _, ins := range b.Instrs {
				st, ok := ins.(*ssa.Store)
				if !ok {
					continue
				}
				fa, ok := st.Addr.(*ssa.FieldAddr)
				if !ok || !isTLSConfig(fa.X.Type()) {
					continue
				}
				n++
				if !private(fa.X, map[ssa.Value]bool{}) {
					bad = append(bad, an.ShortFunc(fn)+" writes "+an.FieldName(fa.X.Type(), fa.Field)+" of a *tls.Config it did not copy at "+p.Pos(st.Pos()))
				}
			}
		}
	}
	sort.Strings(bad)
	r.Check(len(bad) == 0, rule, "every write to a *tls.Config goes to a Clone() or a fresh value", "-", fmt.Sprintf("%d writes examined", n), strings.Join(bad, "; "))
	r.RequireCount(rule, n, 1)
}

func runC10(p *load.Program, r *oblig.Report) {
	c10SharedConfig(p, r)
	c10GoroutineResults(p, r)
	c10ClosedBatch(p, r)
	c10StatsOnce(p, r)
	shareRules(r, "C10", "C10.R12 the published partition list is never written again (C13.R7)", func(sub *oblig.Report) { c13Cache(p, sub) })
	// batch.err is not guarded by a lock: it is published by the close of batch.done (store before close, loads after
	// the receive), which is C01.R2
	shareRules(r, "C10", "C10.R7 a batch result is handed over through the close of its done channel", func(sub *oblig.Report) { c01WaitBeforeRead(p, sub) })
	const (
		r1 = "C10.R1 access-discipline"
		r2 = "C10.R2 every-mutable-field-classified"
		r3 = "C10.R3 atomic-alignment"
	)
	g, err := loadGuards()
	if err != nil {
		r.Undecided(r1, "guards.json", "-", err.Error())
		return
	}
	tracked := map[string]bool{}
	for _, t := range g.Types {
		tracked[t] = true
	}
	l := locksets(p)
	r.Analysed["lockset_rounds"] = l.Rounds
	r.Analysed["lockset_functions"] = len(l.Fns)
	accs := collectAccesses(p, l, tracked)
	if os.Getenv("KCHECK_CENSUS") != "" {
		if os.Getenv("KCHECK_CENSUS") == "draft" {
			draftGuards(accs)
		} else {
			census(accs, g)
		}
	}
	exc := map[string]string{}
	for _, e := range g.Exceptions {
		exc[e.Field+"|"+e.Func] = e.Why
	}
	usedExc := map[string]bool{}
	// every tracked type must exist, every table field must exist
	fieldsSeen := map[string]bool{}
	allFields := trackedFields(p, g.Types, r, r2)
	nChecked := 0
	type key struct{ f, fn, kind string }
	agg := map[key]*fieldAccess{}
	verdict := map[key]string{}
	for i := range accs {
		a := &accs[i]
		fieldsSeen[a.Field] = true
		if a.Fresh {
			continue // constructor context: the object is not published yet
		}
		ent, ok := g.Fields[a.Field]
		fname := an.ShortFunc(a.Fn)
		k := key{a.Field, fname, a.Kind.String()}
		if !ok {
			if a.Kind&(an.AccWrite|an.AccUse|an.AccAtomic) != 0 {
				r.Bad(r2, a.Field+" in "+fname, a.Pos, "a discipline entry in guards.json for every field mutated outside constructors", "field is "+a.Kind.String()+" here but is not classified")
			}
			continue
		}
		nChecked++
		bad := ""
		switch ent.D {
		case "guarded":
			needW := a.Kind&(an.AccWrite|an.AccUse|an.AccAtomic) != 0
			if !a.Locks.Holds(ent.Lock, !needW) {
				bad = fmt.Sprintf("%s without %s (held: %s)", a.Kind, ent.Lock, a.Locks)
				// post-hand-off owners (single consumer of the queue) are exempt
				for _, o := range ent.Owners {
					if o == fname || strings.HasPrefix(fname, o+"$") {
						bad = ""
					}
				}
			}
		case "once":
			// written only inside a function literal handed to (*sync.Once).Do
			if a.Kind&(an.AccWrite|an.AccUse) != 0 && !insideOnceDo(a.Fn) {
				bad = fmt.Sprintf("%s outside the sync.Once callback", a.Kind)
			}
		case "atomic":
			if a.Kind&^(an.AccAtomic) != 0 {
				bad = fmt.Sprintf("plain %s of a field that is otherwise accessed atomically", a.Kind)
			}
		case "immutable", "config":
			if a.Kind&(an.AccWrite) != 0 {
				bad = fmt.Sprintf("%s outside constructor context of a field that is immutable after publication", a.Kind)
			}
			if a.Kind&an.AccUse != 0 && !immutableUseOK(a) {
				bad = fmt.Sprintf("address of immutable field escapes or a pointer method is called on it (%s)", a.Kind)
			}
		case "sync", "selfsync":
			// synchronisation primitives and self-synchronised sub-objects: any use is fine, plain overwrite is not
			if a.Kind&an.AccWrite != 0 {
				bad = "overwrite of a synchronisation primitive / self-synchronised object outside constructor context"
			}
		case "confined":
			okOwner := false
			for _, o := range ent.Owners {
				if o == fname || strings.HasPrefix(fname, o+"$") {
					okOwner = true
				}
			}
			if !okOwner {
				bad = fmt.Sprintf("%s by a function outside the owner set %v", a.Kind, ent.Owners)
			}
		default:
			bad = "unknown discipline " + ent.D
		}
		if bad != "" {
			if why, ok := exc[a.Field+"|"+fname]; ok {
				usedExc[a.Field+"|"+fname] = true
				verdict[k] = "exception: " + why
				if _, ok := agg[k]; !ok {
					agg[k] = a
				}
				continue
			}
			agg[k] = a
			verdict[k] = "BAD:" + bad
			continue
		}
		if _, ok := agg[k]; !ok {
			agg[k] = a
			verdict[k] = "ok"
		}
	}
	var keys []key
	for k := range agg {
		keys = append(keys, k)
	}
	sort.Slice(keys, func(i, j int) bool {
		if keys[i].f != keys[j].f {
			return keys[i].f < keys[j].f
		}
		if keys[i].fn != keys[j].fn {
			return keys[i].fn < keys[j].fn
		}
		return keys[i].kind < keys[j].kind
	})
	for _, k := range keys {
		a := agg[k]
		ent := g.Fields[k.f]
		construct := fmt.Sprintf("%s %s in %s", k.f, k.kind, k.fn)
		disc := ent.D
		if ent.Lock != "" {
			disc += "(" + ent.Lock + ")"
		}
		v := verdict[k]
		switch {
		case strings.HasPrefix(v, "BAD:"):
			r.Bad(r1, construct, a.Pos, "discipline "+disc+": "+ent.Why, strings.TrimPrefix(v, "BAD:"), "lockset at access: "+a.Locks.String())
		case strings.HasPrefix(v, "exception"):
			r.OK(r1, construct, a.Pos, "discipline "+disc, v)
		default:
			r.OK(r1, construct, a.Pos, "discipline "+disc, "lockset at access: "+a.Locks.String())
		}
	}
	r.RequireCount(r1, nChecked, 400)
	// unused exceptions are stale: report as notes
	for _, e := range g.Exceptions {
		if !usedExc[e.Field+"|"+e.Func] {
			r.NoteF("exception %s in %s is no longer needed", e.Field, e.Func)
		}
	}
	// R2: every field of a tracked type that is written outside constructors has an entry (done above for
	// accessed fields); table entries must name existing fields
	for f := range g.Fields {
		if !allFields[f] {
			r.Bad(r2, "table entry "+f, "-", "guards.json names an existing field", "no such field in the current tree (renamed or removed): the table must be updated")
		}
	}
	for f := range allFields {
		if _, ok := g.Fields[f]; !ok && fieldsSeen[f] {
			// reported above when mutated; unclassified read-only fields are implicitly immutable
			r.OK(r2, f+" (unclassified, never mutated outside constructors)", "-")
		}
	}
	c10Alignment(p, r, r3, g)
	c10ExceptionPreconditions(p, r)
	// pooled codec objects: a double Put hands one object to two goroutines (shared with C16.R3)
	c16ReleaseAs(p, r, "C10.R5 a pooled codec object has one owner at a time")
}

// c10ExceptionPreconditions checks the code facts the reviewed exceptions rely on.
func c10ExceptionPreconditions(p *load.Program, r *oblig.Report) {
	const rule = "C10.R4 preconditions of the reviewed exceptions"
	// Reader.Close reads r.cancel outside the mutex: sound only because every write of Reader.cancel outside
	// the constructor happens with the mutex held in a critical section that saw closed == false.
	l := locksets(p)
	n := 0
	for _, fn := range p.ModuleFunctions() {
		if strings.HasPrefix(an.RefFuncName(fn), "NewReader") {
			continue
		}
		an.EachInstr(fn, func(ins ssa.Instruction) {
			st, ok := fieldStoreIs(ins, "Reader", "cancel")
			if !ok {
				return
			}
			n++
			sawOpen := false
			for _, c := range selConds(st) {
				if clean(c) == "¬r.closed" {
					sawOpen = true
				}
			}
			held := l.Before[st].Holds("Reader.mutex", true)
			// the test and the store are in one critical section: no unlock of the mutex between them is
			// possible when the lock is held at both and the function does not unlock (checked by the lockset
			// being held on entry: the callers lock)
			r.Check(sawOpen && held, rule, "Reader.cancel is replaced only under Reader.mutex after closed was seen false ("+load.FuncName(fn)+")", p.Pos(st.Pos()),
				"if r.closed { return } … r.cancel = cancel with Reader.mutex held", fmt.Sprintf("closedTestedFalse=%v mutexHeld=%v", sawOpen, held))
		})
	}
	r.RequireCount(rule, n, 1)
}

// immutableUseOK: calling a method on / passing the address of an immutable field is fine when the
// field's type is a pointer, interface, map, chan, func or string header that is only read.
func immutableUseOK(a *fieldAccess) bool {
	fa := a.Ins.(*ssa.FieldAddr)
	ft := fa.Type().(*types.Pointer).Elem()
	switch ft.Underlying().(type) {
	case *types.Struct, *types.Array:
		return false
	}
	// the field address itself is passed (e.g. &x.f to a function): conservative
	return false
}

// insideOnceDo reports whether fn is a function literal passed to (*sync.Once).Do by its parent.
func insideOnceDo(fn *ssa.Function) bool {
	return handedOnlyTo(fn, func(f *ssa.Function) bool { return an.ShortFunc(f) == "(*sync.Once).Do" })
}

// handedOnlyTo reports whether fn is a function literal its parent passes to a callee accepted by match, or a method
// handed to such a callee as a method value (once.Do(w.init)) and called from nowhere else.
func handedOnlyTo(fn *ssa.Function, match func(*ssa.Function) bool) bool {
	if par := fn.Parent(); par != nil {
		found := false
		an.EachInstr(par, func(ins ssa.Instruction) {
			c, ok := ins.(*ssa.Call)
			if !ok {
				return
			}
			f := c.Call.StaticCallee()
			if f == nil || !match(f) {
				return
			}
			for _, a := range c.Call.Args {
				if mc, ok := a.(*ssa.MakeClosure); ok && mc.Fn == ssa.Value(fn) {
					found = true
				}
			}
		})
		return found
	}
	if fn.Signature.Recv() == nil || fn.Prog == nil {
		return false
	}
	uses, direct := len(handedScan(fn, match)), 0
	for _, site := range an.SitesOf(fn) {
		if par := site.Parent(); par != nil && an.Unbound(par) == par {
			direct++
		}
	}
	return uses > 0 && direct == 0
}

// handedScan lists the calls of fn's package, to a callee accepted by match, that are handed the method value of fn.
func handedScan(fn *ssa.Function, match func(*ssa.Function) bool) map[*ssa.Call]bool {
	out := map[*ssa.Call]bool{}
	if fn.Pkg == nil {
		return out
	}
	for _, m := range fn.Pkg.Members {
		visitFns(m, func(f *ssa.Function) {
			for _, b := range f.Blocks {
				for _, ins := range b.Instrs {
					c, ok := ins.(*ssa.Call)
					if !ok || c.Call.StaticCallee() == nil || !match(c.Call.StaticCallee()) {
						continue
					}
					for _, a := range c.Call.Args {
						if mc, isMC := a.(*ssa.MakeClosure); isMC {
							if w, isF := mc.Fn.(*ssa.Function); isF && an.Unbound(w) == fn && w != fn {
								out[c] = true
							}
						}
					}
				}
			}
		})
	}
	return out
}

func visitFns(m ssa.Member, f func(*ssa.Function)) {
	var walk func(fn *ssa.Function)
	walk = func(fn *ssa.Function) {
		f(fn)
		for _, a := range fn.AnonFuncs {
			walk(a)
		}
	}
	switch x := m.(type) {
	case *ssa.Function:
		walk(x)
	case *ssa.Type:
		for _, t := range []types.Type{x.Type(), types.NewPointer(x.Type())} {
			ms := x.Package().Prog.MethodSets.MethodSet(t)
			for i := 0; i < ms.Len(); i++ {
				if mf := x.Package().Prog.MethodValue(ms.At(i)); mf != nil && mf.Pkg == x.Package() {
					walk(mf)
				}
			}
		}
	}
}

func trackedFields(p *load.Program, typesList []string, r *oblig.Report, rule string) map[string]bool {
	out := map[string]bool{}
	for _, t := range typesList {
		rel, name := "", t
		if i := strings.LastIndex(t, "."); i >= 0 {
			rel, name = t[:i], t[i+1:]
		}
		pk := p.Pkg(rel)
		if pk == nil {
			r.Lost(rule, "package of type "+t)
			continue
		}
		o := pk.Types.Scope().Lookup(name)
		if o == nil {
			r.Lost(rule, "type "+t)
			continue
		}
		st, ok := o.Type().Underlying().(*types.Struct)
		if !ok {
			continue
		}
		for i := 0; i < st.NumFields(); i++ {
			out[t+"."+st.Field(i).Name()] = true
		}
	}
	return out
}

func c10Alignment(p *load.Program, r *oblig.Report, rule string, g *guardTable) {
	// 64-bit fields accessed through sync/atomic functions must sit at an 8-byte aligned offset; on
	// 386 only the first word of an allocated struct is guaranteed, so the offset must be 0 mod 8
	// computed with the configuration's own sizes.
	n := 0
	for f, ent := range g.Fields {
		if ent.D != "atomic" {
			continue
		}
		i := strings.LastIndex(f, ".")
		tn, fn := f[:i], f[i+1:]
		rel, name := "", tn
		if j := strings.LastIndex(tn, "."); j >= 0 {
			rel, name = tn[:j], tn[j+1:]
		}
		pk := p.Pkg(rel)
		if pk == nil {
			continue
		}
		o := pk.Types.Scope().Lookup(name)
		if o == nil {
			continue
		}
		st, ok := o.Type().Underlying().(*types.Struct)
		if !ok {
			continue
		}
		var fields []*types.Var
		idx := -1
		for k := 0; k < st.NumFields(); k++ {
			fields = append(fields, st.Field(k))
			if st.Field(k).Name() == fn {
				idx = k
			}
		}
		if idx < 0 {
			continue
		}
		b, ok := st.Field(idx).Type().Underlying().(*types.Basic)
		if !ok || (b.Kind() != types.Int64 && b.Kind() != types.Uint64) {
			continue
		}
		n++
		offs := pk.TypesSizes.Offsetsof(fields)
		r.Check(offs[idx]%8 == 0, rule, f+" (64-bit atomic)", p.Pos(st.Field(idx).Pos()), "offset ≡ 0 mod 8 in this build configuration", fmt.Sprintf("offset %d", offs[idx]), fmt.Sprintf("offset %d", offs[idx]))
	}
	r.Analysed["atomic64_fields"] = n
}

func census(accs []fieldAccess, g *guardTable) {
	type row struct {
		n     int
		locks map[string]int
		kinds map[string]int
		fns   map[string]bool
	}
	m := map[string]*row{}
	for _, a := range accs {
		if a.Fresh {
			continue
		}
		rw := m[a.Field]
		if rw == nil {
			rw = &row{locks: map[string]int{}, kinds: map[string]int{}, fns: map[string]bool{}}
			m[a.Field] = rw
		}
		rw.n++
		rw.locks[a.Locks.String()]++
		rw.kinds[a.Kind.String()]++
		rw.fns[an.ShortFunc(a.Fn)+"["+a.Kind.String()+"]"+a.Locks.String()] = true
	}
	var fs []string
	for f := range m {
		fs = append(fs, f)
	}
	sort.Strings(fs)
	for _, f := range fs {
		rw := m[f]
		ent := g.Fields[f]
		fmt.Fprintf(os.Stderr, "%-40s n=%-3d kinds=%v locks=%v  [%s %s]\n", f, rw.n, rw.kinds, rw.locks, ent.D, ent.Lock)
		if os.Getenv("KCHECK_CENSUS") == "2" {
			var xs []string
			for x := range rw.fns {
				xs = append(xs, x)
			}
			sort.Strings(xs)
			for _, x := range xs {
				fmt.Fprintf(os.Stderr, "        %s\n", x)
			}
		}
	}
}

// draftGuards prints a first-cut discipline table from the census (development aid; the committed
// table is reviewed by hand).
func draftGuards(accs []fieldAccess) {
	type row struct {
		kinds an.AccessKind
		inter an.LockSet
		n     int
	}
	m := map[string]*row{}
	for _, a := range accs {
		if a.Fresh {
			continue
		}
		rw := m[a.Field]
		if rw == nil {
			rw = &row{}
			m[a.Field] = rw
		}
		rw.n++
		rw.kinds |= a.Kind
		if rw.inter == nil {
			rw.inter = an.LockSet{}
			for k := range a.Locks {
				rw.inter[k] = true
			}
		} else {
			for k := range rw.inter {
				if !a.Locks[k] && !a.Locks["R:"+k] {
					delete(rw.inter, k)
				}
			}
		}
	}
	var fs []string
	for f := range m {
		fs = append(fs, f)
	}
	sort.Strings(fs)
	for _, f := range fs {
		rw := m[f]
		d, lock := "?", ""
		switch {
		case rw.kinds == an.AccLockOp:
			d = "sync"
		case rw.kinds == an.AccAtomic:
			d = "atomic"
		case rw.kinds == an.AccRead:
			d = "immutable"
		case rw.kinds&(an.AccWrite|an.AccUse) != 0 && len(rw.inter) > 0:
			d = "guarded"
			var ks []string
			for k := range rw.inter {
				ks = append(ks, strings.TrimPrefix(k, "R:"))
			}
			sort.Strings(ks)
			lock = ks[0]
			// prefer the lock of the same type
			tn := f[:strings.LastIndex(f, ".")]
			for _, k := range ks {
				if strings.HasPrefix(k, tn+".") {
					lock = k
				}
			}
		case rw.kinds == an.AccUse:
			d = "selfsync"
		}
		if lock != "" {
			fmt.Fprintf(os.Stderr, "  %q: {\"d\":%q,\"lock\":%q,\"why\":\"\"},\n", f, d, lock)
		} else {
			fmt.Fprintf(os.Stderr, "  %q: {\"d\":%q,\"why\":\"\"},\n", f, d)
		}
	}
}

// c10GoroutineResults: a function that starts a goroutine and does not wait for it must not share its own named
// results with it: the function writes them when it returns (and on its other paths) while the goroutine may still
// be running. Results travel through channels.
func c10GoroutineResults(p *load.Program, r *oblig.Report) {
	const rule = "C10.R8 goroutines do not write their starter's results"
	n := 0
	var bad []string
	for _, fn := range p.EveryModuleFunction() {
		if !strings.HasPrefix(fn.Pkg.Pkg.Path(), load.ModPath) {
			continue
		}
		named := map[string]bool{}
		res := fn.Signature.Results()
		for i := 0; i < res.Len(); i++ {
			if res.At(i).Name() != "" && res.At(i).Name() != "_" {
				named[res.At(i).Name()] = true
			}
		}
		for _, b := range fn.Blocks {
			for _, ins := range b.Instrs {
				g, ok := ins.(*ssa.Go)
				if !ok {
					continue
				}
				mc, isMC := g.Call.Value.(*ssa.MakeClosure)
				if !isMC {
					continue
				}
				n++
				body := mc.Fn.(*ssa.Function)
				for i, bnd := range mc.Bindings {
					al, isAl := bnd.(*ssa.Alloc)
					if !isAl || !named[al.Comment] {
						continue
					}
					fv := body.FreeVars[i]
					an.EachInstrDeep(body, func(_ *ssa.Function, i2 ssa.Instruction) {
						if st, isSt := i2.(*ssa.Store); isSt && st.Addr == ssa.Value(fv) {
							bad = append(bad, an.ShortFunc(fn)+": the goroutine started at "+p.Pos(g.Pos())+" writes the result "+al.Comment+" at "+p.Pos(st.Pos()))
						}
					})
				}
			}
		}
	}
	sort.Strings(bad)
	r.Check(len(bad) == 0, rule, "no goroutine body stores into a named result of the function that started it", "-", fmt.Sprintf("%d go statements with a closure examined", n), strings.Join(bad, "; "))
	r.RequireCount(rule, n, 5)
	// a *rand.Rand made with rand.New is not safe for concurrent use: it is never kept in a package-level variable
	// (every pool goroutine has its own)
	var globals []string
	for _, pkg := range p.Prog.AllPackages() {
		if pkg.Pkg == nil || !strings.HasPrefix(pkg.Pkg.Path(), load.ModPath) {
			continue
		}
		for _, m := range pkg.Members {
			if gl, ok := m.(*ssa.Global); ok {
				if pt, isP := deref(gl.Type()).Underlying().(*types.Pointer); isP && an.NamedIs(pt.Elem(), "math/rand", "Rand") {
					globals = append(globals, pkg.Pkg.Path()+"."+gl.Name())
				}
			}
		}
	}
	sort.Strings(globals)
	r.Check(len(globals) == 0, "C10.R9 no shared pseudo-random source", "no package-level *math/rand.Rand", "-", "rand.New(...) results stay local to one goroutine", strings.Join(globals, ", "))
}

// c10ClosedBatch: Batch.close hands the connection's read lock back. The message set reader of the batch still points
// at the connection's buffer, so a later (or concurrent) ReadMessage on the closed batch must not get as far as the
// reader: close leaves the batch with a non-nil sticky error on every path (readMessage returns it first).
func c10ClosedBatch(p *load.Program, r *oblig.Report) {
	const rule = "C10.R10 a closed Batch no longer touches the connection"
	cl := p.Func("", "(*Batch).close")
	rm := p.Func("", "(*Batch).readMessage")
	if cl == nil || rm == nil {
		r.Lost(rule, "kafka.(*Batch).close / readMessage")
		return
	}
	// readMessage returns batch.err first when it is set
	first := false
	if len(rm.Blocks) > 0 {
		_, ci := an.IfCond(rm.Blocks[0])
		first = ci != nil && ci.Edge(token.NEQ) >= 0 && an.IsNilConst(ci.Y) && strings.HasSuffix(clean(an.Shape(ci.X)), ".err")
	}
	r.Check(first, rule, "kafka.(*Batch).readMessage returns the batch's sticky error before it reads anything", p.Pos(rm.Pos()), "if err = batch.err; err != nil { return }", "not the first thing it does")
	edge := func(from *ssa.BasicBlock, si int) bool {
		_, ci := an.IfCond(from)
		if e := ci.Edge(token.NEQ); e >= 0 && an.IsNilConst(ci.Y) && isLoadOfField(ci.X, "Batch", "err") {
			return si != e // the error is already set on that edge
		}
		return true
	}
	ok, bad := an.MustPass(cl, an.EntryPoint(cl), func(i ssa.Instruction) bool {
		st, isSt := fieldStoreIs(i, "Batch", "err")
		return isSt && !an.IsNilConst(st.Val)
	}, edge)
	where := ""
	if bad != nil {
		where = "the exit at " + p.Pos(bad.Pos()) + " leaves batch.err nil: ReadMessage on the closed batch would go on to read from the connection's buffer without its lock"
	}
	r.Check(ok, rule, "kafka.(*Batch).close leaves a sticky error behind on every path", p.Pos(cl.Pos()), "if batch.err == nil { batch.err = io.EOF }", where)
}

package rules

import (
	"fmt"
	"go/ast"
	"go/types"
	"sort"
	"strings"
	"sync"

	"golang.org/x/tools/go/ssa"

	"kverif/internal/an"
	"kverif/internal/load"
	"kverif/internal/oblig"
)

func newByteInterp(p *load.Program) *an.ByteInterp {
	pk := p.Pkg("")
	return &an.ByteInterp{
		Info:       pk.TypesInfo,
		Decl:       func(f *types.Func) *ast.FuncDecl { return p.Decl(f) },
		Assume:     map[string]bool{},
		Opaque:     map[string]bool{"Flush": true},
		VarWriters: map[string]bool{"writeVarInt": true},
		VarLenFns:  map[string]bool{"varIntLen": true},
	}
}

// canonParam names a parameter of a declared function by the name it had when the tables were reviewed.
func canonParam(p *load.Program, prm *types.Var) string {
	// find the function that declares the parameter: its ssa form carries the canonical names
	if fn := declaringFunc(p, prm); fn != nil {
		for _, sp := range fn.Params {
			if sp.Object() == prm {
				return an.ParamName(sp)
			}
		}
	}
	return prm.Name()
}

var (
	declMu    sync.Mutex
	declCache = map[*load.Program]map[*types.Var]*ssa.Function{}
)

func declaringFunc(p *load.Program, prm *types.Var) *ssa.Function {
	declMu.Lock()
	defer declMu.Unlock()
	m := declCache[p]
	if m == nil {
		m = map[*types.Var]*ssa.Function{}
		for fn := range p.AllFunctions() {
			if !load.InModule(fn) {
				continue
			}
			for _, sp := range fn.Params {
				if v, ok := sp.Object().(*types.Var); ok {
					m[v] = fn
				}
			}
		}
		declCache = map[*load.Program]map[*types.Var]*ssa.Function{p: m}
	}
	return m[prm]
}

// linDiff lists the terms that differ between two linear forms.
func linDiff(want, got an.Lin) string {
	var out []string
	keys := map[string]bool{}
	for k := range want {
		keys[k] = true
	}
	for k := range got {
		keys[k] = true
	}
	var ks []string
	for k := range keys {
		ks = append(ks, k)
	}
	sort.Strings(ks)
	for _, k := range ks {
		if want[k] != got[k] {
			name := k
			if name == "" {
				name = "<constant>"
			}
			out = append(out, fmt.Sprintf("%s: bytes written %d× vs size %d×", oblig.Short(name, 300), want[k], got[k]))
		}
	}
	return strings.Join(out, " ;; ")
}

func newBState() *an.BState {
	return &an.BState{Heap: map[string]*an.SV{}, Sinks: map[string][]an.WEvent{}}
}

func rootMethod(p *load.Program, n *types.Named, name string) *types.Func {
	for _, t := range []types.Type{n, types.NewPointer(n)} {
		ms := types.NewMethodSet(t)
		for i := 0; i < ms.Len(); i++ {
			if ms.At(i).Obj().Name() == name {
				f, _ := ms.At(i).Obj().(*types.Func)
				return f
			}
		}
	}
	return nil
}

// legacyRequestTypes returns the concrete types passed to (*Conn).writeRequest and everything nested in them.
func legacyRequestTypes(p *load.Program) (map[*types.Named]bool, int) {
	out := map[*types.Named]bool{}
	wr := p.Func("", "(*Conn).writeRequest")
	sites := 0
	if wr == nil {
		return out, 0
	}
	var add func(t types.Type)
	add = func(t types.Type) {
		if ptr, ok := t.(*types.Pointer); ok {
			t = ptr.Elem()
		}
		n, ok := t.(*types.Named)
		if !ok || n.Obj().Pkg() == nil || n.Obj().Pkg().Path() != load.ModPath {
			if sl, ok := t.Underlying().(*types.Slice); ok {
				add(sl.Elem())
			}
			return
		}
		if out[n] {
			return
		}
		if rootMethod(p, n, "size") == nil {
			return
		}
		out[n] = true
		switch u := n.Underlying().(type) {
		case *types.Struct:
			for i := 0; i < u.NumFields(); i++ {
				add(u.Field(i).Type())
			}
		case *types.Slice:
			add(u.Elem())
		}
	}
	for _, fn := range p.ModuleFunctions() {
		an.EachInstr(fn, func(ins ssa.Instruction) {
			c, ok := ins.(*ssa.Call)
			if !ok || !an.StaticCalleeIs(&c.Call, wr) {
				return
			}
			sites++
			add(an.Unwrap(c.Call.Args[4]).Type())
		})
	}
	return out, sites
}

func c04Legacy(p *load.Program, r *oblig.Report) {
	const rule = "C04.R3 legacy size() ≡ bytes of writeTo()"
	pk := p.Pkg("")
	if pk == nil {
		r.Lost(rule, "root package")
		return
	}
	reqTypes, sites := legacyRequestTypes(p)
	r.RequireCount(rule+" (writeRequest call sites)", sites, 16)
	// every named type of the root package with size() and writeTo()
	var names []string
	scope := pk.Types.Scope()
	for _, nm := range scope.Names() {
		if tn, ok := scope.Lookup(nm).(*types.TypeName); ok {
			if n, ok := tn.Type().(*types.Named); ok && rootMethod(p, n, "size") != nil && rootMethod(p, n, "writeTo") != nil {
				names = append(names, nm)
			}
		}
	}
	sort.Strings(names)
	nReq := 0
	for _, nm := range names {
		n := scope.Lookup(nm).Type().(*types.Named)
		sz, wt := rootMethod(p, n, "size"), rootMethod(p, n, "writeTo")
		bi := newByteInterp(p)
		recv := &an.SV{K: 'r', Path: "$r", T: n}
		st1 := newBState()
		res := bi.CallFunc(sz, recv, nil, st1)
		st2 := newBState()
		wb := &an.SV{K: 'r', Path: "$wb", T: wt.Type().(*types.Signature).Params().At(0).Type()}
		bi.CallFunc(wt, recv, []*an.SV{wb}, st2)
		total := st2.Total("$wb.w")
		pos := p.Pos(sz.Pos())
		construct := "kafka." + nm
		if len(bi.Errs) > 0 || res == nil || res.K != 'n' {
			msg := strings.Join(bi.Errs, "; ")
			if res != nil && res.K != 'n' {
				msg += " size() result is not numeric: " + res.Canon()
			}
			if reqTypes[n] {
				r.Undecided(rule, construct, pos, msg)
			} else {
				r.NoteF("%s (response-side, never sized by the library): not evaluated: %s", construct, msg)
			}
			continue
		}
		eq := an.LinEqual(res.L, total)
		if reqTypes[n] {
			nReq++
			r.Check(eq, rule, construct, pos, "size() = "+oblig.Short(total.String(), 600)+" (bytes written by writeTo)", "differs in: "+linDiff(total, res.L), "bytes: "+oblig.Short(total.String(), 600))
		} else if !eq {
			r.NoteF("%s (response-side type, never sized by the library): size()=%s but writeTo() writes %s", construct, res.L.String(), total.String())
		}
	}
	r.RequireCount(rule, nReq, 20)
	c04WriteRequest(p, r)
	c04RequestWriters(p, r)
}

// c04WriteRequest: hdr.Size = hdr.size() + req.size() - 4, header written before the body.
func c04WriteRequest(p *load.Program, r *oblig.Report) {
	const rule = "C04.R3 frame size of (*Conn).writeRequest"
	wr := p.Func("", "(*Conn).writeRequest")
	if wr == nil {
		r.Lost(rule, "kafka.(*Conn).writeRequest")
		return
	}
	fobj := wr.Object().(*types.Func)
	bi := newByteInterp(p)
	st := newBState()
	sig := fobj.Type().(*types.Signature)
	args := []*an.SV{}
	for i := 0; i < sig.Params().Len(); i++ {
		prm := sig.Params().At(i)
		if b, ok := prm.Type().Underlying().(*types.Basic); ok && b.Info()&types.IsNumeric != 0 {
			args = append(args, &an.SV{K: 'n', L: an.AtomLin("$p:" + canonParam(p, prm))})
		} else {
			args = append(args, &an.SV{K: 'r', Path: "$p:" + canonParam(p, prm), T: prm.Type()})
		}
	}
	bi.CallFunc(fobj, &an.SV{K: 'r', Path: "$c", T: sig.Recv().Type()}, args, st)
	pos := p.Pos(wr.Pos())
	ev := st.Sinks["$c.wb.w"]
	if len(bi.Errs) > 0 || len(ev) == 0 || ev[0].Val == nil || ev[0].Val.K != 'n' {
		r.Undecided(rule, "kafka.(*Conn).writeRequest", pos, fmt.Sprintf("could not evaluate: %v (events %d)", bi.Errs, len(ev)))
		return
	}
	total := st.Total("$c.wb.w")
	want := total.Clone()
	want.AddLin(an.ConstLin(4), -1)
	reqName := sig.Params().At(sig.Params().Len() - 1).Name()
	want.AddLin(an.AtomLin("call:size($p:"+reqName+")"), 1)
	r.Check(an.LinEqual(ev[0].Val.L, want), rule, "kafka.(*Conn).writeRequest", pos,
		"Size field = header bytes after the size field + req.size() = "+want.String(), "Size field = "+ev[0].Val.L.String(),
		fmt.Sprintf("header events: %d, header bytes %s", len(ev), total.String()))
}

// c04RequestWriters: for every function that builds a requestHeader literal and writes it, the Size
// field equals the number of bytes written after it.
func c04RequestWriters(p *load.Program, r *oblig.Report) {
	const rule = "C04.R3 h.Size ≡ bytes written after the size field"
	pk := p.Pkg("")
	hdrT := pk.Types.Scope().Lookup("requestHeader")
	if hdrT == nil {
		r.Lost(rule, "kafka.requestHeader")
		return
	}
	n := 0
	for _, f := range pk.Syntax {
		for _, d := range f.Decls {
			fd, ok := d.(*ast.FuncDecl)
			if !ok || fd.Body == nil || fd.Recv == nil {
				continue
			}
			fobj, _ := pk.TypesInfo.Defs[fd.Name].(*types.Func)
			if fobj == nil {
				continue
			}
			// methods of *writeBuffer that contain a requestHeader composite literal
			rt := fobj.Type().(*types.Signature).Recv().Type()
			if !an.NamedIs(rt, load.ModPath, "writeBuffer") {
				continue
			}
			has := false
			ast.Inspect(fd.Body, func(nd ast.Node) bool {
				if cl, ok := nd.(*ast.CompositeLit); ok && types.Identical(pk.TypesInfo.TypeOf(cl), hdrT.Type()) {
					has = true
				}
				return true
			})
			if !has {
				continue
			}
			n++
			c04OneWriter(p, r, rule, fobj, fd)
		}
	}
	// ApiVersions builds its header inside a closure of (*Conn).ApiVersions
	r.RequireCount(rule, n, 7)
}

func c04OneWriter(p *load.Program, r *oblig.Report, rule string, fobj *types.Func, fd *ast.FuncDecl) {
	bi := newByteInterp(p)
	// uncompressed paths only (the compressed ones size an opaque buffer: not decided)
	bi.Assume["$p:codec==nil"] = true
	bi.Assume["$p:recordBatch.compressed!=nil"] = false
	st := newBState()
	sig := fobj.Type().(*types.Signature)
	var args []*an.SV
	for i := 0; i < sig.Params().Len(); i++ {
		prm := sig.Params().At(i)
		if b, ok := prm.Type().Underlying().(*types.Basic); ok && b.Info()&types.IsNumeric != 0 {
			args = append(args, &an.SV{K: 'n', L: an.AtomLin("$p:" + canonParam(p, prm))})
		} else {
			args = append(args, &an.SV{K: 'r', Path: "$p:" + canonParam(p, prm), T: prm.Type()})
		}
		// a record batch parameter carries size = recordBatchSize(msgs...) (established by newRecordBatch, checked by C05.R2)
		if an.NamedIs(prm.Type(), load.ModPath, "recordBatch") {
			if rbs, ok := p.Pkg("").Types.Scope().Lookup("recordBatchSize").(*types.Func); ok {
				bi2 := newByteInterp(p)
				sz := bi2.CallFunc(rbs, nil, []*an.SV{{K: 'r', Path: "$p:" + canonParam(p, prm) + ".msgs", T: types.NewSlice(p.Pkg("").Types.Scope().Lookup("Message").Type())}}, newBState())
				if sz != nil && sz.K == 'n' && len(bi2.Errs) == 0 {
					st.Heap["$p:"+canonParam(p, prm)+".size"] = sz
				}
			}
		}
	}
	bi.CallFunc(fobj, &an.SV{K: 'r', Path: "$wb", T: sig.Recv().Type()}, args, st)
	construct := "kafka.(*writeBuffer)." + fobj.Name()
	pos := p.Pos(fobj.Pos())
	ev := st.Sinks["$wb.w"]
	if len(bi.Errs) > 0 || len(ev) == 0 || ev[0].Val == nil || ev[0].Val.K != 'n' {
		r.Undecided(rule, construct, pos, fmt.Sprintf("could not evaluate: %v (events %d)", bi.Errs, len(ev)))
		return
	}
	total := st.Total("$wb.w")
	want := total.Clone()
	want.AddLin(an.ConstLin(4), -1)
	r.Check(an.LinEqual(ev[0].Val.L, want), rule, construct, pos, "h.Size = "+oblig.Short(want.String(), 600), "differs in: "+linDiff(want, ev[0].Val.L),
		fmt.Sprintf("%d write events; total bytes %s", len(ev), oblig.Short(total.String(), 600)))
}

package rules

import (
	"kverif/internal/load"
	"kverif/internal/oblig"
)

func c04Legacy(p *load.Program, r *oblig.Report)     {}
func c04Framing(p *load.Program, r *oblig.Report)    {}
func c04Primitives(p *load.Program, r *oblig.Report) {}

package rules

import (
	"fmt"
	"go/token"
	"go/types"
	"sort"
	"strings"

	"golang.org/x/tools/go/ssa"

	"kverif/internal/an"
	"kverif/internal/load"
	"kverif/internal/oblig"
)

func init() {
	register(&Check{ID: "C14", Run: runC14, Expl: oblig.Explanation{
		Text:        "Static group-balancer check. The arithmetic facts the property rests on are mathematical and independent of the code: for 0 <= i < p and m >= 1 the selector i % m == k picks exactly one k in 0..m-1 and class sizes differ by at most one; the half-open intervals [k*p/m, (k+1)*p/m) for k = 0..m-1 tile [0,p) and their lengths differ by at most one. What can differ per code revision, and what is decided here, is that the code instantiates those selectors with the right quantities. (R1) findMembersByTopic inserts each member under each of its topics and sorts every per-topic list with a strict comparison of the unique member ID, unconditionally, before returning; Range and RoundRobin iterate exactly its result (order independence). (R2) in Range and RoundRobin every write into the result goes to result[member.ID][topic] with member ranging over that topic's sorted members, topic the map key, and the value appended being the element at the current position of findPartitions(topic, topicPartitions); findPartitions returns the IDs of exactly the partitions whose Topic equals its argument. (R3) the append is guarded by exactly the reference selector: RoundRobin position % len(topic members) == member position; Range position >= k*p/m and position < (k+1)*p/m with k the member position, p = len(that topic's partitions), m = len(that topic's members) (commutative operands and comparison orientation are normalised). (R4) the leader applies the balancer findGroupBalancer selected for the negotiated protocol name to the members decoded from the join response and to the partitions of exactly their topics. (R5) RackAffinity: per-topic inputs are grouped by the same topic key; every partition id written into any list originates from partitions[].ID and every member key from members[].ID; target and remainder are len(partitions)/len(members) and %; the final pass hands a remainder slot only to a member that is not already above target. Not decided: RackAffinity's exactly-once, evenness and rack-locality bound in general (they depend on the interplay of slice arithmetic over a map iteration order — a numerical argument outside this analysis); behaviour for m = 0.",
		Rule:        "one obligation per structural fact; expected and found expression shapes are printed",
		Trusted:     []string{"go/ssa", "expression shapes (internal/an/shape.go)", "value provenance (internal/an/flow.go)", "the two arithmetic facts stated above"},
		Assumptions: []string{"member IDs are unique within a group (broker-assigned)"},
	}})
}

func runC14(p *load.Program, r *oblig.Report) {
	c14Members(p, r)
	c14Partitions(p, r)
	for _, name := range []string{"(RangeGroupBalancer).AssignGroups", "(RoundRobinGroupBalancer).AssignGroups"} {
		c14Nest(p, r, name)
	}
	c14Leader(p, r)
	c14Rack(p, r)
	c14OwnStorage(p, r)
	c14RawRackKeys(p, r)
	c13NoAppendAfterSizedMake(p, r, "C14.R11 partition lists hold the listed partitions and nothing else", "groupbalancer.go")
}

func clean(s string) string { return strings.ReplaceAll(s, "@", "") }

// c14Members: findMembersByTopic groups by topic and sorts every list by ID.
func c14Members(p *load.Program, r *oblig.Report) {
	const rule = "C14.R1 per-topic member lists are complete and sorted by member ID"
	fn := p.Func("", "findMembersByTopic")
	if fn == nil {
		r.Lost(rule, "kafka.findMembersByTopic")
		return
	}
	// grouping: result[t] = append(result[t], member) for t over member.Topics, member over the parameter
	okGroup := false
	var resultMap ssa.Value
	an.EachInstr(fn, func(ins ssa.Instruction) {
		mu, ok := ins.(*ssa.MapUpdate)
		if !ok {
			return
		}
		k, v := clean(an.ShapeCanon(mu.Key)), clean(an.ShapeCanon(mu.Value))
		m := clean(an.ShapeCanon(mu.Map))
		wantK := "members[idx(members)].Topics[idx(members[idx(members)].Topics)]"
		wantV := "append(" + m + "[" + wantK + "],new([1]GroupMember)[:])"
		if k == wantK && strings.HasPrefix(v, "append("+m+"["+wantK+"],") && len(guardOf(mu)) > 0 {
			okGroup = true
			resultMap = mu.Map
		}
		_ = wantV
	})
	// the appended element is the member itself
	okElem := false
	an.EachInstr(fn, func(ins ssa.Instruction) {
		st, ok := ins.(*ssa.Store)
		if !ok {
			return
		}
		if ia, isIA := st.Addr.(*ssa.IndexAddr); isIA {
			if al, isAl := ia.X.(*ssa.Alloc); isAl && al.Comment == "varargs" || isAl && strings.Contains(al.Type().String(), "[1]") {
				os := an.Origins(st.Val, an.FlowOpts{})
				okElem = allOrigins(os, func(o an.Origin) bool { return o.Kind == "param" && o.Path == "[]" })
			}
		}
	})
	r.Check(okGroup && okElem, rule, "kafka.findMembersByTopic files each member under each of its topics", p.Pos(fn.Pos()),
		"for member in members { for topic in member.Topics { m[topic] = append(m[topic], member) } }", fmt.Sprintf("grouping=%v elementIsMember=%v", okGroup, okElem))

	// the function returns that map
	okRet := false
	an.EachInstr(fn, func(ins ssa.Instruction) {
		if ret, ok := ins.(*ssa.Return); ok && len(ret.Results) == 1 {
			okRet = resultMap != nil && an.RetVal(ret, 0) == resultMap
		}
	})
	r.Check(okRet, rule, "kafka.findMembersByTopic returns the grouped map", p.Pos(fn.Pos()), "return membersByTopic", "another value is returned")

	// sort: sort.Slice over every value of the returned map, unconditionally, comparing [i].ID with [j].ID strictly
	var sortCall *ssa.Call
	nSort := 0
	an.EachInstr(fn, func(ins ssa.Instruction) {
		if c, ok := ins.(*ssa.Call); ok {
			if f := c.Call.StaticCallee(); f != nil && f.Pkg != nil && f.Pkg.Pkg.Path() == "sort" && (an.RefFuncName(f) == "Slice" || an.RefFuncName(f) == "SliceStable") {
				sortCall = c
				nSort++
			}
		}
	})
	if sortCall == nil || nSort != 1 {
		r.Bad(rule, "kafka.findMembersByTopic sorts every per-topic list by member ID", p.Pos(fn.Pos()), "one sort.Slice call", fmt.Sprint(nSort))
		return
	}
	arg := clean(an.ShapeCanon(sortCall.Call.Args[0]))
	wantArg := "next(range(" + clean(an.ShapeCanon(resultMap)) + "))#2"
	g := strings.Join(selConds(sortCall), " ∧ ")
	wantG := ""
	loopG := "next(range(" + clean(an.Shape(resultMap)) + "))#0"
	inLoop := false
	for d, child := sortCall.Block().Idom(), sortCall.Block(); d != nil; d, child = d.Idom(), d {
		iff, _ := an.IfCond(d)
		if iff == nil || clean(an.Shape(an.CondOf(iff))) != loopG || !edgeControls(d, 0, child) {
			continue
		}
		// every pass through the loop body sorts (a disjunctive guard would leave no dominating condition)
		header := d
		q := an.PathQuery{Fn: fn, Stop: func(i ssa.Instruction) bool { return i == ssa.Instruction(sortCall) }, Target: func(i ssa.Instruction) bool { return i.Block() == header && i == header.Instrs[0] }}
		inLoop = q.ReachableFrom(an.Point{B: d.Succs[0], Idx: -1}) == nil
	}
	// the return is reached only through the end of that loop
	okAfter := false
	an.EachInstr(fn, func(ins ssa.Instruction) {
		if ret, ok := ins.(*ssa.Return); ok {
			exits := false
			for _, c := range guardCanon(ret) {
				if c == "¬"+loopG {
					exits = true
				}
			}
			okAfter = exits && len(selConds(ret)) == 0
		}
	})
	less := ""
	if mc, ok := sortCall.Call.Args[1].(*ssa.MakeClosure); ok {
		lf := mc.Fn.(*ssa.Function)
		shapes := returnShapes(lf)
		less = strings.Join(shapes, " ;; ")
		for i, prm := range lf.Params {
			less = strings.ReplaceAll(less, "["+an.ParamName(prm)+"]", fmt.Sprintf("[#%d]", i))
		}
		for _, fv := range lf.FreeVars {
			less = strings.ReplaceAll(less, "*free:"+an.FreeVarName(fv), "S")
		}
	}
	okLess := less == "(S[#0].ID < S[#1].ID)" || less == "(S[#1].ID < S[#0].ID)" || less == "(S[#0].ID > S[#1].ID)" || less == "(S[#1].ID > S[#0].ID)"
	okFree := false
	if mc, ok := sortCall.Call.Args[1].(*ssa.MakeClosure); ok && len(mc.Bindings) == 1 {
		okFree = clean(an.Shape(mc.Bindings[0])) == clean(an.Shape(sortCall.Call.Args[0]))
	}
	if mc, ok := sortCall.Call.Args[1].(*ssa.MakeClosure); ok && len(mc.Bindings) == 1 && false {
		// the closure's slice is the slice being sorted
		bo := an.Origins(mc.Bindings[0], an.FlowOpts{})
		ao := an.Origins(sortCall.Call.Args[0], an.FlowOpts{})
		okFree = len(bo) > 0
		for _, o := range ao {
			if o.Kind == "alloc" {
				continue
			}
			found := false
			for _, b := range bo {
				if b.Kind == o.Kind && b.Path == o.Path && b.Val == o.Val {
					found = true
				}
			}
			okFree = okFree && found
		}
	}
	r.Check(arg == wantArg && g == wantG && inLoop && okAfter && okLess && okFree, rule, "kafka.findMembersByTopic sorts every per-topic list by member ID", p.Pos(sortCall.Pos()),
		"for _, l := range m { sort.Slice(l, func(i,j) { return l[i].ID < l[j].ID }) } on every path to the return",
		fmt.Sprintf("sorted=%s guard=[%s] returnAfterLoop=%v less=%s lessOverSameSlice=%v", arg, g, okAfter, less, okFree))
}

// c14Partitions: findPartitions returns the IDs of the partitions of the topic, in listing order.
func c14Partitions(p *load.Program, r *oblig.Report) {
	const rule = "C14.R2 a topic's partition list"
	fn := p.Func("", "findPartitions")
	if fn == nil {
		r.Lost(rule, "kafka.findPartitions")
		return
	}
	nApp := 0
	ok := true
	found := ""
	an.EachInstr(fn, func(ins ssa.Instruction) {
		c, isC := ins.(*ssa.Call)
		if !isC {
			return
		}
		if b, isB := c.Call.Value.(*ssa.Builtin); !isB || b.Name() != "append" {
			return
		}
		nApp++
		g := strings.Join(selConds(c), " ∧ ")
		os := an.Origins(c.Call.Args[1], an.FlowOpts{})
		elem := false
		for _, o := range os {
			if o.Kind == "alloc" {
				// varargs array: its element store
				for _, ref := range *o.Val.(*ssa.Alloc).Referrers() {
					if ia, isIA := ref.(*ssa.IndexAddr); isIA {
						for _, r2 := range *ia.Referrers() {
							if st, isSt := r2.(*ssa.Store); isSt {
								s := clean(an.ShapeCanon(st.Val))
								elem = s == "partitions[idx(partitions)].ID"
								found += " elem=" + s
							}
						}
					}
				}
			}
		}
		found += " guard=[" + g + "]"
		if !(elem && g == "(partitions[idx(partitions)].Topic == topic)") {
			ok = false
		}
	})
	// every listed partition is examined: the loop over the listing ends by exhaustion only
	early := loopEarlyExits(p, fn)
	r.Check(len(early) == 0, rule, "kafka.findPartitions examines the whole listing, in whatever order topics appear in it", p.Pos(fn.Pos()),
		"the range loop has no break or return", strings.Join(early, "; "))
	shapes := returnShapes(fn)
	r.Check(ok && nApp == 1, rule, "kafka.findPartitions returns the IDs of exactly the partitions whose Topic is the requested one", p.Pos(fn.Pos()),
		"for _, x := range partitions { if x.Topic == topic { ids = append(ids, x.ID) } }", strings.TrimSpace(found)+fmt.Sprintf(" appends=%d returns=%v", nApp, shapes))
}

// guardCanon is guardOf with canonical shapes (idx(...), sorted commutative operands, oriented comparisons).
func guardCanon(at ssa.Instruction) []string { return guardWith(at, an.ShapeCanon) }

// guardWith is guardCanon with a chosen renderer.
func guardWith(at ssa.Instruction, render func(ssa.Value) string) []string {
	var conds []string
	for d, child := at.Block().Idom(), at.Block(); d != nil; d, child = d.Idom(), d {
		iff, _ := an.IfCond(d)
		if iff == nil {
			continue
		}
		var onTrue bool
		switch {
		case edgeControls(d, 0, child):
			onTrue = true
		case edgeControls(d, 1, child):
			onTrue = false
		default:
			continue
		}
		c := an.CondOf(iff)
		for {
			u, isU := c.(*ssa.UnOp)
			if !isU || u.Op != token.NOT {
				break
			}
			c = u.X
			onTrue = !onTrue
		}
		s := clean(render(c))
		if bo, isB := c.(*ssa.BinOp); isB && !onTrue {
			// negate comparisons in place so that the orientation is canonical
			neg := map[token.Token]token.Token{token.LSS: token.GEQ, token.GEQ: token.LSS, token.GTR: token.LEQ, token.LEQ: token.GTR, token.EQL: token.NEQ, token.NEQ: token.EQL}
			if nop, has := neg[bo.Op]; has {
				a, b := clean(render(bo.X)), clean(render(bo.Y))
				switch nop {
				case token.LEQ:
					a, b, nop = b, a, token.GEQ
				case token.GTR:
					a, b, nop = b, a, token.LSS
				case token.EQL, token.NEQ:
					_, xc := bo.X.(*ssa.Const)
					_, yc := bo.Y.(*ssa.Const)
					switch {
					case xc && !yc:
					case yc && !xc:
						a, b = b, a
					case b < a:
						a, b = b, a
					}
				}
				s = "(" + a + " " + nop.String() + " " + b + ")"
				onTrue = true
			}
		}
		if !onTrue {
			s = "¬" + s
		}
		conds = append(conds, s)
	}
	// an instruction inside a helper that did not exist at review time also runs under the conditions of the
	// helper's call sites (those common to all sites)
	if fn := at.Parent(); an.IsNew(fn) {
		var common map[string]bool
		for _, site := range an.SitesOf(fn) {
			si, ok := site.(ssa.Instruction)
			if !ok || si.Parent() == fn {
				continue
			}
			m := map[string]bool{}
			for _, c := range guardWith(si, render) {
				m[c] = true
			}
			if common == nil {
				common = m
			} else {
				for k := range common {
					if !m[k] {
						delete(common, k)
					}
				}
			}
		}
		for k := range common {
			conds = append(conds, k)
		}
	}
	sort.Strings(conds)
	return conds
}

// isLoopCond recognises the continuation/exit tests of range loops in canonical guards.
func isLoopCond(c string) bool {
	c = strings.TrimPrefix(c, "¬")
	if strings.HasPrefix(c, "next(range(") && strings.HasSuffix(c, "#0") {
		return true
	}
	if strings.HasPrefix(c, "(idx(") {
		// (idx(X) < len(X)) or (idx(X) >= len(X))
		for _, op := range []string{" < len(", " >= len("} {
			if i := strings.Index(c, op); i > 0 {
				x := c[len("(idx("):i]
				if strings.HasSuffix(x, ")") && c[i+len(op):] == x[:len(x)-1]+"))" {
					return true
				}
			}
		}
	}
	return false
}

// selCondsNamed is selConds with memory-resident locals rendered by name.
func selCondsNamed(at ssa.Instruction) []string {
	var out []string
	for _, c := range guardWith(at, an.ShapeCanonNamed) {
		if !isLoopCond(c) {
			out = append(out, c)
		}
	}
	return out
}

// selConds: the non-loop conditions under which an instruction runs, canonical.
func selConds(at ssa.Instruction) []string {
	var out []string
	for _, c := range guardCanon(at) {
		if !isLoopCond(c) {
			out = append(out, c)
		}
	}
	return out
}

// c14Nest checks the loop nest of Range / RoundRobin.
func c14Nest(p *load.Program, r *oblig.Report, name string) {
	fn := p.Func("", name)
	short := "kafka." + name
	const r1 = "C14.R1 per-topic member lists are complete and sorted by member ID"
	const r2 = "C14.R2 each append writes the positioned partition of the topic to result[member.ID][topic]"
	const r3 = "C14.R3 the selector is the reference one over this topic's members and partitions"
	if fn == nil {
		r.Lost(r2, short)
		return
	}
	// the member map
	var mbt *ssa.Call
	an.EachInstr(fn, func(ins ssa.Instruction) {
		if c, ok := ins.(*ssa.Call); ok && c.Call.StaticCallee() != nil && an.RefFuncName(c.Call.StaticCallee()) == "findMembersByTopic" {
			mbt = c
		}
	})
	if mbt == nil {
		r.Bad(r1, short+" iterates findMembersByTopic(members)", p.Pos(fn.Pos()), "call to findMembersByTopic", "none")
		return
	}
	r.Check(an.Shape(mbt) == "findMembersByTopic(members)", r1, short+" iterates findMembersByTopic(members)", p.Pos(mbt.Pos()), "findMembersByTopic(members)", an.Shape(mbt))
	T := "next(range(findMembersByTopic(members)))"
	K, V := T+"#1", T+"#2"
	P := "findPartitions(" + K + ",topicPartitions)"
	sub := func(s string) string {
		s = clean(s)
		s = strings.ReplaceAll(s, P, "P")
		s = strings.ReplaceAll(s, V, "M")
		s = strings.ReplaceAll(s, K, "topic")
		return s
	}
	// result map = the returned value
	var result ssa.Value
	an.EachInstr(fn, func(ins ssa.Instruction) {
		if ret, ok := ins.(*ssa.Return); ok && len(ret.Results) == 1 {
			result = an.RetVal(ret, 0)
		}
	})
	nInner, nOuter := 0, 0
	an.EachInstr(fn, func(ins ssa.Instruction) {
		mu, ok := ins.(*ssa.MapUpdate)
		if !ok {
			return
		}
		if mu.Map == result || (result != nil && clean(an.ShapeCanon(mu.Map)) == clean(an.ShapeCanon(result))) {
			// result[member.ID] = fresh map
			nOuter++
			k := sub(an.ShapeCanon(mu.Key))
			_, fresh := mu.Value.(*ssa.MakeMap)
			r.Check(k == "M[idx(M)].ID" && fresh, r2, short+" → result keys are IDs of the topic's members", p.Pos(mu.Pos()), "result[member.ID] = make(map[string][]int)", fmt.Sprintf("key=%s fresh=%v", k, fresh))
			return
		}
		mt, isMap := mu.Map.Type().Underlying().(*types.Map)
		if !isMap || mt.Elem().String() != "[]int" {
			return
		}
		nInner++
		m := sub(an.ShapeCanon(mu.Map))
		k := sub(an.ShapeCanon(mu.Key))
		okMap := m == "φ{make(map[string][]int) | result[M[idx(M)].ID]#0}" || m == "result[M[idx(M)].ID]#0" || m == "result[M[idx(M)].ID]"
		m = strings.ReplaceAll(m, "make(GroupMemberAssignments)", "result")
		okMap = m == "φ{make(map[string][]int) | result[M[idx(M)].ID]#0}" || m == "φ{result[M[idx(M)].ID]#0 | make(map[string][]int)}" || m == "result[M[idx(M)].ID]"
		// value: append(thatMap[topic], P[idx(P)])
		okVal := false
		val := ""
		if c, isC := mu.Value.(*ssa.Call); isC {
			if b, isB := c.Call.Value.(*ssa.Builtin); isB && b.Name() == "append" {
				base := sub(an.ShapeCanon(c.Call.Args[0]))
				base = strings.ReplaceAll(base, "make(GroupMemberAssignments)", "result")
				elem := ""
				for _, o := range an.Origins(c.Call.Args[1], an.FlowOpts{}) {
					if al, isAl := o.Val.(*ssa.Alloc); isAl && o.Kind == "alloc" {
						for _, ref := range *al.Referrers() {
							if ia, isIA := ref.(*ssa.IndexAddr); isIA {
								for _, r2 := range *ia.Referrers() {
									if st, isSt := r2.(*ssa.Store); isSt {
										elem = sub(an.ShapeCanon(st.Val))
									}
								}
							}
						}
					}
				}
				val = "append(" + base + ", " + elem + ")"
				okVal = base == m+"[topic]" && elem == "P[idx(P)]"
			}
		}
		r.Check(okMap && k == "topic" && okVal, r2, short+" → append target and element", p.Pos(mu.Pos()),
			"result[member.ID][topic] = append(result[member.ID][topic], partitions[position]) with partitions = findPartitions(topic, topicPartitions)",
			fmt.Sprintf("map=%s key=%s value=%s", m, k, val))
		// selector
		var sel []string
		for _, c := range selConds(mu) {
			sel = append(sel, sub(c))
		}
		got := strings.Join(sel, " ∧ ")
		var want []string
		if strings.Contains(name, "RoundRobin") {
			want = []string{"((idx(P) % len(M)) == idx(M))"}
		} else {
			want = []string{"(idx(P) < (((1 + idx(M)) * len(P)) / len(M)))", "(idx(P) >= ((idx(M) * len(P)) / len(M)))"}
		}
		sort.Strings(want)
		r.Check(got == strings.Join(want, " ∧ "), r3, short+" → selector", p.Pos(mu.Pos()), strings.Join(want, " ∧ "), got)
	})
	r.Check(nInner == 1 && nOuter == 1, r2, short+" → writes into the result", p.Pos(fn.Pos()), "one result[member.ID] initialisation and one per-topic append", fmt.Sprintf("init=%d appends=%d", nOuter, nInner))
}

// c14Leader: assignTopicPartitions applies the negotiated balancer to the decoded members.
func c14Leader(p *load.Program, r *oblig.Report) {
	const rule = "C14.R4 the leader applies the negotiated balancer"
	fn := p.Func("", "(*ConsumerGroup).assignTopicPartitions")
	fb := p.Func("", "findGroupBalancer")
	mk := p.Func("", "(*ConsumerGroup).makeMemberProtocolMetadata")
	if fn == nil || fb == nil || mk == nil {
		r.Lost(rule, "kafka.(*ConsumerGroup).assignTopicPartitions / findGroupBalancer / makeMemberProtocolMetadata")
		return
	}
	// the balancer that was negotiated runs on the members of the join response and on the partitions of the topics
	// they subscribe to. The listing may be read in one call or, when that call fails because one topic is missing,
	// topic by topic (repair 2f438af); what reaches the balancer is nil or the result of a readPartitions call on
	// (elements of) extractTopics(members).
	var assign *ssa.Call
	an.EachInstr(fn, func(ins ssa.Instruction) {
		if c, ok := ins.(*ssa.Call); ok && c.Call.IsInvoke() && c.Call.Method.Name() == "AssignGroups" {
			assign = c
		}
	})
	const wantRecv, wantMembers = "findGroupBalancer(group.GroupProtocol,cg.config.GroupBalancers)#0", "makeMemberProtocolMetadata(cg,group.Members)#0"
	var problems []string
	var whole, perTopic *ssa.Call
	if assign == nil {
		problems = append(problems, "no AssignGroups call")
	} else {
		if g := clean(an.Shape(assign.Call.Value)); g != wantRecv {
			problems = append(problems, "balancer: "+g)
		}
		if g := clean(an.Shape(assign.Call.Args[0])); g != wantMembers {
			problems = append(problems, "members: "+g)
		}
		isTopics := func(v ssa.Value) bool {
			c, ok := v.(*ssa.Call)
			return ok && c.Call.StaticCallee() != nil && an.RefFuncName(c.Call.StaticCallee()) == "extractTopics" && clean(an.Shape(c.Call.Args[0])) == wantMembers
		}
		elemOfTopics := func(v ssa.Value) bool {
			switch x := v.(type) {
			case *ssa.UnOp:
				if ia, ok := x.X.(*ssa.IndexAddr); ok {
					return isTopics(ia.X)
				}
			case *ssa.Extract:
				if nx, ok := x.Tuple.(*ssa.Next); ok {
					if rg, isR := nx.Iter.(*ssa.Range); isR {
						return isTopics(rg.X)
					}
				}
			case *ssa.Index:
				return isTopics(x.X)
			}
			return false
		}
		seen := map[ssa.Value]bool{}
		var leaf func(v ssa.Value)
		leaf = func(v ssa.Value) {
			if seen[v] {
				return
			}
			seen[v] = true
			switch x := v.(type) {
			case *ssa.Const:
				if !x.IsNil() {
					problems = append(problems, "partitions: constant "+x.String())
				}
			case *ssa.Phi:
				for _, e := range x.Edges {
					leaf(e)
				}
			case *ssa.UnOp:
				if a, ok := x.X.(*ssa.Alloc); ok && x.Op == token.MUL {
					for _, ref := range *a.Referrers() {
						if st, isSt := ref.(*ssa.Store); isSt && st.Addr == ssa.Value(a) {
							leaf(st.Val)
						}
					}
					return
				}
				problems = append(problems, "partitions: "+clean(an.Shape(v)))
			case *ssa.Extract:
				c, ok := x.Tuple.(*ssa.Call)
				if !ok || !c.Call.IsInvoke() || c.Call.Method.Name() != "readPartitions" || x.Index != 0 {
					problems = append(problems, "partitions: "+clean(an.Shape(v)))
					return
				}
				arg := c.Call.Args[0]
				if isTopics(arg) {
					whole = c
					return
				}
				elems := an.VarArgs(arg)
				okE := len(elems) == 1
				for _, e := range elems {
					if !elemOfTopics(e) {
						okE = false
					}
				}
				if okE {
					perTopic = c
				} else {
					problems = append(problems, "partitions listed for "+clean(an.Shape(arg)))
				}
			case *ssa.Call:
				if b, ok := x.Call.Value.(*ssa.Builtin); ok && b.Name() == "append" {
					for _, a := range x.Call.Args {
						leaf(a)
					}
					return
				}
				problems = append(problems, "partitions: "+clean(an.Shape(v)))
			default:
				problems = append(problems, "partitions: "+clean(an.Shape(v)))
			}
		}
		leaf(assign.Call.Args[1])
		if whole == nil {
			problems = append(problems, "no listing of extractTopics(members)")
		}
	}
	sort.Strings(problems)
	r.Check(len(problems) == 0, rule, "kafka.(*ConsumerGroup).assignTopicPartitions → balancer, members and partitions", p.Pos(fn.Pos()),
		wantRecv+".AssignGroups("+wantMembers+", partitions of extractTopics(members))", strings.Join(problems, "; "))
	// when the listing failed because a topic is missing, the other topics are listed one by one
	okRetry := false
	if whole != nil && perTopic != nil && blockInCycle(perTopic.Block()) {
		var errW ssa.Value
		for _, ref := range *whole.Referrers() {
			if ex, isEx := ref.(*ssa.Extract); isEx && ex.Index == 1 {
				errW = ex
			}
		}
		for _, b := range an.Blocks(fn) {
			iff, ci := an.IfCond(b)
			if iff == nil || ci == nil {
				continue
			}
			c, isCall := ci.X.(*ssa.Call)
			if !isCall || c.Call.StaticCallee() == nil || c.Call.StaticCallee().Name() != "Is" || c.Call.Args[0] != errW || !strings.Contains(clean(an.Shape(c.Call.Args[1])), "3") {
				continue
			}
			yes := 0
			if ci.Neg {
				yes = 1
			}
			if len(b.Succs[yes].Instrs) > 0 && an.Dominates(b.Succs[yes].Instrs[0], perTopic) {
				okRetry = true
			}
		}
	}
	r.Check(okRetry, rule, "kafka.(*ConsumerGroup).assignTopicPartitions → a missing topic does not hide the partitions of the others", p.Pos(fn.Pos()),
		"if errors.Is(err, UnknownTopicOrPartition) && len(topics) > 1 { for _, topic := range topics { conn.readPartitions(topic) … } }", "no topic-by-topic listing under the tolerated error")
	// findGroupBalancer returns the balancer whose ProtocolName equals the requested one
	okFB := false
	for _, b := range an.Blocks(fb) {
		_, ci := an.IfCond(b)
		if ci.Edge(token.EQL) < 0 {
			continue
		}
		x, y := clean(an.ShapeCanon(ci.X)), clean(an.ShapeCanon(ci.Y))
		if y == "protocolName" {
			x, y = y, x
		}
		if x == "protocolName" && y == "balancers[idx(balancers)].ProtocolName()" {
			// the equal-names edge returns that balancer
			for _, ins := range b.Succs[ci.Edge(token.EQL)].Instrs {
				if ret, isRet := ins.(*ssa.Return); isRet && len(ret.Results) == 2 {
					okFB = clean(an.ShapeCanon(ret.Results[0])) == "balancers[idx(balancers)]"
				}
			}
		}
	}
	r.Check(okFB, rule, "kafka.findGroupBalancer returns the balancer with the requested protocol name", p.Pos(fb.Pos()), "if b.ProtocolName() == protocolName { return b, true }", "not recognised")
	// makeMemberProtocolMetadata: ID, Topics, UserData from the member's own entry
	wantF := map[string]string{"ID": "param:in[].MemberID", "Topics": "alloc:metadata.Topics", "UserData": "alloc:metadata.UserData"}
	gotF := map[string]string{}
	an.EachInstr(mk, func(ins ssa.Instruction) {
		st, ok := ins.(*ssa.Store)
		if !ok {
			return
		}
		fa, ok := st.Addr.(*ssa.FieldAddr)
		if !ok || !an.NamedIs(types.Unalias(deref(fa.X.Type())), load.ModPath, "GroupMember") {
			return
		}
		gotF[an.FieldName(fa.X.Type(), fa.Field)] = strings.Join(an.OriginStrings(an.Origins(st.Val, an.FlowOpts{})), ",")
	})
	okF := true
	for k, w := range wantF {
		if gotF[k] != w {
			okF = false
		}
	}
	// metadata is decoded from this member's own MemberMetadata
	okDec := false
	an.EachInstr(mk, func(ins ssa.Instruction) {
		if c, ok := ins.(*ssa.Call); ok && c.Call.StaticCallee() != nil && an.RefFuncName(c.Call.StaticCallee()) == "NewReader" && an.ShortFunc(c.Call.StaticCallee()) == "bytes.NewReader" {
			os := an.OriginStrings(an.Origins(c.Call.Args[0], an.FlowOpts{}))
			okDec = len(os) == 1 && os[0] == "param:in[].MemberMetadata"
		}
	})
	r.Check(okF && okDec, rule, "kafka.(*ConsumerGroup).makeMemberProtocolMetadata builds each GroupMember from its own join-response entry", p.Pos(mk.Pos()),
		fmt.Sprint(wantF)+" decoded from in[].MemberMetadata", fmt.Sprint(gotF)+fmt.Sprintf(" decodedFromOwnMetadata=%v", okDec))
}

func deref(t types.Type) types.Type {
	if pt, ok := t.Underlying().(*types.Pointer); ok {
		return pt.Elem()
	}
	return t
}

// c14Rack: structural facts of the rack-affinity balancer.
func c14Rack(p *load.Program, r *oblig.Report) {
	const rule = "C14.R5 rack-affinity structure"
	ag := p.Func("", "(RackAffinityGroupBalancer).AssignGroups")
	at := p.Func("", "(*RackAffinityGroupBalancer).assignTopic")
	if ag == nil || at == nil {
		r.Lost(rule, "kafka.(RackAffinityGroupBalancer).AssignGroups / assignTopic")
		return
	}
	// AssignGroups: grouping maps and the per-topic call
	// (`for k, v := range m` hands out v = m[k]: the two spellings of the members of a topic are the same value)
	rangeValue := func(s string) string {
		const m = "make(map[string][]GroupMember)"
		return strings.ReplaceAll(s, "next(range("+m+"))#2", m+"[next(range("+m+"))#1]")
	}
	var groupM, groupP bool
	var callOK, storeOK bool
	var callShape, storeShape string
	an.EachInstr(ag, func(ins ssa.Instruction) {
		switch x := ins.(type) {
		case *ssa.MapUpdate:
			k := clean(an.ShapeCanon(x.Key))
			v := clean(an.ShapeCanon(x.Value))
			switch {
			case k == "members[idx(members)].Topics[idx(members[idx(members)].Topics)]" && strings.HasPrefix(v, "append(make(map[string][]GroupMember)["+k+"],"):
				groupM = varargsElemIs(x.Value, "members[idx(members)]")
			case k == "partitions[idx(partitions)].Topic" && strings.HasPrefix(v, "append(make(map[string][]Partition)["+k+"],"):
				groupP = varargsElemIs(x.Value, "partitions[idx(partitions)]")
			default:
				if mt, ok := x.Map.Type().Underlying().(*types.Map); ok && mt.Elem().String() == "[]int" {
					v = rangeValue(v)
					storeShape = rangeValue(clean(an.ShapeCanon(x.Map))) + "[" + k + "] = " + v
					tk := "next(range(make(map[string][]GroupMember)))#1"
					res := "next(range(assignTopic(r,make(map[string][]GroupMember)[" + tk + "],make(map[string][]Partition)[" + tk + "])))"
					okMap := rangeValue(clean(an.ShapeCanon(x.Map))) == "φ{make(GroupMemberAssignments)["+res+"#1]#0 | make(map[string][]int)}"
					storeOK = okMap && k == tk && v == res+"#2"
				}
			}
		case *ssa.Call:
			if f := x.Call.StaticCallee(); f != nil && f == at {
				callShape = rangeValue(clean(an.ShapeCanon(x)))
				tk := "next(range(make(map[string][]GroupMember)))#1"
				callOK = callShape == "assignTopic(r,make(map[string][]GroupMember)["+tk+"],make(map[string][]Partition)["+tk+"])"
			}
		}
	})
	r.Check(groupM && groupP, rule, "RackAffinity.AssignGroups groups members by subscribed topic and partitions by their topic", p.Pos(ag.Pos()),
		"membersByTopic[t] = append(membersByTopic[t], m) for t in m.Topics; partitionsByTopic[p.Topic] = append(partitionsByTopic[p.Topic], p)", fmt.Sprintf("members=%v partitions=%v", groupM, groupP))
	r.Check(callOK, rule, "RackAffinity.AssignGroups assigns each subscribed topic from that topic's members and partitions", p.Pos(ag.Pos()),
		"for topic := range membersByTopic { r.assignTopic(membersByTopic[topic], partitionsByTopic[topic]) }", callShape)
	r.Check(storeOK, rule, "RackAffinity.AssignGroups files each topic result under result[member][topic]", p.Pos(ag.Pos()),
		"for member, parts := range topicAssignments { result[member][topic] = parts }", storeShape)

	// assignTopic: provenance of every id and key
	badInt, badKey := []string{}, []string{}
	nInt, nKey := 0, 0
	var result ssa.Value
	an.EachInstr(at, func(ins ssa.Instruction) {
		if ret, ok := ins.(*ssa.Return); ok && len(ret.Results) == 1 {
			result = an.RetVal(ret, 0)
		}
	})
	okIntOrigin := func(o an.Origin) bool {
		switch o.Kind {
		case "param":
			return o.Name == "partitions" && o.Path == "[].ID"
		case "make", "alloc":
			return !strings.Contains(o.Path, ".") // a local container; its own contents are subject to the same rule
		case "const":
			return strings.HasSuffix(o.String(), "nil")
		}
		return false
	}
	okKeyOrigin := func(o an.Origin) bool {
		switch o.Kind {
		case "param":
			return o.Name == "members" && o.Path == "[].ID"
		case "make", "alloc":
			return !strings.Contains(o.Path, ".")
		}
		return false
	}
	isIntList := func(t types.Type) bool {
		switch u := t.Underlying().(type) {
		case *types.Slice:
			b, ok := u.Elem().Underlying().(*types.Basic)
			return ok && b.Kind() == types.Int
		case *types.Pointer:
			if a, ok := u.Elem().Underlying().(*types.Array); ok {
				b, ok := a.Elem().Underlying().(*types.Basic)
				return ok && b.Kind() == types.Int
			}
		}
		return false
	}
	isStrList := func(t types.Type) bool {
		switch u := t.Underlying().(type) {
		case *types.Slice:
			b, ok := u.Elem().Underlying().(*types.Basic)
			return ok && b.Kind() == types.String
		case *types.Pointer:
			if a, ok := u.Elem().Underlying().(*types.Array); ok {
				b, ok := a.Elem().Underlying().(*types.Basic)
				return ok && b.Kind() == types.String
			}
		}
		return false
	}
	check := func(v ssa.Value, okf func(an.Origin) bool, bad *[]string, n *int, pos token.Pos) {
		*n++
		for _, o := range an.Origins(v, an.FlowOpts{}) {
			if !okf(o) {
				*bad = append(*bad, p.Pos(pos)+" "+o.String())
			}
		}
	}
	an.EachInstr(at, func(ins ssa.Instruction) {
		switch x := ins.(type) {
		case *ssa.Store:
			if ia, ok := x.Addr.(*ssa.IndexAddr); ok {
				if isIntList(ia.X.Type()) {
					check(x.Val, okIntOrigin, &badInt, &nInt, x.Pos())
				} else if isStrList(ia.X.Type()) {
					check(x.Val, okKeyOrigin, &badKey, &nKey, x.Pos())
				}
			}
		case *ssa.Call:
			if b, ok := x.Call.Value.(*ssa.Builtin); ok && b.Name() == "append" {
				if isIntList(x.Type()) {
					check(x.Call.Args[1], okIntOrigin, &badInt, &nInt, x.Pos())
				} else if isStrList(x.Type()) {
					check(x.Call.Args[1], okKeyOrigin, &badKey, &nKey, x.Pos())
				}
			}
		case *ssa.MapUpdate:
			if x.Map == result {
				check(x.Key, okKeyOrigin, &badKey, &nKey, x.Pos())
				check(x.Value, okIntOrigin, &badInt, &nInt, x.Pos())
			}
		}
	})
	r.Check(len(badInt) == 0 && nInt >= 6, rule, "RackAffinity.assignTopic only hands out ids taken from partitions[].ID", p.Pos(at.Pos()), "every element written to an []int derives from partitions[].ID (directly or through a local list)", fmt.Sprintf("%d writes; foreign: %v", nInt, badInt))
	r.Check(len(badKey) == 0 && nKey >= 4, rule, "RackAffinity.assignTopic only assigns to IDs taken from members[].ID", p.Pos(at.Pos()), "every key of the result and every consumer list element derives from members[].ID", fmt.Sprintf("%d writes; foreign: %v", nKey, badKey))

	// target / remainder
	var tgt, rem bool
	an.EachInstr(at, func(ins ssa.Instruction) {
		if bo, ok := ins.(*ssa.BinOp); ok {
			s := an.Shape(bo)
			if s == "(len(partitions) / len(members))" {
				tgt = true
			}
			if s == "(len(partitions) % len(members))" {
				rem = true
			}
		}
	})
	r.Check(tgt && rem, rule, "RackAffinity.assignTopic computes target and remainder from this topic's partitions and members", p.Pos(at.Pos()), "len(partitions)/len(members) and len(partitions)%len(members)", fmt.Sprintf("target=%v remainder=%v", tgt, rem))

	// the final pass: the remainder slot goes only to a member not above target
	okFinal := false
	foundG := ""
	for _, b := range an.Blocks(at) {
		for _, ins := range b.Instrs {
			bo, ok := ins.(*ssa.BinOp)
			if !ok || bo.Op != token.SUB {
				continue
			}
			if k, isK := an.ConstInt(bo.Y); !isK || k != 1 {
				continue
			}
			// remainder-- in the final members loop (the loop over the members parameter that follows the zone loop)
			hasMembersLoop := false
			for _, c := range guardCanon(bo) {
				if c == "(idx(members) < len(members))" {
					hasMembersLoop = true
				}
			}
			if !hasMembersLoop {
				continue
			}
			sel := selConds(bo)
			foundG = strings.Join(sel, " ∧ ")
			notAbove := false
			remPos := false
			for _, c := range sel {
				c2 := strings.ReplaceAll(c, "make(map[string][]int)[members[idx(members)].ID]", "A")
				switch c2 {
				case "(((len(partitions) / len(members)) - len(A)) >= 0)", "((len(partitions) / len(members)) >= len(A))":
					notAbove = true
				}
				if strings.HasPrefix(c, "(0 < φ{") && strings.Contains(c, "(len(partitions) % len(members))") && bo.X == remOperand(c, bo) {
					remPos = true
				}
			}
			okFinal = notAbove && remPos && len(sel) == 2
		}
	}
	r.Check(okFinal, rule, "RackAffinity.assignTopic gives a leftover slot only to a member that is not already above target", p.Pos(at.Pos()),
		"if targetPerMember-len(assigned) >= 0 && remainder > 0 { delta++; remainder-- }", foundG)

	// the zone-first pass: both in-zone hand-outs (the even share and the leftovers) run for every zone that has
	// consumers; the only test that may skip them is "this zone has no consumer" (a test on the bound of the very
	// loop or slice it guards is redundant and accepted)
	nZone := 0
	var skips []string
	an.EachInstr(at, func(ins ssa.Instruction) {
		mu, ok := ins.(*ssa.MapUpdate)
		if !ok || mu.Map != result {
			return
		}
		inZone := false
		all := guardCanon(mu)
		for _, c := range all {
			if strings.HasPrefix(strings.TrimPrefix(c, "¬"), "next(range(") {
				inZone = true
			}
		}
		if !inZone {
			return
		}
		nZone++
		val := clean(an.ShapeCanon(mu.Value))
		for _, c := range selConds(mu) {
			if zeroTestOf(c, func(v string) bool { return strings.HasPrefix(v, "len(make(map[string][]string)[") }) {
				continue // the zone has consumers
			}
			if strings.HasPrefix(c, "(φ{(1 + φ) | 0} < ") {
				continue // the test of a loop counting up from zero
			}
			if zeroTestOf(c, func(v string) bool {
				if strings.Contains(val, "[:"+v+"]") {
					return true // the number of elements appended
				}
				for _, g := range all {
					if strings.HasPrefix(g, "(idx(") && strings.HasSuffix(g, " < "+v+")") {
						return true // the bound of the enclosing counted loop
					}
				}
				return false
			}) {
				continue
			}
			skips = append(skips, p.Pos(mu.Pos())+": "+c)
		}
	})
	// the zone pass takes units out of the global remainder only for a zone whose consumers all reached the target:
	// leftovers handed out in a zone below its target are part of those members' base share, and charging them to
	// the remainder leaves the final pass short (a partition then ends up with no owner)
	okRem, remGuard := false, ""
	for _, b := range an.Blocks(at) {
		for _, ins := range b.Instrs {
			bo, ok := ins.(*ssa.BinOp)
			if !ok || bo.Op != token.SUB {
				continue
			}
			inZone := false
			for _, c := range guardCanon(bo) {
				if strings.HasPrefix(strings.TrimPrefix(c, "¬"), "next(range(") {
					inZone = true
				}
			}
			if !inZone || !strings.Contains(clean(an.ShapeCanon(bo.X)), "(len(partitions) % len(members))") {
				continue
			}
			sel := selConds(bo)
			remGuard = strings.Join(sel, " ∧ ")
			for _, c := range sel {
				if strings.Contains(c, " == ") && strings.Contains(c, "(len(partitions) / len(members))") {
					okRem = true
				}
			}
		}
	}
	r.Check(okRem, rule, "RackAffinity.assignTopic charges in-zone leftovers to the remainder only when the zone reached the target", p.Pos(at.Pos()),
		"if partsPerMember == targetPerMember { …; remainder -= leftover }", remGuard)
	r.Check(nZone >= 2 && len(skips) == 0, rule, "RackAffinity.assignTopic runs both in-zone hand-outs for every zone that has consumers", p.Pos(at.Pos()),
		"in the zone loop only `len(consumers) == 0` skips the assignments", fmt.Sprintf("%d in-zone assignments; also skipped when: %v", nZone, skips))
}

// remOperand returns the decremented value when the guard's compared value is that same value.
func remOperand(_ string, dec *ssa.BinOp) ssa.Value {
	for d := dec.Block().Idom(); d != nil; d = d.Idom() {
		_, ci := an.IfCond(d)
		if ci != nil && (ci.X == dec.X || ci.Y == dec.X) {
			return dec.X
		}
	}
	return nil
}

// varargsElemIs: v is append(x, e) whose single variadic element has the given canonical shape.
func varargsElemIs(v ssa.Value, want string) bool {
	c, ok := v.(*ssa.Call)
	if !ok || len(c.Call.Args) != 2 {
		return false
	}
	found := false
	for _, o := range an.Origins(c.Call.Args[1], an.FlowOpts{}) {
		if al, isAl := o.Val.(*ssa.Alloc); isAl && o.Kind == "alloc" {
			for _, ref := range *al.Referrers() {
				if ia, isIA := ref.(*ssa.IndexAddr); isIA {
					for _, r2 := range *ia.Referrers() {
						if st, isSt := r2.(*ssa.Store); isSt {
							found = clean(an.ShapeCanon(st.Val)) == want
						}
					}
				}
			}
		}
	}
	return found
}

// zeroTestOf: c is a canonical comparison stating that a value accepted by isVal is not zero (positive).
func zeroTestOf(c string, isVal func(string) bool) bool {
	if strings.HasPrefix(c, "¬") || !strings.HasPrefix(c, "(") || !strings.HasSuffix(c, ")") {
		return false
	}
	in := c[1 : len(c)-1]
	for _, pre := range []string{"0 != ", "0 < "} {
		if strings.HasPrefix(in, pre) && isVal(in[len(pre):]) {
			return true
		}
	}
	return false
}

// loopEarlyExits lists the edges that leave a loop of fn from a block other than the loop's header test (break,
// return, goto out of the body).
func loopEarlyExits(p *load.Program, fn *ssa.Function) []string {
	blocks := an.Blocks(fn)
	reach := func(from, to *ssa.BasicBlock) bool {
		seen := map[*ssa.BasicBlock]bool{}
		var walk func(b *ssa.BasicBlock) bool
		walk = func(b *ssa.BasicBlock) bool {
			for _, s := range b.Succs {
				if s == to {
					return true
				}
				if !seen[s] {
					seen[s] = true
					if walk(s) {
						return true
					}
				}
			}
			return false
		}
		return walk(from)
	}
	inCycle := map[*ssa.BasicBlock]bool{}
	for _, b := range blocks {
		if b.Parent() == fn && reach(b, b) {
			inCycle[b] = true
		}
	}
	var out []string
	for b := range inCycle {
		// the header of b's loop: the cycle block that dominates b and is reachable back from b, outermost first is
		// not needed here: an exit edge is early unless its source dominates every block of its own cycle
		isHeader := true
		for c := range inCycle {
			if c != b && reach(b, c) && reach(c, b) && !b.Dominates(c) {
				isHeader = false
			}
		}
		if isHeader {
			continue
		}
		for _, s2 := range b.Succs {
			if !(inCycle[s2] && reach(s2, b)) {
				pos := "-"
				if len(b.Instrs) > 0 {
					pos = p.Pos(b.Instrs[len(b.Instrs)-1].Pos())
				}
				out = append(out, "the loop is left from its body at "+pos)
			}
		}
	}
	sort.Strings(out)
	return out
}

// Package load type-checks /repo's current working tree and builds its SSA form.
package load

import (
	"fmt"
	"go/ast"
	"go/token"
	"go/types"
	"os"
	"path/filepath"
	"sort"
	"strings"
	"sync"

	"golang.org/x/tools/go/callgraph"
	"golang.org/x/tools/go/callgraph/cha"
	"golang.org/x/tools/go/callgraph/vta"
	"golang.org/x/tools/go/packages"
	"golang.org/x/tools/go/ssa"
	"golang.org/x/tools/go/ssa/ssautil"

	"kverif/internal/an"
)

const ModPath = "github.com/segmentio/kafka-go"

// Config selects the build configuration and the source tree to analyse.
type Config struct {
	Dir      string            // repository root
	Tags     string            // e.g. "unsafe"
	GOARCH   string            // "" = host
	Overlay  map[string][]byte // absolute path -> replacement contents (mutants, canaries)
	Light    bool              // dependencies from export data (no bodies outside the module)
	Patterns []string          // default ./...
}

// Program is the loaded, type-checked module with SSA.
type Program struct {
	Cfg     Config
	Fset    *token.FileSet
	Pkgs    []*packages.Package          // module packages (roots)
	ByPath  map[string]*packages.Package // all packages by import path
	Prog    *ssa.Program
	SSA     map[string]*ssa.Package // module packages by path
	NPkgAll int
	Canon   *an.Canon // canonical names (renames of parameters, locals and unexported functions are looked through)

	cgOnce   sync.Once
	cg       *callgraph.Graph
	chaOnce  sync.Once
	chaG     *callgraph.Graph
	allFns   map[*ssa.Function]bool
	declOnce sync.Once
	decls    map[*types.Func]*ast.FuncDecl
}

func Load(cfg Config) (*Program, error) {
	mode := packages.NeedName | packages.NeedFiles | packages.NeedCompiledGoFiles | packages.NeedImports |
		packages.NeedDeps | packages.NeedTypes | packages.NeedTypesSizes | packages.NeedSyntax | packages.NeedTypesInfo | packages.NeedModule
	env := []string{}
	for _, e := range os.Environ() {
		if strings.HasPrefix(e, "GOWORK=") || strings.HasPrefix(e, "GOFLAGS=") || strings.HasPrefix(e, "GOARCH=") ||
			strings.HasPrefix(e, "GOPROXY=") || strings.HasPrefix(e, "GOSUMDB=") || strings.HasPrefix(e, "GOTOOLCHAIN=") {
			continue
		}
		env = append(env, e)
	}
	env = append(env, "GOWORK=off", "GOFLAGS=-mod=mod", "GOPROXY=off", "GOSUMDB=off", "GOTOOLCHAIN=local", "CGO_ENABLED=0")
	if cfg.GOARCH != "" {
		env = append(env, "GOARCH="+cfg.GOARCH)
	}
	pc := &packages.Config{
		Mode:    mode,
		Dir:     cfg.Dir,
		Env:     env,
		Tests:   false,
		Overlay: cfg.Overlay,
	}
	if cfg.Tags != "" {
		pc.BuildFlags = []string{"-tags=" + cfg.Tags}
	}
	pats := cfg.Patterns
	if len(pats) == 0 {
		pats = []string{"./..."}
	}
	pkgs, err := packages.Load(pc, pats...)
	if err != nil {
		return nil, fmt.Errorf("packages.Load: %w", err)
	}
	if len(pkgs) == 0 {
		return nil, fmt.Errorf("no packages loaded from %s", cfg.Dir)
	}
	p := &Program{Cfg: cfg, ByPath: map[string]*packages.Package{}, SSA: map[string]*ssa.Package{}}
	var errs []string
	packages.Visit(pkgs, nil, func(pk *packages.Package) {
		p.ByPath[pk.PkgPath] = pk
		p.NPkgAll++
		if strings.HasPrefix(pk.PkgPath, ModPath) {
			for _, e := range pk.Errors {
				errs = append(errs, e.Error())
			}
		}
	})
	if len(errs) > 0 {
		sort.Strings(errs)
		if len(errs) > 10 {
			errs = errs[:10]
		}
		return nil, fmt.Errorf("type errors in module: %s", strings.Join(errs, "; "))
	}
	for _, pk := range pkgs {
		if strings.HasPrefix(pk.PkgPath, ModPath) {
			p.Pkgs = append(p.Pkgs, pk)
		}
	}
	sort.Slice(p.Pkgs, func(i, j int) bool { return p.Pkgs[i].PkgPath < p.Pkgs[j].PkgPath })
	p.Fset = pkgs[0].Fset
	prog, _ := ssautil.AllPackages(pkgs, ssa.InstantiateGenerics)
	prog.Build()
	p.Prog = prog
	for _, pk := range p.Pkgs {
		if sp := prog.Package(pk.Types); sp != nil {
			p.SSA[pk.PkgPath] = sp
		}
	}
	p.Canon = an.BuildCanon(prog, p.allModuleFunctions())
	return p, nil
}

// Release drops per-program tables held outside the Program (so that it can be garbage collected).
func (p *Program) Release() {
	if p != nil && p.Prog != nil {
		an.ReleaseCanon(p.Prog)
	}
}

// Pkg returns the module package with the given path relative to the module root ("" = root).
func (p *Program) Pkg(rel string) *packages.Package {
	path := ModPath
	if rel != "" {
		path += "/" + rel
	}
	return p.ByPath[path]
}

func (p *Program) SSAPkg(rel string) *ssa.Package {
	path := ModPath
	if rel != "" {
		path += "/" + rel
	}
	return p.SSA[path]
}

// InModule reports whether fn is defined in the analysed module.
func InModule(fn *ssa.Function) bool {
	if fn == nil {
		return false
	}
	if fn.Pkg != nil {
		return strings.HasPrefix(fn.Pkg.Pkg.Path(), ModPath)
	}
	if o := fn.Origin(); o != nil && o.Pkg != nil {
		return strings.HasPrefix(o.Pkg.Pkg.Path(), ModPath)
	}
	if fn.Parent() != nil {
		return InModule(fn.Parent())
	}
	if obj := fn.Object(); obj != nil && obj.Pkg() != nil {
		return strings.HasPrefix(obj.Pkg().Path(), ModPath)
	}
	return false
}

// AllFunctions returns every function (incl. closures, wrappers) of the program.
func (p *Program) AllFunctions() map[*ssa.Function]bool {
	if p.allFns == nil {
		p.allFns = ssautil.AllFunctions(p.Prog)
	}
	return p.allFns
}

// ModuleFunctions returns source functions (with bodies) defined in the module, sorted by name.
func (p *Program) ModuleFunctions() []*ssa.Function {
	var out []*ssa.Function
	for _, fn := range p.allModuleFunctions() {
		// functions that did not exist at review time are analysed where they are called (an.EachInstr)
		if !an.IsNew(fn) {
			out = append(out, fn)
		}
	}
	return out
}

// EveryModuleFunction includes the functions that did not exist at review time (for rules that are local to one
// function body and need no reviewed table).
func (p *Program) EveryModuleFunction() []*ssa.Function { return p.allModuleFunctions() }

// allModuleFunctions includes the functions that did not exist at review time.
func (p *Program) allModuleFunctions() []*ssa.Function {
	var out []*ssa.Function
	for fn := range p.AllFunctions() {
		if fn.Blocks != nil && InModule(fn) && fn.Synthetic == "" {
			out = append(out, fn)
		}
	}
	sort.Slice(out, func(i, j int) bool {
		if out[i].String() != out[j].String() {
			return out[i].String() < out[j].String()
		}
		return out[i].Pos() < out[j].Pos()
	})
	return out
}

// CallGraph returns the VTA call graph seeded with CHA.
func (p *Program) CallGraph() *callgraph.Graph {
	p.cgOnce.Do(func() {
		p.cg = vta.CallGraph(p.AllFunctions(), p.CHA())
	})
	return p.cg
}

func (p *Program) CHA() *callgraph.Graph {
	p.chaOnce.Do(func() { p.chaG = cha.CallGraph(p.Prog) })
	return p.chaG
}

// Func finds a function or method by a readable name relative to a module package:
// "name", "(*T).m", "(T).m" or "T.m" (either receiver form accepted for the last).
func (p *Program) Func(rel, name string) *ssa.Function {
	if fn := p.funcByName(rel, name); fn != nil {
		return fn
	}
	// renamed but otherwise unchanged: re-identified by the canonical-name table
	sp := p.SSAPkg(rel)
	if sp == nil {
		return nil
	}
	path := sp.Pkg.Path()
	var full []string
	if !strings.Contains(name, ".") {
		full = []string{path + "." + name}
	} else {
		n := strings.TrimPrefix(name, "(")
		n = strings.TrimPrefix(n, "*")
		i := strings.Index(n, ".")
		tname, mname := strings.TrimSuffix(n[:i], ")"), n[i+1:]
		full = []string{"(*" + path + "." + tname + ")." + mname, "(" + path + "." + tname + ")." + mname}
	}
	for _, f := range full {
		if fn := an.LookupRenamed(p.Prog, f); fn != nil {
			return fn
		}
	}
	return nil
}

func (p *Program) funcByName(rel, name string) *ssa.Function {
	sp := p.SSAPkg(rel)
	if sp == nil {
		return nil
	}
	if !strings.Contains(name, ".") {
		return sp.Func(name)
	}
	name = strings.TrimPrefix(name, "(")
	ptr := strings.HasPrefix(name, "*")
	name = strings.TrimPrefix(name, "*")
	i := strings.Index(name, ".")
	tname, mname := strings.TrimSuffix(name[:i], ")"), name[i+1:]
	tn, _ := sp.Pkg.Scope().Lookup(tname).(*types.TypeName)
	if tn == nil {
		return nil
	}
	var T types.Type = tn.Type()
	for _, t := range []types.Type{types.NewPointer(T), T} {
		ms := p.Prog.MethodSets.MethodSet(t)
		for i := 0; i < ms.Len(); i++ {
			sel := ms.At(i)
			if sel.Obj().Name() == mname && sel.Obj().Pkg() == sp.Pkg {
				fn := p.Prog.MethodValue(sel)
				if fn != nil && fn.Synthetic != "" {
					// wrapper: resolve to the declared method
					if f := p.Prog.FuncValue(sel.Obj().(*types.Func)); f != nil {
						return f
					}
				}
				return fn
			}
		}
	}
	_ = ptr
	return nil
}

// Decl returns the syntax of a declared function.
func (p *Program) Decl(fn *types.Func) *ast.FuncDecl {
	p.declOnce.Do(func() {
		p.decls = map[*types.Func]*ast.FuncDecl{}
		for _, pk := range p.Pkgs {
			for _, f := range pk.Syntax {
				for _, d := range f.Decls {
					if fd, ok := d.(*ast.FuncDecl); ok {
						if o, ok := pk.TypesInfo.Defs[fd.Name].(*types.Func); ok {
							p.decls[o] = fd
						}
					}
				}
			}
		}
	})
	return p.decls[fn]
}

// PkgOf returns the packages.Package that defines obj.
func (p *Program) PkgOf(obj types.Object) *packages.Package {
	if obj == nil || obj.Pkg() == nil {
		return nil
	}
	return p.ByPath[obj.Pkg().Path()]
}

// Pos renders a position relative to the repository root.
func (p *Program) Pos(pos token.Pos) string {
	if !pos.IsValid() {
		return "-"
	}
	ps := p.Fset.Position(pos)
	rel, err := filepath.Rel(p.Cfg.Dir, ps.Filename)
	if err != nil || strings.HasPrefix(rel, "..") {
		rel = ps.Filename
	}
	return fmt.Sprintf("%s:%d", rel, ps.Line)
}

// FuncName gives a position independent readable name for an SSA function, e.g.
// kafka.(*Writer).WriteMessages, kafka.(*Reader).start$1, protocol/fetch.(*Request).Broker
func FuncName(fn *ssa.Function) string {
	if fn == nil {
		return "<nil>"
	}
	s := an.RefFuncString(fn)
	s = strings.ReplaceAll(s, ModPath+"/", "")
	s = strings.ReplaceAll(s, ModPath, "kafka")
	return s
}

// Package an holds the repository-specific static analyses.
package an

import (
	"fmt"
	"go/constant"
	"go/token"
	"go/types"
	"sort"
	"strings"

	"golang.org/x/tools/go/ssa"
)

// Origin is one root a value may derive from, with the access path walked from the root to
// the value and the affine transformation a*x+b applied on the way (when tracked).
type Origin struct {
	Kind   string    // param | const | call | global | alloc | freevar | range | make | other
	Val    ssa.Value // the root value
	Name   string    // param name, callee name, const value, global name
	Path   string    // ".Field[]#0" steps, outermost last
	A, B   int64     // value = A*root + B when Affine is true
	Affine bool
	Keys   []ssa.Value // map/index keys met on the way (outermost first)
}

func (o Origin) String() string {
	s := o.Kind + ":" + o.Name + o.Path
	if o.Affine && (o.A != 1 || o.B != 0) {
		s += fmt.Sprintf(" (*%d%+d)", o.A, o.B)
	}
	return s
}

// FlowOpts tune the backward walk.
type FlowOpts struct {
	// Transparent functions: result derives from the given argument index (receiver = 0 for methods).
	Transparent  func(callee *ssa.Function, call *ssa.CallCommon) (arg int, ok bool)
	MaxDepth     int
	ThroughCalls bool // inline module callees' return values (depth-limited)
}

type flowKey struct {
	v    ssa.Value
	path string
}

type flowState struct {
	opts  FlowOpts
	seen  map[flowKey]bool
	out   []Origin
	depth int
}

// Origins walks backwards from v to its roots.
func Origins(v ssa.Value, opts FlowOpts) []Origin {
	if opts.MaxDepth == 0 {
		opts.MaxDepth = 60
	}
	st := &flowState{opts: opts, seen: map[flowKey]bool{}}
	st.walk(v, "", 1, 0, true, nil, 0)
	return st.out
}

func (st *flowState) emit(kind string, v ssa.Value, name, path string, a, b int64, aff bool, keys []ssa.Value) {
	st.out = append(st.out, Origin{Kind: kind, Val: v, Name: name, Path: path, A: a, B: b, Affine: aff, Keys: keys})
}

func constInt(v ssa.Value) (int64, bool) {
	c, ok := v.(*ssa.Const)
	if !ok || c.Value == nil {
		return 0, false
	}
	if c.Value.Kind() != constant.Int {
		return 0, false
	}
	i, ok := constant.Int64Val(c.Value)
	return i, ok
}

// ConstInt exposes constant extraction.
func ConstInt(v ssa.Value) (int64, bool) { return constInt(v) }

func (st *flowState) walk(v ssa.Value, path string, a, b int64, aff bool, keys []ssa.Value, depth int) {
	if v == nil {
		return
	}
	if depth > st.opts.MaxDepth {
		st.emit("other", v, "depth", path, a, b, false, keys)
		return
	}
	k := flowKey{v, path}
	if st.seen[k] {
		return
	}
	st.seen[k] = true
	if len(st.seen) > 20000 {
		return
	}
	switch x := v.(type) {
	case *ssa.Parameter:
		if IsNew(x.Parent()) {
			// a helper that did not exist at review time: continue in the arguments at its call sites
			if args := argsAtSites(x); len(args) > 0 {
				for _, arg := range args {
					if al, isAlloc := arg.(*ssa.Alloc); isAlloc && path != "" && escapesOnlyToNewHelpers(al) {
						// helper(&local) reading local.f: the value is what the caller stored in the local
						st.load(al, path, a, b, aff, keys, depth+1)
						continue
					}
					st.walk(arg, path, a, b, aff, keys, depth+1)
				}
				return
			}
		}
		st.emit("param", x, ParamName(x), path, a, b, aff, keys)
	case *ssa.Const:
		s := "nil"
		if x.Value != nil {
			s = x.Value.ExactString()
		} else if !isNillable(x.Type()) {
			s = "zero"
		}
		st.emit("const", x, s, path, a, b, aff, keys)
	case *ssa.Global:
		st.emit("global", x, x.Name(), path, a, b, aff, keys)
	case *ssa.FreeVar:
		// resolve through the MakeClosure that binds it
		fn := x.Parent()
		idx := -1
		for i, fv := range fn.FreeVars {
			if fv == x {
				idx = i
			}
		}
		resolved := false
		if p := fn.Parent(); p != nil && idx >= 0 {
			for _, blk := range p.Blocks {
				for _, ins := range blk.Instrs {
					if mc, ok := ins.(*ssa.MakeClosure); ok && mc.Fn == fn && idx < len(mc.Bindings) {
						st.walk(mc.Bindings[idx], path, a, b, aff, keys, depth+1)
						resolved = true
					}
				}
			}
		}
		if !resolved {
			st.emit("freevar", x, x.Name(), path, a, b, aff, keys)
		}
	case *ssa.Phi:
		for _, e := range x.Edges {
			st.walk(e, path, a, b, aff, keys, depth+1)
		}
	case *ssa.ChangeType:
		st.walk(x.X, path, a, b, aff, keys, depth+1)
	case *ssa.Convert:
		st.walk(x.X, path, a, b, aff, keys, depth+1)
	case *ssa.ChangeInterface:
		st.walk(x.X, path, a, b, aff, keys, depth+1)
	case *ssa.MakeInterface:
		st.walk(x.X, path, a, b, aff, keys, depth+1)
	case *ssa.TypeAssert:
		st.walk(x.X, path, a, b, aff, keys, depth+1)
	case *ssa.SliceToArrayPointer:
		st.walk(x.X, path, a, b, aff, keys, depth+1)
	case *ssa.Slice:
		st.walk(x.X, path, a, b, false, keys, depth+1)
	case *ssa.Field:
		name := fieldName(x.X.Type(), x.Field)
		st.walk(x.X, "."+name+path, a, b, aff, keys, depth+1)
	case *ssa.FieldAddr:
		name := fieldName(x.X.Type(), x.Field)
		st.walk(x.X, "."+name+path, a, b, aff, keys, depth+1)
	case *ssa.Index:
		st.walk(x.X, "[]"+path, a, b, aff, append([]ssa.Value{x.Index}, keys...), depth+1)
	case *ssa.IndexAddr:
		st.walk(x.X, "[]"+path, a, b, aff, append([]ssa.Value{x.Index}, keys...), depth+1)
	case *ssa.Lookup:
		st.walk(x.X, "[]"+path, a, b, aff, append([]ssa.Value{x.Index}, keys...), depth+1)
	case *ssa.Extract:
		switch t := x.Tuple.(type) {
		case *ssa.Lookup:
			if x.Index == 0 {
				st.walk(t.X, "[]"+path, a, b, aff, append([]ssa.Value{t.Index}, keys...), depth+1)
			} else {
				st.emit("other", x, "lookup-ok", path, a, b, false, keys)
			}
		case *ssa.TypeAssert:
			if x.Index == 0 {
				st.walk(t.X, path, a, b, aff, keys, depth+1)
			} else {
				st.emit("other", x, "assert-ok", path, a, b, false, keys)
			}
		case *ssa.Next:
			// range over map/string: index 1 = key, 2 = value
			if rg, ok := t.Iter.(*ssa.Range); ok {
				if x.Index == 2 {
					st.walk(rg.X, "[]"+path, a, b, aff, keys, depth+1)
				} else {
					st.walk(rg.X, "[key]"+path, a, b, aff, keys, depth+1)
				}
			} else {
				st.emit("range", x, "next", path, a, b, false, keys)
			}
		case *ssa.Call:
			st.call(t, x.Index, x, path, a, b, aff, keys, depth)
		case *ssa.UnOp: // receive with ok
			if x.Index == 0 {
				st.walk(t.X, "<-"+path, a, b, aff, keys, depth+1)
			} else {
				st.emit("other", x, "recv-ok", path, a, b, false, keys)
			}
		case *ssa.Select:
			st.emit("other", x, fmt.Sprintf("select#%d", x.Index), path, a, b, false, keys)
		default:
			st.emit("other", x, "extract", path, a, b, false, keys)
		}
	case *ssa.UnOp:
		switch x.Op {
		case token.MUL: // load
			st.load(x.X, path, a, b, aff, keys, depth)
		case token.SUB:
			st.walk(x.X, path, -a, b, aff, keys, depth+1)
		case token.ARROW:
			st.walk(x.X, "<-"+path, a, b, aff, keys, depth+1)
		default:
			st.walk(x.X, path, a, b, false, keys, depth+1)
		}
	case *ssa.BinOp:
		if c, ok := constInt(x.Y); ok && aff {
			switch x.Op {
			case token.ADD:
				st.walk(x.X, path, a, b+a*c, true, keys, depth+1)
				return
			case token.SUB:
				st.walk(x.X, path, a, b-a*c, true, keys, depth+1)
				return
			case token.MUL:
				st.walk(x.X, path, a*c, b, true, keys, depth+1)
				return
			}
		}
		if c, ok := constInt(x.X); ok && aff {
			switch x.Op {
			case token.ADD:
				st.walk(x.Y, path, a, b+a*c, true, keys, depth+1)
				return
			case token.MUL:
				st.walk(x.Y, path, a*c, b, true, keys, depth+1)
				return
			}
		}
		// two-source operation: both operands are roots of kind "binop"
		st.emit("binop", x, x.Op.String(), path, a, b, aff, keys)
	case *ssa.Call:
		st.call(x, -1, x, path, a, b, aff, keys, depth)
	case *ssa.Alloc:
		// address of a local: the value *is* the variable; report stores into it as origins of loads
		st.emit("alloc", x, CellName(x), path, a, b, aff, keys)
	case *ssa.MakeSlice, *ssa.MakeMap, *ssa.MakeChan:
		st.emit("make", x, x.Name(), path, a, b, aff, keys)
	case *ssa.MakeClosure:
		st.emit("closure", x, x.Fn.Name(), path, a, b, aff, keys)
	case *ssa.Function:
		st.emit("func", x, x.Name(), path, a, b, aff, keys)
	case *ssa.Builtin:
		st.emit("builtin", x, x.Name(), path, a, b, aff, keys)
	case *ssa.Range:
		st.walk(x.X, path, a, b, aff, keys, depth+1)
	case *ssa.Next:
		st.emit("range", x, "next", path, a, b, false, keys)
	default:
		st.emit("other", v, fmt.Sprintf("%T", v), path, a, b, false, keys)
	}
}

func isNillable(t types.Type) bool {
	switch t.Underlying().(type) {
	case *types.Pointer, *types.Slice, *types.Map, *types.Chan, *types.Interface, *types.Signature:
		return true
	}
	return false
}

// load resolves *addr: for a local Alloc, every store into it (or into its fields along the path);
// for field addresses, walks to the base.
func (st *flowState) load(addr ssa.Value, path string, a, b int64, aff bool, keys []ssa.Value, depth int) {
	switch x := addr.(type) {
	case *ssa.Alloc:
		found := false
		for _, ref := range *x.Referrers() {
			switch r := ref.(type) {
			case *ssa.Store:
				if r.Addr == x {
					found = true
					st.walk(r.Val, path, a, b, aff, keys, depth+1)
				}
			}
		}
		// stores through field addresses of the alloc: match the first path step
		for _, ref := range *x.Referrers() {
			if fa, ok := ref.(*ssa.FieldAddr); ok && fa.X == x {
				name := "." + fieldName(x.Type(), fa.Field)
				if strings.HasPrefix(path, name) {
					rest := strings.TrimPrefix(path, name)
					for _, r2 := range *fa.Referrers() {
						if s, ok := r2.(*ssa.Store); ok && s.Addr == fa {
							found = true
							st.walk(s.Val, rest, a, b, aff, keys, depth+1)
						}
					}
				}
			}
		}
		if !found || (x.Heap && !escapesOnlyToNewHelpers(x)) {
			st.emit("alloc", x, CellName(x), path, a, b, aff, keys)
		}
	case *ssa.FieldAddr:
		name := fieldName(x.X.Type(), x.Field)
		// local struct built field by field?
		if al, ok := x.X.(*ssa.Alloc); ok {
			st.load(al, "."+name+path, a, b, aff, keys, depth+1)
			return
		}
		st.walk(x.X, "."+name+path, a, b, aff, keys, depth+1)
	case *ssa.IndexAddr:
		st.walk(x.X, "[]"+path, a, b, aff, append([]ssa.Value{x.Index}, keys...), depth+1)
	case *ssa.Global:
		st.emit("global", x, x.Name(), path, a, b, aff, keys)
	case *ssa.FreeVar:
		// captured variable: the cell is bound by the enclosing function's MakeClosure
		fn := x.Parent()
		idx := -1
		for i, fv := range fn.FreeVars {
			if fv == x {
				idx = i
			}
		}
		resolved := false
		if par := fn.Parent(); par != nil && idx >= 0 {
			for _, blk := range par.Blocks {
				for _, ins := range blk.Instrs {
					if mc, ok := ins.(*ssa.MakeClosure); ok && mc.Fn == fn && idx < len(mc.Bindings) {
						st.load(mc.Bindings[idx], path, a, b, aff, keys, depth+1)
						resolved = true
					}
				}
			}
		}
		if !resolved {
			st.emit("freevar", x, x.Name(), path, a, b, aff, keys)
		}
	default:
		st.walk(addr, "*"+path, a, b, aff, keys, depth+1)
	}
}

func (st *flowState) call(c *ssa.Call, tupleIdx int, v ssa.Value, path string, a, b int64, aff bool, keys []ssa.Value, depth int) {
	callee := c.Call.StaticCallee()
	if callee != nil && st.opts.Transparent != nil {
		if i, ok := st.opts.Transparent(callee, &c.Call); ok {
			args := c.Call.Args
			if i < len(args) {
				st.walk(args[i], path, a, b, false, keys, depth+1)
				return
			}
		}
	}
	if b, ok := c.Call.Value.(*ssa.Builtin); ok {
		switch b.Name() {
		case "append":
			for _, arg := range c.Call.Args {
				st.walk(arg, path, a, 0, false, keys, depth+1)
			}
			return
		case "len", "cap", "min", "max":
			st.emit("call", v, b.Name(), path, a, 0, false, keys)
			return
		}
	}
	if callee != nil && (st.opts.ThroughCalls || IsNew(callee)) && callee.Blocks != nil && depth < 12 {
		// inline: the returned values of the callee
		n := 0
		for _, blk := range callee.Blocks {
			if ret, ok := blk.Instrs[len(blk.Instrs)-1].(*ssa.Return); ok {
				idx := tupleIdx
				if idx < 0 {
					idx = 0
				}
				if idx < len(ret.Results) {
					n++
					st.walk(ret.Results[idx], path, a, b, aff, keys, depth+4)
				}
			}
		}
		if n > 0 {
			return
		}
	}
	name := CalleeName(&c.Call)
	if tupleIdx >= 0 {
		name += fmt.Sprintf("#%d", tupleIdx)
	}
	st.emit("call", v, name, path, a, b, aff, keys)
}

// CalleeName gives a readable callee for static and interface calls.
func CalleeName(c *ssa.CallCommon) string {
	if c.IsInvoke() {
		return "(" + types.TypeString(c.Value.Type(), shortQual) + ")." + c.Method.Name()
	}
	if f := c.StaticCallee(); f != nil {
		return ShortFunc(f)
	}
	if b, ok := c.Value.(*ssa.Builtin); ok {
		return b.Name()
	}
	return "dynamic:" + c.Value.Name()
}

func shortQual(p *types.Package) string {
	path := p.Path()
	path = strings.TrimPrefix(path, "github.com/segmentio/kafka-go/")
	if path == "github.com/segmentio/kafka-go" {
		return "kafka"
	}
	return path
}

// ShortFunc renders a function name without the module prefix.
func ShortFunc(f *ssa.Function) string {
	s := RefFuncString(f)
	s = strings.ReplaceAll(s, "github.com/segmentio/kafka-go/", "")
	s = strings.ReplaceAll(s, "github.com/segmentio/kafka-go", "kafka")
	return s
}

func fieldName(t types.Type, i int) string {
	if p, ok := t.Underlying().(*types.Pointer); ok {
		t = p.Elem()
	}
	if s, ok := t.Underlying().(*types.Struct); ok && i < s.NumFields() {
		return s.Field(i).Name()
	}
	return fmt.Sprintf("f%d", i)
}

// FieldName is exported for rules.
func FieldName(t types.Type, i int) string { return fieldName(t, i) }

// OriginStrings renders a sorted, deduplicated list.
func OriginStrings(os []Origin) []string {
	m := map[string]bool{}
	for _, o := range os {
		m[o.String()] = true
	}
	var out []string
	for k := range m {
		out = append(out, k)
	}
	sort.Strings(out)
	return out
}

// escapesOnlyToNewHelpers reports whether the only uses of a local's address, besides loads, stores and field
// accesses in its own function, are arguments of functions that did not exist at review time and only read through
// the pointer (such helpers are analysed as part of their callers, so the local is still a local of the caller).
func escapesOnlyToNewHelpers(al *ssa.Alloc) bool {
	if al.Referrers() == nil {
		return false
	}
	passed := false
	for _, ref := range *al.Referrers() {
		switch r := ref.(type) {
		case *ssa.Store:
			if r.Addr != ssa.Value(al) {
				return false
			}
		case *ssa.UnOp, *ssa.FieldAddr, *ssa.DebugRef:
		case *ssa.Call:
			callee := r.Call.StaticCallee()
			if callee == nil || !IsNew(callee) || callee.Blocks == nil {
				return false
			}
			for i, arg := range r.Call.Args {
				if arg != ssa.Value(al) {
					continue
				}
				if i >= len(callee.Params) || !onlyReadThrough(callee.Params[i]) {
					return false
				}
			}
			passed = true
		default:
			return false
		}
	}
	return passed
}

// onlyReadThrough: the pointer parameter is only dereferenced for reading (loads and field/element reads).
func onlyReadThrough(p *ssa.Parameter) bool {
	if p.Referrers() == nil {
		return true
	}
	var ok func(v ssa.Value, depth int) bool
	ok = func(v ssa.Value, depth int) bool {
		if depth > 4 {
			return false
		}
		refs := v.Referrers()
		if refs == nil {
			return true
		}
		for _, ref := range *refs {
			switch r := ref.(type) {
			case *ssa.UnOp:
				if r.Op != token.MUL {
					return false
				}
			case *ssa.FieldAddr:
				if !ok(r, depth+1) {
					return false
				}
			case *ssa.DebugRef:
			default:
				return false
			}
		}
		return true
	}
	return ok(p, 0)
}

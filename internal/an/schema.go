package an

import (
	"fmt"
	"go/types"
	"reflect"
	"strconv"
	"strings"
)

// Wire item kinds of the Kafka protocol as produced by the reflective codec.
type WItem struct {
	Kind     string   // bool int8 int16 int32 int64 float64 string bytes array struct records tagbuf unsupported
	Nullable bool     // declared nullable (affects the encoder only)
	Compact  bool     // compact encoding (flexible versions)
	Elem     *WItem   // array element
	Fields   []*WItem // struct members / tagged fields of a tag buffer
	TagID    int      // for members of a tag buffer
	GoName   string   // Go field name (diagnostics only; never compared)
	GoType   string
}

// Canon renders the item without names; nullability is rendered only when withNull.
func (w *WItem) Canon(withNull bool) string {
	var sb strings.Builder
	w.canon(&sb, withNull)
	return sb.String()
}

func (w *WItem) canon(sb *strings.Builder, withNull bool) {
	k := w.Kind
	switch k {
	case "string", "bytes":
		if w.Compact {
			k = "c" + k
		}
		if withNull && w.Nullable {
			k += "?"
		}
		sb.WriteString(k)
	case "array":
		if w.Compact {
			sb.WriteString("c")
		}
		sb.WriteString("[")
		w.Elem.canon(sb, withNull)
		sb.WriteString("]")
		if withNull && w.Nullable {
			sb.WriteString("?")
		}
	case "struct":
		// a struct is the concatenation of its members: braces carry no wire meaning (in flexible
		// versions the trailing tag buffer delimits it)
		for i, f := range w.Fields {
			if i > 0 {
				sb.WriteString(" ")
			}
			f.canon(sb, withNull)
		}
	case "tagbuf":
		sb.WriteString("tags(")
		for i, f := range w.Fields {
			if i > 0 {
				sb.WriteString(" ")
			}
			sb.WriteString(strconv.Itoa(f.TagID) + ":")
			f.canon(sb, withNull)
		}
		sb.WriteString(")")
	default:
		sb.WriteString(k)
	}
}

// PruneTags removes from the reference's tag buffers the tagged fields the library does not declare
// (an unknown tagged field is skipped by the decoder and simply not sent by the encoder).
func PruneTags(ref, lib *WItem) {
	switch ref.Kind {
	case "struct":
		for i := range ref.Fields {
			if i < len(lib.Fields) {
				PruneTags(ref.Fields[i], lib.Fields[i])
			}
		}
	case "array":
		if lib.Elem != nil && ref.Elem != nil {
			PruneTags(ref.Elem, lib.Elem)
		}
	case "tagbuf":
		if lib.Kind != "tagbuf" {
			return
		}
		have := map[int]bool{}
		for _, f := range lib.Fields {
			have[f.TagID] = true
		}
		var keep []*WItem
		for _, f := range ref.Fields {
			if have[f.TagID] {
				keep = append(keep, f)
			}
		}
		ref.Fields = keep
	}
}

// Flatten lists the leaves in wire order with a path (diagnostics).
func (w *WItem) Flatten(prefix string, out *[]string, withNull bool) {
	switch w.Kind {
	case "struct":
		for _, f := range w.Fields {
			f.Flatten(prefix+"."+f.GoName, out, withNull)
		}
	case "array":
		k := "["
		if w.Compact {
			k = "c["
		}
		*out = append(*out, prefix+" "+k)
		w.Elem.Flatten(prefix+"[]", out, withNull)
		*out = append(*out, prefix+" ]")
	default:
		*out = append(*out, prefix+" "+w.Canon(withNull))
	}
}

// StructTag mirrors protocol.structTag.
type StructTag struct {
	Min, Max int
	Compact  bool
	Nullable bool
	TagID    int // -2 none, -1 flexible marker, >= 0 tagged field
}

// ParseKafkaTag mirrors protocol.forEachStructTag; it returns the alternatives in order.
func ParseKafkaTag(tag string) ([]StructTag, error) {
	if tag == "-" {
		return nil, nil
	}
	var out []StructTag
	for _, alt := range splitNonEmpty(tag, '|') {
		t := StructTag{Min: -1, Max: -1, TagID: -2}
		for _, opt := range splitNonEmpty(alt, ',') {
			var err error
			switch {
			case strings.HasPrefix(opt, "min="):
				t.Min, err = parseV(opt[4:])
			case strings.HasPrefix(opt, "max="):
				t.Max, err = parseV(opt[4:])
			case opt == "tag":
				t.TagID = -1
			case strings.HasPrefix(opt, "tag="):
				t.TagID, err = strconv.Atoi(opt[4:])
			case opt == "compact":
				t.Compact = true
			case opt == "nullable":
				t.Nullable = true
			default:
				err = fmt.Errorf("unrecognized option %q", opt)
			}
			if err != nil {
				return nil, fmt.Errorf("malformed struct tag %q: %v", tag, err)
			}
		}
		if (t.Min < 0) != (t.Max < 0) || t.Min > t.Max {
			return nil, fmt.Errorf("invalid version range in struct tag %q", alt)
		}
		out = append(out, t)
	}
	return out, nil
}

func splitNonEmpty(s string, sep byte) []string {
	// mirrors protocol.forEach: empty input yields nothing, "a||b" yields "a","","b"
	var out []string
	for len(s) != 0 {
		i := strings.IndexByte(s, sep)
		if i < 0 {
			out = append(out, s)
			s = ""
		} else {
			out = append(out, s[:i])
			s = s[i+1:]
		}
	}
	return out
}

func parseV(s string) (int, error) {
	if !strings.HasPrefix(s, "v") {
		return 0, fmt.Errorf("invalid version %q", s)
	}
	i, err := strconv.ParseInt(s[1:], 10, 16)
	if err != nil || i < 0 {
		return 0, fmt.Errorf("invalid version %q", s)
	}
	return int(i), nil
}

// SchemaField is one struct field as seen by protocol.forEachStructField.
type SchemaField struct {
	Var  *types.Var
	Tags []StructTag
	Err  error
}

// KafkaFields mirrors forEachStructField: exported fields and "_" fields, tag "kafka" (absent = no version).
func KafkaFields(st *types.Struct) []SchemaField {
	var out []SchemaField
	for i := 0; i < st.NumFields(); i++ {
		f := st.Field(i)
		if !f.Exported() && f.Name() != "_" {
			continue
		}
		tag, ok := reflect.StructTag(st.Tag(i)).Lookup("kafka")
		if !ok {
			tag = "|"
		}
		tags, err := ParseKafkaTag(tag)
		out = append(out, SchemaField{Var: f, Tags: tags, Err: err})
	}
	return out
}

// MessageVersions mirrors protocol.makeTypes: version range and first flexible version of a message struct.
func MessageVersions(st *types.Struct) (min, max, flexFrom int) {
	min, max, flexFrom = -1, -1, -1
	for _, f := range KafkaFields(st) {
		for _, t := range f.Tags {
			if min < 0 || t.Min < min {
				min = t.Min
			}
			if max < 0 || t.Max > max {
				max = t.Max
			}
			if t.TagID > -2 && (flexFrom < 0 || t.Min < flexFrom) {
				flexFrom = t.Min
			}
		}
	}
	return
}

// SchemaEnv answers type questions the derivation needs.
type SchemaEnv struct {
	ImplementsWriterTo func(t types.Type) bool // *T implements io.WriterTo and io.ReaderFrom
	Sizeof             func(t types.Type) int64
}

// DeriveStruct mirrors structEncodeFuncOf for one version.
func DeriveStruct(env *SchemaEnv, named types.Type, version int, flexible bool, depth int) *WItem {
	st, ok := named.Underlying().(*types.Struct)
	w := &WItem{Kind: "struct", GoType: types.TypeString(named, nil)}
	if !ok || depth > 12 {
		w.Kind = "unsupported"
		return w
	}
	var tagged []*WItem
	for _, f := range KafkaFields(st) {
		if f.Err != nil {
			w.Fields = append(w.Fields, &WItem{Kind: "unsupported", GoName: f.Var.Name(), GoType: f.Err.Error()})
			continue
		}
		if env.Sizeof(f.Var.Type()) == 0 {
			continue // struct{} marker
		}
		for _, t := range f.Tags {
			if t.Min <= version && version <= t.Max {
				it := DeriveType(env, f.Var.Type(), version, flexible, t, depth+1)
				it.GoName = f.Var.Name()
				if t.TagID < -1 {
					w.Fields = append(w.Fields, it)
				} else {
					it.TagID = t.TagID
					tagged = append(tagged, it)
				}
				break
			}
		}
	}
	if flexible {
		w.Fields = append(w.Fields, &WItem{Kind: "tagbuf", Fields: tagged, GoName: "_tagged_fields"})
	}
	return w
}

// DeriveType mirrors encodeFuncOf.
func DeriveType(env *SchemaEnv, t types.Type, version int, flexible bool, tag StructTag, depth int) *WItem {
	if env.ImplementsWriterTo(t) {
		return &WItem{Kind: "records", GoType: types.TypeString(t, nil)}
	}
	switch u := t.Underlying().(type) {
	case *types.Basic:
		switch u.Kind() {
		case types.Bool:
			return &WItem{Kind: "bool"}
		case types.Int8:
			return &WItem{Kind: "int8"}
		case types.Int16:
			return &WItem{Kind: "int16"}
		case types.Int32:
			return &WItem{Kind: "int32"}
		case types.Int64:
			return &WItem{Kind: "int64"}
		case types.Float64:
			return &WItem{Kind: "float64"}
		case types.String:
			return &WItem{Kind: "string", Compact: flexible, Nullable: tag.Nullable}
		}
	case *types.Struct:
		return DeriveStruct(env, t, version, flexible, depth)
	case *types.Slice:
		if b, ok := u.Elem().Underlying().(*types.Basic); ok && b.Kind() == types.Uint8 {
			return &WItem{Kind: "bytes", Compact: flexible, Nullable: tag.Nullable}
		}
		el := DeriveType(env, u.Elem(), version, flexible, tag, depth+1)
		return &WItem{Kind: "array", Compact: flexible, Nullable: tag.Nullable, Elem: el}
	}
	return &WItem{Kind: "unsupported", GoType: types.TypeString(t, nil)}
}

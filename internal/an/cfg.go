package an

import (
	"go/token"
	"go/types"

	"golang.org/x/tools/go/ssa"
)

// Point is a position in a function: instruction index idx of block b.
type Point struct {
	B   *ssa.BasicBlock
	Idx int
}

func PointOf(ins ssa.Instruction) Point {
	b := ins.Block()
	for i, x := range b.Instrs {
		if x == ins {
			return Point{b, i}
		}
	}
	return Point{b, -1}
}

// EachInstr visits every instruction of fn (not of nested closures). Functions that did not exist at review
// time (IsNew) are visited where they are called, as if their bodies were still part of fn.
func EachInstr(fn *ssa.Function, f func(ssa.Instruction)) {
	eachInstr(fn, f, map[*ssa.Function]bool{fn: true})
}

func eachInstr(fn *ssa.Function, f func(ssa.Instruction), seen map[*ssa.Function]bool) {
	inlined := len(seen) > 1
	for _, b := range fn.Blocks {
		for _, ins := range b.Instrs {
			if inlined {
				// the returns of an inlined helper are internal control transfers, not exits of the function analysed
				switch ins.(type) {
				case *ssa.Return, *ssa.RunDefers:
					continue
				}
			}
			f(ins)
			if ci, ok := ins.(ssa.CallInstruction); ok {
				// visited once per call site (a helper used twice stands for two copies of its body)
				if sc := ci.Common().StaticCallee(); sc != nil && !seen[sc] && IsNew(sc) {
					seen[sc] = true
					eachInstr(sc, f, seen)
					delete(seen, sc)
				}
			}
		}
	}
}

// Blocks lists the basic blocks of fn followed by those of the new functions it calls (see EachInstr).
func Blocks(fn *ssa.Function) []*ssa.BasicBlock {
	out := append([]*ssa.BasicBlock{}, fn.Blocks...)
	seen := map[*ssa.Function]bool{fn: true}
	var add func(f *ssa.Function)
	add = func(f *ssa.Function) {
		for _, b := range f.Blocks {
			for _, ins := range b.Instrs {
				if ci, ok := ins.(ssa.CallInstruction); ok {
					if sc := ci.Common().StaticCallee(); sc != nil && !seen[sc] && IsNew(sc) {
						seen[sc] = true
						out = append(out, sc.Blocks...)
						add(sc)
					}
				}
			}
		}
	}
	add(fn)
	return out
}

// liftChain returns ins followed by the call sites through which its (new) enclosing functions are entered,
// innermost first; ok is false when some level has no unique call site.
func liftChain(ins ssa.Instruction) ([]ssa.Instruction, bool) {
	chain := []ssa.Instruction{ins}
	for depth := 0; depth < 6; depth++ {
		fn := chain[len(chain)-1].Parent()
		if !IsNew(fn) || fn.Parent() != nil {
			return chain, true
		}
		sites := SitesOf(fn)
		if len(sites) != 1 {
			return chain, len(sites) == 0
		}
		chain = append(chain, sites[0].(ssa.Instruction))
	}
	return chain, false
}

// runsOnEveryPathThrough: ins is executed on every path from the entry of its function to a return.
func runsOnEveryPathThrough(ins ssa.Instruction) bool {
	fn := ins.Parent()
	q := PathQuery{Fn: fn, Stop: func(i ssa.Instruction) bool { return i == ins }, Target: IsReturn, noInline: true}
	return q.ReachableFrom(EntryPoint(fn)) == nil
}

// EachInstrDeep visits fn and every closure literal nested in it.
func EachInstrDeep(fn *ssa.Function, f func(fn *ssa.Function, ins ssa.Instruction)) {
	eachInstrDeep(fn, f, map[*ssa.Function]bool{})
}

func eachInstrDeep(fn *ssa.Function, f func(fn *ssa.Function, ins ssa.Instruction), done map[*ssa.Function]bool) {
	if done[fn] {
		return
	}
	done[fn] = true
	// functions that did not exist at review time are part of fn: the helpers EachInstr walks inline (their function
	// literals are literals of fn) and the methods handed over as method values (a literal that was given a name)
	var inlined, bound []*ssa.Function
	seen := map[*ssa.Function]bool{fn: true}
	EachInstr(fn, func(i ssa.Instruction) {
		f(fn, i)
		if p := i.Parent(); p != nil && !seen[p] {
			seen[p] = true
			inlined = append(inlined, p)
		}
		if mc, ok := i.(*ssa.MakeClosure); ok {
			if w, isF := mc.Fn.(*ssa.Function); isF {
				if m := Unbound(w); m != w && IsNew(m) && m.Blocks != nil {
					bound = append(bound, m)
				}
			}
		}
	})
	for _, a := range fn.AnonFuncs {
		eachInstrDeep(a, f, done)
	}
	for _, h := range inlined {
		for _, a := range h.AnonFuncs {
			eachInstrDeep(a, f, done)
		}
	}
	for _, m := range bound {
		eachInstrDeep(m, f, done)
	}
}

// CallsIn lists the call instructions (call, go, defer) of fn.
func CallsIn(fn *ssa.Function) []ssa.CallInstruction {
	var out []ssa.CallInstruction
	EachInstr(fn, func(i ssa.Instruction) {
		if c, ok := i.(ssa.CallInstruction); ok {
			out = append(out, c)
		}
	})
	return out
}

// IsCallTo reports whether ins is a call whose static callee (or invoked interface method) satisfies match.
func IsCallTo(ins ssa.Instruction, match func(c *ssa.CallCommon) bool) bool {
	c, ok := ins.(ssa.CallInstruction)
	if !ok {
		return false
	}
	return match(c.Common())
}

// StaticCalleeIs matches a call to exactly fn (also through bound-method / thunk wrappers).
func StaticCalleeIs(c *ssa.CallCommon, fn *ssa.Function) bool {
	if fn == nil {
		return false
	}
	sc := c.StaticCallee()
	if sc == nil {
		return false
	}
	return sc == fn || (sc.Synthetic != "" && sc.Object() != nil && sc.Object() == fn.Object())
}

// MethodCallNamed matches a call (static or invoke) to a method with the given name whose receiver's
// named type is pkgPath.typeName ("" pkgPath = any).
func MethodCallNamed(c *ssa.CallCommon, pkgPath, typeName, method string) bool {
	var recv types.Type
	var name string
	if c.IsInvoke() {
		recv = c.Value.Type()
		name = c.Method.Name()
	} else if sc := c.StaticCallee(); sc != nil && sc.Signature.Recv() != nil {
		recv = sc.Signature.Recv().Type()
		name = sc.Name()
	} else {
		return false
	}
	if name != method {
		return false
	}
	return NamedIs(recv, pkgPath, typeName)
}

// NamedIs reports whether t (or *t) is the named type pkgPath.typeName.
func NamedIs(t types.Type, pkgPath, typeName string) bool {
	t = types.Unalias(t)
	if p, ok := t.(*types.Pointer); ok {
		t = types.Unalias(p.Elem())
	}
	n, ok := t.(*types.Named)
	if !ok {
		return false
	}
	if n.Obj().Name() != typeName {
		return false
	}
	if pkgPath == "" {
		return true
	}
	return n.Obj().Pkg() != nil && n.Obj().Pkg().Path() == pkgPath
}

// EdgeFilter lets a rule prune CFG edges (e.g. only the err != nil edge).
type EdgeFilter func(from *ssa.BasicBlock, succIndex int) bool

// PathQuery searches the instruction-level CFG. Calls of functions that did not exist at review time are
// searched through as if inlined, and a search that starts inside such a function continues after its call sites.
type PathQuery struct {
	Fn       *ssa.Function
	Edge     EdgeFilter                 // nil = all edges
	Stop     func(ssa.Instruction) bool // paths end (successfully) at such an instruction
	Target   func(ssa.Instruction) bool // reaching one of these = found
	noInline bool
}

// ReachableFrom reports whether some path starting right after `from` reaches a Target instruction
// without first passing a Stop instruction. Returns the target found.
func (q PathQuery) ReachableFrom(from Point) ssa.Instruction {
	seen := map[*ssa.BasicBlock]bool{}
	inside := map[*ssa.Function]bool{}
	var visit func(b *ssa.BasicBlock, start int) ssa.Instruction
	// through searches a new function from its entry: the target found inside, and whether some path reaches one
	// of its returns without a Stop
	var through func(g *ssa.Function, depth int) (ssa.Instruction, bool)
	through = func(g *ssa.Function, depth int) (ssa.Instruction, bool) {
		if depth > 4 || inside[g] || len(g.Blocks) == 0 {
			return nil, true
		}
		inside[g] = true
		defer delete(inside, g)
		gseen := map[*ssa.BasicBlock]bool{}
		falls := false
		var walk func(b *ssa.BasicBlock) ssa.Instruction
		walk = func(b *ssa.BasicBlock) ssa.Instruction {
			for _, ins := range b.Instrs {
				if q.Stop != nil && q.Stop(ins) {
					return nil
				}
				if _, isRet := ins.(*ssa.Return); isRet {
					falls = true
					return nil
				}
				if q.Target != nil && q.Target(ins) {
					return ins
				}
				if ci, ok := ins.(ssa.CallInstruction); ok && !q.noInline {
					if _, isGo := ins.(*ssa.Go); !isGo {
						if sc := ci.Common().StaticCallee(); sc != nil && IsNew(sc) {
							if _, isDefer := ins.(*ssa.Defer); !isDefer {
								hit, f2 := through(sc, depth+1)
								if hit != nil {
									return hit
								}
								if !f2 {
									return nil
								}
							}
						}
					}
				}
			}
			for si, s := range b.Succs {
				if q.Edge != nil && !q.Edge(b, si) {
					continue
				}
				if gseen[s] {
					continue
				}
				gseen[s] = true
				if r := walk(s); r != nil {
					return r
				}
			}
			return nil
		}
		gseen[g.Blocks[0]] = true
		hit := walk(g.Blocks[0])
		return hit, falls
	}
	visit = func(b *ssa.BasicBlock, start int) ssa.Instruction {
		for i := start; i < len(b.Instrs); i++ {
			ins := b.Instrs[i]
			if q.Stop != nil && q.Stop(ins) {
				return nil
			}
			if _, isRet := ins.(*ssa.Return); isRet && !q.noInline && b.Parent() != q.Fn && IsNew(b.Parent()) {
				// leaving a helper the search started in: continue after its call sites
				for _, site := range SitesOf(b.Parent()) {
					si := site.(ssa.Instruction)
					if _, isGo := si.(*ssa.Go); isGo {
						continue
					}
					pt := PointOf(si)
					if r := visit(pt.B, pt.Idx+1); r != nil {
						return r
					}
				}
				return nil
			}
			if q.Target != nil && q.Target(ins) {
				return ins
			}
			if ci, ok := ins.(ssa.CallInstruction); ok && !q.noInline {
				_, isGo := ins.(*ssa.Go)
				_, isDefer := ins.(*ssa.Defer)
				if sc := ci.Common().StaticCallee(); sc != nil && !isGo && !isDefer && IsNew(sc) {
					hit, falls := through(sc, 0)
					if hit != nil {
						return hit
					}
					if !falls {
						return nil
					}
				}
			}
		}
		for si, s := range b.Succs {
			if q.Edge != nil && !q.Edge(b, si) {
				continue
			}
			if seen[s] {
				continue
			}
			seen[s] = true
			if r := visit(s, 0); r != nil {
				return r
			}
		}
		return nil
	}
	return visit(from.B, from.Idx+1)
}

// IsExit reports function exits: Return and Panic.
func IsExit(ins ssa.Instruction) bool {
	switch ins.(type) {
	case *ssa.Return, *ssa.Panic:
		return true
	}
	return false
}

func IsReturn(ins ssa.Instruction) bool {
	_, ok := ins.(*ssa.Return)
	return ok
}

// MustPass reports whether every path from `from` to a function Return passes an instruction
// satisfying pass. It returns an offending exit when not. Deferred calls registered on every
// path before `from` (dominating defers) are treated as executed at each exit.
func MustPass(fn *ssa.Function, from Point, pass func(ssa.Instruction) bool, edge EdgeFilter) (bool, ssa.Instruction) {
	// dominating defers
	if from.Idx >= 0 {
		for _, b := range fn.Blocks {
			for i, ins := range b.Instrs {
				d, ok := ins.(*ssa.Defer)
				if !ok {
					continue
				}
				if (b == from.B && i <= from.Idx) || (b != from.B && b.Dominates(from.B)) {
					if pass(d) {
						return true, nil
					}
				}
			}
		}
	}
	q := PathQuery{Fn: fn, Edge: edge, Stop: func(i ssa.Instruction) bool {
		if _, isDefer := i.(*ssa.Defer); isDefer {
			// a defer registered later on the path also runs at exit
			return pass(i)
		}
		return pass(i)
	}, Target: IsReturn}
	bad := q.ReachableFrom(from)
	return bad == nil, bad
}

// EntryPoint is the point before the first instruction.
func EntryPoint(fn *ssa.Function) Point { return Point{fn.Blocks[0], -1} }

// CondInfo describes an If condition of the shape `x OP y`.
type CondInfo struct {
	X, Y ssa.Value
	Op   token.Token
	Neg  bool
}

// Edge returns the index of the successor taken when `X op Y` holds (op is token.NEQ or token.EQL), whichever
// way the source spells the test (`x != y`, `!(x == y)`, `x == y {} else {…}`); -1 when the condition is not an
// equality test.
func (c *CondInfo) Edge(op token.Token) int {
	if c == nil || (c.Op != token.NEQ && c.Op != token.EQL) || (op != token.NEQ && op != token.EQL) {
		return -1
	}
	idx := 0
	if c.Op != op {
		idx = 1
	}
	if c.Neg {
		idx = 1 - idx
	}
	return idx
}

// IfCond returns the comparison controlling the block's terminating If, unwrapping `!`.
func IfCond(b *ssa.BasicBlock) (*ssa.If, *CondInfo) {
	if len(b.Instrs) == 0 {
		return nil, nil
	}
	iff, ok := b.Instrs[len(b.Instrs)-1].(*ssa.If)
	if !ok {
		return nil, nil
	}
	c := ThroughNew(iff.Cond)
	neg := false
	for {
		if u, ok := c.(*ssa.UnOp); ok && u.Op == token.NOT {
			neg = !neg
			c = ThroughNew(u.X)
			continue
		}
		break
	}
	if bo, ok := c.(*ssa.BinOp); ok {
		ci := &CondInfo{X: ThroughNew(bo.X), Y: ThroughNew(bo.Y), Op: bo.Op, Neg: neg}
		// normalise `const OP x` to `x OP' const`
		if _, xc := ci.X.(*ssa.Const); xc {
			if _, yc := ci.Y.(*ssa.Const); !yc {
				ci.X, ci.Y = ci.Y, ci.X
				switch ci.Op {
				case token.LSS:
					ci.Op = token.GTR
				case token.LEQ:
					ci.Op = token.GEQ
				case token.GTR:
					ci.Op = token.LSS
				case token.GEQ:
					ci.Op = token.LEQ
				}
			}
		}
		// two non-constant operands: `a > b` is reported as `b < a`, `a >= b` as `b <= a`, so that the spelling of a
		// comparison does not matter to the rules
		if _, xc := ci.X.(*ssa.Const); !xc {
			if _, yc := ci.Y.(*ssa.Const); !yc {
				switch ci.Op {
				case token.GTR:
					ci.X, ci.Y, ci.Op = ci.Y, ci.X, token.LSS
				case token.GEQ:
					ci.X, ci.Y, ci.Op = ci.Y, ci.X, token.LEQ
				}
			}
		}
		return iff, ci
	}
	return iff, &CondInfo{X: c, Op: token.ILLEGAL, Neg: neg}
}

// IsNilConst reports a nil constant.
func IsNilConst(v ssa.Value) bool {
	c, ok := v.(*ssa.Const)
	return ok && c.Value == nil
}

// ErrNonNilEdge is an EdgeFilter factory: on blocks ending in `if v != nil` / `if v == nil` for the
// given value, only the edge where v is non-nil (wantNonNil) or nil is followed.
func NilEdge(isVal func(ssa.Value) bool, wantNonNil bool) EdgeFilter {
	return func(b *ssa.BasicBlock, si int) bool {
		_, ci := IfCond(b)
		if ci == nil || ci.Op == token.ILLEGAL {
			return true
		}
		var other ssa.Value
		if isVal(ci.X) {
			other = ci.Y
		} else if isVal(ci.Y) {
			other = ci.X
		} else {
			return true
		}
		if !IsNilConst(other) {
			return true
		}
		// succ 0 = condition true
		condTrue := si == 0
		if ci.Neg {
			condTrue = !condTrue
		}
		nonNil := (ci.Op == token.NEQ) == condTrue
		return nonNil == wantNonNil
	}
}

// Dominates reports whether instruction a dominates instruction b. Instructions inside functions that did not
// exist at review time are related through their unique call sites.
func Dominates(a, b ssa.Instruction) bool {
	if a.Parent() == b.Parent() {
		return dominatesLocal(a, b)
	}
	ca, okA := liftChain(a)
	cb, okB := liftChain(b)
	if !okA || !okB || ca[len(ca)-1].Parent() != cb[len(cb)-1].Parent() {
		return false
	}
	i, j := len(ca)-1, len(cb)-1
	for i > 0 && j > 0 && ca[i] == cb[j] {
		i--
		j--
	}
	x, y := ca[i], cb[j]
	if x.Parent() != y.Parent() {
		return false
	}
	if x == y {
		// one of them is the call through which the other is reached: the call precedes its body, not the reverse
		return i == 0 && j > 0
	}
	if !dominatesLocal(x, y) {
		return false
	}
	for k := 0; k < i; k++ {
		if !runsOnEveryPathThrough(ca[k]) {
			return false
		}
	}
	return true
}

func dominatesLocal(a, b ssa.Instruction) bool {
	pa, pb := PointOf(a), PointOf(b)
	if pa.B == pb.B {
		return pa.Idx < pb.Idx
	}
	return pa.B.Dominates(pb.B)
}

// Unwrap strips conversions that do not change the value.
func Unwrap(v ssa.Value) ssa.Value {
	for {
		switch x := v.(type) {
		case *ssa.ChangeType:
			v = x.X
		case *ssa.Convert:
			v = x.X
		case *ssa.MakeInterface:
			v = x.X
		case *ssa.ChangeInterface:
			v = x.X
		default:
			return v
		}
	}
}

// TraceEvent is one labelled instruction on a path.
type TraceEvent struct {
	Label string
	Ins   ssa.Instruction
}

// PathTraces enumerates the paths from the entry of fn to a Return (each CFG edge taken at most
// `edgeLimit` times per path, so loops are unrolled at most that often) and returns, for each path,
// the sequence of instructions selected by pick. Paths are deduplicated by their label sequence.
func PathTraces(fn *ssa.Function, pick func(ssa.Instruction) (string, bool), edgeLimit, maxPaths int) (traces [][]TraceEvent, truncated bool) {
	type edge struct{ a, b *ssa.BasicBlock }
	seen := map[string]bool{}
	var cur []TraceEvent
	used := map[edge]int{}
	var walk func(b *ssa.BasicBlock)
	walk = func(b *ssa.BasicBlock) {
		if truncated {
			return
		}
		n0 := len(cur)
		for _, ins := range b.Instrs {
			if l, ok := pick(ins); ok {
				cur = append(cur, TraceEvent{l, ins})
			}
			if _, isRet := ins.(*ssa.Return); isRet {
				var key []byte
				for _, e := range cur {
					key = append(key, e.Label...)
					key = append(key, 0)
				}
				if !seen[string(key)] {
					seen[string(key)] = true
					traces = append(traces, append([]TraceEvent(nil), cur...))
					if len(traces) >= maxPaths {
						truncated = true
					}
				}
			}
		}
		for _, s := range b.Succs {
			e := edge{b, s}
			if used[e] >= edgeLimit {
				continue
			}
			used[e]++
			walk(s)
			used[e]--
		}
		cur = cur[:n0]
	}
	if len(fn.Blocks) > 0 {
		walk(fn.Blocks[0])
	}
	return
}

// Labels joins the labels of a trace.
func Labels(t []TraceEvent) []string {
	var out []string
	for _, e := range t {
		out = append(out, e.Label)
	}
	return out
}

// RetVal returns the i-th value returned by ret, looking through the spill that go/ssa introduces for
// functions with defers (results are stored into locals and reloaded after rundefers).
func RetVal(ret *ssa.Return, i int) ssa.Value {
	if i >= len(ret.Results) {
		return nil
	}
	v := ret.Results[i]
	ld, ok := v.(*ssa.UnOp)
	if !ok || ld.Op != token.MUL {
		return v
	}
	al, ok := ld.X.(*ssa.Alloc)
	if !ok || al.Heap {
		return v
	}
	// last store into the local in this block (before the reload); else a unique store dominating the return
	b := ret.Block()
	var last ssa.Value
	for _, ins := range b.Instrs {
		if ins == ssa.Instruction(ld) {
			break
		}
		if st, ok := ins.(*ssa.Store); ok && st.Addr == ssa.Value(al) {
			last = st.Val
		}
	}
	if last != nil {
		return last
	}
	// named results assigned earlier: walk single-predecessor chain backwards
	for blk := b; len(blk.Preds) == 1; {
		blk = blk.Preds[0]
		for i := len(blk.Instrs) - 1; i >= 0; i-- {
			if st, ok := blk.Instrs[i].(*ssa.Store); ok && st.Addr == ssa.Value(al) {
				return st.Val
			}
		}
	}
	return v
}

// VarArgs returns the values packed into a variadic argument (slice of a fresh array), by index.
func VarArgs(v ssa.Value) []ssa.Value {
	sl, ok := v.(*ssa.Slice)
	if !ok {
		return nil
	}
	al, ok := sl.X.(*ssa.Alloc)
	if !ok {
		return nil
	}
	out := map[int64]ssa.Value{}
	max := int64(-1)
	for _, ref := range *al.Referrers() {
		ia, ok := ref.(*ssa.IndexAddr)
		if !ok {
			continue
		}
		idx, ok := ConstInt(ia.Index)
		if !ok {
			continue
		}
		for _, r2 := range *ia.Referrers() {
			if st, ok := r2.(*ssa.Store); ok && st.Addr == ssa.Value(ia) {
				out[idx] = st.Val
				if idx > max {
					max = idx
				}
			}
		}
	}
	var res []ssa.Value
	for i := int64(0); i <= max; i++ {
		res = append(res, out[i])
	}
	return res
}

// CellValueAt resolves a load from a local/heap cell (a variable captured by a closure is kept in memory by
// go/ssa) to the value most recently stored on the dominator chain; nil when no dominating store exists.
func CellValueAt(v ssa.Value) ssa.Value {
	ld, ok := v.(*ssa.UnOp)
	if !ok || ld.Op != token.MUL {
		return nil
	}
	al, ok := ld.X.(*ssa.Alloc)
	if !ok {
		return nil
	}
	b := ld.Block()
	// same block, before the load
	var last ssa.Value
	for _, ins := range b.Instrs {
		if ins == ssa.Instruction(ld) {
			break
		}
		if st, ok := ins.(*ssa.Store); ok && st.Addr == ssa.Value(al) {
			last = st.Val
		}
		if _, isCall := ins.(*ssa.Call); isCall && last != nil {
			// closures may write the cell only if they capture it; ignored (writers of err cells are the function itself)
		}
	}
	if last != nil {
		return last
	}
	for d := b.Idom(); d != nil; d = d.Idom() {
		for i := len(d.Instrs) - 1; i >= 0; i-- {
			if st, ok := d.Instrs[i].(*ssa.Store); ok && st.Addr == ssa.Value(al) {
				return st.Val
			}
		}
	}
	return nil
}

// ThroughNew follows the result of a call to a function that did not exist at review time (typically an
// extracted predicate) to the value that function returns, when it has a single return statement.
func ThroughNew(v ssa.Value) ssa.Value {
	for depth := 0; depth < 4; depth++ {
		c, ok := v.(*ssa.Call)
		if !ok {
			return v
		}
		callee := c.Call.StaticCallee()
		if callee == nil || !IsNew(callee) || c.Call.Signature().Results().Len() != 1 {
			return v
		}
		rets := ReturnedValues(callee, 0)
		if len(rets) != 1 {
			return v
		}
		v = rets[0]
	}
	return v
}

// ParamSource follows a parameter of a function that did not exist at review time (an extracted helper with a single
// call site) to the argument it is given there, so that "the same value" can be recognised across the extraction.
func ParamSource(v ssa.Value) ssa.Value {
	for depth := 0; depth < 4; depth++ {
		prm, ok := v.(*ssa.Parameter)
		if !ok {
			return v
		}
		fn := prm.Parent()
		if fn == nil || !IsNew(fn) {
			return v
		}
		sites := SitesOf(fn)
		if len(sites) != 1 {
			return v
		}
		idx := -1
		for i, q := range fn.Params {
			if q == prm {
				idx = i
			}
		}
		args := sites[0].Common().Args
		if idx < 0 || idx >= len(args) {
			return v
		}
		v = args[idx]
	}
	return v
}

// CondOf is the condition of an If seen through extracted predicates.
func CondOf(iff *ssa.If) ssa.Value { return ThroughNew(iff.Cond) }

// UsesOf lists the instructions that use v; a use as an argument of a function that did not exist at review
// time is replaced by the uses of the corresponding parameter inside that function.
func UsesOf(v ssa.Value) []ssa.Instruction {
	var out []ssa.Instruction
	seen := map[ssa.Value]bool{}
	var walk func(v ssa.Value)
	walk = func(v ssa.Value) {
		if seen[v] || v.Referrers() == nil {
			return
		}
		seen[v] = true
		for _, ref := range *v.Referrers() {
			if ci, ok := ref.(ssa.CallInstruction); ok {
				if sc := ci.Common().StaticCallee(); sc != nil && IsNew(sc) {
					handled := false
					for i, a := range ci.Common().Args {
						if a == v && i < len(sc.Params) {
							walk(sc.Params[i])
							handled = true
						}
					}
					if handled {
						continue
					}
				}
			}
			out = append(out, ref)
		}
	}
	walk(v)
	return out
}
